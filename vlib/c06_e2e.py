"""C06 end-to-end route: a generated Go program that uses REAL map syntax (m[k]=v, v,ok:=m[k], delete, clear, len,
for range with mutation in the loop body, nil maps, unhashable interface keys) is compiled by the llgo built from the
working tree and run; every executed operation prints one line (println -> stderr) and the trace is judged against the
finite-map specification.  One batched program per optimisation level holds the scripts of all key kinds."""
import struct

# op codes
SET, GET, GET1, DEL, CLR, LEN, RNG, NIL, MK, BRK = range(10)

KIND_DECL = {
    "int": ("int64", "int64"), "str": ("string", "int64"), "f64": ("float64", "int64"), "any": ("any", "int64"),
    "arr": ("[2]int", "string"), "stc": ("skey", "int64"), "big": ("bigk", "bigk"),
    # keys / elems at the 128-byte boundary between inline and indirect storage (abi.MapMaxKeyBytes/MapMaxElemBytes)
    "k127": ("[127]byte", "int64"), "k128": ("[16]int64", "int64"), "k129": ("[129]byte", "int64"), "sk128": ("s128", "int64"),
    "pad": ("F0", "int64"), "ipd": ("F1", "int64"), "c128": ("complex128", "int64"), "c64": ("complex64", "int64"),
    "cst": ("F11", "int64"),
    "v127": ("int64", "[127]byte"), "v128": ("int64", "[16]int64"), "v129": ("int64", "[129]byte"), "sv128": ("int64", "s128"),
}
# named types used by BOTH the regular-memory harness (reference: gc's own descriptors) and the e2e program (read-back of
# the flag llgo emitted); F0 / F1 / F11 are also the key types of the kinds `pad` / `ipd` / `cst`
FIXED_TYPES = [
    ("F0", "struct{ A, B int64; C int8 }"), ("F1", "struct{ A int8; B int64 }"), ("F2", "struct{ A int64; B int32 }"),
    ("F3", "struct{ A, B int32 }"), ("F4", "struct{ A float64 }"), ("F5", "struct{ A int64; _ int64 }"),
    ("F6", "struct{ P *int; N int32 }"), ("F7", "struct{ A int64; S string }"), ("F8", "[3]struct{ A int16; B int8 }"),
    ("F9", "struct{ A [2]int32; B int64 }"), ("F10", "struct{ A int64; Z [0]int32 }"), ("F11", "struct{ A complex128; B int32 }"),
    ("F12", "struct{ A any }"), ("F13", "[17]int64"), ("F14", "struct{ A int8; B int8; C int16; D int32 }"),
    ("F15", "struct{ A struct{ X int64; Y int8 }; B int8 }"), ("F16", "struct{ A uintptr; B bool }"), ("F17", "struct{}"),
]
PADDED = ["pad", "ipd", "c128", "c64", "cst"]      # padded-struct keys (padding dirtied on purpose) and complex keys
DIRTY = {"pad", "ipd", "cst", "any"}
CS64 = [0, 1 << 63, 0x7ff8000000000001, 0x7ff0000000000000, 0xfff0000000000000, 0x3ff0000000000000, 0xbff0000000000000]
CS32 = [0, 1 << 31, 0x7fc00001, 0x7f800000, 0xff800000, 0x3f800000, 0xbf800000]


def _cpart(bits, w):
    if w == 8:
        nan = (bits >> 52) & 0x7ff == 0x7ff and bits & ((1 << 52) - 1) != 0
        zero = bits in (0, 1 << 63)
    else:
        nan = (bits >> 23) & 0xff == 0xff and bits & ((1 << 23) - 1) != 0
        zero = bits in (0, 1 << 31)
    return None if nan else (0 if zero else bits)


BOUNDARY = ["k127", "k128", "k129", "sk128", "v127", "v128", "v129", "sv128"]
_MK = {"[127]byte": "mkb127", "[16]int64": "mk16", "[129]byte": "mkb129", "s128": "mks128"}
_NUM = {"[127]byte": "numb127", "[16]int64": "num16", "[129]byte": "numb129", "s128": "nums128"}


def f64bits(x):
    return struct.unpack("<Q", struct.pack("<d", x))[0]


class EKey:
    def __init__(self, golit, show, cls, refl=True, unh=False):
        self.golit, self.show, self.cls, self.refl, self.unh = golit, show, cls, refl, unh


def e2e_universe(rng, kind, n):
    """keys as Go literals + the text the program prints for them (`show`) + equality class"""
    ks = []
    if kind == "int":
        vals = [0, 1, -1, 7, 8, 9, 255, 256, 1 << 31, -(1 << 63), (1 << 63) - 1]
        while len(vals) < n:
            vals.append(rng.randint(-50, 100000) if rng.random() < 0.7 else rng.getrandbits(63))
        for v in dict.fromkeys(vals):
            ks.append(EKey(str(v), "i %d" % v, ("i", v)))
    elif kind == "str":
        vals = ["", "a", "b", "ab", "x" * 16, "x" * 17, "x" * 33, "y" * 70]
        while len(vals) < n:
            vals.append("k%d" % rng.randint(0, 50 * n) if rng.random() < 0.7 else "".join(rng.choice("abcdefgh") for _ in range(rng.choice([3, 9, 17, 33]))))
        for v in dict.fromkeys(vals):
            ks.append(EKey('"%s"' % v, "s [%s]" % v, ("s", v)))
    elif kind == "f64":
        bits = [0, 1 << 63, f64bits(1.0), f64bits(-1.0), f64bits(float("inf")), 0x7ff8000000000001, 0x7ff8000000000000, 0xfff8000000000000]
        while len(bits) < n:
            bits.append(f64bits(float(rng.randint(-1000, 100000)) / rng.choice([1, 2, 3, 7])))
        for b in dict.fromkeys(bits):
            nan = (b >> 52) & 0x7ff == 0x7ff and b & ((1 << 52) - 1) != 0
            canon = ("f", 0) if b in (0, 1 << 63) else ("f", b)
            ks.append(EKey("fb(0x%x)" % b, "f %d" % b, ("nan", b) if nan else canon, refl=not nan))
    elif kind == "arr":
        seen = set()
        while len(seen) < n:
            seen.add((rng.randint(-5, 300), rng.choice([0, 0, 1, rng.randint(0, 50)])))
        for (a, b) in sorted(seen):
            ks.append(EKey("[2]int{%d, %d}" % (a, b), "a %d %d" % (a, b), ("a", a, b)))
    elif kind == "stc":
        seen = set()
        while len(seen) < n:
            seen.add((rng.randint(-3, 40), "t%d" % rng.randint(0, 30)))
        for (a, b) in sorted(seen):
            ks.append(EKey('skey{%d, "%s"}' % (a, b), "T %d [%s]" % (a, b), ("T", a, b)))
    elif kind == "big":
        for v in dict.fromkeys(rng.randint(-1000, 100000) for _ in range(n)):
            ks.append(EKey("mkbig(%d)" % v, "g %d" % v, ("g", v)))
    elif kind == "pad":
        seen = set()
        while len(seen) < n:
            seen.add((rng.randint(-5, 100000), rng.choice([0, 1, 7]), rng.randint(-128, 127)))
        for (a, b, c) in sorted(seen):
            ks.append(EKey("F0{%d, %d, %d}" % (a, b, c), "P %d %d %d" % (a, b, c), ("P", a, b, c)))
    elif kind == "ipd":
        seen = set()
        while len(seen) < n:
            seen.add((rng.randint(-128, 127), rng.randint(-5, 100000)))
        for (a, b) in sorted(seen):
            ks.append(EKey("F1{%d, %d}" % (a, b), "Q %d %d" % (a, b), ("Q", a, b)))
    elif kind in ("c128", "c64", "cst"):
        w, S, mk, tag = (8, CS64, "cb", "c") if kind != "c64" else (4, CS32, "cb32", "d")
        pairs = [(a, b) for a in S for b in S]
        while len(pairs) < n:
            x = f64bits(float(rng.randint(-300, 3000)) / rng.choice([1, 2, 4])) if w == 8 else \
                struct.unpack("<I", struct.pack("<f", float(rng.randint(-300, 3000)) / rng.choice([1, 2, 4])))[0]
            pairs.append((x, rng.choice(S)) if rng.random() < 0.7 else (rng.choice(S), x))
        for i, (a, b) in enumerate(dict.fromkeys(pairs)):
            ca, cb_ = _cpart(a, w), _cpart(b, w)
            refl = ca is not None and cb_ is not None
            if kind == "cst":
                n3 = i % 3 - 1
                ks.append(EKey("F11{cb(0x%x, 0x%x), %d}" % (a, b, n3), "C %d %d %d" % (a, b, n3), ("C", ca, cb_, n3), refl=refl))
            else:
                ks.append(EKey("%s(0x%x, 0x%x)" % (mk, a, b), "%s %d %d" % (tag, a, b), (tag, ca, cb_), refl=refl))
    elif kind in BOUNDARY:
        kt = KIND_DECL[kind][0]
        vals = list(dict.fromkeys([1, 2, 255, 256, 65536] + [rng.randint(3, 10 ** 6) for _ in range(n)]))
        for v in vals:
            if kt == "int64":
                ks.append(EKey(str(v), "i %d" % v, ("i", v)))
            else:
                ks.append(EKey("%s(%d)" % (_MK[kt], v), "K %d" % v, ("K", v)))
    elif kind == "any":
        ks = [EKey("nil", "n", ("nil",)), EKey("true", "b 1", ("b", 1)), EKey("false", "b 0", ("b", 0)),
              EKey("[]int{1}", "?", ("S",), unh=True), EKey("func() {}", "?", ("F",), unh=True),
              EKey("map[int]int{}", "?", ("M",), unh=True), EKey("struct{ X []int }{}", "?", ("U",), unh=True),
              EKey("any(fb(0x7ff8000000000001))", "f %d" % 0x7ff8000000000001, ("nan", 1), refl=False),
              EKey("any(fb(0))", "f 0", ("f", 0)), EKey("any(fb(0x8000000000000000))", "f %d" % (1 << 63), ("f", 0))]
        for a in CS64[:4]:
            for b in CS64[:3]:
                ca, cb_ = _cpart(a, 8), _cpart(b, 8)
                ks.append(EKey("any(cb(0x%x, 0x%x))" % (a, b), "c %d %d" % (a, b), ("c", ca, cb_), refl=ca is not None and cb_ is not None))
        for i in range(10):
            ks.append(EKey("F0{%d, %d, %d}" % (i, i % 3, i % 5), "P %d %d %d" % (i, i % 3, i % 5), ("P", i, i % 3, i % 5)))
            ks.append(EKey("F1{%d, %d}" % (i % 7, i), "Q %d %d" % (i % 7, i), ("Q", i % 7, i)))
        m = max(3, (n - len(ks)) // 6)
        for i in range(m):
            v = rng.randint(-20, 5000)
            ks.append(EKey("int(%d)" % v, "I %d" % v, ("I", v)))
            ks.append(EKey("int32(%d)" % v, "j %d" % v, ("j", v)))
            ks.append(EKey("int64(%d)" % v, "i %d" % v, ("i", v)))
            ks.append(EKey('"s%d"' % v, "s [s%d]" % v, ("s", "s%d" % v)))
            ks.append(EKey("[2]int{%d, %d}" % (abs(v), i), "a %d %d" % (abs(v), i), ("a", abs(v), i)))
            ks.append(EKey('skey{%d, "u%d"}' % (i, abs(v)), "T %d [u%d]" % (i, abs(v)), ("T", i, "u%d" % abs(v))))
        seen, out = set(), []
        for k in ks:
            if k.golit not in seen:
                seen.add(k.golit)
                out.append(k)
        ks = out
    cls = {}
    for k in ks:
        k.cid = cls.setdefault(k.cls if k.refl else ("nan", k.golit), len(cls))
    return ks


def gen_script(rng, kind, nops, with_clear=True, histories=1, bulk=0):
    """-> (keys, pool of ops, top-level list of pool indices, bodies: id -> [segments of pool indices]).
    `histories` > 1: that many short histories, each on a fresh map (quick tier); the second one is an explicit
    clear + refill, every one ends with a full range loop."""
    if histories > 1:
        targets = [rng.choice([10, 14]), 40, rng.choice([20, 70]), 9, rng.choice([30, 100])][:histories]
        target = max(targets)
    else:
        target = rng.choice([12, 60, 200, 500])
        targets = [target]
    keys = e2e_universe(rng, kind, max(int(target * 2.5) + 20, bulk + 50))
    pool, top, bodies = [], [], []
    val = [0]

    def new(c, k=0, v=0):
        pool.append((c, k, v))
        return len(pool) - 1

    def rnd_mut(in_body):
        r = rng.random()
        ki = rng.randrange(len(keys))
        if r < 0.45:
            val[0] += 1
            return new(SET, ki, val[0])
        if r < 0.75:
            return new(DEL, ki)
        if r < 0.85:
            return new(rng.choice([GET, GET1]), ki)
        if r < 0.9:
            return new(LEN)
        if r < 0.93 and not in_body:
            return new(CLR) if with_clear else new(LEN)
        if r < 0.95 and in_body:
            return new(CLR) if (with_clear and rng.random() < 0.3) else new(LEN)
        val[0] += 1
        return new(SET, ki, val[0])

    def range_loop(mutating=True):
        segs = []
        for _ in range(rng.choice([1, 2, 3, 5]) if mutating else 1):
            seg = [rnd_mut(True) for _ in range(rng.choice([0, 1, 2, 4, 9]))] if mutating else []
            if mutating and rng.random() < 0.04:
                seg.append(new(BRK))
            segs.append(seg)
        top.append(new(RNG, len(bodies), 0))
        bodies.append(segs)

    special = [i for i, k in enumerate(keys) if k.unh or not k.refl or k.show in ("f 0", "f %d" % (1 << 63))]
    for hno, target in enumerate(targets):
        budget = len(pool) + nops // len(targets)
        if hno == 0 and (histories > 1 or rng.random() < 0.6):
            top.append(new(NIL))
            for _ in range(rng.randint(2, 6)):
                ki = rng.randrange(len(keys))
                top.append(new(rng.choice([GET, GET1, DEL, LEN, SET, CLR, RNG]), ki, 1))   # clear(nil map) is a no-op
                if pool[top[-1]][0] == RNG:
                    pool[top[-1]] = (RNG, len(bodies), 0)
                    bodies.append([[new(LEN)]])
        top.append(new(MK, 0, rng.choice([0, 0, 5, 9, 100, target])))
        if histories > 1:
            for ki in special:            # ±0, NaN, unhashable dynamic values: always exercised
                val[0] += 1
                top.append(new(SET, ki, val[0]))
                top.append(new(GET, ki))
        if histories > 1 and hno == 1 and with_clear:
            # clear + refill: fill (the map grows past one bucket array), clear, fill with other keys, look around
            first = rng.sample(range(len(keys)), min(len(keys), target))
            for ki in first:
                val[0] += 1
                top.append(new(SET, ki, val[0]))
            top.append(new(CLR))
            top.append(new(LEN))
            for ki in rng.sample(range(len(keys)), min(len(keys), target)):
                val[0] += 1
                top.append(new(SET, ki, val[0]))
            top.append(new(LEN))
            range_loop(False)
            for ki in first[:10]:
                top.append(new(GET, ki))
        grow = True
        n_live = 0
        while len(pool) < budget:
            r = rng.random()
            if r < 0.55:
                ki = rng.randrange(len(keys))
                val[0] += 1
                if grow or rng.random() < 0.3:
                    top.append(new(SET, ki, val[0]))
                    n_live += 1
                else:
                    top.append(new(DEL, ki))
                    n_live -= 1
                if n_live > target:
                    grow = False
                if n_live < target // 4:
                    grow = True
            elif r < 0.7:
                top.append(new(rng.choice([GET, GET, GET1]), rng.randrange(len(keys))))
            elif r < 0.75:
                top.append(new(LEN))
            elif r < 0.76 and with_clear:
                top.append(new(CLR))
                n_live = 0
                grow = True
            elif rng.random() >= min(1.0, 320.0 / nops):
                top.append(new(GET, rng.randrange(len(keys))))       # keep the number of loops (and the trace) bounded
            else:
                range_loop(True)                                      # a range loop whose body mutates the map
        range_loop(False)
        top.append(new(LEN))
    if bulk:
        # a map with a few hundred entries, every one read back (content checked), ranged, half deleted, read again
        top.append(new(MK, 0, rng.choice([0, bulk])))
        ks = rng.sample(range(len(keys)), min(bulk, len(keys)))
        for ki in ks:
            val[0] += 1
            top.append(new(SET, ki, val[0]))
        top.append(new(LEN))
        for ki in ks:
            top.append(new(GET, ki))
        range_loop(False)
        for ki in ks[::2]:
            top.append(new(DEL, ki))
        top.append(new(LEN))
        for ki in ks:
            top.append(new(GET1, ki))
        range_loop(False)
    return keys, pool, top, bodies


GO_PRELUDE = '''package main

import "unsafe"

type skey struct {
	A int32
	B string
}
type bigk [17]int64
type s128 struct {
	A [15]int64
	B int64
}

func mk16(v int64) (a [16]int64) {
	for i := range a {
		a[i] = v + int64(i)*1000003
	}
	return
}
func num16(a [16]int64) int64 {
	if a == ([16]int64{}) {
		return 0
	}
	if a != mk16(a[0]) {
		return -1
	}
	return a[0]
}
func mks128(v int64) (s s128) {
	a := mk16(v)
	copy(s.A[:], a[:15])
	s.B = a[15]
	return
}
func nums128(s s128) int64 {
	if s == (s128{}) {
		return 0
	}
	if s != mks128(s.A[0]) {
		return -1
	}
	return s.A[0]
}
func mkb127(v int64) (b [127]byte) {
	for i := 0; i < 8; i++ {
		b[i] = byte(v >> (8 * uint(i)))
	}
	for i := 8; i < len(b); i++ {
		b[i] = byte(v*31 + int64(i))
	}
	return
}
func numb127(b [127]byte) int64 {
	if b == ([127]byte{}) {
		return 0
	}
	var v int64
	for i := 7; i >= 0; i-- {
		v = v<<8 | int64(b[i])
	}
	if b != mkb127(v) {
		return -1
	}
	return v
}
func mkb129(v int64) (b [129]byte) {
	for i := 0; i < 8; i++ {
		b[i] = byte(v >> (8 * uint(i)))
	}
	for i := 8; i < len(b); i++ {
		b[i] = byte(v*31 + int64(i))
	}
	return
}
func numb129(b [129]byte) int64 {
	if b == ([129]byte{}) {
		return 0
	}
	var v int64
	for i := 7; i >= 0; i-- {
		v = v<<8 | int64(b[i])
	}
	if b != mkb129(v) {
		return -1
	}
	return v
}

func fb(b uint64) float64 { return *(*float64)(unsafe.Pointer(&b)) }
func bits(f float64) uint64 { return *(*uint64)(unsafe.Pointer(&f)) }
func mkbig(v int64) bigk {
	var b bigk
	for i := range b {
		b[i] = v + int64(i)*1000003
	}
	return b
}

func fb32(b uint32) float32 { return *(*float32)(unsafe.Pointer(&b)) }
func bits32(f float32) uint32 { return *(*uint32)(unsafe.Pointer(&f)) }
func cb(re, im uint64) complex128 { return complex(fb(re), fb(im)) }
func cb32(re, im uint32) complex64 { return complex(fb32(re), fb32(im)) }

// dirty leaves a freed heap block full of non-zero bytes behind (the record of a deferred call): the next
// allocation of that size - e.g. the temporary a struct map key is materialised in - starts with dirty padding
var sinkd int64

func nopd(tag int64) { sinkd += tag }
func dirty(tag int64) { defer nopd(tag) }

// tflagOf reads the TFlagRegularMemory bit of the type descriptor the compiler emitted for x's dynamic type
func tflagOf(x any) int {
	tp := (*[2]unsafe.Pointer)(unsafe.Pointer(&x))[0]
	return int(*(*uint8)(unsafe.Pointer(uintptr(tp) + 2*unsafe.Sizeof(uintptr(0)) + 4))) >> 3 & 1
}

@FIXED@
type op struct{ c, k, v int32 }

func mkarr(f []int) [][2]int {
	out := make([][2]int, len(f)/2)
	for i := range out {
		out[i] = [2]int{f[2*i], f[2*i+1]}
	}
	return out
}

func showAny(k any) {
	switch x := k.(type) {
	case nil:
		print("n")
	case bool:
		if x {
			print("b 1")
		} else {
			print("b 0")
		}
	case int:
		print("I ", x)
	case int32:
		print("j ", x)
	case int64:
		print("i ", x)
	case string:
		print("s [", x, "]")
	case float64:
		print("f ", bits(x))
	case [2]int:
		print("a ", x[0], " ", x[1])
	case skey:
		print("T ", x.A, " [", x.B, "]")
	case complex128:
		print("c ", bits(real(x)), " ", bits(imag(x)))
	case F0:
		print("P ", x.A, " ", x.B, " ", x.C)
	case F1:
		print("Q ", x.A, " ", x.B)
	default:
		print("?")
	}
}
'''

SHOW = {
    "int": 'print("i ", k)', "str": 'print("s [", k, "]")', "f64": 'print("f ", bits(k))', "any": "showAny(k)",
    "arr": 'print("a ", k[0], " ", k[1])', "stc": 'print("T ", k.A, " [", k.B, "]")',
    "big": 'if k != mkbig(k[0]) { print("g corrupt") } else { print("g ", k[0]) }',
}
SHOW.update({"pad": 'print("P ", k.A, " ", k.B, " ", k.C)', "ipd": 'print("Q ", k.A, " ", k.B)',
             "c128": 'print("c ", bits(real(k)), " ", bits(imag(k)))', "c64": 'print("d ", bits32(real(k)), " ", bits32(imag(k)))',
             "cst": 'print("C ", bits(real(k.A)), " ", bits(imag(k.A)), " ", k.B)'})
for _k in BOUNDARY:
    _kt = KIND_DECL[_k][0]
    SHOW[_k] = 'print("i ", k)' if _kt == "int64" else 'print("K ", %s(k))' % _NUM[_kt]
VAL_STORE = {"int64": "int64(v)", "string": 'vstr(v)', "bigk": "mkbig(int64(v))"}
for _t in _MK:
    VAL_STORE[_t] = "%s(int64(v))" % _MK[_t]
VAL_SHOW = {"int64": "print(v)", "string": "print(vnum(v))", "bigk": 'if v == (bigk{}) { print(0) } else if v != mkbig(v[0]) { print("corrupt") } else { print(v[0]) }'}

for _t in _NUM:
    VAL_SHOW[_t] = "print(%s(v))" % _NUM[_t]

GO_KIND = '''
// ---------------------------------------------------------------- kind @KIND@
var keys_@KIND@ = []@KT@{@KEYS@}
var pool_@KIND@ = []op{@POOL@}
var top_@KIND@ = []int32{@TOP@}
var bodies_@KIND@ = [][][]int32{@BODIES@}
var m_@KIND@ map[@KT@]@VT@

func show_@KIND@(k @KT@) { @SHOW@ }
func showv_@KIND@(v @VT@) { @VSHOW@ }

func exec_@KIND@(id int32) (brk bool) {
	defer func() {
		if r := recover(); r != nil {
			println("@", "@KIND@", id, "panic")
		}
	}()
	o := pool_@KIND@[id]
	@PRE@
	switch o.c {
	case 0:
		v := o.v
		m_@KIND@[keys_@KIND@[o.k]] = @VSTORE@
		println("@", "@KIND@", id, "ok")
	case 1:
		v, ok := m_@KIND@[keys_@KIND@[o.k]]
		print("@ @KIND@ ", id, " v ")
		showv_@KIND@(v)
		println("", ok)
	case 2:
		v := m_@KIND@[keys_@KIND@[o.k]]
		print("@ @KIND@ ", id, " v ")
		showv_@KIND@(v)
		println("")
	case 3:
		delete(m_@KIND@, keys_@KIND@[o.k])
		println("@", "@KIND@", id, "ok")
	case 4:
		clear(m_@KIND@)
		println("@", "@KIND@", id, "ok")
	case 5:
		println("@", "@KIND@", id, "n", len(m_@KIND@))
	case 6:
		body := bodies_@KIND@[o.k]
		it := 0
		println("@", "@KIND@", id, "range")
		for k, v := range m_@KIND@ {
			print("@ @KIND@ ", id, " y ")
			show_@KIND@(k)
			print(" | ")
			showv_@KIND@(v)
			println("")
			seg := body[it%len(body)]
			it++
			stop := false
			for _, b := range seg {
				if exec_@KIND@(b) {
					stop = true
					break
				}
			}
			if stop {
				println("@", "@KIND@", id, "break")
				break
			}
		}
		println("@", "@KIND@", id, "endrange")
	case 7:
		m_@KIND@ = nil
		println("@", "@KIND@", id, "ok")
	case 8:
		m_@KIND@ = make(map[@KT@]@VT@, int(o.v))
		println("@", "@KIND@", id, "ok")
	case 9:
		return true
	}
	return false
}

func run_@KIND@() {
	for _, id := range top_@KIND@ {
		exec_@KIND@(id)
	}
	println("@", "@KIND@", -1, "done")
}
'''


def gen_program(rng, kinds, nops, with_clear=True, histories=1, bulk=300):
    src = GO_PRELUDE + '''
func vstr(v int32) string {
	// "v" + decimal, without strconv
	if v == 0 {
		return "v0"
	}
	var buf [12]byte
	i := len(buf)
	for x := v; x > 0; x /= 10 {
		i--
		buf[i] = byte('0' + x%10)
	}
	i--
	buf[i] = 'v'
	return string(buf[i:])
}
func vnum(s string) int64 {
	if len(s) == 0 {
		return 0
	}
	if s[0] != 'v' {
		return -1
	}
	var n int64
	for i := 1; i < len(s); i++ {
		n = n*10 + int64(s[i]-'0')
	}
	return n
}
'''
    meta = {}
    for kind in kinds:
        if kind in BOUNDARY:
            keys, pool, top, bodies = gen_script(rng, kind, max(60, nops // 3), with_clear, min(histories, 2), bulk)
        else:
            keys, pool, top, bodies = gen_script(rng, kind, nops, with_clear, histories)
        kt, vt = KIND_DECL[kind]
        t = GO_KIND.replace("@KIND@", kind).replace("@KT@", kt).replace("@VT@", vt)
        if kind in BOUNDARY and kt != "int64" or kind == "big":
            # build the key table in a loop at run time (hundreds of inlined constructor calls in a package-level
            # initialiser make the -O2 compile very slow)
            mk = "mkbig" if kind == "big" else _MK[kt]
            nums = ", ".join(k.golit[len(mk) + 1:-1] for k in keys)
            t = t.replace("var keys_%s = []%s{@KEYS@}" % (kind, kt),
                          "var keys_%s = func() []%s {\n\tvs := []int64{%s}\n\tout := make([]%s, len(vs))\n\tfor i, v := range vs {\n\t\tout[i] = %s(v)\n\t}\n\treturn out\n}()" % (kind, kt, nums, kt, mk))
        if kind == "arr":
            # composite literals of arrays with negative elements are mis-initialised by this toolchain at -O2
            # (LLVM 14 + opaque-pointer shim; seen as {-5,1},{-4,0} -> {-5,-4},{0,0}); not a map matter: build the keys
            # at run time from a flat table instead
            flat = ", ".join("%d, %d" % (k.cls[1], k.cls[2]) for k in keys)
            t = t.replace("var keys_arr = [][2]int{@KEYS@}", "var keys_arr = mkarr([]int{%s})" % flat)
        t = t.replace("@KEYS@", ", ".join(k.golit for k in keys))
        t = t.replace("@POOL@", ", ".join("{%d, %d, %d}" % o for o in pool))
        t = t.replace("@TOP@", ", ".join(str(i) for i in top))
        t = t.replace("@BODIES@", ", ".join("{" + ", ".join("{" + ", ".join(str(i) for i in seg) + "}" for seg in segs) + "}" for segs in bodies))
        t = t.replace("@PRE@", "dirty(int64(id)*0x0101010101010101 + 0x7f)" if kind in DIRTY else "")
        t = t.replace("@SHOW@", SHOW[kind]).replace("@VSHOW@", VAL_SHOW[vt]).replace("@VSTORE@", VAL_STORE[vt])
        src += t
        meta[kind] = {"keys": keys, "pool": pool, "top": top, "bodies": bodies}
    src = src.replace("@FIXED@", "".join("type %s %s\n" % d for d in FIXED_TYPES))
    src += "\nfunc main() {\n" + "".join('\tprintln("@", "tflag", "%s", tflagOf(%s{}))\n' % (d[0], d[0]) for d in FIXED_TYPES)
    src += "".join("\trun_%s()\n" % k for k in kinds) + "}\n"
    return src, meta


def judge_trace(kind, m, lines):
    """specification judged on the trace of one kind.  lines: list of token lists after '@ kind'."""
    keys, pool = m["keys"], m["pool"]
    byshow = {}
    for k in keys:
        if not k.unh:
            byshow.setdefault(k.show, k)
    live, nans = {}, {}          # cid -> [v, inc] ; v -> [inc, ...]  (loop bodies re-execute ops: values repeat)
    isnil = True
    inc = 0
    cleared_nans = set()
    loops = []                   # stack of active loops {"id", "must", "seen", "broke"}
    class _Bad(list):
        def append(self, msg, tag="general"):
            list.append(self, (msg, tag, cleared))
    bad = _Bad()
    cleared = False              # an effective clear() has happened
    done = False

    def removed(incs):
        for lp in loops:
            lp["must"] -= incs

    for ln in lines:
        try:
            oid = int(ln[0])
        except (ValueError, IndexError):
            bad.append("unparsable line %r" % (ln,))
            continue
        rest = ln[1:]
        if oid == -1:
            done = True
            continue
        c, ki, v = pool[oid]
        k = keys[ki] if c in (SET, GET, GET1, DEL) else None
        res = " ".join(rest)
        if c == MK:
            live, nans, isnil = {}, {}, False
            exp = "ok"
        elif c == NIL:
            live, nans, isnil = {}, {}, True
            exp = "ok"
        elif c == SET:
            if isnil:
                exp = "panic"
            elif k.unh:
                exp = "panic"
            else:
                exp = "ok"
                inc += 1
                if not k.refl:
                    nans.setdefault(v, []).append(inc)
                elif k.cid in live:
                    live[k.cid][0] = v
                else:
                    live[k.cid] = [v, inc]
        elif c in (GET, GET1):
            if k.unh:
                exp = "panic"
            else:
                e = live.get(k.cid) if k.refl else None
                exp = "v %d" % (e[0] if e else 0) + ((" true" if e else " false") if c == GET else "")
        elif c == DEL:
            if k.unh:
                exp = "panic"
            else:
                exp = "ok"
                if k.refl and k.cid in live:
                    removed({live.pop(k.cid)[1]})
        elif c == CLR:
            exp = "ok"
            if live or nans:
                cleared = True
                cleared_nans |= set(nans.keys())
            removed(set(e[1] for e in live.values()) | set(i for l in nans.values() for i in l))
            live, nans = {}, {}
        elif c == LEN:
            exp = "n %d" % (len(live) + sum(len(l) for l in nans.values()))
        elif c == RNG:
            if rest[0] == "range":
                loops.append({"id": oid, "must": set(e[1] for e in live.values()) | set(i for l in nans.values() for i in l), "seen": set(), "broke": False})
            elif rest[0] == "break":
                if loops and loops[-1]["id"] == oid:
                    loops[-1]["broke"] = True
            elif rest[0] == "endrange":
                if not loops or loops[-1]["id"] != oid:
                    bad.append("op %d: endrange without range" % oid)
                    continue
                lp = loops.pop()
                if not lp["broke"] and lp["must"] - lp["seen"]:
                    bad.append("op %d: range ended without yielding %d entries present for the whole loop" % (oid, len(lp["must"] - lp["seen"])))
            elif rest[0] == "y":
                if not loops or loops[-1]["id"] != oid:
                    bad.append("op %d: yield outside its loop" % oid)
                    continue
                lp = loops[-1]
                txt = " ".join(rest[1:])
                if " | " not in txt:
                    bad.append("op %d: bad yield %r" % (oid, txt))
                    continue
                ks, vs = txt.split(" | ", 1)
                kk = byshow.get(ks.strip())
                try:
                    vv = int(vs.strip())
                except ValueError:
                    vv = None
                if kk is None or vv is None:
                    bad.append("op %d: range yields a key/value never stored: %r" % (oid, txt))
                    continue
                if not kk.refl:
                    cands = nans.get(vv, [])
                    fresh = [i for i in cands if i not in lp["seen"]]
                    e_inc = fresh[0] if fresh else (cands[0] if cands else None)
                else:
                    e = live.get(kk.cid)
                    e_inc = e[1] if e and e[0] == vv else None
                if e_inc is None:
                    bad.append("op %d: range yields a deleted/overwritten entry: %s" % (oid, txt),
                               "nan-stale" if (not kk.refl and vv in cleared_nans) else "general")
                elif e_inc in lp["seen"]:
                    bad.append("op %d: range yields an entry twice: %s" % (oid, txt))
                else:
                    lp["seen"].add(e_inc)
            elif rest[0] == "panic":
                bad.append("op %d: range panicked" % oid)
            continue
        else:
            continue
        if res != exp:
            bad.append("op %d (%s %s): got %r, specification says %r" % (oid, ["set", "get", "get1", "del", "clr", "len", "rng", "nil", "mk", "brk"][c], k.golit if k else "", res, exp))
    if not done:
        bad.append("program did not finish this kind (crash / hang / fatal)")
    return bad
