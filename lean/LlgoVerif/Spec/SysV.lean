import LlgoVerif.Model.CAbi
/-!
# C09 — specification: System V x86-64 psABI parameter passing for the C09 universe

My reading of psABI §3.2.3 restricted to aggregates of `{i8,i16,i32,i64,ptr,f32,f64}` with natural layout
(no `long double`, no vectors, no bit-fields, no packed structs):

* **classification** — an aggregate larger than two eightbytes is MEMORY; otherwise every eightbyte gets the
  class INTEGER if any field lying in it is integer/pointer, SSE if all of them are float/double;
* **register image** — eightbyte `k` (the bytes `[8k, 8k+8)` of the object) travels in ONE register of its
  class, memory byte `8k+j` in register byte `j`;
* **sequential assignment** over the whole parameter list — 6 INTEGER registers, 8 SSE registers; an argument
  whose eightbytes cannot ALL get registers is passed in memory *as a whole* (and consumes no register);
  memory arguments are pushed in order, each 8-byte aligned, rounded up to 8 bytes; a MEMORY-class *result*
  makes the caller pass a hidden pointer in the first INTEGER register.

Validated every run against clang-14 (`-S -emit-llvm -O0` coerce types and `byval`) and against gcc by
execution (C-to-C calls); see design/C09.md.  Shares only the type universe and the layout functions with
the model; nothing of `classify`.
-/
namespace LlgoVerif.SysV
open LlgoVerif.CAbi

inductive Class where
  | noClass | integer | sse
deriving DecidableEq, Repr, Inhabited

def clsOf (s : Scalar) : Class := if s.isSSE then .sse else .integer

/-- psABI merge restricted to {NO_CLASS, INTEGER, SSE} -/
def merge : Class → Class → Class
  | .noClass, c => c
  | c, .noClass => c
  | .integer, _ => .integer
  | _, .integer => .integer
  | .sse, .sse => .sse

/-- class of eightbyte `k`: merge of the classes of the fields that lie in it -/
def ebClass : List Elem → Nat → Class
  | [], _ => .noClass
  | e :: r, k => if e.1 / 8 = k then merge (clsOf e.2) (ebClass r k) else ebClass r k

inductive ArgClass where
  | none                       -- zero-size object: not passed
  | memory
  | regs (cs : List Class)     -- one class per eightbyte
deriving DecidableEq, Repr

def classifyAgg (size : Nat) (elems : List Elem) : ArgClass :=
  if size = 0 then .none
  else if size > 16 then .memory
  else .regs ((List.range ((size + 7) / 8)).map (ebClass elems))

/-- how an object crosses the boundary when registers are available: MEMORY, or one register per eightbyte
    given as (class, offset of the first object byte it carries) -/
inductive Image where
  | memory
  | regs (rs : List (Class × Nat))
deriving DecidableEq, Repr

def imageOfClasses : List Class → Nat → List (Class × Nat)
  | [], _ => []
  | c :: cs, k => (c, 8 * k) :: imageOfClasses cs (k + 1)

def regImage (v : View) : Image :=
  match classifyAgg v.size v.elems with
  | .none => .regs []
  | .memory => .memory
  | .regs cs => .regs (imageOfClasses cs 0)

/-! ## Sequential assignment -/

def countInt (cs : List Class) : Nat := (cs.filter (· = .integer)).length
def countSse (cs : List Class) : Nat := (cs.filter (· = .sse)).length

def fits (cs : List Class) (st : St) : Bool := st.gpr + countInt cs ≤ 6 && st.sse + countSse cs ≤ 8

/-- hand out the next register of its class to every eightbyte (only used when they all fit) -/
def assignRegs : List Class → St → List Loc × St
  | [], st => ([], st)
  | .integer :: cs, st => (.gpr st.gpr :: (assignRegs cs { st with gpr := st.gpr + 1 }).1, (assignRegs cs { st with gpr := st.gpr + 1 }).2)
  | .sse :: cs, st => (.xmm st.sse :: (assignRegs cs { st with sse := st.sse + 1 }).1, (assignRegs cs { st with sse := st.sse + 1 }).2)
  | .noClass :: cs, st => assignRegs cs st

def placeArg (v : View) (st : St) : List Loc × St :=
  match classifyAgg v.size v.elems with
  | .none => ([], st)
  | .memory => toStack v.size v.align st
  | .regs cs => if fits cs st then assignRegs cs st else toStack v.size v.align st

def placeArgs : List View → St → List (List Loc)
  | [], _ => []
  | v :: vs, st => (placeArg v st).1 :: placeArgs vs (placeArg v st).2

def placeRet (r : Option View) : RetPlace :=
  match r with
  | none => .void
  | some v =>
    match classifyAgg v.size v.elems with
    | .none => .regs []
    | .memory => .sret
    | .regs cs => .regs (assignRegs cs ⟨0, 0, 0⟩).1     -- RAX, RDX / XMM0, XMM1 in class order

def placeV (ret : Option View) (params : List View) : Placement :=
  { ret := placeRet ret,
    args := placeArgs params ⟨(if placeRet ret = .sret then 1 else 0), 0, 0⟩ }

/-- where the psABI puts every eightbyte of every argument and the result -/
def place (sig : Sig) : Placement := placeV (sig.ret.map CType.view) (sig.params.map CType.view)

/-! ## Hypotheses of the partial theorems (decidable) -/

def exhausted (c : Class) (st : St) : Bool :=
  match c with
  | .integer => decide (6 ≤ st.gpr)
  | .sse => decide (8 ≤ st.sse)
  | .noClass => true

/-- an argument is harmless for per-parameter classification when all its eightbytes get registers, or none
    of them could get one (then both conventions put it on the stack in order) -/
def argNoSplit (v : View) (st : St) : Bool :=
  match classifyAgg v.size v.elems with
  | .regs cs => fits cs st || cs.all (exhausted · st)
  | _ => true

def noSplitArgs : List View → St → Bool
  | [], _ => true
  | v :: vs, st => argNoSplit v st && noSplitArgs vs (placeArg v st).2

def noSplit (sig : Sig) : Bool :=
  noSplitArgs (sig.params.map CType.view)
    ⟨(if placeRet (sig.ret.map CType.view) = .sret then 1 else 0), 0, 0⟩

/-- every AGGREGATE (≥ 2 scalar leaves) that is passed in registers still finds all its registers free -/
def argFits (v : View) (st : St) : Bool :=
  match classifyAgg v.size v.elems with
  | .regs cs => decide (v.types.length < 2) || fits cs st
  | _ => true

def fitsArgs : List View → St → Bool
  | [], _ => true
  | v :: vs, st => argFits v st && fitsArgs vs (placeArg v st).2

def fitsInRegs (sig : Sig) : Bool :=
  fitsArgs (sig.params.map CType.view)
    ⟨(if placeRet (sig.ret.map CType.view) = .sret then 1 else 0), 0, 0⟩

/-! ## Judging a pass kind against the specification (decidable; used by the theorems AND by the check on the
    classification the real code reports) -/

/-- the registers through which a pass kind carries the object: (offset of the first object byte loaded, type).
    `direct` = LLVM passes every scalar leaf of a first-class aggregate in its own register. -/
def kindRegs (pk : PassKind) (v : View) : List (Nat × RegTy) :=
  match pk with
  | .coerce r => [(0, r)]
  | .coerce2 r1 r2 => [(0, r1), (off2 r1 r2, r2)]
  | .direct => v.elems.map fun e => (e.1, e.2.regTy)
  | .void => []
  | .memory => []

/-- register class LLVM's x86-64 convention uses for a scalar of this type -/
def regCls (r : RegTy) : Class := if r.isSSE then .sse else .integer

def kindImage (pk : PassKind) (v : View) : Image :=
  match pk with
  | .memory => .memory
  | _ => .regs ((kindRegs pk v).map fun p => (regCls p.2, p.1))

/-- all bytes of the scalar `e` lie inside the byte range one of the registers carries -/
def covered (regs : List (Nat × RegTy)) (e : Elem) : Bool :=
  regs.any fun r => decide (r.1 ≤ e.1) && decide (e.1 + e.2.size ≤ r.1 + r.2.bytes)

/-- **the pass kind carries every byte of the object in the register class the psABI assigns**:
    same mode (memory / registers), same number of registers, register `k` is of the class of eightbyte `k`
    and is loaded from object offset `8k`, no register is wider than an eightbyte, and every scalar leaf lies
    inside the bytes its register carries. -/
def Sound (pk : PassKind) (v : View) : Prop :=
  kindImage pk v = regImage v ∧
  (∀ r ∈ kindRegs pk v, r.2.bytes ≤ 8) ∧
  (pk ≠ .memory → ∀ e ∈ v.elems, covered (kindRegs pk v) e = true)

instance (pk : PassKind) (v : View) : Decidable (Sound pk v) := by unfold Sound; infer_instance

end LlgoVerif.SysV
