#!/usr/bin/env python3
"""Regenerates /verif/MANIFEST.json from the table below (kept in one place so it stays valid)."""
import json, os
V = os.path.dirname(os.path.dirname(os.path.abspath(__file__)))
props = [json.loads(l) for l in open(os.path.join(V, "properties.jsonl"))]

CLAIMED = {}
fd = os.path.join(V, "checks", "manifest")
READY = [l.strip() for l in open(os.path.join(fd, "READY")) if l.strip() and not l.startswith("#")]
for fn in sorted(os.listdir(fd)):
    if fn.endswith(".json") and fn[:-5] in READY:      # only checks the lead has accepted
        CLAIMED[fn[:-5]] = json.load(open(os.path.join(fd, fn)))

checks = []
for p in props:
    pid = p["id"]
    if pid in CLAIMED:
        c = CLAIMED[pid]
        checks.append({
            "property_id": pid,
            "quick_cmd": "./check %s --tier quick" % pid,
            "thorough_cmd": "./check %s --tier thorough" % pid,
            "evidence_file": "/verif/evidence/%s.json" % pid,
            "replay_cmd_template": "./check %s --replay {path}" % pid,
            "engine": "lean4+correspondence",
            "level_claimed": {"category": c["category"], "text": c["text"], "design_ref": c["design"]},
            "level_note": c["note"],
            "technique": c["technique"],
        })
na = [{"property_id": p["id"], "reason": "check not built yet in this round (planned, see DESIGN.md §4 %s); nothing is claimed for it until its Lean model, theorems and correspondence exist" % p["id"]}
      for p in props if p["id"] not in CLAIMED]
m = {
 "version": 1,
 "setup_cmd": "cd /verif/lean && lake build",
 "hooks": {"guard": "verif",
           "enable": "harnesses are built with `go build -tags verif -overlay <file>`: overlay files under /verif/harness/*/overlay add exported accessors to internal packages; nothing is committed to /repo for hooks",
           "baseline_off_cmd": "cd /repo && go build ./... && go test -vet=off -count=1 ./... ; cd /repo/runtime && go test -vet=off -count=1 ./...",
           "source_commits": [], "add_only": True},
 "engines": [{"name": "lean4+correspondence", "path": "/verif/lean", "serves_properties": sorted(CLAIMED),
              "kind_free_text": "Lean 4.33 lake project (models, specs, theorems, line-protocol drivers) + Go harnesses built from /repo's working tree + Python orchestration (./check)"}],
 "checks": checks,
 "not_applicable": na,
 "notes": "Technique family: machine-checked proof in Lean 4; see DESIGN.md. KNOWN_FINDINGS.jsonl lists genuine defects that are recorded rather than repaired.",
}
json.dump(m, open(os.path.join(V, "MANIFEST.json"), "w"), indent=1)
print("claimed:", sorted(CLAIMED), "n/a:", len(na))
