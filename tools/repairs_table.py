#!/usr/bin/env python3
"""Regenerates the repairs table of DESIGN.md (between <!-- REPAIRS:BEGIN --> / <!-- REPAIRS:END -->) from fixes/COMMITS.tsv
and /repo's git log; complains about any `fix:` commit of /repo that the table does not list (and vice versa)."""
import os, re, subprocess, sys
V = os.path.dirname(os.path.dirname(os.path.abspath(__file__)))
log = subprocess.run(["git", "-C", "/repo", "log", "--format=%h\t%s"], capture_output=True, text=True).stdout.splitlines()
fix = {l.split("\t")[0][:7]: l.split("\t")[1] for l in log if l.split("\t")[1].startswith("fix:")}
rows, seen = [], set()
for l in open(os.path.join(V, "fixes", "COMMITS.tsv")):
    if not l.strip():
        continue
    c, prop, what = l.rstrip("\n").split("\t")
    seen.add(c)
    if c not in fix:
        sys.exit("COMMITS.tsv names %s which is not a fix: commit of /repo" % c)
    rows.append((prop, c, fix[c][5:], what))
missing = set(fix) - seen
if missing:
    sys.exit("fix: commits of /repo missing from fixes/COMMITS.tsv: %s" % sorted(missing))
rows.sort()
tab = ["| property | commit | subject | what failed (found by) |", "|---|---|---|---|"] + ["| %s | %s | %s | %s |" % r for r in rows]
p = os.path.join(V, "DESIGN.md")
s = open(p).read()
s2 = re.sub(r"(<!-- REPAIRS:BEGIN -->\n).*?(<!-- REPAIRS:END -->)", lambda m: m.group(1) + "\n".join(tab) + "\n" + m.group(2), s, flags=re.S)
open(p, "w").write(s2)
print(len(rows), "repairs")
