"""C03 — every run-time panic Go mandates is raised, recoverable, and raised only then.

Tie A: index expressions `x[i]` for every indexable kind x index type are compiled by the llgo built from the working
tree (-O0 -gen-llfiles); the IR is translated into Lean (Gen/C03_idx.lean) and each function gets the obligation
`f len i = idxSpec (value of i at its SOURCE type) len` for all operands (Lemmas/Bounds.lean).
Tie E: a generated program of panic-point cases (index, 2/3-index slices, nil dereference, nil map, type assertion,
division by zero, make, slice->array, closed/nil channels, nil func) runs each case three times in one goroutine, in its own
process, at -O0 and -O2; its trace is compared with the SAME source built by the reference Go toolchain."""
import glob
import os
import sys
from concurrent.futures import ThreadPoolExecutor

from vlib.common import *
from vlib.e2e import *

sys.path.insert(0, os.path.join(VERIF, "harness", "irgen"))
sys.path.insert(0, os.path.join(VERIF, "harness", "c03"))
import gen as c03gen  # noqa: E402
import idxgen  # noqa: E402
import ir2lean  # noqa: E402

GEN_DIR = os.path.join(LEAN, "LlgoVerif", "Gen")
SIGNAL_KINDS = {"nil-deref", "nil-deref-dead", "chan-close-nil", "nil-func-call"}


def _run(cmd, cwd, env, timeout=1800):
    from vlib.common import run as r
    return r(cmd, cwd=cwd, env=env, timeout=timeout)


def classify(case, lvl, got, want, rc):
    """map a llgo-vs-reference disagreement to a known defect class (or None)"""
    k = case["kind"]
    gl, wl = got.split("\n"), want.split("\n")
    first_iter_ok = len(gl) >= 3 and gl[:3] == wl[:3]
    if k in SIGNAL_KINDS and rc in (-11, 139) and first_iter_ok:
        return "nil-deref-repeat"
    if k == "nil-deref-dead" and "recovered" not in got and "completed" in got:
        return "dead-nil-load-elided"
    if k == "make-oversize-const" and "recovered" not in got:
        return "make-const-oversize"
    return None


def run(ctx, args):
    quick = ctx.tier == "quick"
    build_llgo(ctx)
    env = llgo_env(ctx)

    # ------------------------------------------------------------------ tie A: index-check obligations
    src, obs = idxgen.generate()
    d = os.path.join(ctx.scratch, "idx")
    write_module(d, {"main.go": 'package main\nimport "verifprog/idx"\nfunc main(){ println(idx.Idx_str_int("abc",1)) }\n', "idx/idx.go": src})
    p0 = _run([ctx.llgo, "build", "-tags", "nogc", "-O0", "-gen-llfiles", "-o", os.path.join(d, "prog0"), "."], d, env)
    if p0.returncode != 0:
        raise HarnessBuildError("llgo could not compile the generated index package:\n" + (p0.stdout + p0.stderr)[-3000:])
    pl = _run(["go", "list", "-export", "-f", "{{.Export}}", "./idx"], d, env)
    irtext = open(pl.stdout.strip() + ".ll").read()
    fns = ir2lean.parse_functions(irtext)
    os.makedirs(GEN_DIR, exist_ok=True)
    for f in glob.glob(os.path.join(GEN_DIR, "C03_*.lean")):
        os.remove(f)
    untranslated, chunks = {}, []
    for o in obs:
        nm = "verifprog/idx." + o["name"]
        hf = {"len": ["len"], "const10": [], "strlen": ["strlen"]}[o["lenkind"]]
        try:
            if nm not in fns:
                raise ir2lean.Unsupported("function missing from the IR")
            chunks.append(ir2lean.translate_index_function(nm, o["name"], *fns[nm], hf) + "\n" + idxgen.theorem(o))
        except (ir2lean.Unsupported, KeyError, IndexError) as e:
            untranslated[o["name"]] = repr(e)
    rel = "LlgoVerif/Gen/C03_idx.lean"
    with open(os.path.join(LEAN, rel), "w") as f:
        f.write("import LlgoVerif.Lemmas.Bounds\n/-! REGENERATED on every run of ./check C03 from the IR llgo emits for harness/irgen/idxgen.py. Do not edit. -/\n"
                "namespace LlgoVerif.Gen.C03\nopen LlgoVerif LlgoVerif.LLVM LlgoVerif.Bounds\n\n" + "\n".join(chunks) + "\nend LlgoVerif.Gen.C03\n")
    st = lean_check(ctx, ["LlgoVerif.Gen.C03_idx", "LlgoVerif.Props.C03"], [rel, "LlgoVerif/Props/C03.lean"],
                    extra_files=["LlgoVerif/Lemmas/Bounds.lean", "LlgoVerif/Lemmas/Arith.lean", "LlgoVerif/Model/LLVM.lean"],
                    leanchecker=(ctx.tier == "thorough"))
    ctx.obligations += len(untranslated)
    for n, why in untranslated.items():
        ctx.broken.append("translation of %s: %s" % (n, why))
    failed = sorted(n for n, s in st.items() if s != "ok") + ["translation:" + n for n in untranslated]

    # ------------------------------------------------------------------ tie E: panic-point program vs reference toolchain
    C = c03gen.cases(ctx.rng, 60 if quick else 1500)
    pd = os.path.join(ctx.scratch, "panics")
    write_module(pd, {"main.go": c03gen.program(C), "input_llgo.go": c03gen.INPUT_LLGO, "input_go.go": c03gen.INPUT_GO}, modname="verifpanics")
    pr = _run(["go", "build", "-tags", "goref", "-o", os.path.join(pd, "ref"), "."], pd, go_env())
    if pr.returncode != 0:
        raise RuntimeError("reference build of the generated panic program failed (generator bug):\n" + (pr.stdout + pr.stderr)[-3000:])
    progs = []
    for lvl in ("O0", "O2"):
        out = os.path.join(pd, "prog" + lvl)
        p = llgo_build(ctx, pd, out, "-" + lvl)
        if p.returncode != 0:
            raise HarnessBuildError("llgo could not compile the generated panic-point program at -%s:\n%s" % (lvl, (p.stdout + p.stderr)[-3000:]))
        progs.append((lvl, out))

    def one(prog, idx):
        o, e, rc = run_prog(prog, input="%d\n" % idx, timeout=20)
        return e, rc

    with ThreadPoolExecutor(max_workers=12) as ex:
        ref = list(ex.map(lambda i: one(os.path.join(pd, "ref"), i), range(len(C))))
        res = {lvl: list(ex.map(lambda i, pg=pg: one(pg, i), range(len(C)))) for lvl, pg in progs}
    kinds, n_eval, mism, samples = {}, 0, 0, []
    panicking = 0
    for idx, c in enumerate(C):
        want, wrc = ref[idx]
        # the reference prints the uncaught-panic trailer only if a case kills it: none of ours should
        if "done" not in want:
            ctx.log("generator problem: reference did not finish case", idx, c["body"], want[-200:])
            continue
        kinds[c["kind"]] = kinds.get(c["kind"], 0) + 1
        if "recovered" in want:
            panicking += 1
        for lvl, _ in progs:
            got, rc = res[lvl][idx]
            n_eval += 1
            if got == want:
                continue
            mism += 1
            cls = classify(c, lvl, got, want, rc)
            key = ("panic:" + cls) if cls else "panic:case:%s:%s" % (c["kind"], c["body"])
            ctx.report(key, "case `%s` at -%s: llgo prints %r (exit %s), the reference toolchain prints %r" % (c["body"], lvl, got[-160:], rc, want[-160:]),
                       {"case": c, "opt": lvl, "llgo_stderr": got, "llgo_exit": rc, "reference_stderr": want,
                        "how": "build harness/c03 generated program (see `case`), feed the case index on stdin"})
        if idx % 97 == 0:
            samples.append({"case": c["body"], "reference": want.split("\n")[:4]})
    if failed and not ctx.violations:
        ctx.report_broken("C03 obligations: " + ", ".join(failed[:6]), {n: st.get(n, untranslated.get(n.split(":")[-1])) for n in failed[:40]})
    ctx.coverage["samples"] = samples[:6] + [idxgen.theorem(obs[0]).strip()]
    ctx.coverage["trusted_base"] += [
        "Model/LLVM.lean + harness/irgen/ir2lean.py (index subset: slice/string headers become the Lean parameter `len`, pointers are opaque, the result is the index handed to getelementptr)",
        "oracle of the execution tie: the SAME generated Go source built with the reference Go toolchain (go1.24), compared line by line (panic MESSAGE texts are not printed, only that a recover happened and what ran before/after)",
        "run-time halves (NewSlice3, StringSlice, MakeSlice, map/chan/type-assert panics) are covered by execution only in this check; their models live with C05/C06/C07/C10",
    ]
    return ctx.finish("proof", {
        "evaluations": n_eval, "distinct_nontrivial": panicking,
        "rule": "one generated panic-point case per (operation kind, operand values); each runs 3x in one goroutine in its own process at -O0 and -O2; non-trivial = the reference toolchain panics on it (the others are in-range twins that must not panic)",
        "input_distribution": kinds, "disagreements_with_reference": mism,
        "index_obligations": len(obs), "cases": len(C),
    })
