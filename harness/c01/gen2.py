"""Declarations (functions, methods, interfaces, generics), whole programs, and emission of a batch as a Go module."""
from gen import *


class ProgGen(Gen):
    # ------------------------------------------------------------------ functions
    def new_func(self, name, pure, params, results, pkg=None, named=False):
        f = Func('%s%s' % (self.pfx, name), self.pkg() if pkg is None else pkg)
        f.pure = pure
        f.params = [Var(self.P.slot(), 'a%d' % i, t) for i, t in enumerate(params)]
        f.results = [Var(self.P.slot(), 'r%d' % i, t) for i, t in enumerate(results)]
        f.named_results = named
        for p in f.params:
            u = under(p.ty)
            if u == STR or (isinstance(u, tuple) and u[0] in ('ptr', 'func')) or u == 'any':
                p.readonly = True
            if isinstance(u, tuple) and u[0] == 'slice':
                p.noappend = True
        return f

    def body_ctx(self, f, pure):
        cx = Ctx(f, [r.ty for r in f.results], pure=pure)
        for p in f.params:
            cx.add(p)
        if f.named_results:
            for r in f.results:
                cx.add(r)
        return cx

    def seed(self, cx):
        """every body starts with a non-constant int variable (keeps constant folding out of the picture)"""
        v = self.newvar(cx, INT)
        ints = [p for p in cx.vars() if is_int(under(p.ty))]
        init = Conv(INT, VarRef(self.rng.choice(ints))) if ints else IntLit(INT, self.rng.randint(-5, 40))
        if ints and self.rng.random() < 0.5:
            init = Bin('add', init, IntLit(INT, self.rng.randint(1, 9)))
        cx.add(v)
        return Decl([v], [init])

    def finish(self, f, cx, body):
        if f.results and not (body and isinstance(body[-1], Return)):
            if f.named_results and self.rng.random() < 0.7:
                # named results + bare return
                for rv in f.results:
                    body.append(Assign([VarRef(rv)], [self.expr(cx, rv.ty, 2)]))
                body.append(Return([]))
                self.feat.add('bare-return')
            else:
                body.append(Return([self.expr(cx, r.ty, 2) for r in f.results]))
        f.body = body
        f.cost = cx.cost + 3

    def make_func(self, pure, nst=None):
        r = self.rng
        nparams = r.randint(0, 3)
        params = [self.simple_type() for _ in range(nparams)]
        if not pure and r.random() < 0.35 and self.ustructs():
            params.append(('ptr', ('named', r.choice(self.ustructs()))))
        if not pure and r.random() < 0.25:
            params.append(('slice', tint(self.kind())))
        nres = r.choice([1, 1, 1, 2, 0] if not pure else [1, 1, 1, 2])
        results = [self.simple_type(0) if r.random() < 0.4 else tint(self.kind()) for _ in range(nres)]
        named = bool(results) and r.random() < 0.25
        f = self.new_func('F%d' % len(self.P.funcs), pure, params, results, named=named)
        for t in params + results:
            f.pkg = max(f.pkg, self.type_pkg(t))
        self.cur_pkg = max(self.cur_pkg, f.pkg)
        cx = self.body_ctx(f, pure)
        body = [self.seed(cx)]
        save = self.budget
        self.budget = nst or r.randint(2, 6)
        body += self.block_flat(cx, self.budget)
        self.budget = save - 3
        self.finish(f, cx, body)
        self.P.add_func(f)
        (self.pure_funcs if pure else self.impure_funcs).append(f)
        return f

    def block_flat(self, cx, n):
        out = []
        for _ in range(n):
            if self.budget <= 0:
                break
            out += self.stmt(cx)
        return out

    def make_recursive(self):
        """f(n int, x K) K with a decreasing depth argument; pure (so it can be called inside expressions)"""
        r = self.rng
        k = tint(self.kind())
        f = self.new_func('R%d' % len(self.P.funcs), True, [INT, k], [k])
        n, x = f.params
        n.readonly = True
        cx = self.body_ctx(f, True)
        body = [If([], Bin('le', VarRef(n), IntLit(INT, 0)), [Return([self.int_expr(cx, k, 1)])], [])]
        body.append(self.seed(cx))
        self.budget, save = 2, self.budget
        body += self.block_flat(cx, 2)
        self.budget = save - 2
        rec1 = Call(f, [Bin('sub', VarRef(n), IntLit(INT, 1)), self.int_expr(cx, k, 1)])
        if r.random() < 0.4:
            rec2 = Call(f, [Bin('sub', VarRef(n), IntLit(INT, 2)), self.int_expr(cx, k, 1)])
            e = Bin(r.choice(['add', 'xor', 'sub']), rec1, rec2)
            fan = 2
        else:
            e = Bin(r.choice(['add', 'mul', 'xor']), rec1, VarRef(x))
            fan = 1
        body.append(Return([e]))
        f.body = body
        f.depth_arg = (0, 7 if fan == 2 else 20)
        f.cost = (cx.cost + 5) * (40 if fan == 2 else 21)
        self.P.add_func(f)
        self.feat.add('recursion')
        # callers must pass a bounded depth: wrap it
        w = self.new_func('W%d' % len(self.P.funcs), True, [k], [k], pkg=f.pkg)
        w.body = [Return([Call(f, [IntLit(INT, r.randint(1, f.depth_arg[1])), VarRef(w.params[0])])])]
        w.cost = f.cost + 2
        self.P.add_func(w)
        self.pure_funcs.append(w)
        return w

    def make_variadic(self):
        """func V(a K, xs ...K) K  (pure): folds its variadic arguments"""
        r = self.rng
        k = tint(self.kind())
        f = self.new_func('V%d' % len(self.P.funcs), True, [k, ('slice', k)], [k])
        f.variadic = True
        a, xs = f.params
        xs.noappend = True
        x, i = Var(self.P.slot(), 'x', k), Var(self.P.slot(), 'i', INT)
        op = r.choice(['add', 'xor', 'sub', 'mul'])
        f.body = [RangeSeq('', i, x, VarRef(xs), [Assign([VarRef(a)], [Bin(op, Bin('add', VarRef(a), Conv(k, VarRef(i))), VarRef(x))])]),
                  Return([Bin('add', VarRef(a), Conv(k, LenCap('len', VarRef(xs))))])]
        f.cost = 20
        self.P.add_func(f)
        self.pure_funcs.append(f)
        self.feat.add('variadic-func')
        return f

    def make_counter(self):
        """a function returning a closure over its own local: each result has private state"""
        r = self.rng
        k = tint(self.kind())
        fty = self.P.sig([], [k])
        f = self.new_func('C%d' % len(self.P.funcs), False, [k], [fty])
        c = Var(self.P.slot(), 'c', k)
        lit = Func('lit', f.pkg)
        lit.is_lit = True
        lit.results = [Var(self.P.slot(), 'r', k)]
        lit.body = [OpAssign(r.choice(['add', 'sub', 'xor']), VarRef(c), IntLit(k, r.randint(1, 5))), Return([VarRef(c)])]
        self.P.add_func(lit, printed=False)
        f.body = [Decl([c], [VarRef(f.params[0])]), Return([FuncLit(lit, fty)])]
        f.cost = 4
        self.P.add_func(f)
        self.impure_funcs.append(f)
        self.feat.add('closure-returned')
        return f

    def make_recovering(self):
        """func f(a K) (r K): deferred closures (LIFO, printing), one of them recovers and sets the named result; the body
        panics explicitly or through a run-time check, or not at all"""
        r = self.rng
        k = tint(self.kind())
        f = self.new_func('D%d' % len(self.P.funcs), False, [k, INT], [k], named=True)
        a, sel = f.params
        res = f.results[0]
        cx = self.body_ctx(f, False)
        body = []
        kinds = r.sample(['explicit-str', 'explicit-int', 'index', 'divide', 'assert', 'slice'], 3) if r.random() < 0.6 else \
            r.sample(['explicit-str', 'explicit-int', 'explicit-str', 'explicit-int'], 3)
        rt_kinds = any(not k.startswith('explicit') for k in kinds)
        ndef = r.randint(1, 3)
        rec_at = r.randrange(ndef)
        for di in range(ndef):
            lit = Func('lit', f.pkg)
            lit.is_lit = True
            if di == rec_at:
                e = Var(self.P.slot(), 'e', 'any')
                sv, si = Var(e.slot + 0, 'es', STR), None
                slot = self.P.slot()
                xs = [Var(slot, 'es', STR), Var(slot, 'ei', INT), Var(slot, 'ee', 'any')]
                # llgo's run-time panic values are plain strings, not runtime.Error (finding recover:runtime-error-value-is-string,
                # replayed from corpus/C01): a function whose body may raise a run-time panic does not distinguish strings
                if rt_kinds and not self.rt_err_switch:
                    tcs = [TCase([INT], [Print(True, [StrLit(b"recovered int"), VarRef(xs[1])])]),
                           TCase([], [Print(True, [StrLit(b"recovered something else")])], default=True)]
                    xs = [xs[1], xs[2]]
                else:
                    tcs = [TCase([STR], [Print(True, [StrLit(b"recovered string"), VarRef(xs[0])])]),
                           TCase([INT], [Print(True, [StrLit(b"recovered int"), VarRef(xs[1])])]),
                           TCase([], [Print(True, [StrLit(b"recovered runtime error")])], default=True)]
                ts = TypeSwitch('', xs, VarRef(e), tcs)
                lit.body = [Decl([e], [Recover()]),
                            If([], Bin('ne', VarRef(e), Zero('any')), [ts, Assign([VarRef(res)], [self.int_expr(cx, k, 1)])],
                               [Print(True, [StrLit(b"no panic"), VarRef(res)])] if r.random() < 0.7 else [])]
            else:
                lit.params = [Var(self.P.slot(), 'd', k)]
                lit.body = [Print(True, [StrLit(b"deferred"), IntLit(INT, di), VarRef(lit.params[0]), VarRef(res)])]
            self.P.add_func(lit, printed=False)
            sig = self.P.sig([p.ty for p in lit.params], [])
            body.append(Defer(FuncLit(lit, sig), [self.int_expr(cx, k, 1)] if lit.params else []))
        body.append(self.seed(cx))
        self.budget, save = 2, self.budget
        body += self.block_flat(cx, 2)
        self.budget = save - 2
        # the panic point, selected by the second argument
        arr = Var(self.P.slot(), 'arr', ('slice', k))
        z = Var(self.P.slot(), 'z', k)
        y = Var(self.P.slot(), 'y', 'any')
        cases = []
        for ci, pk in enumerate(kinds):
            if pk == 'explicit-str':
                st = [Panic(ToIface('any', Bin('add', StrLit(b"boom-"), self.str_lit())))]
            elif pk == 'explicit-int':
                st = [Panic(ToIface('any', Bin('add', Conv(INT, VarRef(a)), IntLit(INT, r.randint(0, 99)))))]
            elif pk == 'index':
                st = [Decl([arr], [SeqLit(arr.ty, [VarRef(a)] * r.randint(0, 3))]),
                      Assign([VarRef(res)], [Index(VarRef(arr), Bin('add', LenCap('len', VarRef(arr)), IntLit(INT, r.randint(0, 2))))])]
            elif pk == 'slice':
                st = [Decl([arr], [SeqLit(arr.ty, [VarRef(a)] * r.randint(0, 3))]),
                      Assign([VarRef(arr)], [SliceOf(VarRef(arr), Bin('add', LenCap('len', VarRef(arr)), IntLit(INT, 1)), None)])]
            elif pk == 'divide':
                st = [Decl([z], [Bin('sub', VarRef(a), VarRef(a))]), Assign([VarRef(res)], [Bin(r.choice(['quo', 'rem']), VarRef(a), VarRef(z))])]
            else:
                wrong = STR if True else None
                st = [Decl([y], [ToIface('any', VarRef(a))]), Print(True, [Assert(VarRef(y), wrong)])]
            cases.append(Case([IntLit(INT, ci + 1)], st + [Print(True, [StrLit(b"unreachable")])]))
        body.append(Switch('', [], VarRef(sel), cases))
        body.append(Print(True, [StrLit(b"body done")]))
        body.append(Return([self.int_expr(cx, k, 2)]))
        f.body = body
        f.cost = cx.cost + 25
        f.sel_range = len(kinds)
        self.P.add_func(f)
        self.recovering.append(f)
        self.feat.add('defer-recover')
        return f

    # ------------------------------------------------------------------ methods and interfaces
    def make_methods(self, d):
        """methods on struct / named-int type d: a pure value-receiver getter, maybe a pointer-receiver setter, maybe a
        value-receiver 'setter' (which must NOT be visible to the caller), sometimes shadowing a promoted method"""
        r = self.rng
        ty = ('named', d)
        inherited = self.methods_of(d)
        names = []
        k = self.rng.choice(self.mret)
        # getter Ma() K
        for mname, pure, ptr in [('Ma', True, False), ('Mb', False, True), ('Mc', False, False)]:
            if mname == 'Ma' and (mname in inherited and r.random() < 0.5):
                continue           # keep the promoted one
            if mname != 'Ma' and (r.random() < 0.4 or d.kind != 'struct'):
                continue
            f = Func('%s_%s' % (d.name, mname), d.pkg)
            f.recv, f.mname, f.pure = (d, ptr), mname, pure
            recv = Var(self.P.slot(), 'm', ('ptr', ty) if ptr else ty)
            recv.readonly = ptr
            if mname == 'Ma':
                f.params = [recv]
                f.results = [Var(self.P.slot(), 'r', k)]
            else:
                f.params = [recv, Var(self.P.slot(), 'a', k)]
                f.results = []
            cx = self.body_ctx(f, pure)
            body = [self.seed(cx)]
            save = self.budget
            self.budget = 2
            body += self.block_flat(cx, 2)
            self.budget = save - 2
            if mname != 'Ma':
                # make sure the receiver is written
                w = [(e, t) for e, t in self.writables(cx) if is_int(under(t)) and (e.go(NOCX).startswith('m.') or e.go(NOCX) == 'm')]
                if w:
                    e, t = r.choice(w)
                    body.append(Assign([e], [Conv(t, VarRef(f.params[1]))]))
            self.finish(f, cx, body)
            self.P.add_func(f, printed=True)
            d.mdecls.append(f)
            names.append(mname)
        self.feat.add('methods')

    def make_ifaces(self):
        P = self.P
        k = self.mret[0]
        d1 = TypeDecl('%sI%d' % (self.pfx, len(P.types)), 'iface', self.pkg(0.2))
        d1.methods = [('Ma', [], [k])]
        d1.pure_methods = {'Ma': True}
        d1.impls = []
        P.add_type(d1)
        self.ifaces.append(d1)
        self.iface_ma = d1
        d2 = TypeDecl('%sI%d' % (self.pfx, len(P.types)), 'iface', d1.pkg)
        d2.methods = [('Ma', [], [k]), ('Mb', [k], [])]
        d2.pure_methods = {'Ma': True, 'Mb': False}
        d2.impls = []
        P.add_type(d2)
        self.ifaces.append(d2)
        self.iface_mb = d2

    def fill_impls(self):
        for d in self.structs + self.nameds:
            ms = self.methods_of(d)
            k = self.mret[0]
            if 'Ma' in ms and ms['Ma'].results[0].ty == k and not ms['Ma'].recv[1]:
                self.ifaces[0].impls.append(('named', d))
                self.ifaces[0].impls.append(('ptr', ('named', d)))
                if 'Mb' in ms:
                    self.ifaces[1].impls.append(('ptr', ('named', d)))
        self.ifaces = [i for i in self.ifaces if i.impls]

    # ------------------------------------------------------------------ generics (fixed templates, random instantiation)
    def generic_func(self, name):
        key = '_g_' + name
        if hasattr(self, key):
            return getattr(self, key)
        P = self.P
        pkg = self.cur_pkg

        def build_map(targs):
            T, U = targs
            fty = P.sig([T], [U])
            f = Func('g', pkg)
            s, fn = Var(P.slot(), 's', ('slice', T)), Var(P.slot(), 'f', fty)
            out, x = Var(P.slot(), 'out', ('slice', U)), Var(P.slot(), 'x', T)
            f.params, f.results = [s, fn], [Var(P.slot(), 'r', ('slice', U))]
            f.body = [Decl([out], [Make(('slice', U), IntLit(INT, 0), LenCap('len', VarRef(s)))]),
                      RangeSeq('', None, x, VarRef(s), [Assign([VarRef(out)], [Append(VarRef(out), [CallV(VarRef(fn), [VarRef(x)])])])]),
                      Return([VarRef(out)])]
            return f

        def build_fold(targs):
            T, A = targs
            fty = P.sig([A, T], [A])
            f = Func('g', pkg)
            s, acc, fn = Var(P.slot(), 's', ('slice', T)), Var(P.slot(), 'acc', A), Var(P.slot(), 'f', fty)
            x = Var(P.slot(), 'x', T)
            f.params, f.results = [s, acc, fn], [Var(P.slot(), 'r', A)]
            f.body = [RangeSeq('', None, x, VarRef(s), [Assign([VarRef(acc)], [CallV(VarRef(fn), [VarRef(acc), VarRef(x)])])]),
                      Return([VarRef(acc)])]
            return f

        def build_at(targs):
            (T,) = targs
            U = tint('uint')
            f = Func('g', pkg)
            s, i, d = Var(P.slot(), 's', ('slice', T)), Var(P.slot(), 'i', U), Var(P.slot(), 'd', T)
            f.params, f.results = [s, i, d], [Var(P.slot(), 'r', T)]
            f.body = [If([], Bin('eq', LenCap('len', VarRef(s)), IntLit(INT, 0)), [Return([VarRef(d)])], []),
                      Return([Index(VarRef(s), Bin('rem', VarRef(i), Conv(U, LenCap('len', VarRef(s)))))])]
            f.pure = True
            return f

        def build_max(targs):
            (T,) = targs
            f = Func('g', pkg)
            a, b = Var(P.slot(), 'a', T), Var(P.slot(), 'b', T)
            f.params, f.results = [a, b], [Var(P.slot(), 'r', T)]
            f.body = [If([], Bin('gt', VarRef(a), VarRef(b)), [Return([VarRef(a)])], []), Return([VarRef(b)])]
            f.pure = True
            return f

        def build_summ(targs):
            (T,) = targs
            K = self.mret[0]
            f = Func('g', pkg)
            xs, acc, x = Var(P.slot(), 'xs', ('slice', T)), Var(P.slot(), 'acc', K), Var(P.slot(), 'x', T)
            f.params, f.results = [xs], [Var(P.slot(), 'r', K)]
            f.body = [Decl([acc], [IntLit(K, 0)]),
                      RangeSeq('', None, x, VarRef(xs), [OpAssign('add', VarRef(acc), MCall(VarRef(x), 'Ma', [], K))]),
                      Return([VarRef(acc)])]
            return f

        def build_twice(targs):
            (T,) = targs
            fty = P.sig([T], [T])
            gm = self.generic_func('Map')
            inst = self.instance(gm, [T, T])
            f = Func('g', pkg)
            sv, fn = Var(P.slot(), 's', ('slice', T)), Var(P.slot(), 'f', fty)
            f.params, f.results = [sv, fn], [Var(P.slot(), 'r', ('slice', T))]
            f.body = [Return([Call(inst, [Call(inst, [VarRef(sv), VarRef(fn)]), VarRef(fn)])])]
            return f

        ints = ' | '.join(GO_KIND[k] for k in KINDS)
        spec = {'Map': (['T', 'U'], ['any', 'any'], build_map), 'Fold': (['T', 'A'], ['any', 'any'], build_fold),
                'At': (['T'], ['any'], build_at), 'Max': (['T'], [ints], build_max),
                'SumM': (['T'], [lambda cx: 'interface{ Ma() %s }' % go_type(self.mret[0], cx)], build_summ),
                'Twice': (['T'], ['any'], build_twice)}[name]
        if name == 'Twice':
            self.generic_func('Map')       # declared first: it lives in a package that is not later
        g = GenericFunc('%sG%s' % (self.pfx, name), pkg, spec[0], spec[1], spec[2])
        g.symbolic = g.build([('tparam', n) for n in g.tparams])
        P.go_funcs.append(g)
        setattr(self, key, g)
        self.feat.add('generic-func')
        return g

    def instance(self, g, targs):
        key = tuple(repr_type(t) for t in targs)
        if key not in g.instances:
            symbolic = any(isinstance(t, tuple) and t[0] == 'tparam' for t in targs)
            f = g.build(targs)
            f.generic = (g, targs)
            f.name = g.name
            f.pkg = g.pkg
            f.cost = 40
            if not symbolic:                # the symbolic instance only exists for the Go text of a generic caller
                self.P.add_func(f, printed=False)
            g.instances[key] = f
        return g.instances[key]

    def generic_type(self, name):
        key = '_gt_' + name
        if hasattr(self, key):
            return getattr(self, key)
        pkg = self.cur_pkg
        g = GenericType('%sG%s' % (self.pfx, name), pkg, ['A', 'B'] if name == 'Pair' else ['T'], None, None)
        sym = [('tparam', n) for n in g.tparams]
        g.symbolic = self.type_instance(g, sym, symbolic=True)
        self.P.go_types.append(g)
        setattr(self, key, g)
        self.feat.add('generic-type')
        return g

    def type_instance(self, g, targs, symbolic=False):
        key = tuple(repr_type(t) for t in targs)
        if key in g.instances:
            return g.instances[key]
        P = self.P
        primary = symbolic and not getattr(g, 'sym_started', False)
        g.sym_started = True
        d = TypeDecl(g.name, 'struct', g.pkg)
        d.generic = (g, targs)
        g.instances[key] = d
        ty = ('named', d)
        if not symbolic:
            P.add_type(d, printed=False)
        if g.name.endswith('Pair'):
            A, B = targs
            d.fields = [('Fst', A, False), ('Snd', B, False)]
            # func (p Pair[A,B]) Swap() Pair[B,A]
            other = self.type_instance(g, [B, A], symbolic) if repr_type(A) != repr_type(B) else d
            f = Func(g.name + '_Swap', g.pkg)
            f.recv, f.mname, f.pure = (d, False), 'Swap', True
            p = Var(P.slot(), 'p', ty)
            f.params, f.results = [p], [Var(P.slot(), 'r', ('named', other))]
            f.body = [Return([StructLit(('named', other), [Sel(VarRef(p), 'Snd', B), Sel(VarRef(p), 'Fst', A)])])]
            f.cost = 4
            ms = [f]
        else:
            (T,) = targs
            d.fields = [('Items', ('slice', T), False)]
            push = Func(g.name + '_Push', g.pkg)
            push.recv, push.mname, push.pure = (d, True), 'Push', False
            s, x = Var(P.slot(), 's', ('ptr', ty)), Var(P.slot(), 'x', T)
            push.params = [s, x]
            push.body = [Assign([Sel(VarRef(s), 'Items', ('slice', T))], [Append(Sel(VarRef(s), 'Items', ('slice', T)), [VarRef(x)])])]
            push.cost = 4
            pop = Func(g.name + '_Pop', g.pkg)
            pop.recv, pop.mname, pop.pure = (d, True), 'Pop', False
            s2 = Var(P.slot(), 's', ('ptr', ty))
            z, n, v = Var(P.slot(), 'z', T), Var(P.slot(), 'n', INT), Var(P.slot(), 'v', T)
            pop.params, pop.results = [s2], [Var(P.slot(), 'r0', T), Var(P.slot(), 'r1', BOOL)]
            it = Sel(VarRef(s2), 'Items', ('slice', T))
            pop.body = [Decl([z], [], zero=True), Decl([n], [LenCap('len', it)]),
                        If([], Bin('eq', VarRef(n), IntLit(INT, 0)), [Return([VarRef(z), BoolLit(False)])], []),
                        Decl([v], [Index(it, Bin('sub', VarRef(n), IntLit(INT, 1)))]),
                        Assign([it], [SliceOf(it, None, Bin('sub', VarRef(n), IntLit(INT, 1)))]),
                        Return([VarRef(v), BoolLit(True)])]
            pop.cost = 8
            ms = [push, pop]
        for f in ms:
            d.mdecls.append(f)
            if symbolic:
                if primary:
                    g.sym_methods.append(f)
            else:
                P.add_func(f, printed=False)
        return d

    def s_iface_chain(self, cx):
        """type Node struct{ Val K; Next I }; func (n Node) Ma() K recurses through the interface value Next"""
        r = self.rng
        P = self.P
        I = ('named', self.iface_ma)
        K = self.mret[0]
        if not hasattr(self, '_node'):
            d = TypeDecl('%sNode' % self.pfx, 'struct', self.npk)
            d.fields = [('Val', K, False), ('Next', I, False)]
            P.add_type(d)
            f = Func(d.name + '_Ma', d.pkg)
            f.recv, f.mname, f.pure = (d, False), 'Ma', True
            m = Var(P.slot(), 'm', ('named', d))
            f.params, f.results = [m], [Var(P.slot(), 'r', K)]
            nxt = Sel(VarRef(m), 'Next', I)
            f.body = [If([], Bin('eq', nxt, Zero(I)), [Return([Sel(VarRef(m), 'Val', K)])], []),
                      Return([Bin(r.choice(['add', 'sub', 'xor']), Bin('mul', Sel(VarRef(m), 'Val', K), IntLit(K, 3)), ICall(nxt, 'Ma', [], K))])]
            f.cost = 40
            P.add_func(f)
            d.mdecls.append(f)
            self._node = d
        d = self._node
        T = ('named', d)
        out, prev = [], Zero(I)
        n = r.randint(1, 4)
        v = None
        for i in range(n):
            v = self.newvar(cx, T, 'n')
            out.append(Decl([v], [StructLit(T, [self.int_expr(cx, K, 1), prev])]))
            prev = ToIface(I, Addr(VarRef(v))) if r.random() < 0.4 else ToIface(I, VarRef(v))
        out.append(Print(True, [MCall(VarRef(v), 'Ma', [], K)]))
        if self.flat_impls(cx, I) and r.random() < 0.6:
            # a chain that ends in an ordinary implementation
            w = self.newvar(cx, T, 'n')
            out.append(Decl([w], [StructLit(T, [self.int_expr(cx, K, 1), self.iface_value(cx, I)])]))
            out.append(Print(True, [ICall(ToIface(I, VarRef(w)), 'Ma', [], K)]))
        self.feat.add('recursion-through-interface')
        self.charge(cx, 60 * n)
        self.budget -= len(out)
        return out

    def s_blank(self, cx):
        """structs with blank fields declared in the CURRENT package: values that differ only in the blank field are equal
        (==, !=, switch, as array elements, as nested fields, inside interfaces)"""
        r = self.rng
        P = self.P
        K, K2 = tint(self.kind()), tint(self.kind())
        if not hasattr(self, '_blank_types'):
            d = TypeDecl('%sBl%d' % (self.pfx, len(P.types)), 'struct', cx.pkg)
            d.fields = [('A', K, False), ('_', K2, False), ('S', STR, False)]
            d.has_blank = True
            P.add_type(d)
            o = TypeDecl('%sBo%d' % (self.pfx, len(P.types)), 'struct', cx.pkg)
            o.fields = [('X', ('named', d), False), ('_', BOOL, False), ('Y', K, False)]
            o.has_blank = True
            P.add_type(o)
            self._blank_types = (d, o, K, K2)
        d, o, K, K2 = self._blank_types
        if d.pkg != cx.pkg:
            return None
        T, O = ('named', d), ('named', o)
        a, b, c = self.newvar(cx, T, 'bl'), self.newvar(cx, T, 'bl'), self.newvar(cx, T, 'bl')
        av, sv = self.int_expr(cx, K, 1), self.str_lit()
        mk = lambda x, bl, s_: StructLit(T, [x, bl, s_], positional=True)
        out = [Decl([a], [mk(av, self.int_lit(K2), sv)]),
               Decl([b], [mk(VarRef(a).__class__(a) if False else Sel(VarRef(a), 'A', K), self.int_expr(cx, K2, 1, nonconst=True), Sel(VarRef(a), 'S', STR))]),
               Decl([c], [mk(Bin('add', Sel(VarRef(a), 'A', K), IntLit(K, 1)), self.int_lit(K2), Sel(VarRef(a), 'S', STR))]),
               Print(True, [Bin('eq', VarRef(a), VarRef(b)), Bin('ne', VarRef(a), VarRef(b)), Bin('eq', VarRef(a), VarRef(c)),
                            Bin('eq', ToIface('any', VarRef(a)), ToIface('any', VarRef(b)))])]
        # as a switch tag
        out.append(Switch('', [], VarRef(a), [Case([VarRef(c)], [Print(True, [StrLit(b"switch: c")])]),
                                              Case([VarRef(b)], [Print(True, [StrLit(b"switch: b")])]),
                                              Case([], [Print(True, [StrLit(b"switch: none")])], default=True)]))
        # as array elements and nested fields
        AT = ('arr', 2, T)
        x, y = self.newvar(cx, AT, 'ba'), self.newvar(cx, AT, 'ba')
        out += [Decl([x], [SeqLit(AT, [VarRef(a), VarRef(c)])]), Decl([y], [SeqLit(AT, [VarRef(b), VarRef(c)])]),
                Print(True, [Bin('eq', VarRef(x), VarRef(y)), Bin('ne', VarRef(x), VarRef(y))])]
        p, q = self.newvar(cx, O, 'bo'), self.newvar(cx, O, 'bo')
        yv = self.int_expr(cx, K, 1)
        out += [Decl([p], [StructLit(O, [VarRef(a), BoolLit(True), yv], positional=True)]),
                Decl([q], [StructLit(O, [VarRef(b), BoolLit(False), Sel(VarRef(p), 'Y', K)], positional=True)]),
                Print(True, [Bin('eq', VarRef(p), VarRef(q)), Bin('ne', VarRef(p), VarRef(q))])]
        for v in (a, b, c, x, y, p, q):
            cx.add(v)
        self.feat.add('blank-field-compare')
        self.charge(cx, 30)
        self.budget -= 6
        return out

    def s_embfunc(self, cx):
        """embedding (by value and by pointer) of a struct that CARRIES A FUNC-TYPED FIELD: promoted methods called directly,
        through interfaces (static conversion, type assertion, type switch) and as method values; the promoted func field called"""
        r = self.rng
        P = self.P
        K = self.mret[0]
        I1, I2 = ('named', self.iface_ma), ('named', self.iface_mb)
        if I1[1].pkg > cx.pkg:
            return None
        if not hasattr(self, '_embf'):
            fty = P.sig([K], [K])
            b = TypeDecl('%sFb%d' % (self.pfx, len(P.types)), 'struct', cx.pkg)
            b.fields = [('N', K, False), ('Fn', fty, False)]
            P.add_type(b)
            B = ('named', b)
            ma = Func(b.name + '_Ma', b.pkg)
            ma.recv, ma.mname, ma.pure = (b, False), 'Ma', True
            m = Var(P.slot(), 'm', B)
            ma.params, ma.results = [m], [Var(P.slot(), 'r', K)]
            ma.body = [Return([Bin('add', Bin('mul', Sel(VarRef(m), 'N', K), IntLit(K, 3)), IntLit(K, 1))])]
            ma.cost = 4
            mb = Func(b.name + '_Mb', b.pkg)
            mb.recv, mb.mname, mb.pure = (b, True), 'Mb', False
            m2, a2 = Var(P.slot(), 'm', ('ptr', B)), Var(P.slot(), 'a', K)
            mb.params = [m2, a2]
            mb.body = [Assign([Sel(VarRef(m2), 'N', K)], [Bin('add', Sel(VarRef(m2), 'N', K), VarRef(a2))])]
            mb.cost = 4
            for f in (ma, mb):
                P.add_func(f)
                b.mdecls.append(f)
            o = TypeDecl('%sFo%d' % (self.pfx, len(P.types)), 'struct', cx.pkg)
            o.fields = [(b.name, B, True), ('Tag', K, False)]
            P.add_type(o)
            q = TypeDecl('%sFp%d' % (self.pfx, len(P.types)), 'struct', cx.pkg)
            q.fields = [(b.name, ('ptr', B), True), ('Tag', K, False)]
            P.add_type(q)
            self._embf = (b, o, q, fty)
        b, o, q, fty = self._embf
        if b.pkg > cx.pkg:
            return None
        B, O, Q = ('named', b), ('named', o), ('named', q)
        nv = lambda t, h: self.newvar(cx, t, h)
        bv, ov, qv = nv(B, 'fb'), nv(O, 'fo'), nv(Q, 'fp')
        lit = self.closure(cx, fty, nstmts=1)
        out = [Decl([bv], [StructLit(B, [self.int_expr(cx, K, 1), lit])]),
               Decl([ov], [StructLit(O, [VarRef(bv), self.int_expr(cx, K, 1)])]),
               Decl([qv], [StructLit(Q, [Addr(VarRef(bv)), self.int_expr(cx, K, 1)])]),
               Print(True, [StrLit(b"direct"), MCall(VarRef(ov), 'Ma', [], K), MCall(VarRef(qv), 'Ma', [], K), MCall(Addr(VarRef(ov)), 'Ma', [], K)])]
        # static conversions to interfaces: value embedding (value and pointer), pointer embedding (value)
        g1, g2, g3, g4 = nv(I1, 'g'), nv(I1, 'g'), nv(I1, 'g'), nv(I2, 'g')
        out += [Decl([g1], [ToIface(I1, VarRef(ov))]), Decl([g2], [ToIface(I1, Addr(VarRef(ov)))]), Decl([g3], [ToIface(I1, VarRef(qv))]),
                Decl([g4], [ToIface(I2, VarRef(qv))]),
                Print(True, [StrLit(b"converted"), ICall(VarRef(g1), 'Ma', [], K), ICall(VarRef(g2), 'Ma', [], K), ICall(VarRef(g3), 'Ma', [], K),
                             ICall(VarRef(g4), 'Ma', [], K)]),
                ExprS(ICall(VarRef(g4), 'Mb', [self.int_expr(cx, K, 1)], None)),
                Print(True, [StrLit(b"after Mb"), Sel(VarRef(bv), 'N', K), MCall(VarRef(qv), 'Ma', [], K), MCall(VarRef(ov), 'Ma', [], K)])]
        # dynamic: assertion and type switch on boxed values
        for src, nm in ((VarRef(ov), b"outer value"), (Addr(VarRef(ov)), b"outer pointer"), (VarRef(qv), b"ptr-embedding value")):
            y, v, ok = nv('any', 'y'), nv(I1, 'g'), nv(BOOL, 'ok')
            out += [Decl([y], [ToIface('any', src)]), Decl([v, ok], [Assert(VarRef(y), I1, True)]),
                    If([], VarRef(ok), [Print(True, [StrLit(nm), StrLit(b"implements"), ICall(VarRef(v), 'Ma', [], K)])],
                       [Print(True, [StrLit(nm), StrLit(b"does NOT implement")])])]
            slot = P.slot()
            xs = [Var(slot, 'w%d_0' % slot, I2), Var(slot, 'w%d_1' % slot, I1), Var(slot, 'w%d_d' % slot, 'any')]
            out.append(TypeSwitch('', xs, VarRef(y), [TCase([I2], [Print(True, [StrLit(b"case Ma+Mb"), ICall(VarRef(xs[0]), 'Ma', [], K)])]),
                                                      TCase([I1], [Print(True, [StrLit(b"case Ma"), ICall(VarRef(xs[1]), 'Ma', [], K)])]),
                                                      TCase([], [Print(True, [StrLit(b"case default")])], default=True)]))
        # method values and the promoted func-typed field
        mv, mq, rr, r2, r3 = nv(P.sig([], [K]), 'mv'), nv(P.sig([], [K]), 'mv'), nv(K, 'r'), nv(K, 'r'), nv(K, 'r')
        out += [Decl([mv], [MVal(VarRef(ov), 'Ma', P.sig([], [K]))]), Decl([mq], [MVal(VarRef(qv), 'Ma', P.sig([], [K]))]),
                ExprS(MCall(VarRef(ov), 'Mb', [IntLit(K, 2)], None)),
                Decl([rr], [CallV(VarRef(mv), [])]), Decl([r2], [CallV(VarRef(mq), [])]),
                Decl([r3], [CallV(Sel(VarRef(ov), 'Fn', fty), [self.int_expr(cx, K, 1)])]),
                Print(True, [StrLit(b"method values"), VarRef(rr), VarRef(r2), VarRef(r3), MCall(VarRef(ov), 'Ma', [], K)])]
        self.feat.add('embedding-of-struct-with-func-field')
        self.charge(cx, 200)
        self.budget -= 10
        return out

    def s_ifaceeq(self, cx):
        """interface equality where both operands are THE SAME boxed value: x == x, a copy of the interface variable - for
        comparable values (true), NaN-carrying values (false) and uncomparable dynamic types (run-time panic, recovered)"""
        r = self.rng
        P = self.P
        K = tint(self.kind())
        if not hasattr(self, '_eqany'):
            # func EqAny(a, b any) (r bool) { defer func() { if e := recover(); e != nil { println("recovered compare panic"); r = false } }(); return a == b }
            f = self.new_func('EqAny', False, ['any', 'any'], [BOOL], pkg=cx.pkg, named=True)
            a, b = f.params
            res = f.results[0]
            lit = Func('lit', f.pkg)
            lit.is_lit = True
            e = Var(P.slot(), 'e', 'any')
            lit.body = [Decl([e], [Recover()]),
                        If([], Bin('ne', VarRef(e), Zero('any')), [Print(True, [StrLit(b"recovered compare panic")]), Assign([VarRef(res)], [BoolLit(False)])], [])]
            P.add_func(lit, printed=False)
            f.body = [Defer(FuncLit(lit, P.sig([], [])), []), Return([Bin('eq', VarRef(a), VarRef(b))])]
            f.cost = 10
            P.add_func(f)
            us = TypeDecl('%sUs%d' % (self.pfx, len(P.types)), 'struct', cx.pkg)
            us.fields = [('A', K, False), ('S', ('slice', K), False)]
            P.add_type(us)
            fs = TypeDecl('%sFs%d' % (self.pfx, len(P.types)), 'struct', cx.pkg)
            fs.fields = [('A', K, False), ('F', F64, False)]
            P.add_type(fs)
            self._eqany = (f, us, fs, K)
        f, us, fs, K = self._eqany
        if f.pkg > cx.pkg:
            return None
        z, nan = self.newvar(cx, F64, 'z'), self.newvar(cx, F64, 'nan')
        out = [Decl([z], [FloatLit(0.0)]), Decl([nan], [Bin('quo', VarRef(z), VarRef(z))]),
               Print(True, [StrLit(b"nan"), Bin('eq', VarRef(nan), VarRef(nan)), Bin('ne', VarRef(nan), VarRef(nan)), Bin('lt', VarRef(z), FloatLit(1.5))])]
        SK = ('slice', K)
        fty = P.sig([], [K])
        lit = self.closure(cx, fty, nstmts=1)
        boxes = [
            ('slice', SeqLit(SK, [self.int_expr(cx, K, 1) for _ in range(r.randint(0, 2))])),
            ('func', lit),
            ('struct-with-slice', StructLit(('named', us), [self.int_expr(cx, K, 1), SeqLit(SK, [self.int_lit(K)])])),
            ('nan', VarRef(nan)),
            ('struct-with-nan', StructLit(('named', fs), [self.int_expr(cx, K, 1), VarRef(nan)])),
            ('array-with-nan', SeqLit(('arr', 2, F64), [FloatLit(1.5), VarRef(nan)])),
            ('float', FloatLit(2.0) if False else Bin('add', VarRef(z), FloatLit(2.0))),
            ('int', self.int_expr(cx, K, 1, nonconst=True)),
            ('string', self.str_expr(cx, 1)),
        ]
        r.shuffle(boxes)
        prev = None
        for name, e in boxes[:r.randint(5, 9)]:
            x, y = self.newvar(cx, 'any', 'bx'), self.newvar(cx, 'any', 'by')
            out += [Decl([x], [ToIface('any', e)]), Decl([y], [VarRef(x)]),
                    Print(True, [StrLit(name.encode()), Call(f, [VarRef(x), VarRef(x)]), Call(f, [VarRef(x), VarRef(y)]), Call(f, [VarRef(y), VarRef(x)])])]
            if prev is not None:
                out.append(Print(True, [StrLit(b"different types"), Call(f, [VarRef(x), VarRef(prev)])]))
            if name in ('nan', 'struct-with-nan', 'array-with-nan', 'float', 'int', 'string'):
                out.append(Print(True, [Bin('eq', VarRef(x), VarRef(x)), Bin('ne', VarRef(x), VarRef(y))]))
            prev = x
        self.feat.add('iface-eq-same-boxed-value')
        self.charge(cx, 150)
        self.budget -= 8
        return out

    BIG_SIZES = [500, 520, 520, 1024, 1024, 2000, 5000, 5000, 8190, 8200]
    big_sizes = None

    def s_big(self, cx):
        """large values (4 KB … 64 KB): every copy is a snapshot — through a pointer and into an interface, by-value parameter
        and result, captured by a closure, array assignment"""
        r = self.rng
        P = self.P
        n = r.choice(self.big_sizes or self.BIG_SIZES)
        K = tint(self.kind())
        I64 = tint('i64')
        key = '_big_%d' % n
        if not hasattr(self, key):
            d = TypeDecl('%sBig%d' % (self.pfx, n), 'struct', cx.pkg)
            AT = ('arr', n, I64)
            d.fields = [('Id', INT, False), ('Buf', AT, False), ('Tag', K, False)]
            P.add_type(d)
            T = ('named', d)
            # func snap(p *Big, k int) any { old := *p; p.Id++; p.Buf[k] = -1; return any(old) }
            f = self.new_func('Snap%d' % n, False, [('ptr', T), INT], ['any'], pkg=cx.pkg)
            pp, kk = f.params
            old = Var(P.slot(), 'old', T)
            f.body = [Decl([old], [Deref(VarRef(pp))]),
                      OpAssign('add', Sel(VarRef(pp), 'Id', INT), IntLit(INT, 1), incdec=True),
                      Assign([Index(Sel(VarRef(pp), 'Buf', AT), VarRef(kk))], [IntLit(I64, -1)]),
                      Return([ToIface('any', VarRef(old))])]
            f.cost = 10
            P.add_func(f)
            # func byval(b Big, k int) Big { b.Id += 100; b.Buf[k] = 5; return b }
            g = self.new_func('ByVal%d' % n, False, [T, INT], [T], pkg=cx.pkg)
            bb, k2 = g.params
            g.body = [OpAssign('add', Sel(VarRef(bb), 'Id', INT), IntLit(INT, 100)),
                      Assign([Index(Sel(VarRef(bb), 'Buf', AT), VarRef(k2))], [IntLit(I64, 5)]),
                      Return([VarRef(bb)])]
            g.cost = 10
            P.add_func(g)
            setattr(self, key, (d, f, g))
        d, f, g = getattr(self, key)
        if d.pkg > cx.pkg:
            return None
        T, AT = ('named', d), ('arr', n, I64)
        k = r.choice([0, 1, n // 2, n - 1])
        kl = IntLit(INT, k)
        b, y, o, ok = self.newvar(cx, T, 'big'), self.newvar(cx, 'any', 'y'), self.newvar(cx, T, 'big'), self.newvar(cx, BOOL, 'ok')
        buf = lambda v: Index(Sel(VarRef(v), 'Buf', AT), kl)
        idv = lambda v: Sel(VarRef(v), 'Id', INT)
        out = [Decl([b], [], zero=True),
               Assign([idv(b)], [self.int_expr(cx, INT, 1)]),
               Assign([buf(b)], [self.int_expr(cx, I64, 1)]),
               Decl([y], [Call(f, [Addr(VarRef(b)), kl])]),
               Decl([o, ok], [Assert(VarRef(y), T, True)]),
               Print(True, [StrLit(b"snapshot"), VarRef(ok), idv(o), buf(o), idv(b), buf(b)])]
        c = self.newvar(cx, T, 'big')
        out += [Decl([c], [Call(g, [VarRef(b), kl])]), Print(True, [StrLit(b"byvalue"), idv(c), buf(c), idv(b), buf(b)])]
        # closure capturing the big variable; s is a snapshot taken before the closure runs
        lit = Func('lit', cx.pkg)
        lit.is_lit = True
        lit.results = [Var(P.slot(), 'r', INT)]
        lit.body = [OpAssign('mul', idv(b), IntLit(INT, 2)), Assign([buf(b)], [IntLit(I64, 77)]), Return([idv(b)])]
        P.add_func(lit, printed=False)
        fv, s_, rr = self.newvar(cx, P.sig([], [INT]), 'f'), self.newvar(cx, T, 'big'), self.newvar(cx, INT)
        out += [Decl([fv], [FuncLit(lit, P.sig([], [INT]))]), Decl([s_], [VarRef(b)]), Decl([rr], [CallV(VarRef(fv), [])]),
                Print(True, [StrLit(b"closure"), VarRef(rr), idv(s_), buf(s_), idv(b), buf(b)])]
        # plain arrays: assignment, copy through a pointer, into an interface
        a, a2, pa, a3, ia, a4, ok2 = (self.newvar(cx, AT, 'arr'), self.newvar(cx, AT, 'arr'), self.newvar(cx, ('ptr', AT), 'pa'),
                                      self.newvar(cx, AT, 'arr'), self.newvar(cx, 'any', 'ia'), self.newvar(cx, AT, 'arr'), self.newvar(cx, BOOL, 'ok'))
        el = lambda v: Index(VarRef(v), kl)
        out += [Decl([a], [], zero=True), Assign([el(a)], [IntLit(I64, 3)]), Decl([a2], [VarRef(a)]), Assign([el(a)], [IntLit(I64, 4)]),
                Decl([pa], [Addr(VarRef(a))]), Decl([a3], [Deref(VarRef(pa))]), Assign([Index(VarRef(pa), kl)], [IntLit(I64, 5)]),
                Decl([ia], [ToIface('any', VarRef(a3))]), Assign([el(a3)], [IntLit(I64, 6)]),
                Decl([a4, ok2], [Assert(VarRef(ia), AT, True)]),
                Print(True, [StrLit(b"arrays"), el(a2), el(a3), el(a4), el(a), VarRef(ok2)])]
        self.feat.add('large-value-%dKB' % max(1, n * 8 // 1024))
        self.feat.add('large-values')
        self.charge(cx, 200)
        self.budget -= 8
        return out

    def s_generic(self, cx):
        """a statement group using a generic function or type at random type arguments"""
        r = self.rng
        if self.cur_pkg > cx.pkg:
            return None
        c = r.random()
        k1, k2 = tint(self.kind()), tint(self.kind())
        out = []
        if c < 0.22:
            g = self.generic_func('Map')
            U = r.choice([k2, STR, BOOL])
            inst = self.instance(g, [k1, U])
            s = SeqLit(('slice', k1), [self.int_expr(cx, k1, 1) for _ in range(r.randint(0, 4))])
            lit = self.closure(cx, self.P.sig([k1], [U]), nstmts=2)
            v = self.newvar(cx, ('slice', U), 's')
            cx.add(v)
            out = [Decl([v], [Call(inst, [s, lit])])]
            e, kx = self.newvar(cx, U, 'e'), self.newvar(cx, INT, 'k')
            out.append(RangeSeq('', kx, e, VarRef(v), [Print(False, [VarRef(kx), StrLit(b"="), VarRef(e), StrLit(b" ")])]))
            out.append(Print(True, [LenCap('len', VarRef(v))]))
            self.charge(cx, 60)
        elif c < 0.36:
            g = self.generic_func('Fold')
            A = r.choice([k2, STR])
            inst = self.instance(g, [k1, A])
            s = SeqLit(('slice', k1), [self.int_expr(cx, k1, 1) for _ in range(r.randint(0, 4))])
            lit = self.closure(cx, self.P.sig([A, k1], [A]), nstmts=1)
            v = self.newvar(cx, A)
            out = [Decl([v], [Call(inst, [s, self.expr(cx, A, 1), lit])]), Print(True, [VarRef(v)])]
            cx.add(v)
            self.charge(cx, 60)
        elif c < 0.46:
            g = self.generic_func('Max')
            inst = self.instance(g, [k1])
            inst.pure = True
            out = [Print(True, [Call(inst, [self.int_expr(cx, k1, 1, nonconst=True), self.int_expr(cx, k1, 1)])])]
        elif c < 0.56:
            g = self.generic_func('At')
            T = r.choice([k1, STR])
            inst = self.instance(g, [T])
            s = SeqLit(('slice', T), [self.expr(cx, T, 1) for _ in range(r.randint(0, 4))])
            out = [Print(True, [Call(inst, [s, self.int_expr(cx, tint('uint'), 1, nonconst=True), self.expr(cx, T, 1)])])]
        elif c < 0.72 and [t for t in self.iface_ma.impls if self.type_pkg(t) <= cx.pkg and t[0] == 'named' and not self.has_iface(t)]:
            # constraint with a method, instantiated at a struct type and at the interface type itself
            g = self.generic_func('SumM')
            impls = [t for t in self.iface_ma.impls if self.type_pkg(t) <= cx.pkg and t[0] == 'named' and not self.has_iface(t)]
            T = r.choice(impls)
            I = ('named', self.iface_ma)
            out = [Print(True, [Call(self.instance(g, [T]), [SeqLit(('slice', T), [self.leaf(cx, T, 1) for _ in range(r.randint(0, 3))])])])]
            if self.flat_impls(cx, I):
                out.append(Print(True, [Call(self.instance(g, [I]), [SeqLit(('slice', I), [self.iface_value(cx, I) for _ in range(r.randint(1, 3))])])]))
            self.feat.add('generic-method-constraint')
            self.charge(cx, 60)
        elif c < 0.8:
            g = self.generic_func('Twice')
            inst = self.instance(g, [k1])
            lit = self.closure(cx, self.P.sig([k1], [k1]), nstmts=1)
            v = self.newvar(cx, ('slice', k1), 's')
            out = [Decl([v], [Call(inst, [SeqLit(('slice', k1), [self.int_expr(cx, k1, 1) for _ in range(r.randint(0, 3))]), lit])])]
            cx.add(v)
            v.noappend = True
            e, kx = self.newvar(cx, k1, 'e'), self.newvar(cx, INT, 'k')
            out.append(RangeSeq('', kx, e, VarRef(v), [Print(False, [VarRef(kx), StrLit(b"="), VarRef(e), StrLit(b" ")])]))
            out.append(Print(True, [LenCap('len', VarRef(v))]))
            self.feat.add('generic-calls-generic')
            self.charge(cx, 120)
        elif c < 0.9:
            g = self.generic_type('Pair')
            A, B = k1, r.choice([STR, k2, BOOL])
            d = self.type_instance(g, [A, B])
            p = self.newvar(cx, ('named', d), 'p')
            sw = [f for f in d.mdecls if f.mname == 'Swap'][0]
            q = self.newvar(cx, sw.results[0].ty, 'q')
            pinit = StructLit(('named', d), [self.expr(cx, A, 1), self.expr(cx, B, 1)])
            cx.add(p)
            cx.add(q)
            out = [Decl([p], [pinit]),
                   Decl([q], [MCall(VarRef(p), 'Swap', [], sw.results[0].ty)]),
                   Print(True, [Sel(VarRef(q), 'Fst', B), Sel(VarRef(q), 'Snd', A), Sel(VarRef(p), 'Fst', A)])]
        else:
            g = self.generic_type('Stack')
            T = r.choice([k1, STR])
            d = self.type_instance(g, [T])
            st = self.newvar(cx, ('named', d), 'st')
            out = [Decl([st], [], zero=True)]
            for _ in range(r.randint(1, 3)):
                out.append(ExprS(MCall(VarRef(st), 'Push', [self.expr(cx, T, 1)], None)))
            for _ in range(r.randint(1, 3)):
                a, ok = self.newvar(cx, T), self.newvar(cx, BOOL, 'ok')
                out.append(Decl([a, ok], [MCall(VarRef(st), 'Pop', [], None)]))
                out.append(Print(True, [VarRef(a), VarRef(ok)]))
            self.charge(cx, 40)
        self.budget -= len(out)
        return out

    # ------------------------------------------------------------------ whole program
    def program(self):
        r = self.rng
        P = self.P
        self.recovering = []
        self.rt_err_switch = getattr(self, 'rt_err_switch', False)
        self.mret = [tint(self.kind())]
        self.make_ifaces()
        for _ in range(r.randint(1, 3)):
            d = self.make_struct()
        if r.random() < 0.5:
            d = TypeDecl('%sN%d' % (self.pfx, len(P.types)), 'basic', self.pkg())
            d.under = tint(self.kind())
            P.add_type(d)
            self.nameds.append(d)
        if r.random() < 0.6:
            g = Global(len(P.globals), '%sG%d' % (self.pfx, len(P.globals)), tint(self.kind()), None, self.cur_pkg)
            g.init = self.int_lit(g.ty)
            P.globals.append(g)
        for _ in range(r.randint(1, 2)):
            self.make_func(True)
        for d in list(self.structs) + list(self.nameds):
            self.cur_pkg = max(self.cur_pkg, d.pkg)
            if d.pkg == self.cur_pkg or True:
                save = self.cur_pkg
                self.make_methods_in_pkg(d)
        self.fill_impls()
        if r.random() < 0.5:
            self.make_recursive()
        if r.random() < 0.5:
            self.make_counter()
        if r.random() < 0.5:
            self.make_variadic()
        for _ in range(r.randint(1, 3)):
            self.make_func(r.random() < 0.3)
        if r.random() < 0.6:
            self.make_recovering()
        # main
        self.cur_pkg = self.npk
        f = Func('%sMain' % self.pfx, self.npk)
        cx = Ctx(f, [], pure=False)
        cx.is_main = True
        body = []
        if r.random() < 0.3:
            lit = Func('lit', f.pkg)
            lit.is_lit = True
            lit.body = [Print(True, [StrLit(b"main deferred")])]
            P.add_func(lit, printed=False)
            body.append(Defer(FuncLit(lit, P.sig([], [])), []))
        body.append(self.seed(cx))
        self.budget = max(self.budget, 12)
        while self.budget > 0:
            c = r.random()
            if c < 0.12:
                s = self.s_generic(cx)
                if s:
                    body += s
                    continue
            if c < 0.16:
                body += self.s_iface_chain(cx)
                continue
            if c < 0.5 and not hasattr(self, '_embf_done') and self.budget < 50:
                self._embf_done = True
                st = self.s_embfunc(cx)
                if st:
                    body += st
                    continue
            if c < 0.3 and not hasattr(self, '_ifeq_done') and self.budget < 45:
                self._ifeq_done = True
                st = self.s_ifaceeq(cx)
                if st:
                    body += st
                    continue
            if c < 0.2 and not hasattr(self, '_blank_done'):
                self._blank_done = True
                st = self.s_blank(cx)
                if st:
                    body += st
                    continue
            if self.big_sizes and not hasattr(self, '_big_done') and self.budget < 40:
                # large values are expensive to compile (LLVM 14 takes minutes at -O2): only where the caller asks for them
                self._big_done = True
                st = self.s_big(cx)
                if st:
                    body += st
                    continue
            if 0.215 <= c < 0.27 and self.recovering:
                fn = r.choice(self.recovering)
                v = self.newvar(cx, fn.results[0].ty)
                body += [Decl([v], [Call(fn, [self.int_expr(cx, fn.params[0].ty, 1), IntLit(INT, r.randint(0, fn.sel_range))])]), Print(True, [VarRef(v)])]
                cx.add(v)
                self.charge(cx, fn.cost)
                self.budget -= 2
                continue
            body += self.stmt(cx)
        # final state dump: every printable variable still in scope
        dump = [VarRef(v) for v in cx.scopes[0] if is_int(under(v.ty)) or under(v.ty) in (BOOL, STR)][:8]
        if dump:
            body.append(Print(True, dump))
        c = r.random()
        if c < 0.1:
            body.append(Panic(ToIface('any', Bin('add', StrLit(b"fatal-"), self.str_lit()))))
            self.feat.add('uncaught-panic')
        elif c < 0.15:
            body.append(Panic(ToIface('any', self.int_expr(cx, INT, 1, nonconst=True))))
            self.feat.add('uncaught-panic')
        elif c < 0.2:
            body.append(Exit(IntLit(INT, r.randint(0, 100))))
            self.feat.add('exit-code')
        elif c < 0.25:
            z = self.newvar(cx, INT)
            body += [Decl([z], [IntLit(INT, 0)]), Print(True, [Bin('quo', self.int_expr(cx, INT, 1, nonconst=True), VarRef(z))])]
            self.feat.add('uncaught-runtime-panic')
        f.body = body
        P.add_func(f)
        P.main = f
        return P

    def make_methods_in_pkg(self, d):
        save = self.cur_pkg
        self.cur_pkg = d.pkg
        # method bodies may only refer to declarations visible from the type's package
        vis_s, vis_p, vis_i = self.structs, self.pure_funcs, self.impure_funcs
        self.structs = [s for s in self.structs if s.pkg <= d.pkg]
        self.pure_funcs = [f for f in self.pure_funcs if f.pkg <= d.pkg]
        self.impure_funcs = [f for f in self.impure_funcs if f.pkg <= d.pkg]
        nm = self.nameds
        self.nameds = [n for n in nm if n.pkg <= d.pkg]
        try:
            self.make_methods(d)
        finally:
            self.structs, self.pure_funcs, self.impure_funcs, self.nameds = vis_s, vis_p, vis_i, nm
            self.cur_pkg = save


# ---------------------------------------------------------------------------------------------- emission
INPUT_LLGO = '''//go:build !goref

package main

import _ "unsafe"

//go:linkname getchar C.getchar
func getchar() int32

//go:linkname cexit C.exit
func cexit(code int32)

func readIndex() int {
	v := 0
	c := getchar()
	for c >= '0' && c <= '9' {
		v = v*10 + int(c-'0')
		c = getchar()
	}
	return v
}
'''

INPUT_GO = '''//go:build goref

package main

import "os"

func cexit(code int32) { os.Exit(int(code)) }

func readIndex() int {
	v := 0
	b := make([]byte, 1)
	for {
		n, _ := os.Stdin.Read(b)
		if n == 0 || b[0] < '0' || b[0] > '9' {
			return v
		}
		v = v*10 + int(b[0]-'0')
	}
}
'''


class RawProgram:
    """a hand-written corpus program given as Go text (declarations of package main, entry function P<idx>Main): compared
    between llgo and the reference toolchain only (no Lean evaluation: it uses constructs outside the fragment or runs too long)"""
    raw = True

    def __init__(self, idx, text, seed, known_key, feature):
        self.idx, self.text, self.seed, self.known_key = idx, text.replace('@P@', 'P%d' % idx), seed, known_key
        self.features = {feature}
        self.main = type('M', (), {'name': 'P%dMain' % idx})()
        self.funcs = []


def go_decls(P, pkg, npk):
    """Go text of program P's declarations that live in package `pkg` + the set of imported packages"""
    if getattr(P, 'raw', False):
        return (P.text if pkg == npk else ''), set()
    cx = Cx(P, pkg, npk)
    out = []
    for d in P.go_types:
        if d.pkg != pkg:
            continue
        if isinstance(d, GenericType):
            tp = '[' + ', '.join('%s any' % n for n in d.tparams) + ']'
            out.append(type_decl_go(d.symbolic, cx, name=d.name, tparams=tp))
            for f in d.sym_methods:
                out.append(f.go_decl(cx))
        else:
            out.append(type_decl_go(d, cx))
    for g in P.globals:
        if g.pkg == pkg:
            out.append('var %s %s = %s\n\n' % (g.name, go_type(g.ty, cx), g.init.go(cx)))
    for f in P.go_funcs:
        if f.pkg != pkg:
            continue
        if isinstance(f, GenericFunc):
            tp = '[' + ', '.join('%s %s' % (n, c(cx) if callable(c) else c) for n, c in zip(f.tparams, f.constraints)) + ']'
            s = f.symbolic
            s.name = f.name
            out.append(s.go_decl(cx, tparams=tp))
        else:
            out.append(f.go_decl(cx))
    return ''.join(out), cx.used


def emit_module(progs, npk):
    """-> {filename: content} of one Go module holding all programs, split into npk packages (npk = package main)"""
    files = {'input_llgo.go': INPUT_LLGO, 'input_go.go': INPUT_GO}
    for pkg in range(1, npk + 1):
        body, used = [], set()
        for P in progs:
            t, u = go_decls(P, pkg, npk)
            body.append(t)
            used |= u
        imports = ''.join('import p%d "verifprog/p%d"\n' % (u, u) for u in sorted(used))
        if pkg == npk:
            sw = ''.join('\tcase %d:\n\t\t%s()\n' % (P.idx, P.main.name) for P in progs)
            main = 'func main() {\n\tswitch readIndex() {\n%s\t}\n}\n' % sw
            files['main.go'] = 'package main\n\n' + imports + '\n' + ''.join(body) + main
        else:
            files['p%d/p%d.go' % (pkg, pkg)] = 'package p%d\n\n' % pkg + imports + '\n' + ''.join(body)
    return files


def generate(seed, idx, npk):
    g = ProgGen(random.Random(seed), idx, npk)
    return g.program()


LAYOUTS = {1: {1: 1, 2: 1, 3: 1, 4: 1}, 2: {1: 1, 2: 1, 3: 1, 4: 2}, 3: {1: 1, 2: 2, 3: 2, 4: 3}, 4: {1: 1, 2: 2, 3: 3, 4: 4}}


def relayout(P, npk):
    """programs are generated over 4 levels (level 4 = the entry function); a layout maps levels to packages monotonically,
    so the SAME program can be emitted as 1, 2, 3 or 4 packages"""
    if getattr(P, 'raw', False):
        return
    m = LAYOUTS[npk]
    objs = list(P.types) + list(P.go_types) + list(P.funcs) + list(P.go_funcs) + list(P.globals)
    for o in list(objs):
        if isinstance(o, GenericType):
            objs += [o.symbolic] + o.sym_methods + list(o.instances.values())
        if isinstance(o, GenericFunc):
            objs += [o.symbolic] + list(o.instances.values())
    for o in objs:
        if not hasattr(o, 'level'):
            o.level = o.pkg
        o.pkg = m[o.level]


def generate(seed, idx, big_sizes=None):
    """big_sizes: element counts of the [n]int64 buffers of the large-value group this program should contain (None: none)"""
    g = ProgGen(random.Random(seed), idx, 4)
    g.big_sizes = big_sizes
    P = g.program()
    P.big = bool(big_sizes) and 'large-values' in P.features
    return P
