import LlgoVerif.Spec.PyShape
/-! REGENERATED on every run of ./check C19 from the -O0 IR llgo emits for the generated Python-using packages
    (harness/c19/gen.py, harness/c19/irfacts.py). Do not edit. -/
namespace LlgoVerif.Gen.C19
open LlgoVerif.PyGuard

def progs : List GenProg := [
  -- program c19s0p20080
  { main := 28,
    entry := [.pyInitialize, .rtInit, .runtimeInit, .mainInit, .mainMain],
    calls := [(25, .call (2, 1)), (25, .var (2, 2)), (25, .var (2, 3)), (25, .var (2, 4)), (25, .var (2, 5)), (25, .call (2, 0)), (25, .call (3, 1)), (25, .var (3, 2)), (25, .var (3, 3)), (25, .var (3, 4)), (25, .var (3, 5)), (25, .call (3, 0)), (25, .explicitImport 0), (25, .explicitImport 1), (26, .call (1, 1)), (26, .var (1, 2)), (26, .var (1, 3)), (26, .var (1, 4)), (26, .var (1, 5)), (26, .call (1, 0)), (26, .call (3, 1)), (26, .var (3, 2)), (26, .var (3, 3)), (26, .var (3, 4)), (26, .var (3, 5)), (26, .call (3, 0)), (26, .explicitImport 0), (26, .explicitImport 1), (27, .call (3, 1)), (27, .var (3, 2)), (27, .var (3, 3)), (27, .var (3, 4)), (27, .var (3, 5)), (27, .call (3, 0)), (27, .explicitImport 0), (27, .explicitImport 1), (28, .call (0, 1)), (28, .var (0, 2)), (28, .var (0, 3)), (28, .var (0, 4)), (28, .var (0, 5)), (28, .call (0, 0)), (28, .call (1, 1)), (28, .var (1, 2)), (28, .var (1, 3)), (28, .var (1, 4)), (28, .var (1, 5)), (28, .call (1, 0)), (28, .call (2, 1)), (28, .var (2, 2)), (28, .var (2, 3)), (28, .var (2, 4)), (28, .var (2, 5)), (28, .call (2, 0)), (28, .call (3, 1)), (28, .var (3, 2)), (28, .var (3, 3)), (28, .var (3, 4)), (28, .var (3, 5)), (28, .call (3, 0)), (28, .call (3, 1)), (28, .var (3, 2)), (28, .var (3, 3)), (28, .var (3, 4)), (28, .var (3, 5)), (28, .call (3, 0)), (28, .explicitImport 0), (28, .explicitImport 1)],
    facts := [
      -- c19s0p20080/vio
      { id := 0,
        toks := [.guardTest, .guardStore, .ret],
        inits := [], loadGroups := [],
        initUses := [],
        imp := none, fnUses := [], intrinsics := false },
      -- c19s0p20080/bh
      { id := 1,
        toks := [.guardTest, .guardStore, .guardedImport 4, .ret],
        inits := [], loadGroups := [],
        initUses := [],
        imp := some 4, fnUses := [], intrinsics := false },
      -- c19s0p20080/bops
      { id := 2,
        toks := [.guardTest, .guardStore, .guardedImport 5, .ret],
        inits := [], loadGroups := [],
        initUses := [],
        imp := some 5, fnUses := [], intrinsics := false },
      -- c19s0p20080/bblt
      { id := 3,
        toks := [.guardTest, .guardStore, .guardedImport 6, .ret],
        inits := [], loadGroups := [],
        initUses := [],
        imp := some 6, fnUses := [], intrinsics := false },
      -- c19s0p20080/bmath
      { id := 4,
        toks := [.guardTest, .guardStore, .guardedImport 7, .ret],
        inits := [], loadGroups := [],
        initUses := [],
        imp := some 7, fnUses := [], intrinsics := false },
      -- c19s0p20080/bsig
      { id := 5,
        toks := [.guardTest, .guardStore, .guardedImport 4, .ret],
        inits := [], loadGroups := [],
        initUses := [],
        imp := some 4, fnUses := [], intrinsics := false },
      -- c19s0p20080/bsig2
      { id := 6,
        toks := [.guardTest, .guardStore, .guardedImport 4, .ret],
        inits := [], loadGroups := [],
        initUses := [],
        imp := some 4, fnUses := [], intrinsics := false },
      -- c19s0p20080/b0
      { id := 7,
        toks := [.guardTest, .guardStore, .guardedImport 0, .ret],
        inits := [], loadGroups := [],
        initUses := [],
        imp := some 0, fnUses := [], intrinsics := false },
      -- c19s0p20080/b1
      { id := 8,
        toks := [.guardTest, .guardStore, .guardedImport 1, .ret],
        inits := [], loadGroups := [],
        initUses := [],
        imp := some 1, fnUses := [], intrinsics := false },
      -- c19s0p20080/b2
      { id := 9,
        toks := [.guardTest, .guardStore, .guardedImport 2, .ret],
        inits := [], loadGroups := [],
        initUses := [],
        imp := some 2, fnUses := [], intrinsics := false },
      -- c19s0p20080/b3
      { id := 10,
        toks := [.guardTest, .guardStore, .guardedImport 3, .ret],
        inits := [], loadGroups := [],
        initUses := [],
        imp := some 3, fnUses := [], intrinsics := false },
      -- c19s0p20080/b3x
      { id := 11,
        toks := [.guardTest, .guardStore, .guardedImport 3, .ret],
        inits := [], loadGroups := [],
        initUses := [],
        imp := some 3, fnUses := [], intrinsics := false },
      -- c19s0p20080/bq0
      { id := 12,
        toks := [.guardTest, .guardStore, .guardedImport 8, .ret],
        inits := [], loadGroups := [],
        initUses := [],
        imp := some 8, fnUses := [], intrinsics := false },
      -- c19s0p20080/bq1
      { id := 13,
        toks := [.guardTest, .guardStore, .guardedImport 9, .ret],
        inits := [], loadGroups := [],
        initUses := [],
        imp := some 9, fnUses := [], intrinsics := false },
      -- c19s0p20080/bq2
      { id := 14,
        toks := [.guardTest, .guardStore, .guardedImport 10, .ret],
        inits := [], loadGroups := [],
        initUses := [],
        imp := some 10, fnUses := [], intrinsics := false },
      -- c19s0p20080/bq3
      { id := 15,
        toks := [.guardTest, .guardStore, .guardedImport 11, .ret],
        inits := [], loadGroups := [],
        initUses := [],
        imp := some 11, fnUses := [], intrinsics := false },
      -- c19s0p20080/bq4
      { id := 16,
        toks := [.guardTest, .guardStore, .guardedImport 12, .ret],
        inits := [], loadGroups := [],
        initUses := [],
        imp := some 12, fnUses := [], intrinsics := false },
      -- c19s0p20080/bq5
      { id := 17,
        toks := [.guardTest, .guardStore, .guardedImport 13, .ret],
        inits := [], loadGroups := [],
        initUses := [],
        imp := some 13, fnUses := [], intrinsics := false },
      -- c19s0p20080/bq6
      { id := 18,
        toks := [.guardTest, .guardStore, .guardedImport 14, .ret],
        inits := [], loadGroups := [],
        initUses := [],
        imp := some 14, fnUses := [], intrinsics := false },
      -- c19s0p20080/vdump
      { id := 19,
        toks := [.guardTest, .guardStore, .callInit 0, .ret],
        inits := [0], loadGroups := [],
        initUses := [],
        imp := none, fnUses := [], intrinsics := false },
      -- c19s0p20080/vsig
      { id := 20,
        toks := [.guardTest, .guardStore, .callInit 5, .callInit 6, .loadSyms 4 [0, 1, 2, 3, 4, 5, 6, 7, 8, 9, 10, 11, 12, 13, 14, 15, 16, 17, 18, 19, 20, 21, 22, 23, 24, 25, 26, 27, 28, 29, 30, 31, 32, 33, 34, 35, 36, 37, 38, 39, 40, 41, 42, 43, 44, 45, 46, 47, 48, 49, 50, 51, 52, 53, 54, 55, 56, 57, 58, 59, 60, 61, 62, 63, 64, 65, 66, 67, 68, 69], .ret],
        inits := [5, 6], loadGroups := [(4, [0, 1, 2, 3, 4, 5, 6, 7, 8, 9, 10, 11, 12, 13, 14, 15, 16, 17, 18, 19, 20, 21, 22, 23, 24, 25, 26, 27, 28, 29, 30, 31, 32, 33, 34, 35, 36, 37, 38, 39, 40, 41, 42, 43, 44, 45, 46, 47, 48, 49, 50, 51, 52, 53, 54, 55, 56, 57, 58, 59, 60, 61, 62, 63, 64, 65, 66, 67, 68, 69])],
        initUses := [],
        imp := none, fnUses := [.call (4, 0), .call (4, 1), .call (4, 12), .call (4, 23), .call (4, 34), .call (4, 45), .call (4, 56), .call (4, 67), .call (4, 68), .call (4, 69), .call (4, 2), .call (4, 3), .call (4, 4), .call (4, 5), .call (4, 6), .call (4, 7), .call (4, 8), .call (4, 9), .call (4, 10), .call (4, 11), .call (4, 13), .call (4, 14), .call (4, 15), .call (4, 16), .call (4, 17), .call (4, 18), .call (4, 19), .call (4, 20), .call (4, 21), .call (4, 22), .call (4, 24), .call (4, 25), .call (4, 26), .call (4, 27), .call (4, 28), .call (4, 29), .call (4, 30), .call (4, 31), .call (4, 32), .call (4, 33), .call (4, 35), .call (4, 36), .call (4, 37), .call (4, 38), .call (4, 39), .call (4, 40), .call (4, 41), .call (4, 42), .call (4, 43), .call (4, 44), .call (4, 46), .call (4, 47), .call (4, 48), .call (4, 49), .call (4, 50), .call (4, 51), .call (4, 52), .call (4, 53), .call (4, 54), .call (4, 55), .call (4, 57), .call (4, 58), .call (4, 59), .call (4, 60), .call (4, 61), .call (4, 62), .call (4, 63), .call (4, 64), .call (4, 65), .call (4, 66)], intrinsics := false },
      -- c19s0p20080/vsa
      { id := 21,
        toks := [.guardTest, .guardStore, .callInit 5, .loadSyms 4 [70, 71, 72, 73, 74, 75, 76, 77], .ret],
        inits := [5], loadGroups := [(4, [70, 71, 72, 73, 74, 75, 76, 77])],
        initUses := [],
        imp := none, fnUses := [.call (4, 70), .call (4, 71), .call (4, 72), .call (4, 73), .call (4, 74), .call (4, 75), .call (4, 76), .call (4, 77)], intrinsics := false },
      -- c19s0p20080/vsb
      { id := 22,
        toks := [.guardTest, .guardStore, .callInit 5, .loadSyms 4 [70, 71, 72, 73, 74, 75, 76, 77], .ret],
        inits := [5], loadGroups := [(4, [70, 71, 72, 73, 74, 75, 76, 77])],
        initUses := [],
        imp := none, fnUses := [.call (4, 70), .call (4, 71), .call (4, 72), .call (4, 73), .call (4, 74), .call (4, 75), .call (4, 76), .call (4, 77)], intrinsics := false },
      -- c19s0p20080/vh0
      { id := 23,
        toks := [.guardTest, .guardStore, .callInit 12, .callInit 13, .callInit 14, .callInit 15, .callInit 16, .callInit 17, .callInit 18, .loadSyms 8 [0, 1, 2, 3], .loadSyms 9 [0, 1, 2], .loadSyms 10 [0, 1], .loadSyms 9 [0, 1, 2], .loadSyms 8 [0, 1, 2, 3], .loadSyms 12 [0, 1, 2], .loadSyms 13 [0], .loadSyms 12 [0, 1, 2], .loadSyms 11 [0], .loadSyms 14 [0, 1, 2], .ret],
        inits := [12, 13, 14, 15, 16, 17, 18], loadGroups := [(8, [0, 1, 2, 3]), (9, [0, 1, 2]), (10, [0, 1]), (9, [0, 1, 2]), (8, [0, 1, 2, 3]), (12, [0, 1, 2]), (13, [0]), (12, [0, 1, 2]), (11, [0]), (14, [0, 1, 2])],
        initUses := [],
        imp := none, fnUses := [.call (8, 0), .call (9, 0), .call (8, 3), .call (14, 2), .call (10, 1), .call (13, 0), .call (10, 0), .call (12, 2), .call (14, 1), .call (12, 1), .call (12, 0), .call (9, 2), .call (14, 0), .call (11, 0), .call (8, 1), .call (8, 2), .call (9, 1)], intrinsics := false },
      -- c19s0p20080/vh1
      { id := 24,
        toks := [.guardTest, .guardStore, .callInit 12, .callInit 13, .callInit 14, .callInit 15, .callInit 17, .callInit 18, .loadSyms 10 [0], .loadSyms 9 [3, 1], .loadSyms 8 [3], .loadSyms 13 [1, 2], .loadSyms 11 [1], .loadSyms 14 [3], .ret],
        inits := [12, 13, 14, 15, 17, 18], loadGroups := [(10, [0]), (9, [3, 1]), (8, [3]), (13, [1, 2]), (11, [1]), (14, [3])],
        initUses := [],
        imp := none, fnUses := [.call (13, 1), .call (8, 3), .call (9, 1), .call (14, 3), .call (11, 1), .call (13, 2), .call (10, 0), .call (9, 3)], intrinsics := false },
      -- c19s0p20080/u1
      { id := 25,
        toks := [.guardTest, .guardStore, .callInit 9, .callInit 10, .callInit 1, .callInit 19, .loadSyms 4 [78, 79], .loadSyms 2 [0, 1], .loadSyms 3 [0, 1], .use (.call (2, 1)), .use (.call (3, 1)), .use (.explicitImport 1), .use (.call (4, 79)), .ret],
        inits := [9, 10, 1, 19], loadGroups := [(4, [78, 79]), (2, [0, 1]), (3, [0, 1])],
        initUses := [.call (2, 1), .call (3, 1), .explicitImport 1, .call (4, 79)],
        imp := none, fnUses := [.call (2, 1), .var (2, 2), .call (4, 78), .var (2, 3), .var (2, 4), .var (2, 5), .call (2, 0), .call (3, 1), .var (3, 2), .var (3, 3), .var (3, 4), .var (3, 5), .call (3, 0), .explicitImport 0, .call (4, 79), .explicitImport 1], intrinsics := false },
      -- c19s0p20080/u2
      { id := 26,
        toks := [.guardTest, .guardStore, .callInit 8, .callInit 11, .callInit 1, .callInit 19, .loadSyms 4 [78, 79], .loadSyms 1 [0, 1], .loadSyms 3 [0, 1], .use (.call (1, 1)), .use (.call (3, 1)), .ret],
        inits := [8, 11, 1, 19], loadGroups := [(4, [78, 79]), (1, [0, 1]), (3, [0, 1])],
        initUses := [.call (1, 1), .call (3, 1)],
        imp := none, fnUses := [.call (1, 1), .var (1, 2), .call (4, 78), .var (1, 3), .var (1, 4), .var (1, 5), .call (1, 0), .call (3, 1), .var (3, 2), .var (3, 3), .var (3, 4), .var (3, 5), .call (3, 0), .explicitImport 0, .call (4, 79), .explicitImport 1], intrinsics := false },
      -- c19s0p20080/u3
      { id := 27,
        toks := [.guardTest, .guardStore, .callInit 10, .callInit 1, .callInit 19, .loadSyms 4 [78, 79], .loadSyms 3 [0, 1], .use (.call (3, 1)), .ret],
        inits := [10, 1, 19], loadGroups := [(4, [78, 79]), (3, [0, 1])],
        initUses := [.call (3, 1)],
        imp := none, fnUses := [.call (3, 1), .var (3, 2), .call (4, 78), .var (3, 3), .var (3, 4), .var (3, 5), .call (3, 0), .explicitImport 0, .call (4, 79), .explicitImport 1], intrinsics := false },
      -- c19s0p20080
      { id := 28,
        toks := [.guardTest, .guardStore, .callInit 1, .callInit 19, .callInit 0, .callInit 3, .callInit 4, .callInit 2, .callInit 25, .callInit 26, .callInit 27, .callInit 23, .callInit 24, .callInit 21, .callInit 22, .callInit 20, .callInit 7, .callInit 8, .callInit 9, .callInit 10, .callInit 11, .loadSyms 6 [0, 1, 2, 3, 4, 5, 6, 7, 8], .loadSyms 7 [0, 1, 2, 3, 4, 5, 6, 7], .loadSyms 5 [0, 1, 2, 3, 4, 5, 6, 7, 8], .loadSyms 4 [80, 81, 82, 83, 84, 85, 86, 87, 88, 89, 90, 78, 79, 91], .loadSyms 0 [0, 1], .loadSyms 1 [0, 1], .loadSyms 2 [0, 1], .loadSyms 3 [0, 1], .use (.call (0, 1)), .ret],
        inits := [1, 19, 0, 3, 4, 2, 25, 26, 27, 23, 24, 21, 22, 20, 7, 8, 9, 10, 11], loadGroups := [(6, [0, 1, 2, 3, 4, 5, 6, 7, 8]), (7, [0, 1, 2, 3, 4, 5, 6, 7]), (5, [0, 1, 2, 3, 4, 5, 6, 7, 8]), (4, [80, 81, 82, 83, 84, 85, 86, 87, 88, 89, 90, 78, 79, 91]), (0, [0, 1]), (1, [0, 1]), (2, [0, 1]), (3, [0, 1])],
        initUses := [.call (0, 1)],
        imp := none, fnUses := [.call (0, 1), .var (0, 2), .call (4, 78), .var (0, 3), .var (0, 4), .var (0, 5), .call (0, 0), .call (1, 1), .var (1, 2), .var (1, 3), .var (1, 4), .var (1, 5), .call (1, 0), .call (2, 1), .var (2, 2), .var (2, 3), .var (2, 4), .var (2, 5), .call (2, 0), .call (3, 1), .var (3, 2), .var (3, 3), .var (3, 4), .var (3, 5), .call (3, 0), .explicitImport 0, .call (4, 79), .explicitImport 1, .call (4, 83), .call (4, 84), .call (4, 85), .call (4, 86), .call (4, 87), .call (4, 88), .call (4, 89), .call (5, 7), .call (4, 90), .call (5, 8), .call (5, 0), .call (5, 2), .call (5, 4), .call (5, 1), .call (5, 6), .call (5, 5), .call (5, 3), .call (6, 5), .call (6, 1), .call (6, 2), .call (6, 0), .call (6, 6), .call (6, 3), .call (6, 7), .call (6, 4), .call (6, 8), .call (7, 3), .call (7, 0), .call (7, 1), .call (7, 7), .call (7, 2), .call (7, 4), .call (7, 5), .call (7, 6), .call (4, 80), .call (4, 91), .call (4, 81), .call (4, 82)], intrinsics := false }] }]

end LlgoVerif.Gen.C19
