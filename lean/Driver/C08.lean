/-! placeholder driver (property C08 not built yet) -/
def main : IO Unit := IO.println "bad-op"
