import LlgoVerif.Lemmas.Cache
/-!
# C13 — builds are reproducible and the build cache never serves stale code

Property theorems only.  Model: `LlgoVerif/Model/Cache.lean`; lemmas: `LlgoVerif/Lemmas/Cache.lean`.

`cfg : Cfg` selects the variant of the fingerprint code (`Cfg.legacy`: before the repairs "content hashes in file
digests" and "CCFLAGS/CFLAGS/LDFLAGS in the env inputs"; `Cfg.fixed`: after both); the check probes which one the
working tree has and drives the model with it.
`hb` stands for SHA-256 on file contents, `fp` for SHA-256 of the marshalled manifest; they are arbitrary
functions, and every theorem that needs collision-freeness says so (`Function.Injective`).
`compileRel` (the compiler) is an arbitrary function of the relevant inputs; `storeObj` / `loadObj` are what `saveToCache` keeps
of a compiled package and what `tryLoadFromCache` makes of it — arbitrary too, every soundness theorem says `loadObj ∘ storeObj = id`,
and `cache_metadata_roundtrip` proves it for the transcribed metadata record (link arguments, NeedRt, NeedPyInit).
-/
namespace LlgoVerif.Cache

section CacheSound
variable {φ : Type} [DecidableEq φ] (cfg : Cfg) (hb : Bytes → φ) (fp : Manifest φ → φ)
variable {Obj Stored : Type} (compileRel : Rel → Obj) (storeObj : Obj → Stored) (loadObj : Stored → Obj)

/-- **the fingerprint covers everything that matters** — the full statement; false on the current code
    (four counterexamples below) -/
def KeyCovers : Prop :=
  ∀ i₁ i₂ : Inputs, keyOf cfg hb fp i₁ = keyOf cfg hb fp i₂ → relevantOf i₁ = relevantOf i₂

/-- **Cache soundness, relative to a universe `S` of inputs.**  If the key determines the relevant inputs on `S`,
    then for EVERY history of edits (staying inside `S`), builds (with or without `-a`, cache on or off) and cache
    clears, starting from an empty cache: every build that ever happened returned, package by package, exactly what a
    clean build of the inputs current at that moment returns — and so does one more build appended to the history. -/
theorem cache_sound_on (S : Inputs → Prop) (fpi : Function.Injective fp) (hround : ∀ o, loadObj (storeObj o) = o)
    (hk : KeyCoversOn cfg hb fp S)
    (p₀ : Program) (h : List Step) (hp₀ : ProgIn S p₀) (hh : ∀ st ∈ h, StepIn S st) (o : BuildOpts) :
    served cfg hb fp compileRel storeObj loadObj p₀ (h ++ [.build o])
        = some ((current cfg hb fp compileRel storeObj loadObj p₀ h).pkgs.map fun t => compile compileRel ((current cfg hb fp compileRel storeObj loadObj p₀ h).glob, t))
      ∧ ∀ po ∈ (run cfg hb fp compileRel storeObj loadObj (State.init p₀) h).trace,
          po.2 = po.1.pkgs.map fun t => compile compileRel (po.1.glob, t) := by
  have inv0 : Inv cfg hb fp compileRel storeObj S (State.init p₀ : State φ Stored Obj) :=
    ⟨hp₀, fun e he => (by cases he), fun po hpo => (by cases hpo)⟩
  have inv := run_inv cfg hb fp compileRel storeObj loadObj S fpi hround hk h _ hh inv0
  refine ⟨?_, inv.trace⟩
  unfold served current
  rw [run_append]
  simp only [run, step]
  exact congrArg some
    (buildProg_ok cfg hb fp compileRel storeObj loadObj S fpi hround hk o _ _ _ inv.prog inv.cache).1

/-- **Cache soundness** (`cache_sound : KeyCovers → ∀ history, served = compile (current inputs)`), by induction over
    the history.  Its hypothesis `KeyCovers` does not hold for the transcribed key: see `cache_sound_partial`. -/
theorem cache_sound (fpi : Function.Injective fp) (hround : ∀ o, loadObj (storeObj o) = o) (hk : KeyCovers cfg hb fp) (p₀ : Program) (h : List Step)
    (o : BuildOpts) :
    served cfg hb fp compileRel storeObj loadObj p₀ (h ++ [.build o])
      = some ((current cfg hb fp compileRel storeObj loadObj p₀ h).pkgs.map fun t => compile compileRel ((current cfg hb fp compileRel storeObj loadObj p₀ h).glob, t)) :=
  (cache_sound_on cfg hb fp compileRel storeObj loadObj (fun _ => True) fpi hround (fun i₁ i₂ _ _ => hk i₁ i₂) p₀ h
    (fun _ _ => trivial) (fun st _ => by cases st <;> first | trivial | exact fun _ _ => trivial) o).1

end CacheSound

/-! ## what the key does not cover: concrete input pairs (by evaluation).
   Side files and embed files are missing in BOTH variants; content and compiler environment only in `Cfg.legacy`. -/

section Counterexamples
variable {φ : Type} (cfg : Cfg) (hb : Bytes → φ) (fp : Manifest φ → φ)

/-- `a/a.go` holds `1` resp. `5`: same path, same size, same mtime -/
def cxMtime₁ : Inputs := ({}, .mk { id := "m/a", path := "m/a", goFiles := [{ file := { path := "/m/a/a.go", content := [49], mtime := 1700000000 } }] } [])
def cxMtime₂ : Inputs := ({}, .mk { id := "m/a", path := "m/a", goFiles := [{ file := { path := "/m/a/a.go", content := [53], mtime := 1700000000 } }] } [])

theorem keyCovers_counterexample_mtime : ¬ KeyCovers Cfg.legacy hb fp := fun h => by
  have h1 := h cxMtime₁ cxMtime₂ rfl
  have h2 := congrArg Rel.own? h1
  revert h2; decide

/-- `_wrap/w.c` named by `LLGoFiles` changes content, size and mtime; the Go file does not change -/
def cxSide₁ : Inputs := ({}, .mk { id := "m/a", path := "m/a", goFiles := [{ file := { path := "/m/a/a.go", content := [49], mtime := 1 } }],
                                      sideFiles := [{ path := "/m/a/_wrap/w.c", content := [49], mtime := 1 }] } [])
def cxSide₂ : Inputs := ({}, .mk { id := "m/a", path := "m/a", goFiles := [{ file := { path := "/m/a/a.go", content := [49], mtime := 1 } }],
                                      sideFiles := [{ path := "/m/a/_wrap/w.c", content := [53, 53], mtime := 2 }] } [])

theorem keyCovers_counterexample_sidefile : ¬ KeyCovers cfg hb fp := fun h => by
  have h1 := h cxSide₁ cxSide₂ rfl
  have h2 := congrArg Rel.own? h1
  revert h2; decide

/-- the environment variable `CCFLAGS` changes from `-DK=1` to `-DK=2` -/
def cxEnv₁ : Inputs := ({ env := [("CCFLAGS", "-DK=1")] }, .mk { id := "m/a", path := "m/a" } [])
def cxEnv₂ : Inputs := ({ env := [("CCFLAGS", "-DK=2")] }, .mk { id := "m/a", path := "m/a" } [])

theorem keyCovers_counterexample_ccflags : ¬ KeyCovers Cfg.legacy hb fp := fun h => by
  have h1 := h cxEnv₁ cxEnv₂ rfl
  have h2 := congrArg Rel.compilerEnv? h1
  revert h2; decide

/-- a file named by `//go:embed` changes -/
def cxEmbed₁ : Inputs := ({}, .mk { id := "m/a", path := "m/a", embedFiles := [{ path := "/m/a/data.txt", content := [49], mtime := 1 }] } [])
def cxEmbed₂ : Inputs := ({}, .mk { id := "m/a", path := "m/a", embedFiles := [{ path := "/m/a/data.txt", content := [50, 50], mtime := 2 }] } [])

theorem keyCovers_counterexample_embed : ¬ KeyCovers cfg hb fp := fun h => by
  have h1 := h cxEmbed₁ cxEmbed₂ rfl
  have h2 := congrArg Rel.own? h1
  revert h2; decide

/-- a stale archive is really served: after building `cxSide₁`, editing the side file and building again, the
    second build hands out the archive of the OLD side file (for every compiler that distinguishes the two) -/
theorem stale_served_sidefile [DecidableEq φ] {Obj Stored : Type} (compileRel : Rel → Obj) (storeObj : Obj → Stored)
    (loadObj : Stored → Obj) (hround : ∀ o, loadObj (storeObj o) = o)
    (hdist : compileRel (relevantOf cxSide₁) ≠ compileRel (relevantOf cxSide₂)) :
    served cfg hb fp compileRel storeObj loadObj ⟨cxSide₁.1, [cxSide₁.2]⟩ [.build {}, .edit ⟨cxSide₂.1, [cxSide₂.2]⟩, .build {}]
      ≠ some [compile compileRel cxSide₂] := by
  rw [served_stale cfg hb fp compileRel storeObj loadObj cxSide₁.1 cxSide₂.1 cxSide₁.2 cxSide₂.2 rfl (by decide) (by decide) (by decide), hround]
  intro h
  exact hdist (List.cons.inj (Option.some.inj h)).1

end Counterexamples

/-! ## what the transcribed key does cover -/

section Partial
variable {φ : Type} (hb : Bytes → φ) (fp : Manifest φ → φ)

/-- **`KeyCovers` of the legacy key under four explicit, decidable hypotheses**, proved from the transcribed `key` for
    every package tree (any depth of dependencies, overlays, versioned modules, tags, targets, flags …):
    equal manifests ⇒ equal relevant inputs, provided
    H1 `mtimeChangesWithContent` (no same-size edit with preserved mtime), H2 `noSideCFiles` (no `LLGoFiles`),
    H3 `sameCompilerEnv` (`CCFLAGS/CFLAGS/LDFLAGS` unchanged), H4 `noEmbed` (no `//go:embed`),
    and SHA-256 is collision free on the values hashed. -/
theorem keyCovers_partial (hbi : Function.Injective hb) (fpi : Function.Injective fp) (i₁ i₂ : Inputs)
    (h1 : mtimeChangesWithContent i₁ i₂) (h2 : noSideCFiles i₁ ∧ noSideCFiles i₂) (h3 : sameCompilerEnv i₁ i₂)
    (h4 : noEmbed i₁ ∧ noEmbed i₂) (hk : keyOf Cfg.legacy hb fp i₁ = keyOf Cfg.legacy hb fp i₂) :
    relevantOf i₁ = relevantOf i₂ :=
  key_covers_of_hyp Cfg.legacy hb fp hbi fpi i₁.2 i₁.1 i₂.1 i₂.2 ⟨fun _ => h1, h2.1, h2.2, fun _ => h3, h4.1, h4.2⟩ hk

/-- **`KeyCovers` of the repaired key**: with content hashes in the file digests and `CCFLAGS/CFLAGS/LDFLAGS` among the
    environment inputs, H1 and H3 are no longer needed — only H2 `noSideCFiles` and H4 `noEmbed` (and collision
    freeness) remain. -/
theorem keyCovers_partial_fixed (hbi : Function.Injective hb) (fpi : Function.Injective fp) (i₁ i₂ : Inputs)
    (h2 : noSideCFiles i₁ ∧ noSideCFiles i₂) (h4 : noEmbed i₁ ∧ noEmbed i₂)
    (hk : keyOf Cfg.fixed hb fp i₁ = keyOf Cfg.fixed hb fp i₂) : relevantOf i₁ = relevantOf i₂ :=
  key_covers_of_hyp Cfg.fixed hb fp hbi fpi i₁.2 i₁.1 i₂.1 i₂.2
    ⟨fun hc => by simp [Cfg.fixed] at hc, h2.1, h2.2, fun hc => by simp [Cfg.fixed] at hc, h4.1, h4.2⟩ hk

/-- the two pairs that fool the legacy key are told apart by the repaired key -/
theorem fixed_separates_mtime (hbi : Function.Injective hb) (fpi : Function.Injective fp) :
    keyOf Cfg.fixed hb fp cxMtime₁ ≠ keyOf Cfg.fixed hb fp cxMtime₂ := fun hk => by
  have h1 := keyCovers_partial_fixed hb fp hbi fpi cxMtime₁ cxMtime₂ (by decide) (by decide) hk
  have h2 := congrArg Rel.own? h1
  revert h2; decide

theorem fixed_separates_ccflags (hbi : Function.Injective hb) (fpi : Function.Injective fp) :
    keyOf Cfg.fixed hb fp cxEnv₁ ≠ keyOf Cfg.fixed hb fp cxEnv₂ := fun hk => by
  have h1 := keyCovers_partial_fixed hb fp hbi fpi cxEnv₁ cxEnv₂ (by decide) (by decide) hk
  have h2 := congrArg Rel.compilerEnv? h1
  revert h2; decide

/-- non-vacuity: two different two-package units (main → dep with a tag-selected file, an overlay file, an `-X`
    variable) in different configurations satisfy the hypotheses -/
def exDep (c : Bytes) (mt : Int) : PkgT :=
  .mk { id := "m/c", path := "m/c", name := "c"
        goFiles := [{ file := { path := "/m/c/c.go", content := c, mtime := mt } },
                    { file := { path := "/m/c/on.go", content := [1], mtime := 3 }, tag := some ("x", true) },
                    { file := { path := "/m/c/off.go", content := [2], mtime := 3 }, tag := some ("x", false) }]
        otherFiles := [{ path := "/m/c/c.s", content := [7], mtime := 4, overlay := some [8, 9] }]
        rewriteVars := [("V", "1")] } []
def exIn₁ : Inputs := ({ opt := .O0, env := [("LLGO_DEBUG", "1"), ("CCFLAGS", "-g")] },
  .mk { id := "m", path := "m", name := "main", goFiles := [{ file := { path := "/m/main.go", content := [5], mtime := 9 } }] }
    [exDep [49] 100])
def exIn₂ : Inputs := ({ opt := .O2, abiMode := 0, env := [("CCFLAGS", "-g")] },
  .mk { id := "m", path := "m", name := "main", goFiles := [{ file := { path := "/m/main.go", content := [5], mtime := 9 } }] }
    [exDep [53] 101])

example : mtimeChangesWithContent exIn₁ exIn₂ ∧ (noSideCFiles exIn₁ ∧ noSideCFiles exIn₂) ∧ sameCompilerEnv exIn₁ exIn₂
    ∧ (noEmbed exIn₁ ∧ noEmbed exIn₂) := by decide

/-- **Cache soundness for the legacy code**: over any universe `S` of units that pairwise satisfy H1–H4, every
    history of edits/builds/cache clears serves exactly the clean build. -/
theorem cache_sound_partial [DecidableEq φ] {Obj Stored : Type} (compileRel : Rel → Obj) (storeObj : Obj → Stored)
    (loadObj : Stored → Obj) (hround : ∀ o, loadObj (storeObj o) = o) (S : Inputs → Prop)
    (hbi : Function.Injective hb) (fpi : Function.Injective fp) (hS : ∀ a b, S a → S b → Hyp Cfg.legacy a b)
    (p₀ : Program) (h : List Step) (hp₀ : ProgIn S p₀) (hh : ∀ st ∈ h, StepIn S st) (o : BuildOpts) :
    served Cfg.legacy hb fp compileRel storeObj loadObj p₀ (h ++ [.build o])
      = some ((current Cfg.legacy hb fp compileRel storeObj loadObj p₀ h).pkgs.map fun t =>
          compile compileRel ((current Cfg.legacy hb fp compileRel storeObj loadObj p₀ h).glob, t)) :=
  (cache_sound_on Cfg.legacy hb fp compileRel storeObj loadObj S fpi hround
    (fun i₁ i₂ s₁ s₂ hk => key_covers_of_hyp Cfg.legacy hb fp hbi fpi i₁.2 i₁.1 i₂.1 i₂.2 (hS i₁ i₂ s₁ s₂) hk)
    p₀ h hp₀ hh o).1

/-- **Cache soundness for the repaired code** (`cache_sound_fixed`): as long as no package of the history uses
    `LLGoFiles` side files or `//go:embed` — a condition on each unit alone — every history of edits (same-size edits
    with restored mtimes and `CCFLAGS` changes included), builds and cache clears serves exactly the clean build. -/
theorem cache_sound_fixed [DecidableEq φ] {Obj Stored : Type} (compileRel : Rel → Obj) (storeObj : Obj → Stored)
    (loadObj : Stored → Obj) (hround : ∀ o, loadObj (storeObj o) = o) (S : Inputs → Prop)
    (hbi : Function.Injective hb) (fpi : Function.Injective fp) (hS : ∀ a, S a → noSideCFiles a ∧ noEmbed a)
    (p₀ : Program) (h : List Step) (hp₀ : ProgIn S p₀) (hh : ∀ st ∈ h, StepIn S st) (o : BuildOpts) :
    served Cfg.fixed hb fp compileRel storeObj loadObj p₀ (h ++ [.build o])
      = some ((current Cfg.fixed hb fp compileRel storeObj loadObj p₀ h).pkgs.map fun t =>
          compile compileRel ((current Cfg.fixed hb fp compileRel storeObj loadObj p₀ h).glob, t)) :=
  (cache_sound_on Cfg.fixed hb fp compileRel storeObj loadObj S fpi hround
    (fun i₁ i₂ s₁ s₂ hk => keyCovers_partial_fixed hb fp hbi fpi i₁ i₂ ⟨(hS i₁ s₁).1, (hS i₂ s₂).1⟩
      ⟨(hS i₁ s₁).2, (hS i₂ s₂).2⟩ hk)
    p₀ h hp₀ hh o).1

/-- **what the cache restores besides the archive is what was stored** (`load (store m) = m` for the metadata record of
    `saveToCache` / `tryLoadFromCache`): the link arguments with their order and multiplicity, `NeedRt`, `NeedPyInit` -/
theorem cache_metadata_roundtrip (m : Meta) : loadMeta (storeMeta m) = m := loadMeta_storeMeta m

example : loadMeta (storeMeta { linkArgs := ["-Xlinker", "--defsym=a=11", "-Xlinker", "--defsym=b=22", "-lfoo", "-lbar", "-lfoo"], needRt := true })
    = { linkArgs := ["-Xlinker", "--defsym=a=11", "-Xlinker", "--defsym=b=22", "-lfoo", "-lbar", "-lfoo"], needRt := true } := by decide

/-- **Cache soundness for the repaired code, artifacts = archive + metadata**: `cache_sound_fixed` with the transcribed
    store/load pair plugged in (no round-trip hypothesis left): a build served from the cache links the same archives with
    the same link arguments and the same runtime-initialisation flags as the clean build. -/
theorem cache_sound_fixed_artifacts [DecidableEq φ] {A : Type} (compileRel : Rel → Artifact A) (S : Inputs → Prop)
    (hbi : Function.Injective hb) (fpi : Function.Injective fp) (hS : ∀ a, S a → noSideCFiles a ∧ noEmbed a)
    (p₀ : Program) (h : List Step) (hp₀ : ProgIn S p₀) (hh : ∀ st ∈ h, StepIn S st) (o : BuildOpts) :
    served Cfg.fixed hb fp compileRel storeArtifact loadArtifact p₀ (h ++ [.build o])
      = some ((current Cfg.fixed hb fp compileRel storeArtifact loadArtifact p₀ h).pkgs.map fun t =>
          compile compileRel ((current Cfg.fixed hb fp compileRel storeArtifact loadArtifact p₀ h).glob, t)) :=
  cache_sound_fixed hb fp compileRel storeArtifact loadArtifact loadArtifact_storeArtifact S hbi fpi hS p₀ h hp₀ hh o

/-- **the round trip is necessary, not only sufficient**: for ANY store/load pair, any configuration and any cacheable
    non-main package, if what `tryLoadFromCache` makes of what `saveToCache` kept of the package's clean output is not that
    output (a link argument dropped, a flag reset, an archive byte changed), then the plain no-op rebuild `build, build`
    already hands out something a clean build would not.  Together with `cache_sound_on` (which needs
    `∀ o, loadObj (storeObj o) = o`) this is why the check judges the real `saveToCache`/`tryLoadFromCache` pair by
    `load ∘ store = id` on generated artifacts. -/
theorem roundtrip_necessary [DecidableEq φ] {Obj Stored : Type} (cfg : Cfg) (compileRel : Rel → Obj) (storeObj : Obj → Stored)
    (loadObj : Stored → Obj) (g : Global) (t : PkgT)
    (hn : (t.data.name != "main") = true) (hkind : cachedKind t.data = true)
    (hbad : loadObj (storeObj (compileRel (relevant g t))) ≠ compileRel (relevant g t)) :
    served cfg hb fp compileRel storeObj loadObj ⟨g, [t]⟩ [.build {}, .build {}] ≠ some [compile compileRel (g, t)] := by
  rw [served_noop_rebuild cfg hb fp compileRel storeObj loadObj g t hn hkind]
  intro h
  exact hbad (List.cons.inj (Option.some.inj h)).1

/-- the hypotheses of `roundtrip_necessary` are satisfiable: a store that keeps each link argument once (and a compiler whose
    output for the unit repeats a token) -/
example : ∃ (storeObj : Meta → Meta) (loadObj : Meta → Meta) (compileRel : Rel → Meta),
    (cxSide₁.2.data.name != "main") = true ∧ cachedKind cxSide₁.2.data = true
      ∧ loadObj (storeObj (compileRel (relevant cxSide₁.1 cxSide₁.2))) ≠ compileRel (relevant cxSide₁.1 cxSide₁.2) :=
  ⟨fun m => { m with linkArgs := m.linkArgs.eraseDups }, id, fun _ => { linkArgs := ["-Xlinker", "a", "-Xlinker", "b"] },
    by decide, by decide, by decide⟩

/-- **the whole artifact comes back**: archive bytes and metadata (`copyFileAtomic` + the `metadata:` section) -/
theorem cache_artifact_roundtrip {A : Type} (a : Artifact A) : loadArtifact (storeArtifact a) = a :=
  loadArtifact_storeArtifact a

/-- non-vacuity of the universe hypotheses of `cache_sound_partial` / `cache_sound_on` / `cache_sound_fixed` -/
theorem exUniverse_hyp : ∀ a b, (fun i => i = exIn₁ ∨ i = exIn₂) a → (fun i => i = exIn₁ ∨ i = exIn₂) b →
    Hyp Cfg.legacy a b := by
  intro a b ha hb
  rcases ha with rfl | rfl <;> rcases hb with rfl | rfl <;> decide

example (hbi : Function.Injective hb) (fpi : Function.Injective fp) :
    KeyCoversOn Cfg.legacy hb fp (fun i => i = exIn₁ ∨ i = exIn₂) :=
  fun i₁ i₂ s₁ s₂ hk => key_covers_of_hyp Cfg.legacy hb fp hbi fpi i₁.2 i₁.1 i₂.1 i₂.2 (exUniverse_hyp i₁ i₂ s₁ s₂) hk

/-- the universe {cxMtime₁, cxMtime₂, cxEnv₁, cxEnv₂, exIn₁} — which violates H1 and H3 — is fine for the repaired code -/
example : ∀ a, (a = cxMtime₁ ∨ a = cxMtime₂ ∨ a = cxEnv₁ ∨ a = cxEnv₂ ∨ a = exIn₁) → noSideCFiles a ∧ noEmbed a := by
  intro a ha
  rcases ha with rfl | rfl | rfl | rfl | rfl <;> decide

example : ProgIn (fun i => i = exIn₁ ∨ i = exIn₂) ⟨exIn₁.1, [exIn₁.2]⟩ := by
  intro t ht
  simp only [List.mem_singleton] at ht
  exact Or.inl (by rw [ht])

end Partial

/-! ## determinism of emission: the output is a function of the SET of items -/

/-- sorting by a string key does not depend on the order in which the items arrive (Go: range over a map) -/
theorem sorted_order_independent {α : Type} (k : α → String) {l₁ l₂ : List α} (hp : l₁.Perm l₂)
    (hnd : (l₁.map k).Nodup) :
    isort (fun a b => strLe (k a) (k b)) l₁ = isort (fun a b => strLe (k a) (k b)) l₂ :=
  isort_eq_of_perm _ (fun a b c => strLe_trans (k a) (k b) (k c)) (fun a b => strLe_total (k a) (k b)) hp
    (fun a b ha hb hab hba => eq_of_nodup_map k l₁ hnd a ha b hb (strLe_antisymm _ _ hab hba))

/-- **`processPkg` emits the same sequence whatever order `range pkg.Members` delivers** -/
theorem emission_order_independent (skips : List String) (m₁ m₂ : List Member) (hp : m₁.Perm m₂)
    (hnd : (m₁.map (·.name)).Nodup) : processPkg skips m₁ = processPkg skips m₂ := by
  unfold processPkg
  have hf := hp.filter (fun m => !skips.contains m.name)
  have : isort memberLe (m₁.filter fun m => !skips.contains m.name)
      = isort memberLe (m₂.filter fun m => !skips.contains m.name) :=
    isort_eq_of_perm memberLe (fun a b c => strLe_trans a.name b.name c.name)
      (fun a b => strLe_total a.name b.name) hf
      (fun a b ha hb hab hba => eq_of_nodup_map (fun m : Member => m.name) m₁ hnd a (List.mem_filter.1 ha).1 b
        (List.mem_filter.1 hb).1 (strLe_antisymm a.name b.name hab hba))
  rw [this]

def exMembers : List Member := [⟨"b", .type, "B"⟩, ⟨"a", .func false, "A"⟩, ⟨"c", .global, "C"⟩, ⟨"a_trampoline", .func false, "T"⟩]
example : (exMembers.map (·.name)).Nodup := by decide
example : exMembers.Perm exMembers.reverse := (List.reverse_perm _).symm

/-- **`getAbiTypesFor` builds the same array whatever order `range prog.abiSymbol` delivers** — for every filter
    (`nil` and the entry module's "linked ∧ `filterAbiSymbol abiInit`" alike) -/
theorem abiTypes_order_independent (filter : String → Bool) (s₁ s₂ : List (String × String)) (hp : s₁.Perm s₂)
    (hnd : (s₁.map (·.1)).Nodup) : abiTypesFor filter s₁ = abiTypesFor filter s₂ := by
  unfold abiTypesFor abiTypeNames
  have hn : isort strLe ((s₁.filter fun kv => filter kv.1).map (·.1))
      = isort strLe ((s₂.filter fun kv => filter kv.1).map (·.1)) :=
    isort_eq_of_perm _ strLe_trans strLe_total ((hp.filter _).map _)
      (fun a b _ _ hab hba => strLe_antisymm a b hab hba)
  simp only [hn]
  apply List.map_congr_left
  intro n _
  rw [find_key_perm s₁ s₂ hp hnd n]

example : ([("t2", "B"), ("t1", "A"), ("t3", "C")].map (·.1)).Nodup := by decide

/-- a set of names has at most one listing (strictly increasing, exactly the members) -/
theorem listing_unique {P : String → Prop} {l₁ l₂ : List String} (h₁ : ListingOf P l₁) (h₂ : ListingOf P l₂) : l₁ = l₂ := by
  have hperm : l₁.Perm l₂ :=
    (List.perm_ext_iff_of_nodup (strictSorted_nodup h₁.1) (strictSorted_nodup h₂.1)).2
      (fun n => (h₁.2 n).trans (h₂.2 n).symm)
  refine List.Perm.eq_of_pairwise (le := fun x y => strLe x y = true ∧ x ≠ y) ?_ h₁.1 h₂.1 hperm
  intro a b _ _ hab hba
  exact strLe_antisymm a b hab.1 hba.1

/-- **what `getAbiTypesFor` lists is THE listing of the selected descriptors**: strictly increasing by name, and a name is
    listed iff it is in the symbol table and passes the filter — for every filter and every order of arrival -/
theorem abiTypeNames_listing (filter : String → Bool) (syms : List (String × String)) (hnd : (syms.map (·.1)).Nodup) :
    ListingOf (fun n => filter n = true ∧ ∃ v, (n, v) ∈ syms) (abiTypeNames filter syms) := by
  constructor
  · have hs := pairwise_isort strLe strLe_trans strLe_total ((syms.filter fun kv => filter kv.1).map (·.1))
    have hn : (isort strLe ((syms.filter fun kv => filter kv.1).map (·.1))).Nodup :=
      (isort_perm strLe _).nodup_iff.2 (filter_keys_nodup filter syms hnd)
    exact List.Pairwise.and hs hn
  · intro n
    unfold abiTypeNames
    rw [mem_isort]
    simp only [List.mem_map, List.mem_filter]
    constructor
    · rintro ⟨⟨k, v⟩, ⟨hm, hf⟩, rfl⟩
      exact ⟨hf, v, hm⟩
    · rintro ⟨hf, v, hm⟩
      exact ⟨(n, v), ⟨hm, hf⟩, rfl⟩

/-- **the emitted list is a function of the SET of symbols** (no permutation needed: two symbol tables with the same
    entries, however they were filled and iterated, give the same list) -/
theorem abiTypeNames_set_determined (filter : String → Bool) (s₁ s₂ : List (String × String))
    (hnd₁ : (s₁.map (·.1)).Nodup) (hnd₂ : (s₂.map (·.1)).Nodup) (hset : ∀ kv, kv ∈ s₁ ↔ kv ∈ s₂) :
    abiTypeNames filter s₁ = abiTypeNames filter s₂ := by
  have h₁ := abiTypeNames_listing filter s₁ hnd₁
  have h₂ := abiTypeNames_listing filter s₂ hnd₂
  refine listing_unique h₁ ⟨h₂.1, fun n => (h₂.2 n).trans ?_⟩
  constructor
  · rintro ⟨hf, v, hm⟩; exact ⟨hf, v, (hset _).2 hm⟩
  · rintro ⟨hf, v, hm⟩; exact ⟨hf, v, (hset _).1 hm⟩

example : ([("t2", "B"), ("t1", "A")].map (·.1)).Nodup ∧ ([("t1", "A"), ("t2", "B")].map (·.1)).Nodup
    ∧ ∀ kv, kv ∈ [("t2", "B"), ("t1", "A")] ↔ kv ∈ [("t1", "A"), ("t2", "B")] := by
  refine ⟨by decide, by decide, fun kv => ?_⟩
  simp only [List.mem_cons, List.not_mem_nil, or_false]
  exact Or.comm

/-- the sort is what makes it so: the filtered names as `range` delivers them do depend on the order of arrival as soon
    as two descriptors pass the filter -/
theorem abiTypes_sort_needed :
    ∃ (filter : String → Bool) (s₁ s₂ : List (String × String)), s₁.Perm s₂ ∧ (s₁.map (·.1)).Nodup ∧
      (s₁.filter fun kv => filter kv.1).map (·.1) ≠ (s₂.filter fun kv => filter kv.1).map (·.1) :=
  ⟨fun n => n != "c", [("b", "2"), ("a", "1"), ("c", "3")], [("a", "1"), ("b", "2"), ("c", "3")], List.Perm.swap _ _ _, by decide, by decide⟩

/-- **the manifest does not depend on map iteration order**: permuting the imports (`pkg.Imports` is a Go map) and the
    `-X` variables (`rewriteVars` is a Go map) of a package leaves its fingerprint unchanged -/
theorem manifest_order_independent {φ : Type} (cfg : Cfg) (hb : Bytes → φ) (fp : Manifest φ → φ) (g : Global) (d : PkgData)
    (rv₂ : List (String × String)) (deps₁ deps₂ : List PkgT) (hd : deps₁.Perm deps₂)
    (hnd : (deps₁.map (·.data.id)).Nodup) (hr : d.rewriteVars.Perm rv₂) (hrn : (d.rewriteVars.map (·.1)).Nodup) :
    key cfg hb fp g (.mk d deps₁) = key cfg hb fp g (.mk { d with rewriteVars := rv₂ } deps₂) := by
  have hrw := sorted_order_independent (fun kv : String × String => kv.1) hr hrn
  have hdeps : (key cfg hb fp g (.mk d deps₁)).deps = (key cfg hb fp g (.mk { d with rewriteVars := rv₂ } deps₂)).deps := by
    rw [key_deps_eq, key_deps_eq]
    congr 1
    exact isort_eq_of_perm tLe (fun a b c => strLe_trans a.data.id b.data.id c.data.id)
      (fun a b => strLe_total a.data.id b.data.id) (hd.filter _)
      (fun a b ha hb hab hba => eq_of_nodup_map (fun t : PkgT => t.data.id) deps₁ hnd a (List.mem_filter.1 ha).1 b
        (List.mem_filter.1 hb).1 (strLe_antisymm a.data.id b.data.id hab hba))
  have hpkg : packageSection cfg hb g d = packageSection cfg hb g { d with rewriteVars := rv₂ } := by
    simp only [packageSection, hrw]
  simp only [key] at hdeps ⊢
  rw [hdeps, hpkg]

example : ([exDep [49] 100, PkgT.mk { id := "m/b", path := "m/b" } []].map (·.data.id)).Nodup
    ∧ ([("V", "1"), ("W", "2")].map (·.1)).Nodup := by decide

end LlgoVerif.Cache
