import LlgoVerif.Model.Init
/-!
# Invariants of the guarded depth-first initialisation (helper lemmas for C12)

`Inv` is the state invariant (every body at most once, only guarded packages have run, every finished
body is preceded by the bodies of its imports, original half before replacement half);
`ExtU` relates the state before and after a piece of initialisation code;
`Done s b` ("every guarded package `< b` has finished") is the key fact of the topological numbering:
when `p.init` runs, the guarded-but-unfinished packages are `p`'s importers, which all have larger numbers.
-/
namespace LlgoVerif.Init

/-- `q`'s (compiled) `init` has completed its body -/
def Fin (s : St) (q : Nat) : Prop := Ev.body q false ∈ s.trace

def Done (s : St) (b : Nat) : Prop := ∀ q, q ∈ s.guard → q < b → Fin s q

/-- no initialiser is in progress -/
def Quiet (s : St) : Prop := ∀ q, q ∈ s.guard → Fin s q

/-! ### `Bef` -/

theorem Bef.append {a b : Ev} {l : List Ev} (m : List Ev) (h : Bef a b l) : Bef a b (l ++ m) := by
  obtain ⟨ha, hlt⟩ := h
  refine ⟨List.mem_append_left _ ha, ?_⟩
  rw [List.idxOf_append, List.idxOf_append, if_pos ha]
  split
  · exact hlt
  · have := List.idxOf_lt_length_of_mem ha; omega

theorem Bef.snoc_new {a b : Ev} {l : List Ev} (ha : a ∈ l) (hb : b ∉ l) : Bef a b (l ++ [b]) := by
  refine ⟨List.mem_append_left _ ha, ?_⟩
  rw [List.idxOf_append, List.idxOf_append, if_pos ha, if_neg hb]
  have := List.idxOf_lt_length_of_mem ha; omega

theorem Bef.trans {a b c : Ev} {l : List Ev} (h1 : Bef a b l) (h2 : Bef b c l) : Bef a c l :=
  ⟨h1.1, Nat.lt_trans h1.2 h2.2⟩

theorem Bef.mem {a b : Ev} {l : List Ev} (h : Bef a b l) : a ∈ l := h.1

theorem Bef.ne {a b : Ev} {l : List Ev} (h : Bef a b l) : a ≠ b := by
  intro e; subst e; exact Nat.lt_irrefl _ h.2

/-! ### the state invariant -/

structure Inv (P : Prog) (s : St) : Prop where
  once : ∀ p h, s.trace.count (.body p h) ≤ 1
  sub : ∀ p h, Ev.body p h ∈ s.trace → p ∈ s.guard
  origOnly : ∀ p, Ev.body p true ∈ s.trace → ∃ oi, (P p).kind = .chained oi
  depsB : ∀ p, Fin s p → ∀ q ∈ (P p).imports, Bef (.body q false) (.body p false) s.trace
  depsO : ∀ p oi, (P p).kind = .chained oi → Ev.body p true ∈ s.trace →
    ∀ q ∈ oi, Bef (.body q false) (.body p true) s.trace
  chain : ∀ p oi, (P p).kind = .chained oi → Fin s p → Bef (.body p true) (.body p false) s.trace

theorem Inv.init (P : Prog) : Inv P {} := by
  constructor <;> simp [Fin]

theorem Inv.setGuard {P : Prog} {s : St} (h : Inv P s) (p : Nat) : Inv P (s.setGuard p) := by
  refine ⟨h.once, ?_, h.origOnly, h.depsB, h.depsO, h.chain⟩
  intro q hh hm
  exact List.mem_cons_of_mem _ (h.sub q hh hm)

/-- events other than bodies do not disturb the invariant -/
theorem Inv.emit_other {P : Prog} {s : St} (h : Inv P s) (e : Ev) (he : ∀ p o, e ≠ .body p o) :
    Inv P (s.emit e) := by
  have hmem : ∀ p o, Ev.body p o ∈ (s.emit e).trace → Ev.body p o ∈ s.trace := by
    intro p o hm
    simp only [St.emit, List.mem_append, List.mem_singleton] at hm
    rcases hm with hm | hm
    · exact hm
    · exact absurd hm.symm (he p o)
  refine ⟨?_, ?_, ?_, ?_, ?_, ?_⟩
  · intro p o
    have : (if e = Ev.body p o then 1 else 0) = 0 := by rw [if_neg (he p o)]
    simp only [St.emit, List.count_append, List.count_singleton, beq_iff_eq, this]
    exact h.once p o
  · intro p o hm; exact h.sub p o (hmem p o hm)
  · intro p hm; exact h.origOnly p (hmem p true hm)
  · intro p hf q hq; exact (h.depsB p (hmem p false hf) q hq).append _
  · intro p oi hk hm q hq; exact (h.depsO p oi hk (hmem p true hm) q hq).append _
  · intro p oi hk hf; exact (h.chain p oi hk (hmem p false hf)).append _

theorem count_snoc_le {l : List Ev} {e x : Ev} (hl : l.count x ≤ 1) (he : e = x → e ∉ l) :
    (l ++ [e]).count x ≤ 1 := by
  simp only [List.count_append, List.count_singleton, beq_iff_eq]
  split
  · rename_i hx
    have := List.count_eq_zero_of_not_mem (he hx)
    subst hx; omega
  · omega

theorem mem_snoc {l : List Ev} {e x : Ev} : x ∈ l ++ [e] ↔ x ∈ l ∨ x = e := by simp

/-- the body of the compiled `init` of `p` -/
theorem Inv.emit_main {P : Prog} {s : St} (h : Inv P s) (p : Nat)
    (hg : p ∈ s.guard) (hnew : Ev.body p false ∉ s.trace)
    (himp : ∀ q ∈ (P p).imports, Fin s q)
    (hch : ∀ oi, (P p).kind = .chained oi → Ev.body p true ∈ s.trace) :
    Inv P (s.emit (.body p false)) := by
  refine ⟨?_, ?_, ?_, ?_, ?_, ?_⟩
  · intro q o
    exact count_snoc_le (h.once q o) (fun e => e ▸ hnew)
  · intro q o hm
    rcases mem_snoc.1 hm with hm | hm
    · exact h.sub q o hm
    · cases hm; exact hg
  · intro q hm
    rcases mem_snoc.1 hm with hm | hm
    · exact h.origOnly q hm
    · cases hm
  · intro q hf r hr
    rcases mem_snoc.1 hf with hf | hf
    · exact (h.depsB q hf r hr).append _
    · cases hf; exact Bef.snoc_new (himp r hr) hnew
  · intro q oi hk hm r hr
    rcases mem_snoc.1 hm with hm | hm
    · exact (h.depsO q oi hk hm r hr).append _
    · cases hm
  · intro q oi hk hf
    rcases mem_snoc.1 hf with hf | hf
    · exact (h.chain q oi hk hf).append _
    · cases hf; exact Bef.snoc_new (hch oi hk) hnew

/-- the body of the renamed original `init$hasPatch` of a chained package `p` -/
theorem Inv.emit_orig {P : Prog} {s : St} (h : Inv P s) (p : Nat) (oi : List Nat)
    (hk : (P p).kind = .chained oi)
    (hg : p ∈ s.guard) (hnew : Ev.body p true ∉ s.trace)
    (himp : ∀ q ∈ oi, Fin s q) :
    Inv P (s.emit (.body p true)) := by
  refine ⟨?_, ?_, ?_, ?_, ?_, ?_⟩
  · intro q o
    exact count_snoc_le (h.once q o) (fun e => e ▸ hnew)
  · intro q o hm
    rcases mem_snoc.1 hm with hm | hm
    · exact h.sub q o hm
    · cases hm; exact hg
  · intro q hm
    rcases mem_snoc.1 hm with hm | hm
    · exact h.origOnly q hm
    · cases hm; exact ⟨oi, hk⟩
  · intro q hf r hr
    rcases mem_snoc.1 hf with hf | hf
    · exact (h.depsB q hf r hr).append _
    · cases hf
  · intro q oi' hk' hm r hr
    rcases mem_snoc.1 hm with hm | hm
    · exact (h.depsO q oi' hk' hm r hr).append _
    · cases hm
      rw [hk] at hk'; cases hk'
      exact Bef.snoc_new (himp r hr) hnew
  · intro q oi' hk' hf
    rcases mem_snoc.1 hf with hf | hf
    · exact (h.chain q oi' hk' hf).append _
    · cases hf

/-! ### relating the state before and after a piece of initialisation code -/

/-- `ExtU P R U s s'`: `s'` is reached from `s` by initialisation code which only ran bodies of packages
    satisfying `R` that were not guarded in `s`; every newly guarded package has finished, except
    possibly those in `U` (the package whose `init` is in progress). -/
structure ExtU (P : Prog) (R : Nat → Prop) (U : Nat → Prop) (s s' : St) : Prop where
  guard : ∀ q, q ∈ s.guard → q ∈ s'.guard
  trace : ∃ new, s'.trace = s.trace ++ new ∧ ∀ ev ∈ new, ∃ q h, ev = Ev.body q h ∧ R q ∧ q ∉ s.guard
  fresh : ∀ q, q ∈ s'.guard → q ∈ s.guard ∨ Fin s' q ∨ U q

abbrev Ext (P : Prog) (R : Nat → Prop) (s s' : St) : Prop := ExtU P R (fun _ => False) s s'

theorem ExtU.refl (P : Prog) (R U : Nat → Prop) (s : St) : ExtU P R U s s :=
  ⟨fun _ h => h, ⟨[], by simp⟩, fun _ h => .inl h⟩

theorem ExtU.fin {P : Prog} {R U : Nat → Prop} {s s' : St} (h : ExtU P R U s s') {q : Nat} (hq : Fin s q) :
    Fin s' q := by
  obtain ⟨new, hn, _⟩ := h.trace
  unfold Fin; rw [hn]; exact List.mem_append_left _ hq

theorem ExtU.mem {P : Prog} {R U : Nat → Prop} {s s' : St} (h : ExtU P R U s s') {e : Ev} (he : e ∈ s.trace) :
    e ∈ s'.trace := by
  obtain ⟨new, hn, _⟩ := h.trace
  rw [hn]; exact List.mem_append_left _ he

theorem ExtU.mono {P : Prog} {R R' U U' : Nat → Prop} {s s' : St} (h : ExtU P R U s s')
    (hR : ∀ q, R q → R' q) (hU : ∀ q, U q → U' q) : ExtU P R' U' s s' := by
  refine ⟨h.guard, ?_, ?_⟩
  · obtain ⟨new, hn, hall⟩ := h.trace
    refine ⟨new, hn, fun ev hev => ?_⟩
    obtain ⟨q, o, he, hr, hg⟩ := hall ev hev
    exact ⟨q, o, he, hR q hr, hg⟩
  · intro q hq
    rcases h.fresh q hq with h1 | h1 | h1
    · exact .inl h1
    · exact .inr (.inl h1)
    · exact .inr (.inr (hU q h1))

theorem ExtU.trans {P : Prog} {R U : Nat → Prop} {s s' s'' : St} (h1 : ExtU P R U s s') (h2 : ExtU P R U s' s'') :
    ExtU P R U s s'' := by
  refine ⟨fun q hq => h2.guard q (h1.guard q hq), ?_, ?_⟩
  · obtain ⟨n1, e1, a1⟩ := h1.trace
    obtain ⟨n2, e2, a2⟩ := h2.trace
    refine ⟨n1 ++ n2, by rw [e2, e1, List.append_assoc], fun ev hev => ?_⟩
    rcases List.mem_append.1 hev with hev | hev
    · exact a1 ev hev
    · obtain ⟨q, o, he, hr, hg⟩ := a2 ev hev
      exact ⟨q, o, he, hr, fun hq => hg (h1.guard q hq)⟩
  · intro q hq
    rcases h2.fresh q hq with h | h | h
    · rcases h1.fresh q h with h' | h' | h'
      · exact .inl h'
      · exact .inr (.inl (h2.fin h'))
      · exact .inr (.inr h')
    · exact .inr (.inl h)
    · exact .inr (.inr h)

/-- setting the guard of the package whose `init` starts -/
theorem ExtU.setGuard (P : Prog) (R : Nat → Prop) (s : St) (p : Nat) :
    ExtU P R (· = p) s (s.setGuard p) := by
  refine ⟨fun q hq => List.mem_cons_of_mem _ hq, ⟨[], by simp [St.setGuard]⟩, ?_⟩
  intro q hq
  rcases List.mem_cons.1 hq with h | h
  · exact .inr (.inr h)
  · exact .inl h

/-- running a body of `p` -/
theorem ExtU.emit {P : Prog} {R U : Nat → Prop} {s t : St} (h : ExtU P R U s t) (p : Nat) (o : Bool)
    (hR : R p) (hg : p ∉ s.guard) : ExtU P R U s (t.emit (.body p o)) := by
  refine ⟨h.guard, ?_, ?_⟩
  · obtain ⟨new, hn, hall⟩ := h.trace
    refine ⟨new ++ [.body p o], by simp [St.emit, hn], fun ev hev => ?_⟩
    rcases List.mem_append.1 hev with hev | hev
    · exact hall ev hev
    · exact ⟨p, o, by simpa using hev, hR, hg⟩
  · intro q hq
    rcases h.fresh q hq with h1 | h1 | h1
    · exact .inl h1
    · exact .inr (.inl (List.mem_append_left _ h1))
    · exact .inr (.inr h1)

theorem ExtU.done {P : Prog} {R U : Nat → Prop} {s s' : St} (h : ExtU P R U s s') {b : Nat} (hd : Done s b)
    (hU : ∀ q, U q → ¬ q < b) : Done s' b := by
  intro q hq hb
  rcases h.fresh q hq with h1 | h1 | h1
  · exact h.fin (hd q h1 hb)
  · exact h1
  · exact absurd hb (hU q h1)

theorem Ext.quiet {P : Prog} {R : Nat → Prop} {s s' : St} (h : Ext P R s s') (hq : Quiet s) : Quiet s' := by
  intro q hg
  rcases h.fresh q hg with h1 | h1 | h1
  · exact h.fin (hq q h1)
  · exact h1
  · exact h1.elim

/-- a body that was not there before and is there now was run by this piece of code -/
theorem ExtU.new_body {P : Prog} {R U : Nat → Prop} {s s' : St} (h : ExtU P R U s s') {p : Nat} {o : Bool}
    (hm : Ev.body p o ∈ s'.trace) : Ev.body p o ∈ s.trace ∨ (R p ∧ p ∉ s.guard) := by
  obtain ⟨new, hn, hall⟩ := h.trace
  rw [hn] at hm
  rcases List.mem_append.1 hm with hm | hm
  · exact .inl hm
  · obtain ⟨q, o', he, hr, hg⟩ := hall _ hm
    cases he; exact .inr ⟨hr, hg⟩

/-! ### the import calls at the head of a body -/

theorem Reach.trans {P : Prog} {a b c : Nat} (h1 : Reach P a b) (h2 : Reach P b c) : Reach P a c := by
  induction h1 with
  | refl _ => exact h2
  | step hq _ ih => exact .step hq (ih h2)

theorem imports_spec (P : Prog) (call : Nat → St → St) (b : Nat)
    (hcall : ∀ q s, q < b → Inv P s → Done s (q+1) →
      Inv P (call q s) ∧ Ext P (Reach P q) s (call q s) ∧ Fin (call q s) q) :
    ∀ (l : List Nat) (s : St), (∀ q ∈ l, q < b) → Inv P s → Done s b →
      Inv P (initImports call l s) ∧
      Ext P (fun x => ∃ r ∈ l, Reach P r x) s (initImports call l s) ∧
      ∀ q ∈ l, Fin (initImports call l s) q := by
  intro l
  induction l with
  | nil => intro s _ hi _; exact ⟨hi, ExtU.refl _ _ _ _, by simp⟩
  | cons q qs ih =>
    intro s hl hi hd
    have hq : q < b := hl q (by simp)
    obtain ⟨i1, e1, f1⟩ := hcall q s hq hi (fun r hr hb => hd r hr (by omega))
    have d1 : Done (call q s) b := e1.done hd (fun _ h => h.elim)
    obtain ⟨i2, e2, f2⟩ := ih (call q s) (fun r hr => hl r (by simp [hr])) i1 d1
    refine ⟨i2, ?_, ?_⟩
    · refine ExtU.trans (e1.mono (fun x hx => ⟨q, by simp, hx⟩) (fun _ h => h)) (e2.mono ?_ (fun _ h => h))
      rintro x ⟨r, hr, hx⟩
      exact ⟨r, by simp [hr], hx⟩
    · intro r hr
      rcases List.mem_cons.1 hr with h | h
      · subst h; exact e2.fin f1
      · exact f2 r h

theorem mem_deps_orig {P : Prog} {p q : Nat} {oi : List Nat} (hk : (P p).kind = .chained oi) (hq : q ∈ oi) :
    q ∈ P.deps p := by
  simp [Prog.deps, Prog.origImports, hk, hq]

theorem mem_deps_imports {P : Prog} {p q : Nat} (hq : q ∈ (P p).imports) : q ∈ P.deps p := by
  simp [Prog.deps, hq]

theorem Done.emit {s : St} {b : Nat} (h : Done s b) (e : Ev) : Done (s.emit e) b :=
  fun q hq hb => List.mem_append_left _ (h q hq hb)

theorem ExtU.close {P : Prog} {R : Nat → Prop} {s s' : St} {p : Nat} (h : ExtU P R (· = p) s s') (hf : Fin s' p) :
    Ext P R s s' := by
  refine ⟨h.guard, h.trace, ?_⟩
  intro q hq
  rcases h.fresh q hq with h1 | h1 | h1
  · exact .inl h1
  · exact .inr (.inl h1)
  · subst h1; exact .inr (.inl hf)

/-- one "segment" of `p.init` after its guard is set: initialise the packages of `l` (all imports of `p`). -/
theorem segment_spec (P : Prog) (hT : Topo P) (call : Nat → St → St) (p : Nat)
    (hcall : ∀ q s, q < p → Inv P s → Done s (q+1) →
      Inv P (call q s) ∧ Ext P (Reach P q) s (call q s) ∧ Fin (call q s) q)
    (s t : St) (l : List Nat) (hl : ∀ q ∈ l, q ∈ P.deps p)
    (hi : Inv P t) (hd : Done t p) (he : ExtU P (Reach P p) (· = p) s t) (hg : p ∈ t.guard) :
    Inv P (initImports call l t) ∧ Done (initImports call l t) p ∧
    ExtU P (Reach P p) (· = p) s (initImports call l t) ∧ p ∈ (initImports call l t).guard ∧
    (∀ q ∈ l, Fin (initImports call l t) q) ∧
    (∀ e ∈ t.trace, e ∈ (initImports call l t).trace) ∧
    (∀ o, Ev.body p o ∈ (initImports call l t).trace → Ev.body p o ∈ t.trace) := by
  obtain ⟨i1, e1, f1⟩ := imports_spec P call p hcall l t (fun q hq => hT p q (hl q hq)) hi hd
  refine ⟨i1, e1.done hd (fun _ h => h.elim), ?_, e1.guard p hg, f1, fun e he => e1.mem he, ?_⟩
  · refine he.trans (e1.mono ?_ (fun _ h => h.elim))
    rintro x ⟨r, hr, hx⟩
    exact .step (hl r hr) hx
  · intro o hm
    rcases e1.new_body hm with h | ⟨_, h⟩
    · exact h
    · exact absurd hg h

/-! ### `p.init` -/

theorem initPkg_spec (P : Prog) (hT : Topo P) : ∀ (fuel p : Nat) (s : St), p < fuel → Inv P s → Done s (p+1) →
    Inv P (initPkg P fuel p s) ∧ Ext P (Reach P p) s (initPkg P fuel p s) ∧ Fin (initPkg P fuel p s) p := by
  intro fuel
  induction fuel with
  | zero => intro p s h; omega
  | succ n ih =>
    intro p s hp hi hd
    unfold initPkg initStep
    by_cases hg : p ∈ s.guard
    · rw [if_pos hg]
      exact ⟨hi, ExtU.refl _ _ _ _, hd p hg (Nat.lt_succ_self p)⟩
    · rw [if_neg hg]
      have hcall : ∀ q s, q < p → Inv P s → Done s (q+1) →
          Inv P (initPkg P n q s) ∧ Ext P (Reach P q) s (initPkg P n q s) ∧ Fin (initPkg P n q s) q :=
        fun q s hq => ih q s (by omega)
      have not_in_s : ∀ o, Ev.body p o ∉ s.trace := fun o hm => hg (hi.sub p o hm)
      -- state after `store true`
      have i1 : Inv P (s.setGuard p) := hi.setGuard p
      have e1 : ExtU P (Reach P p) (· = p) s (s.setGuard p) := ExtU.setGuard P _ s p
      have d1 : Done (s.setGuard p) p := e1.done (fun q hq hb => hd q hq (by omega)) (fun q h hb => by omega)
      have g1 : p ∈ (s.setGuard p).guard := by simp [St.setGuard]
      -- state after the chained original initialiser (if any)
      have H2 : ∀ s2, s2 = (match (P p).kind with
            | .chained oi => initHasPatch (fun q st => initPkg P n q st) oi p (s.setGuard p)
            | _ => s.setGuard p) →
          Inv P s2 ∧ Done s2 p ∧ ExtU P (Reach P p) (· = p) s s2 ∧ p ∈ s2.guard ∧
          Ev.body p false ∉ s2.trace ∧ (∀ oi, (P p).kind = .chained oi → Ev.body p true ∈ s2.trace) := by
        intro s2 hs2
        cases hk : (P p).kind with
        | chained oi =>
          rw [hk] at hs2
          simp only [] at hs2
          -- `init$hasPatch`: the swapped test succeeds because the guard has just been set
          unfold initHasPatch at hs2
          rw [if_pos g1] at hs2
          have i2 := i1.setGuard p
          have e2 : ExtU P (Reach P p) (· = p) s ((s.setGuard p).setGuard p) :=
            e1.trans (ExtU.setGuard P _ _ p)
          have d2 : Done ((s.setGuard p).setGuard p) p :=
            e2.done (fun q hq hb => hd q hq (by omega)) (fun q h hb => by omega)
          have g2 : p ∈ ((s.setGuard p).setGuard p).guard := by simp [St.setGuard]
          obtain ⟨i3, d3, e3, g3, f3, _, n3⟩ :=
            segment_spec P hT _ p hcall s _ oi (fun q hq => mem_deps_orig hk hq) i2 d2 e2 g2
          have nO := fun hm => not_in_s true (n3 true hm)
          subst hs2
          refine ⟨i3.emit_orig p oi hk g3 nO f3, d3.emit _, e3.emit p true (.refl p) hg, g3, ?_, ?_⟩
          · intro hm
            rcases mem_snoc.1 hm with hm | hm
            · exact not_in_s false (n3 false hm)
            · cases hm
          · intro _ _; exact mem_snoc.2 (.inr rfl)
        | normal =>
          rw [hk] at hs2; subst hs2
          exact ⟨i1, d1, e1, g1, not_in_s false, fun oi h => by cases h⟩
        | noOld oi =>
          rw [hk] at hs2; subst hs2
          exact ⟨i1, d1, e1, g1, not_in_s false, fun oi h => by cases h⟩
      obtain ⟨i2, d2, e2, g2, n2, c2⟩ := H2 _ rfl
      -- the imports of the compiled init, then its body
      obtain ⟨i3, d3, e3, g3, f3, m3, n3⟩ :=
        segment_spec P hT _ p hcall s _ (P p).imports (fun q hq => mem_deps_imports hq) i2 d2 e2 g2
      have nM := fun hm => n2 (n3 false hm)
      refine ⟨i3.emit_main p g3 nM f3 (fun oi hk => m3 _ (c2 oi hk)), ?_, mem_snoc.2 (.inr rfl)⟩
      exact (e3.emit p false (.refl p) hg).close (mem_snoc.2 (.inr rfl))

/-! ### top level: any sequence of initialiser calls -/

theorem Quiet.done {s : St} (h : Quiet s) (b : Nat) : Done s b := fun q hq _ => h q hq

theorem Quiet.emit {s : St} (h : Quiet s) (e : Ev) : Quiet (s.emit e) :=
  fun q hq => List.mem_append_left _ (h q hq)

theorem callInits_spec (P : Prog) (hT : Topo P) (fuel : Nat) (calls : List Nat) (hc : ∀ c ∈ calls, c < fuel)
    (s : St) (hi : Inv P s) (hq : Quiet s) :
    Inv P (callInits P fuel calls s) ∧
    Ext P (fun x => ∃ c ∈ calls, Reach P c x) s (callInits P fuel calls s) ∧
    (∀ c ∈ calls, Fin (callInits P fuel calls s) c) ∧ Quiet (callInits P fuel calls s) := by
  obtain ⟨i, e, f⟩ := imports_spec P (fun q st => initPkg P fuel q st) fuel
    (fun q s hq hi hd => initPkg_spec P hT fuel q s hq hi hd) calls s hc hi (hq.done fuel)
  exact ⟨i, e, f, e.quiet hq⟩

/-- a finished package has all its direct dependencies finished, earlier -/
theorem edge_bef {P : Prog} {s : St} (hi : Inv P s) {p q : Nat} (hf : Fin s p) (hq : q ∈ P.deps p) :
    Bef (.body q false) (.body p false) s.trace := by
  unfold Prog.deps at hq
  rcases List.mem_append.1 hq with hq | hq
  · unfold Prog.origImports at hq
    cases hk : (P p).kind with
    | chained oi =>
      rw [hk] at hq
      have hc := hi.chain p oi hk hf
      exact (hi.depsO p oi hk hc.mem q hq).trans hc
    | normal => rw [hk] at hq; cases hq
    | noOld oi => rw [hk] at hq; cases hq
  · exact hi.depsB p hf q hq

theorem fin_reach {P : Prog} {s : St} (hi : Inv P s) {p q : Nat} (hr : Reach P p q) (hf : Fin s p) : Fin s q := by
  induction hr with
  | refl _ => exact hf
  | step hq _ ih => exact ih (edge_bef hi hf hq).mem

theorem reach_bef {P : Prog} {s : St} (hi : Inv P s) {p q : Nat} (hr : Reach P p q) (hf : Fin s p) (hne : q ≠ p) :
    Bef (.body q false) (.body p false) s.trace := by
  induction hr with
  | refl _ => exact absurd rfl hne
  | @step p m r hm hr' ih =>
    have hb := edge_bef hi hf hm
    by_cases h : r = m
    · subst h; exact hb
    · exact (ih hb.mem h).trans hb

/-- under a topological numbering a package is not among its own transitive imports -/
theorem Reach.le {P : Prog} (hT : Topo P) {p q : Nat} (hr : Reach P p q) : q ≤ p := by
  induction hr with
  | refl _ => exact Nat.le_refl _
  | step hq _ ih => exact Nat.le_trans ih (Nat.le_of_lt (hT _ _ hq))

theorem initImports_congr (f g : Nat → St → St) (l : List Nat) (h : ∀ q ∈ l, ∀ st, f q st = g q st) (s : St) :
    initImports f l s = initImports g l s := by
  induction l generalizing s with
  | nil => rfl
  | cons q qs ih =>
    simp only [initImports, List.foldl_cons]
    rw [h q (by simp)]
    exact ih (fun r hr => h r (by simp [hr])) _

theorem fuel_irrelevant_aux (P : Prog) (hT : Topo P) : ∀ (f1 f2 p : Nat) (s : St), p < f1 → p < f2 →
    initPkg P f1 p s = initPkg P f2 p s := by
  intro f1
  induction f1 with
  | zero => intro f2 p s h; omega
  | succ n ih =>
    intro f2 p s h1 h2
    cases f2 with
    | zero => omega
    | succ m =>
      have hrec : ∀ q, q ∈ P.deps p → ∀ st, (fun q st => initPkg P n q st) q st = (fun q st => initPkg P m q st) q st := by
        intro q hq st
        have := hT p q hq
        exact ih m q st (by omega) (by omega)
      unfold initPkg initStep
      split
      · rfl
      · cases hk : (P p).kind with
        | chained oi =>
          simp only [initHasPatch]
          rw [initImports_congr _ _ oi (fun q hq => hrec q (mem_deps_orig hk hq)),
              initImports_congr _ _ (P p).imports (fun q hq => hrec q (mem_deps_imports hq))]
        | normal =>
          simp only []
          rw [initImports_congr _ _ (P p).imports (fun q hq => hrec q (mem_deps_imports hq))]
        | noOld oi =>
          simp only []
          rw [initImports_congr _ _ (P p).imports (fun q hq => hrec q (mem_deps_imports hq))]

/-! ### the entry function -/

/-- state between the steps of the entry function: `D` = initialisers already called -/
structure Top (P : Prog) (D : List Nat) (s : St) : Prop where
  inv : Inv P s
  quiet : Quiet s
  noMain : Ev.mainMain ∉ s.trace
  reach : ∀ p o, Ev.body p o ∈ s.trace → ∃ c ∈ D, Reach P c p
  fin : ∀ c ∈ D, Fin s c

theorem Top.init (P : Prog) : Top P [] {} :=
  ⟨Inv.init P, by simp [Quiet], by simp, by simp, by simp⟩

theorem Top.emit_other {P : Prog} {D : List Nat} {s : St} (h : Top P D s) (e : Ev)
    (he : ∀ p o, e ≠ .body p o) (hm : e ≠ .mainMain) : Top P D (s.emit e) := by
  refine ⟨h.inv.emit_other e he, h.quiet.emit e, ?_, ?_, fun c hc => List.mem_append_left _ (h.fin c hc)⟩
  · intro hh
    rcases mem_snoc.1 hh with hh | hh
    · exact h.noMain hh
    · exact hm hh.symm
  · intro p o hh
    rcases mem_snoc.1 hh with hh | hh
    · exact h.reach p o hh
    · exact absurd hh.symm (he p o)

theorem Top.call {P : Prog} (hT : Topo P) {D : List Nat} {s : St} (h : Top P D s) (fuel c : Nat) (hc : c < fuel) :
    Top P (D ++ [c]) (initPkg P fuel c s) ∧ ∀ e ∈ s.trace, e ∈ (initPkg P fuel c s).trace := by
  obtain ⟨i, e, f⟩ := initPkg_spec P hT fuel c s hc h.inv (h.quiet.done _)
  refine ⟨⟨i, e.quiet h.quiet, ?_, ?_, ?_⟩, fun _ he => e.mem he⟩
  · intro hm
    obtain ⟨new, hn, hall⟩ := e.trace
    rw [hn] at hm
    rcases List.mem_append.1 hm with hm | hm
    · exact h.noMain hm
    · obtain ⟨q, o, he, _⟩ := hall _ hm; cases he
  · intro p o hm
    rcases e.new_body hm with hm | ⟨hr, _⟩
    · obtain ⟨d, hd, hr⟩ := h.reach p o hm
      exact ⟨d, List.mem_append_left _ hd, hr⟩
    · exact ⟨c, by simp, hr⟩
  · intro d hd
    rcases List.mem_append.1 hd with hd | hd
    · exact e.fin (h.fin d hd)
    · simp at hd; subst hd; exact f

theorem Top.optCall {P : Prog} (hT : Topo P) {D : List Nat} {s : St} (h : Top P D s) (fuel : Nat) (o : Option Nat)
    (hc : ∀ c ∈ o.toList, c < fuel) :
    Top P (D ++ o.toList) (optCall P fuel o s) ∧ ∀ e ∈ s.trace, e ∈ (optCall P fuel o s).trace := by
  cases o with
  | none => exact ⟨by simpa [LlgoVerif.Init.optCall] using h, fun _ he => he⟩
  | some c => exact h.call hT fuel c (hc c (by simp))

theorem runEntry_top (P : Prog) (hT : Topo P) (fuel : Nat) (e : Entry) (hc : ∀ c ∈ e.calls, c < fuel) :
    ∃ s, runEntry P fuel e = s.emit .mainMain ∧ Top P e.calls s := by
  unfold runEntry
  refine ⟨_, rfl, ?_⟩
  have h0 : Top P [] (if e.pyInit then ({} : St).emit .pyInit else {}) := by
    split
    · exact (Top.init P).emit_other _ (by simp) (by simp)
    · exact Top.init P
  have h1 := (h0.optCall hT fuel e.rt (fun c hm => hc c (by simp [Entry.calls] at hm ⊢; simp [hm]))).1
  have h2 : Top P ([] ++ e.rt.toList)
      (if e.abiInit then (optCall P fuel e.rt (if e.pyInit then ({} : St).emit .pyInit else {})).emit .abiTypes
       else optCall P fuel e.rt (if e.pyInit then ({} : St).emit .pyInit else {})) := by
    split
    · exact h1.emit_other _ (by simp) (by simp)
    · exact h1
  have h3 := (h2.optCall hT fuel e.stdRuntime (fun c hm => hc c (by simp [Entry.calls] at hm ⊢; simp [hm]))).1
  have h4 := (h3.call hT fuel e.main (hc e.main (by simp [Entry.calls]))).1
  simpa [Entry.calls] using h4

end LlgoVerif.Init
