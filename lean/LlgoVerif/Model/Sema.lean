/-!
# `runtime/internal/lib/runtime/sema_llgo.go` as a transition system over any number of threads

The semaphore (`semaAcquire` / `semaRelease`) and the notify list (`notifyListAdd/Wait/NotifyOne/NotifyAll`) that llgo
puts underneath Go's `sync` package, at the granularity of the scheduler stand-in used by the correspondence check:
a thread parks *before* every `Mutex.Lock`, every atomic access and inside every `Cond.Wait`; one `step` lets one thread
run from where it is parked to its next parking point (or to the end of its program).

```go
func semaAcquire(addr *uint32) {
    for {
        v := latomic.LoadUint32(addr)                                    // aLoad1
        if v != 0 && latomic.CompareAndSwapUint32(addr, v, v-1) {        // aCas1 v
            return
        }
        st := getSemaState(addr)                                         // aGet   (semaMu.Lock … Unlock, never held across a park)
        st.mu.Lock()                                                     // aLock
        for {
            v = latomic.LoadUint32(addr)                                 // aLoad2
            if v != 0 && latomic.CompareAndSwapUint32(addr, v, v-1) {    // aCas2 v
                st.mu.Unlock()
                return
            }
            st.waiters++                                                 //   (a FAILED CAS also lands here: `casRetry = false`)
            st.cond.Wait(&st.mu)                                         // aWait, then aWoken (signalled or spurious; needs mu)
            st.waiters--
        }
    }
}
func semaRelease(addr *uint32) {
    latomic.AddUint32(addr, 1)                                           // rAdd
    st := getSemaState(addr)                                             // rGet
    st.mu.Lock()                                                         // rLock
    if st.waiters != 0 { st.cond.Signal() }                              //   wakes ONE pthread waiter, chosen by the environment
    st.mu.Unlock()
}
func notifyListAdd(l) uint32 { return latomic.AddUint32(&l.wait, 1) - 1 }   // wAdd
func notifyListWait(l, t) {
    st := getNotifyState(l)                                              // wGet t
    st.mu.Lock()                                                         // wLock t
    for latomic.LoadUint32(&l.notify) == t {                             // wLoad t      (`ticketLess = false`; should be: while notify ≤ t)
        st.cond.Wait(&st.mu)                                             // wWait t, wWoken t
    }
    st.mu.Unlock()
}
func notifyListNotifyAll(l) {
    st := getNotifyState(l); st.mu.Lock()                                // naGet, naLock
    latomic.StoreUint32(&l.notify, latomic.LoadUint32(&l.wait))          // naLoadWait, naStore w
    st.cond.Broadcast(); st.mu.Unlock()
}
func notifyListNotifyOne(l) {
    st := getNotifyState(l); st.mu.Lock()                                // n1Get, n1Lock
    if latomic.LoadUint32(&l.notify) != latomic.LoadUint32(&l.wait) {    // n1LoadNotify, n1LoadWait n
        latomic.AddUint32(&l.notify, 1)                                  // n1Add
        st.cond.Signal()                                                 //   ONE arbitrary pthread waiter (`oneBroadcast = false`)
    }
    st.mu.Unlock()
}
```

One semaphore address and one notify list are modelled (the per-address maps `semaMap` / `notifyMap` are exercised by
the correspondence check with several addresses, by projection).  The semaphore count is a natural number (its
wrap-around after 2^32 releases is not modelled).  The ticket counters `wait` / `notify` of the notify list are kept as
the TRUE (unbounded) numbers of tickets drawn / notified, starting at an arbitrary `c0` (`initAt`), while every decision
the code takes is computed on their 32-bit images (`% 2^32`, `less32` = `int32(a-b) < 0`): histories that start just
below the 2^32 wrap are part of the model, and the theorems say when the wrapped comparisons are exact.  `Cfg` selects the code variant: `Cfg.current` is the pinned
tree, `Cfg.fixed` the tree after `/verif/fixes/C11-1.diff` (ticket comparison + broadcast in `NotifyOne`) and
`C11-2.diff` (retry after a failed CAS).
-/
namespace LlgoVerif.Sema

structure Cfg where
  /-- `notifyListWait` waits while `¬ (t < notify)` (repaired) instead of while `notify == t` (pinned tree) -/
  ticketLess : Bool
  /-- `NotifyOne` broadcasts (repaired) instead of signalling one arbitrary pthread waiter -/
  oneBroadcast : Bool
  /-- the locked loop of `semaAcquire` re-reads the count after a failed CAS (repaired) instead of going to sleep -/
  casRetry : Bool
  deriving DecidableEq, Repr

def Cfg.current : Cfg := ⟨false, false, false⟩
def Cfg.fixed : Cfg := ⟨true, true, true⟩

inductive Op where
  | acquire | release | wait | notifyOne | notifyAll
  deriving DecidableEq, Repr

inductive Pc where
  | done
  | aLoad1 | aCas1 (v : Nat) | aGet | aLock | aLoad2 | aCas2 (v : Nat) | aWait | aWoken
  | rAdd | rGet | rLock
  | wAdd | wGet (t : Nat) | wLock (t : Nat) | wLoad (t : Nat) | wWait (t : Nat) | wWoken (t : Nat)
  | naGet | naLock | naLoadWait | naStore (w : Nat)
  | n1Get | n1Lock | n1LoadNotify | n1LoadWait (n : Nat) | n1Add
  deriving DecidableEq, Repr

structure Thread where
  pc : Pc
  /-- operations not yet started -/
  prog : List Op
  opsDone : Nat
  deriving DecidableEq, Repr

/-- the first parking point of an operation (no shared access happens before it) -/
def firstPc : Op → Pc
  | .acquire => .aLoad1
  | .release => .rAdd
  | .wait => .wAdd
  | .notifyOne => .n1Get
  | .notifyAll => .naGet

/-- the current operation returned: the thread runs on to the first parking point of its next operation -/
def Thread.finish (t : Thread) : Thread :=
  match t.prog with
  | [] => { pc := .done, prog := [], opsDone := t.opsDone + 1 }
  | o :: r => { pc := firstPc o, prog := r, opsDone := t.opsDone + 1 }

def Thread.goto (t : Thread) (pc : Pc) : Thread := { t with pc := pc }

/-- a thread that has not started yet -/
def Thread.start (prog : List Op) : Thread :=
  match prog with
  | [] => { pc := .done, prog := [], opsDone := 0 }
  | o :: r => { pc := firstPc o, prog := r, opsDone := 0 }

/-- what one observes of a step (ghost: used by the theorems and by the driver's event column) -/
inductive Event where
  | acquired (saw : Nat)            -- a CAS of `semaAcquire` succeeded; `saw` = the count it replaced
  | released
  | ticket (t : Nat)
  | waitRet (t n : Nat)             -- `notifyListWait(t)` returned; `n` = `notify` at its last check
  | notifiedOne | notifiedAll
  deriving DecidableEq, Repr

/-- everything that is not a thread -/
structure Shared where
  val : Nat
  waiters : Nat
  mu : Option Nat
  wait : Nat
  notify : Nat
  nmu : Option Nat
  -- ghost history
  acquired : Nat
  released : Nat
  acqSaw : List Nat
  rets : List (Nat × Nat × Nat)     -- (thread, ticket, notify at return)
  maxVal : Nat                      -- the largest count seen so far
  deriving DecidableEq, Repr

inductive Wake where
  | none
  | semOne      -- `st.cond.Signal()` of the semaphore
  | listOne     -- `st.cond.Signal()` of the notify list
  | listAll     -- `st.cond.Broadcast()` of the notify list
  deriving DecidableEq, Repr

/-- 2^32: the ticket counters are `uint32` -/
def W32 : Nat := 4294967296

/-- `notifyLess(a, b) = int32(a-b) < 0` on the 32-bit images of `a` and `b` -/
def less32 (a b : Nat) : Bool := decide (2147483648 ≤ (a % W32 + W32 - b % W32) % W32)

/-- does `notifyListWait(t)` keep waiting when it reads `notify = n`?  (computed on the 32-bit images) -/
def keepWaiting (cfg : Cfg) (n t : Nat) : Bool :=
  if cfg.ticketLess then !(less32 t n) else n % W32 == t % W32

/-- One step of thread `i` (its record is `t`) on the shared part: new shared part, new thread record, the wake-up it
    performs, the event.  `none` = the thread cannot run (finished, blocked in `Cond.Wait`, or its mutex is held). -/
def stepThread (cfg : Cfg) (i : Nat) (sh : Shared) (t : Thread) : Option (Shared × Thread × Wake × Option Event) :=
  match t.pc with
  | .done => none
  -- ---- semaAcquire
  | .aLoad1 =>
    if sh.val ≠ 0 then some (sh, t.goto (.aCas1 sh.val), .none, none)
    else some (sh, t.goto .aGet, .none, none)
  | .aCas1 v =>
    if sh.val = v then
      some ({ sh with val := v - 1, acquired := sh.acquired + 1, acqSaw := sh.val :: sh.acqSaw }, t.finish, .none,
            some (.acquired sh.val))
    else some (sh, t.goto .aGet, .none, none)
  | .aGet => some (sh, t.goto .aLock, .none, none)
  | .aLock =>
    if sh.mu = none then some ({ sh with mu := some i }, t.goto .aLoad2, .none, none) else none
  | .aLoad2 =>
    if sh.val ≠ 0 then some (sh, t.goto (.aCas2 sh.val), .none, none)
    else some ({ sh with waiters := sh.waiters + 1, mu := none }, t.goto .aWait, .none, none)
  | .aCas2 v =>
    if sh.val = v then
      some ({ sh with val := v - 1, mu := none, acquired := sh.acquired + 1, acqSaw := sh.val :: sh.acqSaw }, t.finish,
            .none, some (.acquired sh.val))
    else if cfg.casRetry then some (sh, t.goto .aLoad2, .none, none)
    else some ({ sh with waiters := sh.waiters + 1, mu := none }, t.goto .aWait, .none, none)
  | .aWait => none
  | .aWoken =>
    if sh.mu = none then some ({ sh with mu := some i, waiters := sh.waiters - 1 }, t.goto .aLoad2, .none, none)
    else none
  -- ---- semaRelease
  | .rAdd =>
    some ({ sh with val := sh.val + 1, released := sh.released + 1, maxVal := max sh.maxVal (sh.val + 1) }, t.goto .rGet,
          .none, some .released)
  | .rGet => some (sh, t.goto .rLock, .none, none)
  | .rLock =>
    if sh.mu = none then some (sh, t.finish, if sh.waiters ≠ 0 then .semOne else .none, none) else none
  -- ---- notifyListAdd ; notifyListWait
  | .wAdd => some ({ sh with wait := sh.wait + 1 }, t.goto (.wGet sh.wait), .none, some (.ticket sh.wait))
  | .wGet tk => some (sh, t.goto (.wLock tk), .none, none)
  | .wLock tk =>
    if sh.nmu = none then some ({ sh with nmu := some i }, t.goto (.wLoad tk), .none, none) else none
  | .wLoad tk =>
    if keepWaiting cfg sh.notify tk then some ({ sh with nmu := none }, t.goto (.wWait tk), .none, none)
    else some ({ sh with nmu := none, rets := (i, tk, sh.notify) :: sh.rets }, t.finish, .none,
               some (.waitRet tk sh.notify))
  | .wWait _ => none
  | .wWoken tk =>
    if sh.nmu = none then some ({ sh with nmu := some i }, t.goto (.wLoad tk), .none, none) else none
  -- ---- notifyListNotifyAll
  | .naGet => some (sh, t.goto .naLock, .none, none)
  | .naLock =>
    if sh.nmu = none then some ({ sh with nmu := some i }, t.goto .naLoadWait, .none, none) else none
  | .naLoadWait => some (sh, t.goto (.naStore sh.wait), .none, none)
  | .naStore w => some ({ sh with notify := w, nmu := none }, t.finish, .listAll, some .notifiedAll)
  -- ---- notifyListNotifyOne
  | .n1Get => some (sh, t.goto .n1Lock, .none, none)
  | .n1Lock =>
    if sh.nmu = none then some ({ sh with nmu := some i }, t.goto .n1LoadNotify, .none, none) else none
  | .n1LoadNotify => some (sh, t.goto (.n1LoadWait sh.notify), .none, none)
  | .n1LoadWait n =>
    if n % W32 ≠ sh.wait % W32 then some (sh, t.goto .n1Add, .none, none)
    else some ({ sh with nmu := none }, t.finish, .none, some .notifiedOne)
  | .n1Add =>
    some ({ sh with notify := sh.notify + 1, nmu := none }, t.finish,
          if cfg.oneBroadcast then .listAll else .listOne, some .notifiedOne)

/-- is the thread blocked in the semaphore's / the notify list's `Cond.Wait`? -/
def Thread.semWaiting (t : Thread) : Bool := t.pc = .aWait
def Thread.listWaiting (t : Thread) : Bool := match t.pc with | .wWait _ => true | _ => false

/-- the wake-up itself: `Cond.Wait` returns once the mutex can be re-acquired -/
def Thread.wake (t : Thread) : Thread :=
  match t.pc with
  | .aWait => t.goto .aWoken
  | .wWait tk => t.goto (.wWoken tk)
  | _ => t

/-- `Signal` with the environment's choice `pick`: no waiter → nothing happens; otherwise `pick` must be a waiter -/
def signalOne (ths : List Thread) (isW : Thread → Bool) (pick : Nat) : Option (List Thread) :=
  if ths.any isW then
    match ths[pick]? with
    | some t => if isW t then some (ths.set pick t.wake) else none
    | none => none
  else some ths

def applyWake (ths : List Thread) (w : Wake) (pick : Nat) : Option (List Thread) :=
  match w with
  | .none => some ths
  | .semOne => signalOne ths Thread.semWaiting pick
  | .listOne => signalOne ths Thread.listWaiting pick
  | .listAll => some (ths.map fun t => if t.listWaiting then t.wake else t)

structure State where
  sh : Shared
  threads : List Thread
  deriving DecidableEq, Repr

inductive Action where
  /-- thread `i` runs to its next parking point; a `Signal` executed on the way wakes thread `pick` -/
  | step (i pick : Nat)
  /-- spurious wake-up of the thread `i` blocked in a `Cond.Wait` -/
  | spurious (i : Nat)
  deriving DecidableEq, Repr

/-- the transition function; second component = the event of the step -/
def nextEv (cfg : Cfg) (s : State) : Action → Option (State × Option Event)
  | .step i pick =>
    match s.threads[i]? with
    | none => none
    | some t =>
      match stepThread cfg i s.sh t with
      | none => none
      | some (sh', t', w, ev) =>
        match applyWake (s.threads.set i t') w pick with
        | none => none
        | some ths => some ({ sh := sh', threads := ths }, ev)
  | .spurious i =>
    match s.threads[i]? with
    | none => none
    | some t =>
      if t.semWaiting || t.listWaiting then some ({ s with threads := s.threads.set i t.wake }, none) else none

def next (cfg : Cfg) (s : State) (a : Action) : Option State := (nextEv cfg s a).map (·.1)

/-- run a schedule; `none` = some action was not enabled -/
def run (cfg : Cfg) (s : State) : List Action → Option State
  | [] => some s
  | a :: as =>
    match next cfg s a with
    | some s' => run cfg s' as
    | none => none

inductive Reachable (cfg : Cfg) (s0 : State) : State → Prop where
  | refl : Reachable cfg s0 s0
  | step {s s' : State} (a : Action) : Reachable cfg s0 s → next cfg s a = some s' → Reachable cfg s0 s'

/-- the initial state of `n` threads with the given programs: count `v`, nobody waiting, nothing locked -/
def initShared (v c0 : Nat) : Shared :=
  { val := v, waiters := 0, mu := none, wait := c0, notify := c0, nmu := none,
    acquired := 0, released := 0, acqSaw := [], rets := [], maxVal := v }

/-- count `v`, both ticket counters at `c0` (a notify list that has already served `c0` waiters) -/
def initAt (v c0 : Nat) (progs : List (List Op)) : State :=
  { sh := initShared v c0, threads := progs.map Thread.start }

def init (v : Nat) (progs : List (List Op)) : State := initAt v 0 progs

/-- an initial state: every thread at the first parking point of its program -/
def State.isInit (s : State) : Prop :=
  ∃ v progs, s = init v progs

/-! ### what the driver prints (kept here so that the printed status is the model's own notion of "enabled") -/

/-- `r` runnable, `m` blocked on a mutex, `c` blocked in `Cond.Wait`, `d` done -/
def Thread.status (sh : Shared) (t : Thread) : Char :=
  match t.pc with
  | .done => 'd'
  | .aWait | .wWait _ => 'c'
  | .aLock | .aWoken | .rLock => if sh.mu = none then 'r' else 'm'
  | .wLock _ | .wWoken _ | .naLock | .n1Lock => if sh.nmu = none then 'r' else 'm'
  | _ => 'r'

/-- the kind of scheduling point the thread is parked at -/
def Thread.parkedAt (t : Thread) : String :=
  match t.pc with
  | .done => "-"
  | .aLoad1 | .aLoad2 | .wLoad _ | .naLoadWait | .n1LoadNotify | .n1LoadWait _ => "ld"
  | .aCas1 _ | .aCas2 _ => "cas"
  | .rAdd | .wAdd | .n1Add => "add"
  | .naStore _ => "st"
  | .aGet | .aLock | .rGet | .rLock | .wGet _ | .wLock _ | .naGet | .naLock | .n1Get | .n1Lock => "lk"
  | .aWait | .aWoken | .wWait _ | .wWoken _ => "wt"

end LlgoVerif.Sema
