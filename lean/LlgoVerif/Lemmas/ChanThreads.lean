import LlgoVerif.Lemmas.Chan
/-! Thread-level lemmas for C10: what one scheduler step does to program counters and mutex owners
    (used for mutual exclusion). -/
namespace LlgoVerif.Chan

theorem getD_set_self {α : Type} (l : List α) (i : Nat) (x d : α) (h : i < l.length) : (l.set i x).getD i d = x := by
  simp [List.getD, h]

theorem getD_set_other {α : Type} (l : List α) (i j : Nat) (x d : α) (h : i ≠ j) : (l.set i x).getD j d = l.getD j d := by
  simp [List.getD, List.getElem?_set, h]

/-! ### reading a state after a primitive update -/

@[simp] theorem thread_setOwner (s : State) (c : Cid) (o : Option Tid) (t : Tid) : (s.setOwner c o).thread t = s.thread t := rfl
@[simp] theorem thread_setChan (s : State) (c : Cid) (ch : Chan) (t : Tid) : (s.setChan c ch).thread t = s.thread t := rfl
@[simp] theorem own_setThread (s : State) (t : Tid) (th : Thread) (c : Cid) : (s.setThread t th).own c = s.own c := rfl
@[simp] theorem own_setChan (s : State) (c' : Cid) (ch : Chan) (c : Cid) : (s.setChan c' ch).own c = s.own c := rfl

theorem thread_setThread_ne (s : State) (t t' : Tid) (th : Thread) (h : t ≠ t') : (s.setThread t th).thread t' = s.thread t' :=
  getD_set_other _ _ _ _ _ h

theorem thread_setThread_self (s : State) (t : Tid) (th : Thread) (h : t < s.threads.length) : (s.setThread t th).thread t = th :=
  getD_set_self _ _ _ _ h

theorem own_setOwner_ne (s : State) (c c' : Cid) (o : Option Tid) (h : c ≠ c') : (s.setOwner c o).own c' = s.own c' :=
  getD_set_other _ _ _ _ _ h

theorem own_setOwner_self (s : State) (c : Cid) (o : Option Tid) (h : c < s.owner.length) : (s.setOwner c o).own c = o :=
  getD_set_self _ _ _ _ h

/-- the pc of a thread after `setThread t th` when `th` keeps the pc of the thread it replaces -/
theorem pc_setThread_same (s : State) (x t' : Tid) (th : Thread) (h : th.pc = (s.thread x).pc) :
    ((s.setThread x th).thread t').pc = (s.thread t').pc := by
  by_cases hx : x = t'
  · subst hx
    by_cases hl : x < s.threads.length
    · rw [thread_setThread_self _ _ _ hl, h]
    · have hle : s.threads.length ≤ x := Nat.le_of_not_lt hl
      have : s.setThread x th = s := by
        simp only [State.setThread]
        rw [List.set_eq_of_length_le hle]
      rw [this]
  · rw [thread_setThread_ne _ _ _ _ hx]

/-! ### "inside the critical section of channel c" -/

def PC.inCS : PC → Cid → Bool
  | .notify c' _ _, c => c' == c
  | _, _ => false

theorem startOps_notCS (th : Thread) (ops : List Op) (c : Cid) : (startOps th ops).pc.inCS c = false := by
  induction ops generalizing th with
  | nil => rfl
  | cons op rest ih =>
    cases op with
    | send c' v => rfl
    | recv c' => rfl
    | close c' => rfl
    | select cases blocking =>
      cases blocking with
      | true => simp only [startOps]; split <;> rfl
      | false =>
        simp only [startOps]
        split
        · exact ih _
        · rfl

theorem finishOp_notCS (th : Thread) (r : Res) (c : Cid) : (finishOp th r).pc.inCS c = false :=
  startOps_notCS _ _ _

theorem pollFrom_notCS (th : Thread) (sl : Sel) (pass i : Nat) (c : Cid) : (pollFrom th sl pass i).pc.inCS c = false := by
  unfold pollFrom
  split
  · split
    · rfl
    · split
      · split <;> rfl
      · rfl
  · split
    · rfl
    · exact finishOp_notCS _ _ _

theorem commitSel_notCS (th : Thread) (sl : Sel) (ok : Bool) (c : Cid) : (commitSel th sl ok).pc.inCS c = false := by
  unfold commitSel
  dsimp only
  split
  · split
    · rfl
    · exact finishOp_notCS _ _ _
  · exact finishOp_notCS _ _ _

theorem onRet_notCS (th : Thread) (r : Ret) (c : Cid) : (onRet th r).pc.inCS c = false := by
  unfold onRet
  split
  · split <;> exact finishOp_notCS _ _ _
  · split
    · split
      · rfl
      · exact pollFrom_notCS _ _ _ _ _
    · split
      · exact commitSel_notCS _ _ _ _
      · exact pollFrom_notCS _ _ _ _ _
    · split
      · exact commitSel_notCS _ _ _ _
      · exact pollFrom_notCS _ _ _ _ _
    · split
      · rfl
      · exact finishOp_notCS _ _ _
    · exact finishOp_notCS _ _ _

/-! ### broadcast / notify / deliver keep every pc -/

theorem broadcast_length (c : Cid) (ths : List Thread) : (broadcast c ths).length = ths.length := by
  simp [broadcast]

theorem broadcast_pc (c : Cid) (ths : List Thread) (t : Tid) :
    ((broadcast c ths).getD t dfltThread).pc = (ths.getD t dfltThread).pc := by
  simp only [broadcast, List.getD, List.getElem?_map]
  cases ths[t]? with
  | none => rfl
  | some th =>
    simp only [Option.map_some, Option.getD_some]
    split
    · split <;> rfl
    · rfl

theorem notifyThread_pc (th : Thread) : (notifyThread th).pc = th.pc := rfl

/-! ### the effect of the pieces of a step on pcs and owners -/

/-- `s'` differs from `s`, as far as pcs and owners go, only in the pc of thread `t` and the owner of `c` -/
structure Eff (s s' : State) (t : Tid) (c : Cid) : Prop where
  pcs : ∀ t', t' ≠ t → (s'.thread t').pc = (s.thread t').pc
  tlen : s'.threads.length = s.threads.length
  olen : s'.owner.length = s.owner.length
  owns : ∀ c', c' ≠ c → s'.own c' = s.own c'
  /-- other threads are never put to sleep by somebody else's step -/
  wts : ∀ t', t' ≠ t → (s'.thread t').waiting = true → (s.thread t').waiting = true

theorem Eff.refl (s : State) (t : Tid) (c : Cid) : Eff s s t c :=
  ⟨fun _ _ => rfl, rfl, rfl, fun _ _ => rfl, fun _ _ h => h⟩

theorem Eff.trans {s1 s2 s3 : State} {t : Tid} {c : Cid} (a : Eff s1 s2 t c) (b : Eff s2 s3 t c) : Eff s1 s3 t c :=
  ⟨fun t' h => (b.pcs t' h).trans (a.pcs t' h), b.tlen.trans a.tlen, b.olen.trans a.olen,
   fun c' h => (b.owns c' h).trans (a.owns c' h), fun t' h w => a.wts t' h (b.wts t' h w)⟩

theorem eff_setThread (s : State) (t : Tid) (c : Cid) (th : Thread) : Eff s (s.setThread t th) t c :=
  ⟨fun t' h => by rw [thread_setThread_ne _ _ _ _ (Ne.symm h)], by simp [State.setThread], rfl, fun _ _ => rfl,
   fun t' h w => by rwa [thread_setThread_ne _ _ _ _ (Ne.symm h)] at w⟩

/-- reading thread `t'` after `setThread x th`: either it is `th`, or nothing changed for `t'` -/
theorem thread_setThread_cases (s : State) (x t' : Tid) (th : Thread) :
    (s.setThread x th).thread t' = th ∨ (s.setThread x th).thread t' = s.thread t' := by
  by_cases hx : x = t'
  · subst hx
    by_cases hl : x < s.threads.length
    · left; exact thread_setThread_self _ _ _ hl
    · right
      have hle : s.threads.length ≤ x := Nat.le_of_not_lt hl
      have : s.setThread x th = s := by
        simp only [State.setThread]
        rw [List.set_eq_of_length_le hle]
      rw [this]
  · right; exact thread_setThread_ne _ _ _ _ hx

theorem eff_setThread_same (s : State) (x t : Tid) (c : Cid) (th : Thread) (h : th.pc = (s.thread x).pc)
    (hw : th.waiting = true → (s.thread x).waiting = true) :
    Eff s (s.setThread x th) t c :=
  ⟨fun t' _ => pc_setThread_same s x t' th h, by simp [State.setThread], rfl, fun _ _ => rfl,
   fun t' _ w => by
    by_cases hx : x = t'
    · subst hx
      rcases thread_setThread_cases s x x th with e | e
      · rw [e] at w; exact hw w
      · rwa [e] at w
    · rwa [thread_setThread_ne _ _ _ _ hx] at w⟩

theorem eff_setOwner (s : State) (t : Tid) (c : Cid) (o : Option Tid) : Eff s (s.setOwner c o) t c :=
  ⟨fun _ _ => rfl, rfl, by simp [State.setOwner], fun c' h => own_setOwner_ne _ _ _ _ (Ne.symm h), fun _ _ h => h⟩

theorem eff_setChan (s : State) (t : Tid) (c c' : Cid) (ch : Chan) : Eff s (s.setChan c' ch) t c :=
  ⟨fun _ _ => rfl, rfl, rfl, fun _ _ => rfl, fun _ _ h => h⟩

theorem broadcast_waiting (c : Cid) (ths : List Thread) (t : Tid)
    (h : ((broadcast c ths).getD t dfltThread).waiting = true) : (ths.getD t dfltThread).waiting = true := by
  simp only [broadcast, List.getD, List.getElem?_map] at h ⊢
  cases hth : ths[t]? with
  | none => rw [hth] at h; exact h
  | some th =>
    rw [hth] at h
    simp only [Option.map_some, Option.getD_some] at h ⊢
    split at h
    · split at h
      · cases h
      · exact h
    · exact h

/-- `Broadcast` on channel `c` leaves no thread asleep at a wait point of `c` -/
theorem broadcast_wakes (c : Cid) (ths : List Thread) (t : Tid) (p : Point)
    (hpc : (ths.getD t dfltThread).pc = .at p) (hw : p.isWait = true) (hc : p.chan = c) :
    ((broadcast c ths).getD t dfltThread).waiting = false := by
  simp only [broadcast, List.getD, List.getElem?_map] at hpc ⊢
  cases hth : ths[t]? with
  | none => rfl
  | some th =>
    rw [hth] at hpc
    simp only [Option.getD_some] at hpc
    simp only [Option.map_some, Option.getD_some, hpc]
    split
    · rfl
    · rename_i hn
      simp only [hw, hc, and_true, Bool.not_eq_true] at hn
      simpa using hn

theorem eff_broadcast (s : State) (t : Tid) (c : Cid) : Eff s { s with threads := broadcast c s.threads } t c :=
  ⟨fun t' _ => broadcast_pc c s.threads t', broadcast_length _ _, rfl, fun _ _ => rfl,
   fun t' _ w => broadcast_waiting c s.threads t' w⟩

theorem eff_applyDeliver (s : State) (t : Tid) (c : Cid) (d : Option (Target × Val)) : Eff s (applyDeliver s d) t c := by
  cases d with
  | none => exact Eff.refl ..
  | some x => exact eff_setThread_same s x.1.tid t c _ rfl (fun h => h)

theorem doAfter_eff (s : State) (t : Tid) (c : Cid) (k : After) (ht : t < s.threads.length) :
    Eff s (doAfter s t c k) t c ∧ ∀ c', ((doAfter s t c k).thread t).pc.inCS c' = false := by
  cases k with
  | wait p =>
    simp only [doAfter]
    refine ⟨(eff_setOwner s t c none).trans (eff_setThread ..), fun c' => ?_⟩
    rw [thread_setThread_self _ _ _ (by simpa using ht)]
    rfl
  | finish bc n =>
    simp only [doAfter]
    have e1 : Eff s (if bc = true then { (s.setOwner c none) with threads := broadcast c (s.setOwner c none).threads } else s.setOwner c none) t c := by
      split
      · exact (eff_setOwner s t c none).trans (eff_broadcast ..)
      · exact eff_setOwner s t c none
    have hl := e1.tlen
    cases n with
    | ret r =>
      refine ⟨e1.trans (eff_setThread ..), fun c' => ?_⟩
      rw [thread_setThread_self _ _ _ (by rw [hl]; exact ht)]
      exact onRet_notCS _ _ _
    | recv2 b sq =>
      refine ⟨e1.trans (eff_setThread ..), fun c' => ?_⟩
      rw [thread_setThread_self _ _ _ (by rw [hl]; exact ht)]
      rfl

theorem doNotify_eff (s : State) (t : Tid) (c : Cid) (k : After) (ht : t < s.threads.length) :
    Eff s (doNotify s t c k) t c ∧
    ∀ c', ((doNotify s t c k).thread t).pc.inCS c' = true → c' = c ∧ (doNotify s t c k).own c = s.own c := by
  unfold doNotify
  split
  · obtain ⟨e, h⟩ := doAfter_eff s t c k ht
    exact ⟨e, fun c' hc => by rw [h c'] at hc; cases hc⟩
  · refine ⟨eff_setThread .., fun c' hc => ?_⟩
    rw [thread_setThread_self _ _ _ ht] at hc
    simp only [PC.inCS, beq_iff_eq] at hc
    exact ⟨hc.symm, rfl⟩

theorem applyDeliver_own (s : State) (d : Option (Target × Val)) (c : Cid) : (applyDeliver s d).own c = s.own c := by
  cases d with
  | none => rfl
  | some x => rfl

/-- a step from a channel-level scheduling point: the thread takes the mutex of `p.chan`; afterwards it is either
    outside every critical section or inside the one of `p.chan`, owning its mutex -/
theorem exec_at (s : State) (t : Tid) (p : Point) (ht : t < s.threads.length) (hpc : (s.thread t).pc = .at p) :
    Eff s (exec s t) t p.chan ∧
    ∀ c', ((exec s t).thread t).pc.inCS c' = true →
      c' = p.chan ∧ (p.chan < s.owner.length → (exec s t).own p.chan = some t) := by
  unfold exec
  simp only [hpc]
  generalize hr : body p t (s.chan p.chan) = r
  let s2 := applyDeliver ((s.setChan p.chan r.ch).setOwner p.chan (some t)) r.deliver
  have e2 : Eff s s2 t p.chan :=
    ((eff_setChan s t p.chan p.chan r.ch).trans (eff_setOwner _ t p.chan (some t))).trans (eff_applyDeliver _ t p.chan _)
  have hl2 : t < s2.threads.length := by rw [e2.tlen]; exact ht
  have hown : p.chan < s.owner.length → s2.own p.chan = some t := by
    intro hc
    show (applyDeliver _ _).own _ = _
    rw [applyDeliver_own]
    exact own_setOwner_self _ _ _ (by simpa using hc)
  show Eff s (match r.out with
      | .wait p' => (s2.setOwner p.chan none).setThread t { s2.thread t with pc := .at p', waiting := true }
      | .notify k => doNotify s2 t p.chan k
      | .unlock ret => (s2.setOwner p.chan none).setThread t (onRet (s2.thread t) ret)
      | .panic => (s2.setOwner p.chan none).setThread t
          { s2.thread t with pc := .done, ops := [], sel := none, res := (s2.thread t).res ++ [.panic] }) t p.chan ∧ _
  cases r.out with
  | wait p' =>
    refine ⟨e2.trans ((eff_setOwner ..).trans (eff_setThread ..)), fun c' hc => ?_⟩
    rw [thread_setThread_self _ _ _ (by simpa using hl2)] at hc
    cases hc
  | notify k =>
    obtain ⟨e, h⟩ := doNotify_eff s2 t p.chan k hl2
    refine ⟨e2.trans e, fun c' hc => ?_⟩
    obtain ⟨h1, h2⟩ := h c' hc
    exact ⟨h1, fun hlen => by rw [h2]; exact hown hlen⟩
  | unlock ret =>
    refine ⟨e2.trans ((eff_setOwner ..).trans (eff_setThread ..)), fun c' hc => ?_⟩
    rw [thread_setThread_self _ _ _ (by simpa using hl2), onRet_notCS] at hc
    cases hc
  | panic =>
    refine ⟨e2.trans ((eff_setOwner ..).trans (eff_setThread ..)), fun c' hc => ?_⟩
    rw [thread_setThread_self _ _ _ (by simpa using hl2)] at hc
    cases hc

/-- a step inside `notifyOps`: the thread stays inside the same critical section with the owner unchanged, or
    leaves every critical section -/
theorem exec_notify (s : State) (t : Tid) (c : Cid) (rest : List Tid) (k : After) (ht : t < s.threads.length)
    (hpc : (s.thread t).pc = .notify c rest k) :
    Eff s (exec s t) t c ∧
    ∀ c', ((exec s t).thread t).pc.inCS c' = true → c' = c ∧ (exec s t).own c = s.own c := by
  unfold exec
  simp only [hpc]
  cases rest with
  | nil =>
    obtain ⟨e, h⟩ := doAfter_eff s t c k ht
    exact ⟨e, fun c' hc => by rw [h c'] at hc; cases hc⟩
  | cons x xs =>
    have e1 : Eff s (s.setThread x (notifyThread (s.thread x))) t c :=
      eff_setThread_same s x t c _ rfl (fun h => by
        simp only [notifyThread] at h
        split at h
        · cases h
        · exact h)
    have hl1 : t < (s.setThread x (notifyThread (s.thread x))).threads.length := by rw [e1.tlen]; exact ht
    cases xs with
    | nil =>
      obtain ⟨e, h⟩ := doAfter_eff _ t c k hl1
      exact ⟨e1.trans e, fun c' hc => by rw [h c'] at hc; cases hc⟩
    | cons y ys =>
      refine ⟨e1.trans (eff_setThread ..), fun c' hc => ?_⟩
      rw [thread_setThread_self _ _ _ hl1] at hc
      simp only [PC.inCS, beq_iff_eq] at hc
      exact ⟨hc.symm, rfl⟩

/-- every other step touches no mutex and ends outside every critical section -/
theorem exec_other (s : State) (t : Tid) (ht : t < s.threads.length)
    (h1 : ∀ p, (s.thread t).pc ≠ .at p) (h2 : ∀ c r k, (s.thread t).pc ≠ .notify c r k) :
    (∀ t', t' ≠ t → ((exec s t).thread t').pc = (s.thread t').pc) ∧ (exec s t).owner = s.owner ∧
    ∀ c', ((exec s t).thread t).pc.inCS c' = false := by
  unfold exec
  dsimp only
  cases hpc : (s.thread t).pc with
  | «at» p => exact absurd hpc (h1 p)
  | notify c r k => exact absurd hpc (h2 c r k)
  | done => exact ⟨fun _ _ => rfl, rfl, fun c' => by rw [hpc]; rfl⟩
  | start =>
    refine ⟨fun t' h => by rw [thread_setThread_ne _ _ _ _ (Ne.symm h)], rfl, fun c' => ?_⟩
    rw [thread_setThread_self _ _ _ ht]; exact startOps_notCS _ _ _
  | selLock =>
    dsimp only
    split
    · split
      · refine ⟨fun t' h => by rw [thread_setThread_ne _ _ _ _ (Ne.symm h)], rfl, fun c' => ?_⟩
        rw [thread_setThread_self _ _ _ ht]; exact pollFrom_notCS _ _ _ _ _
      · exact ⟨fun _ _ => rfl, rfl, fun c' => by rw [hpc]; rfl⟩
    · refine ⟨fun t' h => by rw [thread_setThread_ne _ _ _ _ (Ne.symm h)], rfl, fun c' => ?_⟩
      rw [thread_setThread_self _ _ _ ht]; rfl
  | selWait =>
    dsimp only
    split
    · refine ⟨fun t' h => by rw [thread_setThread_ne _ _ _ _ (Ne.symm h)], rfl, fun c' => ?_⟩
      rw [thread_setThread_self _ _ _ ht]; exact pollFrom_notCS _ _ _ _ _
    · exact ⟨fun _ _ => rfl, rfl, fun c' => by rw [hpc]; rfl⟩

/-! ### the mutex invariant -/

/-- a thread inside the critical section of an (existing) channel owns that channel's mutex -/
def MutexInv (s : State) : Prop :=
  ∀ t c, (s.thread t).pc.inCS c = true → c < s.owner.length → s.own c = some t

theorem runnable_lt {s : State} {t : Tid} (h : runnable s t = true) : t < s.threads.length := by
  simp only [runnable, Bool.and_eq_true, decide_eq_true_eq] at h
  exact h.1.1.1

theorem runnable_free {s : State} {t : Tid} {p : Point} (h : runnable s t = true) (hpc : (s.thread t).pc = .at p) :
    s.own p.chan = none := by
  simp only [runnable, Bool.and_eq_true, hpc, wantedChan] at h
  simpa using h.2

theorem exec_mutexInv {s : State} {t : Tid} (h : MutexInv s) (hr : runnable s t = true) : MutexInv (exec s t) := by
  have ht := runnable_lt hr
  intro t' c hcs hlen
  by_cases hp : ∃ p, (s.thread t).pc = .at p
  · obtain ⟨p, hpc⟩ := hp
    obtain ⟨e, hnew⟩ := exec_at s t p ht hpc
    rw [e.olen] at hlen
    by_cases htt : t' = t
    · subst htt
      obtain ⟨h1, h2⟩ := hnew c hcs
      subst h1
      exact h2 hlen
    · rw [e.pcs t' htt] at hcs
      have ho := h t' c hcs hlen
      by_cases hc : c = p.chan
      · subst hc; rw [runnable_free hr hpc] at ho; cases ho
      · rw [e.owns c hc]; exact ho
  · by_cases hn : ∃ c0 r k, (s.thread t).pc = .notify c0 r k
    · obtain ⟨c0, r, k, hpc⟩ := hn
      obtain ⟨e, hnew⟩ := exec_notify s t c0 r k ht hpc
      rw [e.olen] at hlen
      have hme : c0 < s.owner.length → s.own c0 = some t := h t c0 (by rw [hpc]; simp [PC.inCS])
      by_cases htt : t' = t
      · subst htt
        obtain ⟨h1, h2⟩ := hnew c hcs
        subst h1
        rw [h2]; exact hme hlen
      · rw [e.pcs t' htt] at hcs
        have ho := h t' c hcs hlen
        by_cases hc : c = c0
        · subst hc
          rw [hme hlen] at ho
          exact absurd (Option.some.inj ho).symm htt
        · rw [e.owns c hc]; exact ho
    · obtain ⟨hpcs, hown, hnot⟩ := exec_other s t ht (fun p hp' => hp ⟨p, hp'⟩) (fun c0 r k hn' => hn ⟨c0, r, k, hn'⟩)
      by_cases htt : t' = t
      · subst htt; rw [hnot c] at hcs; cases hcs
      · rw [hpcs t' htt] at hcs
        have : (exec s t).own c = s.own c := by simp only [State.own, hown]
        rw [this]
        exact h t' c hcs (by rw [← hown]; exact hlen)

theorem init_mutexInv (cfg : Cfg) (caps : List Nat) (progs : List (List Op)) : MutexInv (init cfg caps progs) := by
  intro t c hcs _
  have hpc : ((init cfg caps progs).thread t).pc = .start ∨ ((init cfg caps progs).thread t).pc = .done := by
    simp only [State.thread, init, List.getD, List.getElem?_map]
    cases progs[t]? <;> simp [dfltThread]
  rcases hpc with hpc | hpc <;> rw [hpc] at hcs <;> cases hcs

theorem apply_mutexInv {s s' : State} (h : MutexInv s) (ch : Choice) (hs : apply s ch = some s') : MutexInv s' := by
  cases ch with
  | step t =>
    simp only [apply, step] at hs
    split at hs
    · rename_i hr; cases hs; exact exec_mutexInv h hr
    · cases hs
  | wake t =>
    simp only [apply, wake] at hs
    split at hs
    · cases hs
      intro t' c hcs hlen
      have hpc := pc_setThread_same s t t' { s.thread t with waiting := false } rfl
      rw [hpc] at hcs
      exact h t' c hcs hlen
    · cases hs

theorem reachable_mutexInv {cfg : Cfg} {caps : List Nat} {progs : List (List Op)} {s : State}
    (h : Reachable (init cfg caps progs) s) : MutexInv s := by
  induction h with
  | init => exact init_mutexInv cfg caps progs
  | next ch _ hs ih => exact apply_mutexInv ih ch hs

end LlgoVerif.Chan
