/-! placeholder driver (property C15 not built yet) -/
def main : IO Unit := IO.println "bad-op"
