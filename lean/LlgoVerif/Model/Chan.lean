/-!
# Model of `runtime/internal/runtime/z_chan.go` (property C10)

The channel implementation as a transition system at the granularity of the controllable scheduler
`psync` (harness/native/standins/psync): a *step* lets one thread run from its current scheduling
point to the next one.  Scheduling points are exactly the calls `Mutex.Lock` (the thread yields
*before* it acquires) and `Cond.Wait` (the thread releases the mutex, yields, and re-acquires after
it has been woken by `Signal`/`Broadcast` or by a spurious wake-up).

Two layers, so that the proofs about channel contents never have to look at threads:

* layer 1 (`body`): the code between `p.mutex.Lock()`/the return of `p.cond.Wait` and the next
  `notifyOps` / `Wait` / `Unlock`, as a pure function on the `Chan` record, branch by branch;
* layer 2 (`exec`): threads, program counters, mutex ownership, condition variables, the
  `notifyOps` loop (which takes the `selectOp` mutexes one by one *while holding the channel
  mutex*: each of those `Lock`s is a scheduling point), `Select`/`TrySelect` control flow.

The `selectOp` mutex is never held across a scheduling point (`notify` and `wait` take and release
it inside one step, `Cond.Wait` releases it), so it is always free at step boundaries and is not
represented.  `sends`/`selsends` are `uint16` in the code and natural numbers here (65536 blocked
senders are outside the model).  Nil channels are not modelled.

Ghost fields `sent`/`recvd` of a channel record the history (values committed by senders, values
handed to receivers, in commit order); no model transition reads them.
-/
namespace LlgoVerif.Chan

abbrev Tid := Nat
abbrev Cid := Nat
abbrev Val := Nat

/-- `chanHasRecv` -/
def hasRecv : Nat := 1
/-- `chanNoSendRecv` -/
def noSendRecv : Nat := 0

/-- address of a receiver's variable: thread and index of the select case (0 for a plain receive) -/
structure Target where
  tid : Tid
  slot : Nat
deriving DecidableEq, Repr, Hashable

/-- which variant of `z_chan.go` is modelled: `recvseqFix = false` is the code without the hand-off counter
    (the tree before `fixes/C10-1.diff`), `true` the code with `recvseq` (the diff applied).  The check detects the
    variant of the working tree by replaying the two witness schedules and drives the model with it. -/
structure Cfg where
  recvseqFix : Bool
deriving DecidableEq, Repr, Hashable

def Cfg.current : Cfg := ⟨false⟩
def Cfg.fixed : Cfg := ⟨true⟩

/-- `type Chan struct` (mutex and condition variable live in `State`) -/
structure Chan where
  /-- the code variant this channel object runs (constant; see `Cfg`) -/
  fixed : Bool
  cap : Nat
  /-- ring storage of a buffered channel (`cap` cells) -/
  data : List Val
  /-- `p.data` of an unbuffered channel: where the armed receiver wants the value -/
  slot : Option Target
  getp : Nat
  len : Nat
  closed : Bool
  sends : Nat
  selsends : Nat
  /-- registered `selectOp`s; a `selectOp` is identified with the thread that runs the `Select` -/
  sops : List Tid
  /-- `p.recvseq` (only in the `fixed` variant): number of completed unbuffered hand-offs -/
  recvseq : Nat
  /-- ghost: values committed by senders, in order -/
  sent : List Val
  /-- ghost: values handed to receivers, in order -/
  recvd : List Val
  /-- ghost: `sent` with the sending thread of each value -/
  sentBy : List (Tid × Val)
  /-- ghost: `recvd` with the thread whose variable received each value -/
  recvBy : List (Tid × Val)
deriving DecidableEq, Repr, Hashable

/-- `NewChan(eltSize, cap)` -/
def newChan (cfg : Cfg) (cap : Nat) : Chan :=
  { fixed := cfg.recvseqFix, recvseq := 0, cap := cap, data := List.replicate cap 0, slot := none, getp := 0, len := 0, closed := false,
    sends := 0, selsends := 0, sops := [], sent := [], recvd := [], sentBy := [], recvBy := [] }

/-- logical contents of the ring, oldest first: cells `getp, getp+1, …` (mod cap), `len` of them -/
def ringFrom (data : List Val) (cap getp : Nat) : Nat → List Val
  | 0 => []
  | n + 1 => data.getD (getp % cap) 0 :: ringFrom data cap (getp + 1) n

def Chan.contents (ch : Chan) : List Val := ringFrom ch.data ch.cap ch.getp ch.len

/-- a scheduling point inside a channel-level function, with the parameters of the call -/
inductive Point
  | sendLock (c : Cid) (v : Val)            -- ChanSend: entry `p.mutex.Lock()`
  | sendWaitU (c : Cid) (v : Val)           -- ChanSend: `p.cond.Wait` in the unbuffered loop
  | sendWaitB (c : Cid) (v : Val)           -- ChanSend: `p.cond.Wait` in the buffered loop
  | recvLock (c : Cid) (slot : Nat)         -- ChanRecv: entry lock
  | recvWaitU (c : Cid) (slot : Nat)        -- ChanRecv: first unbuffered loop
  | recvWaitB (c : Cid) (slot : Nat)        -- ChanRecv: buffered loop
  /-- ChanRecv / chanTryRecv: second `p.mutex.Lock()` (unbuffered); `seq` = the local `seq` of the fixed variant
      (value of `p.recvseq` when the receiver armed the channel; always 0 in the current variant) -/
  | recv2Lock (c : Cid) (try_ : Bool) (seq : Nat)
  | recv2Wait (c : Cid) (try_ : Bool) (seq : Nat)       -- … its wait loop
  | closeLock (c : Cid)
  | trySendLock (c : Cid) (v : Val)
  | tryRecvLock (c : Cid) (slot : Nat) (accept : Bool)
  | prepLock (c : Cid) (isSend : Bool)      -- prepareSelect
  | endLock (c : Cid) (isSend : Bool)       -- endSelect
deriving DecidableEq, Repr, Hashable

def Point.chan : Point → Cid
  | .sendLock c _ | .sendWaitU c _ | .sendWaitB c _ | .recvLock c _ | .recvWaitU c _ | .recvWaitB c _
  | .recv2Lock c _ _ | .recv2Wait c _ _ | .closeLock c | .trySendLock c _ | .tryRecvLock c _ _
  | .prepLock c _ | .endLock c _ => c

def Point.isWait : Point → Bool
  | .sendWaitU .. | .sendWaitB .. | .recvWaitU .. | .recvWaitB .. | .recv2Wait .. => true
  | _ => false

/-- value returned by a channel-level function to its caller -/
inductive Ret
  | sent (c : Cid) (v : Val)          -- ChanSend(c, v) returned
  | closed                            -- ChanClose returned
  | recv (c : Cid) (ok : Bool)        -- ChanRecv(c) returned recvOK
  | trySend (ok : Bool)               -- ChanTrySend
  | tryRecv (recvOK tryOK : Bool)     -- chanTryRecv
  | prep                              -- prepareSelect returned
  | ended                             -- endSelect returned
deriving DecidableEq, Repr, Hashable

/-- what follows `p.mutex.Unlock(); p.cond.Broadcast()` -/
inductive Next
  | ret (r : Ret)
  | recv2 (try_ : Bool) (seq : Nat)   -- `if n == 0 { p.mutex.Lock() …`
deriving DecidableEq, Repr, Hashable

/-- what follows `notifyOps(p)` (still holding `p.mutex`) -/
inductive After
  | wait (p : Point)                  -- `p.cond.Wait(&p.mutex)` (ChanSend, unbuffered loop)
  | finish (broadcast : Bool) (n : Next)   -- `Unlock` [`Broadcast`] then `n`
deriving DecidableEq, Repr, Hashable

/-- how a critical-section body ends -/
inductive Out
  | wait (p : Point)                  -- `p.cond.Wait(&p.mutex)`
  | notify (k : After)                -- `notifyOps(p)` then `k`
  | unlock (r : Ret)                  -- `p.mutex.Unlock(); return r`
  | panic                             -- `p.mutex.Unlock(); panic(...)`
deriving DecidableEq, Repr, Hashable

structure BodyRes where
  ch : Chan
  /-- a `Memcpy` into a receiver's variable -/
  deliver : Option (Target × Val)
  out : Out

/-- write into the ring cell `(getp + len) % cap`, `len++` -/
def Chan.push (ch : Chan) (t : Tid) (v : Val) : Chan :=
  { ch with data := ch.data.set ((ch.getp + ch.len) % ch.cap) v, len := ch.len + 1, sent := ch.sent ++ [v],
            sentBy := ch.sentBy ++ [(t, v)] }

/-- the cell `getp`, then `getp = (getp+1) % cap; len--` -/
def Chan.front (ch : Chan) : Val := ch.data.getD ch.getp 0
def Chan.pop (ch : Chan) (r : Tid) : Chan :=
  { ch with getp := (ch.getp + 1) % ch.cap, len := ch.len - 1, recvd := ch.recvd ++ [ch.front],
            recvBy := ch.recvBy ++ [(r, ch.front)] }

/-- `p.recvseq++` of the fixed variant -/
def Chan.bump (ch : Chan) : Nat := if ch.fixed then ch.recvseq + 1 else ch.recvseq

/-- unbuffered hand-off: `if p.data != nil { Memcpy(p.data, v) }; p.getp = chanNoSendRecv` [`; p.recvseq++`] -/
def Chan.handOff (ch : Chan) (t : Tid) (v : Val) : Chan × Option (Target × Val) :=
  match ch.slot with
  | some tg => ({ ch with getp := noSendRecv, recvseq := ch.bump, sent := ch.sent ++ [v], recvd := ch.recvd ++ [v],
                          sentBy := ch.sentBy ++ [(t, v)], recvBy := ch.recvBy ++ [(tg.tid, v)] }, some (tg, v))
  | none => ({ ch with getp := noSendRecv, recvseq := ch.bump, sent := ch.sent ++ [v], sentBy := ch.sentBy ++ [(t, v)] }, none)

/-- ChanSend from the loop head (mutex held) -/
def sendLoop (ch : Chan) (t : Tid) (c : Cid) (v : Val) : BodyRes :=
  if ch.cap = 0 then
    if ch.getp ≠ hasRecv ∧ ch.closed = false then
      let ch1 := { ch with sends := ch.sends + 1 }
      if ch1.sends = 1 ∨ ch1.sends - 1 = ch1.selsends then
        ⟨ch1, none, .notify (.wait (.sendWaitU c v))⟩
      else ⟨ch1, none, .wait (.sendWaitU c v)⟩
    else if ch.closed then ⟨ch, none, .panic⟩
    else
      let (ch1, d) := ch.handOff t v
      ⟨ch1, d, .notify (.finish true (.ret (.sent c v)))⟩
  else
    if ch.len = ch.cap then ⟨ch, none, .wait (.sendWaitB c v)⟩
    else if ch.closed then ⟨ch, none, .panic⟩
    else ⟨ch.push t v, none, .notify (.finish true (.ret (.sent c v)))⟩

/-- ChanRecv from the (first) loop head -/
def recvLoop (ch : Chan) (c : Cid) (tg : Target) : BodyRes :=
  if ch.cap = 0 then
    if ch.getp = hasRecv ∧ ch.closed = false then ⟨ch, none, .wait (.recvWaitU c tg.slot)⟩
    else if ch.closed then ⟨ch, none, .unlock (.recv c false)⟩
    else ⟨{ ch with getp := hasRecv, slot := some tg }, none, .notify (.finish true (.recv2 false ch.recvseq))⟩
  else
    if ch.len = 0 then
      if ch.closed then ⟨ch, none, .unlock (.recv c false)⟩ else ⟨ch, none, .wait (.recvWaitB c tg.slot)⟩
    else ⟨ch.pop tg.tid, some (tg, ch.front), .notify (.finish true (.ret (.recv c true)))⟩

/-- second phase of an unbuffered receive.
    current variant: `for p.getp == chanHasRecv && !p.close { Wait }; recvOK = !p.close`;
    fixed variant:   `for p.recvseq == seq && !p.close { Wait }; recvOK = p.recvseq != seq` -/
def recv2Loop (ch : Chan) (c : Cid) (try_ : Bool) (seq : Nat) : BodyRes :=
  if ch.fixed then
    if ch.recvseq = seq ∧ ch.closed = false then ⟨ch, none, .wait (.recv2Wait c try_ seq)⟩
    else ⟨ch, none, .unlock (if try_ then .tryRecv (ch.recvseq != seq) (ch.recvseq != seq) else .recv c (ch.recvseq != seq))⟩
  else
    if ch.getp = hasRecv ∧ ch.closed = false then ⟨ch, none, .wait (.recv2Wait c try_ seq)⟩
    else ⟨ch, none, .unlock (if try_ then .tryRecv (!ch.closed) (!ch.closed) else .recv c (!ch.closed))⟩

def closeBody (ch : Chan) : BodyRes :=
  if ch.closed then ⟨ch, none, .panic⟩
  else ⟨{ ch with closed := true }, none, .notify (.finish true (.ret .closed))⟩

def trySendBody (ch : Chan) (t : Tid) (v : Val) : BodyRes :=
  if ch.cap = 0 then
    if ch.getp ≠ hasRecv ∨ ch.closed then ⟨ch, none, .unlock (.trySend false)⟩
    else
      let (ch1, d) := ch.handOff t v
      ⟨ch1, d, .notify (.finish true (.ret (.trySend true)))⟩
  else
    if ch.len = ch.cap ∨ ch.closed then ⟨ch, none, .unlock (.trySend false)⟩
    else ⟨ch.push t v, none, .notify (.finish true (.ret (.trySend true)))⟩

def tryRecvBody (ch : Chan) (tg : Target) (accept : Bool) : BodyRes :=
  if ch.cap = 0 then
    if ch.sends = 0 ∨ ch.getp = hasRecv ∨ ch.closed then ⟨ch, none, .unlock (.tryRecv false ch.closed)⟩
    else if accept = false ∧ ch.sends = ch.selsends then ⟨ch, none, .unlock (.tryRecv false false)⟩
    else ⟨{ ch with getp := hasRecv, slot := some tg }, none, .notify (.finish true (.recv2 true ch.recvseq))⟩
  else
    if ch.len = 0 then ⟨ch, none, .unlock (.tryRecv false ch.closed)⟩
    else ⟨ch.pop tg.tid, some (tg, ch.front), .notify (.finish true (.ret (.tryRecv true true)))⟩

def prepBody (ch : Chan) (t : Tid) (isSend : Bool) : BodyRes :=
  let ch1 := if ch.cap = 0 ∧ isSend then { ch with sends := ch.sends + 1, selsends := ch.selsends + 1 } else ch
  let ch2 := { ch1 with sops := ch1.sops ++ [t] }
  if ch.cap = 0 ∧ isSend then ⟨ch2, none, .notify (.finish false (.ret .prep))⟩
  else ⟨ch2, none, .unlock .prep⟩

def endBody (ch : Chan) (t : Tid) (isSend : Bool) : BodyRes :=
  let ch1 := if ch.cap = 0 ∧ isSend then { ch with sends := ch.sends - 1, selsends := ch.selsends - 1 } else ch
  ⟨{ ch1 with sops := ch1.sops.erase t }, none, .unlock .ended⟩

/-- the critical section entered at scheduling point `p` by thread `t` (mutex just acquired) -/
def body (p : Point) (t : Tid) (ch : Chan) : BodyRes :=
  match p with
  | .sendLock c v => sendLoop ch t c v
  | .sendWaitU c v => sendLoop { ch with sends := ch.sends - 1 } t c v      -- `p.sends--` after Wait
  | .sendWaitB c v => sendLoop ch t c v
  | .recvLock c slot => recvLoop ch c ⟨t, slot⟩
  | .recvWaitU c slot => recvLoop ch c ⟨t, slot⟩
  | .recvWaitB c slot => recvLoop ch c ⟨t, slot⟩
  | .recv2Lock c try_ seq => recv2Loop ch c try_ seq
  | .recv2Wait c try_ seq => recv2Loop ch c try_ seq
  | .closeLock _ => closeBody ch
  | .trySendLock _ v => trySendBody ch t v
  | .tryRecvLock _ slot accept => tryRecvBody ch ⟨t, slot⟩ accept
  | .prepLock _ isSend => prepBody ch t isSend
  | .endLock _ isSend => endBody ch t isSend

/-! ## Layer 2: threads -/

/-- `ChanOp` of a select case -/
structure Case where
  c : Cid
  send : Bool
  v : Val
  /-- the case's channel is nil: `Select`/`TrySelect` skip it everywhere (registration, probing, tie-break) -/
  isNil : Bool
deriving DecidableEq, Repr, Hashable

/-- one Go-level operation of a thread's program -/
inductive Op
  | send (c : Cid) (v : Val)            -- `c <- v`
  | recv (c : Cid)                      -- `v, ok := <-c`
  | close (c : Cid)                     -- `close(c)`
  | select (cases : List Case) (blocking : Bool)   -- `select { … }`, `blocking = false`: with `default`
deriving DecidableEq, Repr, Hashable

/-- result of a finished operation -/
inductive Res
  | sent (c : Cid) (v : Val)
  | closed
  | recv (c : Cid) (v : Val) (ok : Bool)
  /-- select committed case `idx`; `stray`: receive variables of OTHER cases that were written (`(case, value)`) -/
  | sel (idx : Nat) (v : Val) (ok : Bool) (stray : List (Nat × Val))
  /-- `TrySelect` took `default`; `stray` as above -/
  | dflt (stray : List (Nat × Val))
  | panic
deriving DecidableEq, Repr, Hashable

/-- state of a running `Select` / `TrySelect` call -/
structure Sel where
  cases : List Case
  blocking : Bool
  sendFirst : Bool
  /-- 0 / 1: which `trySelectDir` call of `trySelect` is running -/
  pass : Nat
  /-- index of the case being prepared / polled / ended -/
  idx : Nat
  /-- `(isel, recvOK)` once a case committed -/
  result : Option (Nat × Bool)
deriving DecidableEq, Repr, Hashable

inductive PC
  | start
  | done
  | at (p : Point)
  /-- inside `notifyOps(p)` of channel `c` (mutex of `c` held): at `sop.mutex.Lock()` of the head of `rest` -/
  | notify (c : Cid) (rest : List Tid) (k : After)
  | selLock          -- `selOp.wait()`: at `p.mutex.Lock()`
  | selWait          -- `selOp.wait()`: in `p.cond.Wait`
deriving DecidableEq, Repr, Hashable

structure Thread where
  pc : PC
  /-- blocked in `Cond.Wait`, not yet signalled -/
  waiting : Bool
  /-- operations after the current one -/
  ops : List Op
  res : List Res
  /-- receive variables of the current operation (by select-case index; 0 for a plain receive) -/
  rv : List Val
  sel : Option Sel
  /-- `selectOp.sem` of the running `Select` -/
  sem : Bool
deriving DecidableEq, Repr, Hashable

structure State where
  chans : List Chan
  /-- owner of each channel's mutex -/
  owner : List (Option Tid)
  threads : List Thread
deriving DecidableEq, Repr, Hashable

def dfltChan : Chan := newChan Cfg.current 0
def dfltThread : Thread := { pc := .done, waiting := false, ops := [], res := [], rv := [], sel := none, sem := false }

def State.chan (s : State) (c : Cid) : Chan := s.chans.getD c dfltChan
def State.thread (s : State) (t : Tid) : Thread := s.threads.getD t dfltThread
def State.own (s : State) (c : Cid) : Option Tid := s.owner.getD c none
def State.setThread (s : State) (t : Tid) (th : Thread) : State := { s with threads := s.threads.set t th }
def State.setOwner (s : State) (c : Cid) (o : Option Tid) : State := { s with owner := s.owner.set c o }
def State.setChan (s : State) (c : Cid) (ch : Chan) : State := { s with chans := s.chans.set c ch }

/-- `selectSendFirst`: channel indices are allocation addresses in increasing order (the harness
    allocates the channels so) -/
def minChan (cases : List Case) (send : Bool) : Option Cid :=
  cases.foldl (fun m cs => if cs.send = send ∧ cs.isNil = false then
      (match m with | none => some cs.c | some x => some (if cs.c < x then cs.c else x)) else m) none

def selectSendFirst (cases : List Case) : Bool :=
  match minChan cases true, minChan cases false with
  | none, _ => false
  | some _, none => true
  | some s, some r => decide (s < r)

/-- `selectSendChans[c]` -/
def isSendChan (cases : List Case) (c : Cid) : Bool := cases.any fun cs => cs.send && !cs.isNil && cs.c == c

/-- `op.C != nil` -/
def Case.live (cs : Case) : Bool := !cs.isNil

/-- first case with index ≥ `i` (counting from `base`) satisfying `want` -/
def nextCase (want : Case → Bool) : List Case → Nat → Nat → Option (Nat × Case)
  | [], _, _ => none
  | cs :: rest, base, i => if base ≥ i ∧ want cs then some (base, cs) else nextCase want rest (base + 1) i

/-- direction probed by pass `pass` of `trySelect` -/
def passSend (sendFirst : Bool) (pass : Nat) : Bool := if pass = 0 then sendFirst else !sendFirst

/-- the scheduling point at which case `cs` (index `i`) is polled -/
def pollPoint (sl : Sel) (i : Nat) (cs : Case) : Point :=
  if cs.send then .trySendLock cs.c cs.v
  else if sl.blocking then .tryRecvLock cs.c i (!sl.sendFirst && !isSendChan sl.cases cs.c)
  else .tryRecvLock cs.c i true

/-- receive variables (index, value) that hold a non-zero value, except the one of case `skip` -/
def strays : List Val → Nat → Option Nat → List (Nat × Val)
  | [], _, _ => []
  | v :: rest, k, skip => if v ≠ 0 ∧ skip ≠ some k then (k, v) :: strays rest (k + 1) skip else strays rest (k + 1) skip

/-- result recorded for a finished select -/
def selRes (th : Thread) (sl : Sel) : Res :=
  match sl.result with
  | some (i, ok) =>
    .sel i (match sl.cases[i]? with | some cs => if cs.send then 0 else th.rv.getD i 0 | none => 0) ok (strays th.rv 0 (some i))
  | none => .dflt (strays th.rv 0 none)

/-- start the first operation of `ops` that reaches a scheduling point; `TrySelect` without cases
    returns at once -/
def startOps (th : Thread) : List Op → Thread
  | [] => { th with pc := .done, ops := [], sel := none }
  | .send c v :: rest => { th with pc := .at (.sendLock c v), ops := rest, sel := none, rv := [0] }
  | .recv c :: rest => { th with pc := .at (.recvLock c 0), ops := rest, sel := none, rv := [0] }
  | .close c :: rest => { th with pc := .at (.closeLock c), ops := rest, sel := none, rv := [0] }
  | .select cases true :: rest =>
    let sl : Sel := { cases := cases, blocking := true, sendFirst := selectSendFirst cases, pass := 0, idx := 0, result := none }
    let th := { th with ops := rest, rv := List.replicate cases.length 0, sem := false, sel := some sl }
    match nextCase Case.live cases 0 0 with
    | none => { th with pc := .selLock }                    -- nothing to register, trySelect finds nothing; selOp.wait()
    | some (j, cs) => { th with sel := some { sl with idx := j }, pc := .at (.prepLock cs.c cs.send) }
  | .select cases false :: rest =>
    let sl : Sel := { cases := cases, blocking := false, sendFirst := false, pass := 0, idx := 0, result := none }
    match nextCase Case.live cases 0 0 with
    | none => startOps { th with res := th.res ++ [.dflt []] } rest
    | some (j, cs) =>
      { th with ops := rest, rv := List.replicate cases.length 0, sel := some { sl with idx := j }, pc := .at (pollPoint sl j cs) }

/-- the running operation returned `r`-independent result `res`: record it, go on -/
def finishOp (th : Thread) (res : Res) : Thread :=
  startOps { th with res := th.res ++ [res], sel := none } th.ops

/-- continue `trySelect` / `TrySelect` at case index `i` of pass `pass` -/
def pollFrom (th : Thread) (sl : Sel) (pass i : Nat) : Thread :=
  if sl.blocking then
    match nextCase (fun cs => cs.live && cs.send == passSend sl.sendFirst pass) sl.cases 0 i with
    | some (j, cs) => { th with sel := some { sl with pass := pass, idx := j }, pc := .at (pollPoint sl j cs) }
    | none =>
      if pass = 0 then
        match nextCase (fun cs => cs.live && cs.send == passSend sl.sendFirst 1) sl.cases 0 0 with
        | some (j, cs) => { th with sel := some { sl with pass := 1, idx := j }, pc := .at (pollPoint sl j cs) }
        | none => { th with sel := some { sl with pass := 0, idx := 0 }, pc := .selLock }
      else { th with sel := some { sl with pass := 0, idx := 0 }, pc := .selLock }
  else
    match nextCase Case.live sl.cases 0 i with
    | some (j, cs) => { th with sel := some { sl with idx := j }, pc := .at (pollPoint sl j cs) }
    | none => finishOp th (selRes th sl)

/-- a case committed: run the `endSelect` loop (blocking) or return (non-blocking) -/
def commitSel (th : Thread) (sl : Sel) (recvOK : Bool) : Thread :=
  let sl := { sl with result := some (sl.idx, recvOK) }
  if sl.blocking then
    match nextCase Case.live sl.cases 0 0 with
    | some (j, cs) => { th with sel := some { sl with idx := j }, pc := .at (.endLock cs.c cs.send) }
    | none => finishOp th (selRes th sl)
  else finishOp th (selRes th sl)

/-- a channel-level function returned `r` to thread `th` -/
def onRet (th : Thread) (r : Ret) : Thread :=
  match th.sel with
  | none =>
    match r with
    | .sent c v => finishOp th (.sent c v)
    | .closed => finishOp th .closed
    | .recv c ok => finishOp th (.recv c (th.rv.getD 0 0) ok)
    | _ => finishOp th .panic      -- unreachable: try-functions are only called from select
  | some sl =>
    match r with
    | .prep =>
      match nextCase Case.live sl.cases 0 (sl.idx + 1) with
      | some (j, cs) => { th with sel := some { sl with idx := j }, pc := .at (.prepLock cs.c cs.send) }
      | none => pollFrom th sl 0 0
    | .trySend ok => if ok then commitSel th sl false else pollFrom th sl sl.pass (sl.idx + 1)
    | .tryRecv recvOK tryOK => if tryOK then commitSel th sl recvOK else pollFrom th sl sl.pass (sl.idx + 1)
    | .ended =>
      match nextCase Case.live sl.cases 0 (sl.idx + 1) with
      | some (j, cs) => { th with sel := some { sl with idx := j }, pc := .at (.endLock cs.c cs.send) }
      | none => finishOp th (selRes th sl)
    | _ => finishOp th .panic      -- unreachable

/-- `p.cond.Broadcast()` of channel `c` -/
def broadcast (c : Cid) (ths : List Thread) : List Thread :=
  ths.map fun th =>
    match th.pc with
    | .at p => if th.waiting ∧ p.isWait ∧ p.chan = c then { th with waiting := false } else th
    | _ => th

/-- `sop.notify()` body for the selectOp of thread `x`: `sem = true; Signal` -/
def notifyThread (th : Thread) : Thread :=
  { th with sem := true, waiting := if th.pc = .selWait then false else th.waiting }

/-- after `notifyOps(p)` on channel `c`, thread `t` (holding the mutex of `c`) -/
def doAfter (s : State) (t : Tid) (c : Cid) (k : After) : State :=
  match k with
  | .wait p =>
    let s := s.setOwner c none
    s.setThread t { s.thread t with pc := .at p, waiting := true }
  | .finish bc n =>
    let s := s.setOwner c none
    let s := if bc then { s with threads := broadcast c s.threads } else s
    match n with
    | .ret r => s.setThread t (onRet (s.thread t) r)
    | .recv2 try_ seq => s.setThread t { s.thread t with pc := .at (.recv2Lock c try_ seq) }

/-- `notifyOps(p)` then `k` -/
def doNotify (s : State) (t : Tid) (c : Cid) (k : After) : State :=
  match (s.chan c).sops with
  | [] => doAfter s t c k
  | l => s.setThread t { s.thread t with pc := .notify c l k }

def applyDeliver (s : State) : Option (Target × Val) → State
  | none => s
  | some (tg, v) => s.setThread tg.tid { s.thread tg.tid with rv := (s.thread tg.tid).rv.set tg.slot v }

/-- the mutex a thread needs in order to continue from `pc` -/
def wantedChan : PC → Option Cid
  | .at p => some p.chan
  | _ => none

def runnable (s : State) (t : Tid) : Bool :=
  let th := s.thread t
  t < s.threads.length && th.pc != .done && !th.waiting &&
    (match wantedChan th.pc with
     | some c => (s.own c).isNone
     | none => true)

/-- thread `t` (runnable) runs to its next scheduling point -/
def exec (s : State) (t : Tid) : State :=
  let th := s.thread t
  match th.pc with
  | .done => s
  | .start => s.setThread t (startOps th th.ops)
  | .at p =>
    let c := p.chan
    let r := body p t (s.chan c)
    let s := (s.setChan c r.ch).setOwner c (some t)
    let s := applyDeliver s r.deliver
    match r.out with
    | .wait p' => (s.setOwner c none).setThread t { s.thread t with pc := .at p', waiting := true }
    | .notify k => doNotify s t c k
    | .unlock ret => (s.setOwner c none).setThread t (onRet (s.thread t) ret)
    | .panic =>
      (s.setOwner c none).setThread t { s.thread t with pc := .done, ops := [], sel := none, res := (s.thread t).res ++ [.panic] }
  | .notify c rest k =>
    match rest with
    | [] => doAfter s t c k
    | x :: xs =>
      let s := s.setThread x (notifyThread (s.thread x))
      match xs with
      | [] => doAfter s t c k
      | _ => s.setThread t { s.thread t with pc := .notify c xs k }
  | .selLock =>
    if th.sem then
      match th.sel with
      | some sl => s.setThread t (pollFrom { th with sem := false } sl 0 0)
      | none => s
    else s.setThread t { th with pc := .selWait, waiting := true }
  | .selWait =>
    match th.sel with
    | some sl => s.setThread t (pollFrom { th with sem := false } sl 0 0)
    | none => s

/-- one scheduler step: `none` when the thread is not runnable -/
def step (s : State) (t : Tid) : Option State :=
  if runnable s t then some (exec s t) else none

/-- spurious wake-up of a thread blocked in `Cond.Wait` -/
def wake (s : State) (t : Tid) : Option State :=
  let th := s.thread t
  if t < s.threads.length ∧ th.waiting then some (s.setThread t { th with waiting := false }) else none

/-- a scheduler choice -/
inductive Choice
  | step (t : Tid)
  | wake (t : Tid)
deriving DecidableEq, Repr, Hashable

def apply (s : State) : Choice → Option State
  | .step t => step s t
  | .wake t => wake s t

def runSched (s : State) : List Choice → Option State
  | [] => some s
  | ch :: rest => match apply s ch with
    | some s' => runSched s' rest
    | none => none

/-- initial state: channels of the given capacities, one thread per program -/
def init (cfg : Cfg) (caps : List Nat) (progs : List (List Op)) : State :=
  { chans := caps.map (newChan cfg), owner := caps.map fun _ => none,
    threads := progs.map fun ops => { dfltThread with pc := .start, ops := ops } }

def allDone (s : State) : Bool := s.threads.all fun th => th.pc == .done
def noneRunnable (s : State) : Bool := (List.range s.threads.length).all fun t => !runnable s t

end LlgoVerif.Chan
