import LlgoVerif.Lemmas.TypeStr
import LlgoVerif.Lemmas.TypeDesc
/-!
# C15 — reflect describes types as Go does: the COMPILER-EMITTED half

Property theorems only.  Model: `Model/TypeStr.lean` (`ssa/abi/type.go` `Str`/`TFlag`/`Kind`, the table
builders of `ssa/abitype.go`); lemmas: `Lemmas/TypeStr.lean`.  `reflectString env t` is what
`(*abi.Type).String()` returns for the descriptor llgo emits for `t`.

NOT covered (cannot be built or run in the sandbox): `runtime/internal/lib/reflect`, `fmt`.
-/
namespace LlgoVerif.Types

/-! ## type strings -/

/-- **Full statement**: the emitted type string is Go's `reflect.Type.String()` for every type.
    FALSE on the current code. -/
def typeString_grammar (q : Str → Str) : Prop :=
  ∀ (env : Env) (t : GoType), reflectString env t = goStr q env t

/-- an environment in which declaration `1` is `type Ptr *T` (its underlying type carries `ExtraStar`) -/
def envPtr : Env :=
  { pkgName := fun _ => ['p'], underStar := fun d => d == 1, underKind := fun _ => .pointer,
    underVariadic := fun _ => false, underClosure := fun _ => false }

/-- **Counterexample (named pointer types).** For `type Ptr *T` the flag `TFlagExtraStar` is inherited
    from the underlying type and `String()` prepends a star: `*p.Ptr` instead of `p.Ptr`.  Replayed
    on the real `ssa/abi` and on llgo's emitted IR by the check (finding `reflect:string:named-pointer-type`). -/
theorem typeString_grammar_counterexample (q : Str → Str) : ¬ typeString_grammar q := by
  intro h
  have := h envPtr (.named 1 (some ['p']) ['P', 't', 'r'] .pkg .nil)
  simp [reflectString, star, extraStar, strC, goStr, envPtr, TList.isNil] at this

/-- further witnesses outside the fragment: a pointer map key loses its star, `chan (<-chan int)` is
    not parenthesised, a tag is not printed — each for an arbitrary environment -/
theorem typeString_grammar_more_counterexamples (q : Str → Str) (env : Env) :
    reflectString env (.map (.pointer (.basic .int)) (.basic .string)) ≠ goStr q env (.map (.pointer (.basic .int)) (.basic .string)) ∧
    reflectString env (.chan .both (.chan .recv (.basic .int))) ≠ goStr q env (.chan .both (.chan .recv (.basic .int))) := by
  constructor
  · intro h
    have := congrArg List.length h
    simp [reflectString, star, extraStar, strC, goStr] at this
  · intro h
    have := congrArg List.length h
    simp [reflectString, star, extraStar, strC, goStr, chanParen, isRecvChan, unalias] at this
    omega

/-- **Partial theorem** (`typeString_grammar` on the fragment `strOk`): for every environment and
    every type without named-pointer types, tags, closure structs, star-flagged map keys,
    `chan (<-chan T)` and func/struct type arguments, the string `String()` computes from the emitted
    `Str_` and `TFlagExtraStar` is exactly Go's rendering — i.e. llgo's inverted star bookkeeping
    (`**` in `Str` of a pointer to a pointer, star added by flag) is consistent, through every
    nesting of pointer / slice / array / map / chan / func (incl. `...`) / struct / interface /
    generic instance. -/
theorem typeString_grammar_partial (q : Str → Str) (env : Env) (t : GoType) (h : strOk env t = true) :
    reflectString env t = goStr q env t := real_eq_go q env t h

/-- the hypothesis is satisfiable by a deeply nested type:
    `map[string][]**func(int, ...*p.T) (chan<- p.G[*vm/p.T], error)` -/
example :
    let env : Env := { pkgName := fun _ => ['p'], underStar := fun _ => false, underKind := fun _ => .struct,
                       underVariadic := fun _ => false, underClosure := fun _ => false }
    let pT : GoType := .named 1 (some ['v', 'm', '/', 'p']) ['T'] .pkg .nil
    strOk env (.map (.basic .string) (.slice (.pointer (.pointer (.func
      (.cons (.basic .int) (.cons (.slice (.pointer pT)) .nil))
      (.cons (.chan .send (.named 2 (some ['v', 'm', '/', 'p']) ['G'] .pkg (.cons (.pointer pT) .nil)))
        (.cons (.named 3 none ['e', 'r', 'r', 'o', 'r'] .pkg .nil) .nil)) true))))) = true := by decide

/-! ## method tables -/

/-- **The method table is sorted and duplicate-free** (the precondition of C07's
    `newItab_scan_correct` / `findMethod`): go/types delivers a method set strictly increasing by
    `Id`; when no method belongs to a package under the patch prefix, the emitted names are the
    `Id`s, so the emitted table is strictly increasing in Go's string order — for ALL method sets. -/
theorem methods_sorted_unique (ms : List MethodIn) (hs : SortedById ms) (hp : noPatchPkg ms = true) :
    (methodTable ms).Pairwise fun a b => strLt a.1 b.1 = true := methodTable_sorted ms hs hp

example : SortedById [⟨['M'], none, []⟩, ⟨['k'], some ['v', 'm', '/', 'p'], []⟩] ∧
    noPatchPkg [⟨['M'], none, []⟩, ⟨['k'], some ['v', 'm', '/', 'p'], []⟩] = true := by
  constructor
  · simp [SortedById]; decide
  · decide

/-- **The patch-prefix hypothesis matters**: two promoted unexported methods, one from a patched
    package, are in `Id` order but their emitted names (`PathOf` strips the prefix) are not sorted. -/
theorem methods_sorted_counterexample :
    ∃ ms : List MethodIn, SortedById ms ∧ ¬ (methodTable ms).Pairwise fun a b => strLt a.1 b.1 = true := by
  refine ⟨[⟨['m'], some (patchPrefix ++ ['s', 'y', 'n', 'c']), []⟩, ⟨['x'], some ['i', 'o'], []⟩], ?_, ?_⟩
  · simp [SortedById]; decide
  · decide

/-- the exported count is the number of exported methods of the set -/
theorem xcount_le (ms : List MethodIn) : xcount ms ≤ (methodTable ms).length := by
  simp [xcount, methodTable]; exact List.length_filter_le _ _

/-! ## field tables -/

/-- **Field tables are faithful**: `abiStructFields` emits one entry per field, in declaration
    order, with the declared name, tag and embedding flag (what it cannot do is give two tag
    variants different tables: they share a symbol — C07 `samename:tag`). -/
theorem fields_faithful (name : Str) (pkg : Option Str) (emb : Bool) (tag : Str) (t : GoType) (r : FList) :
    fieldTable (.cons name pkg emb tag t r) = (name, tag, emb) :: fieldTable r ∧
    (fieldTable (.cons name pkg emb tag t r)).length = (FList.cons name pkg emb tag t r).length := by
  exact ⟨rfl, fieldTable_length _⟩

/-! ## where the run-time library looks for what the compiler wrote (`Model/TypeDesc.lean`) -/

/-- **The uncommon part is found where it was put**: for every type, `(*abi.Type).Uncommon()` (which only sees
    `Kind()`) assumes exactly the header `abiType` emitted in front of `uncommonType` — the same descriptor type, hence
    the same byte offset, for all nine layouts (a chantype is one word longer than a ptrtype / slicetype, an arraytype
    two, maptype / functype five).  `NumMethod`, `Method(i)`, `PkgPath`, `Implements`, `NewItab` all start here. -/
theorem uncommon_found_where_emitted (env : Env) (uh : Nat → Header) (hu : ∀ d, uh d = emitHeader (env.underKind d))
    (t : GoType) :
    readHeader (kindOf env t) = runtimeNameC uh t ∧ readUncommonOffset (kindOf env t) = emitUncommonOffset uh t := by
  have h : readHeader (kindOf env t) = runtimeNameC uh t := by
    rw [runtimeName_by_kind env uh hu t]; cases kindOf env t <;> rfl
  exact ⟨h, by simp [readUncommonOffset, emitUncommonOffset, h]⟩

/-- the hypothesis is satisfiable: declaration 1 = `type Done chan struct{}`; its uncommon part sits 88 bytes in,
    8 bytes further than behind a ptrtype -/
example :
    let env : Env := { pkgName := fun _ => ['p'], underStar := fun _ => false, underKind := fun _ => .chan,
                       underVariadic := fun _ => false, underClosure := fun _ => false }
    (∀ d, (fun _ => Header.chan) d = emitHeader (env.underKind d)) ∧
    emitUncommonOffset (fun _ => Header.chan) (.named 1 (some ['p']) ['D', 'o', 'n', 'e'] .pkg .nil) = 88 ∧
    readUncommonOffset .pointer = 80 := by
  refine ⟨fun _ => rfl, by decide, by decide⟩

/-- **The receiver word of an interface method call**: for every type, `DirectIfaceData` (a kind list in the run-time
    library) answers "box the data word" exactly when the compiler stored the value IN the data word
    (`directIfaceType`, recursive through one-element arrays and one-field structs) and the value is not itself the
    pointer receiver.  In particular every kind the compiler can mark direct is on the run-time list: `[1]*T`,
    `[1]chan T`, `struct{ p *T }`, `[1]struct{ m map[K]V }` …  Otherwise a value-receiver method called through an
    interface is handed the POINTEE as its receiver. -/
theorem directIfaceData_spec (env : Env) (ud : Nat → Bool) (hd : ∀ d, ud d = true → directKind (env.underKind d) = true)
    (t : GoType) :
    directIfaceData (kindOf env t) (directIfaceTypeC ud t) = needsBoxedReceiver (kindOf env t) (directIfaceTypeC ud t) := by
  cases hdir : directIfaceTypeC ud t with
  | false => simp [directIfaceData, needsBoxedReceiver]
  | true =>
    have hk := direct_kinds env ud hd t hdir
    revert hk
    cases kindOf env t <;> simp [directIfaceData, needsBoxedReceiver, directKind]

/-- satisfiable and not vacuous: `type Cell [1]*node` (declaration 1) is direct, of kind array, and must be boxed -/
example :
    let env : Env := { pkgName := fun _ => ['p'], underStar := fun _ => false, underKind := fun _ => .array,
                       underVariadic := fun _ => false, underClosure := fun _ => false }
    let ud : Nat → Bool := fun _ => directIfaceTypeC (fun _ => false) (.array 1 (.pointer (.basic .int)))
    (∀ d, ud d = true → directKind (env.underKind d) = true) ∧
    directIfaceData (kindOf env (.named 1 (some ['p']) ['C'] .pkg .nil)) (directIfaceTypeC ud (.named 1 (some ['p']) ['C'] .pkg .nil)) = true := by
  refine ⟨fun _ _ => rfl, by decide⟩

/-- **Field visibility is what Go reports**: for every struct type written in a package `P` (go/types: each field with
    a non-exported name — embedded ones are named after their type: `base`, `*base`, `error`, an alias — belongs to
    `P`), the `StructField.PkgPath` reflect derives from the emitted `StructType.PkgPath_` is Go's for EVERY field —
    provided reflect's test of the name (`exported`) is the one go/types used.  So `IsExported()` is false exactly
    for the non-exported names, also when the only such fields are embedded ones. -/
theorem field_pkgpath_faithful (exported : Str → Bool) (P : Str) (fs : FList) (h : fieldsOfPkg exported P fs = true) :
    reflectFieldPkgPaths exported fs = goFieldPkgPaths fs := by
  unfold reflectFieldPkgPaths
  rcases structPkgPath_cases exported P fs h with hp | hp
  · rw [hp]; exact derive_of_pkg exported P fs h
  · rw [hp]; exact derive_of_pkg exported P fs h

/-- satisfiable by `struct{ base; Addr string }` of package `vm` (the only non-exported field is the embedded one) -/
example : fieldsOfPkg asciiExported ['v', 'm']
    (.cons ['b', 'a', 's', 'e'] (some ['v', 'm']) true [] (.named 1 (some ['v', 'm']) ['b', 'a', 's', 'e'] .pkg .nil)
      (.cons ['A', 'd', 'd', 'r'] none false [] (.basic .string) .nil)) = true := by decide

/-- **The hypothesis on `exported` matters** (full statement with llgo's own test `abi.IsExported`, which looks at one
    ASCII byte): a field whose exported name starts with a non-ASCII upper-case letter (`Ä`) is given the struct's
    package path, i.e. reflect calls it unexported. -/
def field_pkgpath_ascii : Prop :=
  ∀ (goExported : Str → Bool) (P : Str) (fs : FList), goExported ['Ä'] = true → fieldsOfPkg goExported P fs = true →
    reflectFieldPkgPaths asciiExported fs = goFieldPkgPaths fs

theorem field_pkgpath_ascii_counterexample : ¬ field_pkgpath_ascii := by
  intro h
  have := h (fun s => s == ['Ä']) ['v', 'm']
    (.cons ['Ä'] none false [] (.basic .int) (.cons ['b'] (some ['v', 'm']) false [] (.basic .int) .nil)) (by decide) (by decide)
  revert this
  decide

end LlgoVerif.Types
