import LlgoVerif.Lemmas.Arith
/-! Width-generic lemmas for C03's index-check obligations: each shape of IR that `ssa/datastruct.go`
    (`checkIndex`/`checkRange`/`IndexAddr`/`Index`) emits traps exactly when the index — taken at its SOURCE type's
    value — is outside `[0, len)`, and otherwise hands exactly that index to the address computation. -/
set_option linter.unusedSimpArgs false
namespace LlgoVerif.Bounds
open LlgoVerif LlgoVerif.LLVM LlgoVerif.Arith

/-- the Go rule for `a[i]`: panic unless `0 ≤ i < len`; otherwise element `i` is addressed -/
def idxSpec (v : Int) (len : BitVec 64) : M (BitVec 64) :=
  if 0 ≤ v ∧ v < len.toInt then .ok (BitVec.ofInt 64 v) else .error .indexRange

theorem or_some (a b : BitVec 1) : LLVM.or (some a) (some b) = some (a ||| b) := rfl
theorem ofBool_or (a b : Bool) : ofBool a ||| ofBool b = ofBool (a || b) := by
  cases a <;> cases b <;> decide

theorem idx_signed_core (c len z : BitVec 64) (hz : z = 0#64) (hlen : 0 ≤ len.toInt) :
    (do let v6 := icmp .slt (some c) (some z)
        let v7 := icmp .uge (some c) (some len)
        let v8 := LLVM.or v7 v6
        assert .indexRange v8
        ret (some c)) = idxSpec c.toInt len := by
  subst hz
  simp only [icmp_some, or_some, ofBool_or, assert_some, icmpB, ofBool_eq_one, Bool.or_eq_true,
    BitVec.ule_eq_decide, BitVec.slt_eq_decide, decide_eq_true_eq, BitVec.toInt_zero, idxSpec]
  have hl := toInt_nonneg_toNat len hlen
  by_cases hneg : c.toInt < 0
  · have : ¬ (0 ≤ c.toInt ∧ c.toInt < len.toInt) := by omega
    simp [hneg, this]; rfl
  · have hc := toInt_nonneg_toNat c (by omega)
    by_cases hge : len.toNat ≤ c.toNat
    · have : ¬ (0 ≤ c.toInt ∧ c.toInt < len.toInt) := by omega
      simp [hge, this]; rfl
    · have : (0 ≤ c.toInt ∧ c.toInt < len.toInt) := by omega
      simp [hge, hneg, this, ret]; rfl

theorem idx_unsigned_core (c len : BitVec 64) (hlen : 0 ≤ len.toInt) :
    (do let v7 := icmp .uge (some c) (some len)
        assert .indexRange v7
        ret (some c)) = idxSpec (c.toNat : Int) len := by
  simp only [icmp_some, assert_some, icmpB, ofBool_eq_one, BitVec.ule_eq_decide, decide_eq_true_eq, idxSpec]
  have hl := toInt_nonneg_toNat len hlen
  by_cases hge : len.toNat ≤ c.toNat
  · have : ¬ ((c.toNat : Int) < len.toInt) := by omega
    simp [hge, this]; rfl
  · have : ((c.toNat : Int) < len.toInt) := by omega
    simp [hge, this, ret]; rfl

theorem idx_s64 (i z len : BitVec 64) (hz : z = 0#64) (hlen : 0 ≤ len.toInt) :
    (do let v6 := icmp .slt (some i) (some z)
        let v7 := icmp .uge (some i) (some len)
        let v8 := LLVM.or v7 v6
        assert .indexRange v8
        ret (some i)) = idxSpec (GoArith.val true i) len :=
  idx_signed_core i len z hz hlen

theorem idx_sext (i : BitVec u) (z len : BitVec 64) (hu : u ≤ 64) (hz : z = 0#64) (hlen : 0 ≤ len.toInt) :
    (do let v5 := sext 64 (some i)
        let v6 := icmp .slt v5 (some z)
        let v7 := icmp .uge v5 (some len)
        let v8 := LLVM.or v7 v6
        assert .indexRange v8
        ret v5) = idxSpec (GoArith.val true i) len := by
  have h := idx_signed_core (i.signExtend 64) len z hz hlen
  rw [BitVec.toInt_signExtend_of_le hu] at h
  exact h

theorem idx_u64 (i len : BitVec 64) (hlen : 0 ≤ len.toInt) :
    (do let v7 := icmp .uge (some i) (some len)
        assert .indexRange v7
        ret (some i)) = idxSpec (GoArith.val false i) len :=
  idx_unsigned_core i len hlen

theorem idx_zext (i : BitVec u) (len : BitVec 64) (hu : u ≤ 64) (hlen : 0 ≤ len.toInt) :
    (do let v5 := zext 64 (some i)
        let v7 := icmp .uge v5 (some len)
        assert .indexRange v7
        ret v5) = idxSpec (GoArith.val false i) len := by
  have h := idx_unsigned_core (i.setWidth 64) len hlen
  rw [BitVec.toNat_setWidth_of_le hu] at h
  exact h

/-- a non-negative constant index: only the upper bound is checked at run time -/
theorem idx_const (c len : BitVec 64) (n : Int) (hc : c = BitVec.ofInt 64 n) (hn : 0 ≤ n ∧ n < 2 ^ 63) (hlen : 0 ≤ len.toInt) :
    (do let v7 := icmp .uge (some c) (some len)
        assert .indexRange v7
        ret (some c)) = idxSpec n len := by
  have h := idx_unsigned_core c len hlen
  have : (c.toNat : Int) = n := by
    subst hc
    rw [BitVec.toNat_ofInt]
    have h2 : ((2 ^ 64 : Nat) : Int) = 18446744073709551616 := by decide
    have h3 : (2:Int) ^ 63 = 9223372036854775808 := by decide
    rw [h2]
    have : n % 18446744073709551616 = n := Int.emod_eq_of_lt hn.1 (by omega)
    omega
  rw [this] at h
  exact h

/-- a constant index into a fixed-size array that the compiler already knows to be in range: no check -/
theorem idx_const_nocheck (c len : BitVec 64) (n : Int) (hc : c = BitVec.ofInt 64 n) (hn : 0 ≤ n ∧ n < len.toInt) (_hl : True) :
    ret (some c) = idxSpec n len := by
  subst hc
  simp [idxSpec, hn, ret]; rfl

end LlgoVerif.Bounds
