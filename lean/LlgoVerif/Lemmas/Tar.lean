import LlgoVerif.Spec.Container
import LlgoVerif.Lemmas.Gzip
/-! Lemmas for the tar layer of C20: `Tar.readTar` inverts the writers of `Spec/Container.lean`. -/
namespace LlgoVerif.Tar
open LlgoVerif.Container
open LlgoVerif.Gzip (Bytes Stream)

/-! ### octal fields -/

def isDigit8 (c : UInt8) : Prop := 48 ≤ c.toNat ∧ c.toNat ≤ 55

theorem length_octalN (k n : Nat) : (octalN k n).length = k := by
  induction k generalizing n with
  | zero => rfl
  | succ k ih => simp [octalN, ih]

theorem octalN_digits (k n : Nat) : ∀ d ∈ octalN k n, isDigit8 d := by
  induction k generalizing n with
  | zero => simp [octalN]
  | succ k ih =>
    intro d hd
    simp only [octalN, List.mem_append, List.mem_singleton] at hd
    rcases hd with h | rfl
    · exact ih _ d h
    · have : (48 + n % 8) % 256 = 48 + n % 8 := by omega
      simp [isDigit8, this]; omega

theorem octalDigits_append (a b : Bytes) (acc : Nat) :
    octalDigits (a ++ b) acc = (octalDigits a acc).bind (fun v => octalDigits b v) := by
  induction a generalizing acc with
  | nil => simp [octalDigits]
  | cons c cs ih =>
    simp only [List.cons_append, octalDigits]
    split
    · exact ih _
    · rfl

theorem octalDigits_octalN (k : Nat) : ∀ (n acc : Nat), octalDigits (octalN k n) acc = some (acc * 8 ^ k + n % 8 ^ k) := by
  induction k with
  | zero => intro n acc; simp [octalN, octalDigits, Nat.mod_one]
  | succ k ih =>
    intro n acc
    have hd : (48 + n % 8) % 256 = 48 + n % 8 := by omega
    simp only [octalN, octalDigits_append, ih, Option.bind_some, octalDigits, UInt8.toNat_ofNat', hd]
    have h1 : 48 ≤ 48 + n % 8 ∧ 48 + n % 8 ≤ 55 := by omega
    simp only [h1, and_self, if_true, Nat.add_sub_cancel_left]
    rw [Nat.pow_succ, Nat.mul_comm (8 ^ k) 8, Nat.mod_mul, Nat.mul_left_comm acc 8 (8 ^ k)]
    generalize acc * 8 ^ k = A
    generalize n / 8 % 8 ^ k = x
    congr 1
    omega

theorem digit_not_trim {c : UInt8} (h : isDigit8 c) : trimByte c = false := by
  unfold isDigit8 at h
  simp only [trimByte, Bool.or_eq_false_iff, decide_eq_false_iff_not]
  constructor <;> (intro e; subst e; simp at h)

theorem digit_ne_zero {c : UInt8} (h : isDigit8 c) : c ≠ 0 := by
  intro e; subst e; simp [isDigit8] at h

theorem dropWhile_all_append {α : Type} (p : α → Bool) (t r : List α) (h : ∀ x ∈ t, p x = true) :
    (t ++ r).dropWhile p = r.dropWhile p := by
  induction t with
  | nil => rfl
  | cons x xs ih =>
    simp only [List.cons_append, List.dropWhile_cons, h x (by simp), if_true]
    exact ih (fun y hy => h y (by simp [hy]))

theorem dropWhile_all {α : Type} (p : α → Bool) (t : List α) (h : ∀ x ∈ t, p x = true) : t.dropWhile p = [] := by
  have := dropWhile_all_append p t [] h
  simpa using this

theorem dropWhile_head {α : Type} (p : α → Bool) (x : α) (l : List α) (h : p x = false) :
    (x :: l).dropWhile p = x :: l := by
  simp [h]

/-- digits followed by NULs / spaces: `bytes.Trim` leaves the digits -/
theorem trim_digits (ds t : Bytes) (hds : ∀ d ∈ ds, isDigit8 d) (ht : ∀ x ∈ t, trimByte x = true) :
    trim (ds ++ t) = ds := by
  unfold trim
  cases ds with
  | nil => simp [dropWhile_all trimByte t ht]
  | cons d ds' =>
    rw [List.cons_append, dropWhile_head _ _ _ (digit_not_trim (hds d (by simp)))]
    rw [← List.cons_append, List.reverse_append,
      dropWhile_all_append trimByte t.reverse _ (fun x hx => ht x (by simpa using hx))]
    -- the reversed digits start with a digit
    have hr : ∀ x ∈ (d :: ds').reverse, isDigit8 x := fun x hx => hds x (List.mem_reverse.1 hx)
    cases hrev : (d :: ds').reverse with
    | nil => simp at hrev
    | cons y ys =>
      rw [hrev] at hr
      rw [dropWhile_head _ _ _ (digit_not_trim (hr y (by simp))), ← hrev, List.reverse_reverse]

theorem parseString_append_NUL (b rest : Bytes) (h : (0 : UInt8) ∉ b) : parseString (b ++ 0 :: rest) = b := by
  unfold parseString
  induction b with
  | nil => simp
  | cons x xs ih =>
    have hx : x ≠ 0 := fun e => h (by simp [e])
    simp only [List.cons_append, List.takeWhile_cons, ne_eq, hx, not_false_eq_true, decide_true, if_true]
    rw [ih (fun hh => h (by simp [hh]))]

theorem parseString_noNUL (b : Bytes) (h : (0 : UInt8) ∉ b) : parseString b = b := by
  have := parseString_append_NUL b [] h
  unfold parseString at this ⊢
  induction b with
  | nil => rfl
  | cons x xs ih =>
    have hx : x ≠ 0 := fun e => h (by simp [e])
    simp only [List.takeWhile_cons, ne_eq, hx, not_false_eq_true, decide_true, if_true]
    rw [ih (fun hh => h (by simp [hh]))]
    simp only [List.cons_append, List.takeWhile_cons, ne_eq, hx, not_false_eq_true, decide_true, if_true] at this
    exact (List.cons.inj this).2

/-- an octal field as the writers produce it: `k` digits, then NULs/spaces -/
theorem parseOctal_field (k n : Nat) (t : Bytes) (hn : n < 8 ^ k) (hk : 8 ^ k ≤ 2 ^ 64)
    (ht : ∀ x ∈ t, trimByte x = true) : parseOctal (octalN k n ++ t) = some n := by
  unfold parseOctal
  rw [trim_digits _ _ (octalN_digits k n) ht]
  by_cases he : octalN k n = []
  · have : k = 0 := by have := length_octalN k n; rw [he] at this; simpa using this.symm
    subst this
    simp at hn
    subst hn
    simp [octalN]
  · simp only [he, if_false]
    rw [parseString_noNUL _ (fun h => digit_ne_zero (octalN_digits k n 0 h) rfl), octalDigits_octalN]
    simp only [Nat.zero_mul, Nat.zero_add, Nat.mod_eq_of_lt hn]
    have : n < 2 ^ 64 := by omega
    simp [this]

theorem parseNumeric_field (k n : Nat) (t : Bytes) (hn : n < 8 ^ k) (hk : 8 ^ k ≤ 2 ^ 64)
    (ht : ∀ x ∈ t, trimByte x = true) : parseNumeric (octalN k n ++ t) = some (Int.ofNat n) := by
  have hp := parseOctal_field k n t hn hk ht
  unfold parseNumeric
  cases hd : octalN k n ++ t with
  | nil => rw [hd] at hp; simp [hp]
  | cons c cs =>
    have hc : ¬ c.toNat ≥ 128 := by
      cases ho : octalN k n with
      | nil =>
        rw [ho] at hd; simp at hd
        have := ht c (by rw [hd]; simp)
        simp [trimByte] at this
        rcases this with rfl | rfl <;> simp
      | cons d ds =>
        rw [ho] at hd; simp at hd
        have := octalN_digits k n d (by rw [ho]; simp)
        rw [← hd.1]; unfold isDigit8 at this; omega
    simp only [hc, if_false]
    rw [← hd, hp]; rfl

/-! ### slicing a block that is written field by field -/

theorem slice_skip (a b : Bytes) (off len : Nat) (h : a.length ≤ off) :
    slice (a ++ b) off len = slice b (off - a.length) len := by
  unfold slice
  rw [List.drop_append, List.drop_eq_nil_of_le h, List.nil_append]

theorem slice_here (f r : Bytes) (len : Nat) (h : f.length = len) : slice (f ++ r) 0 len = f := by
  unfold slice
  simp [List.take_left' h]

theorem slice_cons_succ (x : UInt8) (b : Bytes) (off len : Nat) : slice (x :: b) (off + 1) len = slice b off len := by
  simp [slice]

theorem slice_skip' (a b : Bytes) (off len k : Nat) (ha : a.length = k) (hk : k ≤ off) :
    slice (a ++ b) off len = slice b (off - k) len := by
  subst ha; exact slice_skip a b off len hk

theorem slice_cons (x : UInt8) (b : Bytes) (off len : Nat) (h : 0 < off) : slice (x :: b) off len = slice b (off - 1) len := by
  obtain ⟨o, rfl⟩ : ∃ o, off = o + 1 := ⟨off - 1, by omega⟩
  exact slice_cons_succ x b o len

theorem getD_append_cons (a b : Bytes) (x d : UInt8) (n : Nat) (h : a.length = n) : (a ++ x :: b).getD n d = x := by
  subst h
  induction a with
  | nil => rfl
  | cons y ys _ => simp

/-- skip one field of known length in front of a slice -/
macro "skipf" l:term : tactic =>
  `(tactic| (refine Eq.trans (slice_skip' _ _ _ _ _ $l (by decide)) ?_; try simp only [Nat.reduceSub]))

theorem length_field (n : Nat) (b : Bytes) (h : b.length ≤ n) : (field n b).length = n := by
  simp only [field, List.length_append, List.length_replicate]; omega

theorem length_hdrPre (name : Bytes) (size : Nat) (h : name.length ≤ 100) : (hdrPre name size).length = 148 := by
  simp only [hdrPre, octField, length_field 100 name h, length_octalN, List.length_append, List.length_cons, List.length_nil]

theorem gnuMagic_eq : bytesOf "ustar  \x00" = [117, 115, 116, 97, 114, 32, 32, 0] := by decide

theorem length_hdrPost (fl : UInt8) : (hdrPost fl).length = 356 := by
  simp only [hdrPost, gnuMagic_eq, List.length_cons, List.length_append, List.length_replicate, List.length_nil]

theorem length_tarHeader (name : Bytes) (fl : UInt8) (size : Nat) (h : name.length ≤ 100) :
    (tarHeader name fl size).length = 512 := by
  simp only [tarHeader, chkField, length_hdrPre name size h, length_hdrPost, length_octalN, List.length_append, List.length_cons,
    List.length_nil]

theorem sumBytes_le (b : Bytes) : sumBytes b ≤ 255 * b.length := by
  unfold sumBytes
  suffices ∀ (acc : Nat), b.foldl (fun a c => a + c.toNat) acc ≤ acc + 255 * b.length by simpa using this 0
  induction b with
  | nil => intro acc; simp
  | cons x xs ih =>
    intro acc
    simp only [List.foldl_cons, List.length_cons]
    have := ih (acc + x.toNat)
    have hx := x.toNat_lt
    omega

theorem sumBytes_append (a b : Bytes) : sumBytes (a ++ b) = sumBytes a + sumBytes b := by
  unfold sumBytes
  rw [List.foldl_append]
  suffices ∀ (x : Nat), b.foldl (fun a c => a + c.toNat) x = x + b.foldl (fun a c => a + c.toNat) 0 by exact this _
  induction b with
  | nil => intro x; simp
  | cons y ys ih =>
    intro x
    simp only [List.foldl_cons]
    rw [ih (x + y.toNat), ih (0 + y.toNat)]
    omega

theorem length_octField (k n : Nat) : (octField k n).length = k + 1 := by simp [octField, length_octalN]
theorem length_chkField (n : Nat) : (chkField n).length = 8 := by simp [chkField, length_octalN]

theorem parseNumeric_octField (k n : Nat) (hn : n < 8 ^ k) (hk : 8 ^ k ≤ 2 ^ 64) :
    parseNumeric (octField k n) = some (Int.ofNat n) :=
  parseNumeric_field k n [0] hn hk (by simp [trimByte])

theorem parseOctal_chkField (n : Nat) (hn : n < 8 ^ 6) : parseOctal (chkField n) = some n :=
  parseOctal_field 6 n [0, 32] hn (by decide) (by simp [trimByte])

theorem parseString_field (n : Nat) (b : Bytes) (h0 : (0 : UInt8) ∉ b) : parseString (field n b) = b := by
  unfold field
  cases hk : n - b.length with
  | zero => simp [parseString_noNUL b h0]
  | succ k => rw [List.replicate_succ]; exact parseString_append_NUL b _ h0

theorem sumBytes_spaces : sumBytes (List.replicate 8 (32 : UInt8)) = 256 := by decide

set_option maxRecDepth 4000 in
/-- `readHeader` on a block the writer produced: type flag, name and size come back; every field parses -/
theorem parseHeader_tarHeader (name : Bytes) (fl : UInt8) (size : Nat) (hn : name.length ≤ 100)
    (h0 : (0 : UInt8) ∉ name) (hs : size < 8 ^ 11) :
    parseHeader (tarHeader name fl size) = some ⟨fl, name, Int.ofNat size⟩ := by
  have lf := length_field 100 name hn
  have hblk : tarHeader name fl size =
      field 100 name ++ (octField 7 420 ++ (octField 7 0 ++ (octField 7 0 ++ (octField 11 size ++ (octField 11 0 ++
        (chkField (sumBytes (hdrPre name size) + 256 + sumBytes (hdrPost fl)) ++
          (fl :: (List.replicate 100 0 ++ ([117, 115, 116, 97, 114, 32, 32, 0] ++ List.replicate 247 0))))))))) := by
    simp only [tarHeader, hdrPre, hdrPost, gnuMagic_eq, List.append_assoc, List.cons_append]
  have hS : sumBytes (hdrPre name size) + 256 + sumBytes (hdrPost fl) < 8 ^ 6 := by
    have h1 := sumBytes_le (hdrPre name size)
    have h2 := sumBytes_le (hdrPost fl)
    rw [length_hdrPre name size hn] at h1
    rw [length_hdrPost] at h2
    omega
  -- the slices the reader takes
  have s_name : slice (tarHeader name fl size) 0 100 = field 100 name := by
    rw [hblk]; exact slice_here _ _ _ lf
  have s_mode : slice (tarHeader name fl size) 100 8 = octField 7 420 := by
    rw [hblk]; skipf lf; exact slice_here _ _ _ (length_octField 7 _)
  have s_uid : slice (tarHeader name fl size) 108 8 = octField 7 0 := by
    rw [hblk]; skipf lf; skipf (length_octField 7 420); exact slice_here _ _ _ (length_octField 7 _)
  have s_gid : slice (tarHeader name fl size) 116 8 = octField 7 0 := by
    rw [hblk]; skipf lf; skipf (length_octField 7 420); skipf (length_octField 7 0)
    exact slice_here _ _ _ (length_octField 7 _)
  have s_size : slice (tarHeader name fl size) 124 12 = octField 11 size := by
    rw [hblk]; skipf lf; skipf (length_octField 7 420); skipf (length_octField 7 0); skipf (length_octField 7 0)
    exact slice_here _ _ _ (length_octField 11 _)
  have s_mtime : slice (tarHeader name fl size) 136 12 = octField 11 0 := by
    rw [hblk]; skipf lf; skipf (length_octField 7 420); skipf (length_octField 7 0); skipf (length_octField 7 0)
    skipf (length_octField 11 size); exact slice_here _ _ _ (length_octField 11 _)
  have s_chk : slice (tarHeader name fl size) 148 8 = chkField (sumBytes (hdrPre name size) + 256 + sumBytes (hdrPost fl)) := by
    rw [hblk]; skipf lf; skipf (length_octField 7 420); skipf (length_octField 7 0); skipf (length_octField 7 0)
    skipf (length_octField 11 size); skipf (length_octField 11 0); exact slice_here _ _ _ (length_chkField _)
  -- everything behind the type flag
  have post (off len : Nat) (h : 157 ≤ off) : slice (tarHeader name fl size) off len =
      slice (List.replicate 100 (0 : UInt8) ++ ([117, 115, 116, 97, 114, 32, 32, 0] ++ List.replicate 247 0)) (off - 157) len := by
    rw [hblk, slice_skip _ _ _ _ (by rw [lf]; omega), lf,
      slice_skip _ _ _ _ (by rw [length_octField]; omega), length_octField,
      slice_skip _ _ _ _ (by rw [length_octField]; omega), length_octField,
      slice_skip _ _ _ _ (by rw [length_octField]; omega), length_octField,
      slice_skip _ _ _ _ (by rw [length_octField]; omega), length_octField,
      slice_skip _ _ _ _ (by rw [length_octField]; omega), length_octField,
      slice_skip _ _ _ _ (by rw [length_chkField]; omega), length_chkField,
      slice_cons _ _ _ _ (by omega)]
    first | done | (congr 1 <;> omega)
  have zeros (off len : Nat) (h : 265 ≤ off) (h2 : off + len ≤ 512) :
      slice (tarHeader name fl size) off len = List.replicate len 0 := by
    rw [post off len (by omega), slice_skip _ _ _ _ (by simp only [List.length_replicate]; omega), List.length_replicate,
      slice_skip _ _ _ _ (by simp only [List.length_cons, List.length_nil]; omega)]
    simp only [slice, List.drop_replicate, List.take_replicate, List.length_cons, List.length_nil]
    congr 1; omega
  have s_magic : slice (tarHeader name fl size) 257 6 = [117, 115, 116, 97, 114, 32] := by
    rw [post 257 6 (by omega), slice_skip _ _ _ _ (by simp)]; rfl
  have s_version : slice (tarHeader name fl size) 263 2 = [32, 0] := by
    rw [post 263 2 (by omega), slice_skip _ _ _ _ (by simp)]; rfl
  have s_flag : (tarHeader name fl size).getD 156 0 = fl := by
    have : tarHeader name fl size = (hdrPre name size ++ chkField (sumBytes (hdrPre name size) + 256 + sumBytes (hdrPost fl))) ++
        fl :: (List.replicate 100 0 ++ bytesOf "ustar  \x00" ++ List.replicate 247 0) := by
      simp only [tarHeader, hdrPost]
    rw [this]
    exact getD_append_cons _ _ _ _ _ (by simp only [List.length_append, length_hdrPre name size hn, length_chkField])
  have s_take : (tarHeader name fl size).take 148 = hdrPre name size := by
    simp only [tarHeader, List.append_assoc]; exact List.take_left' (length_hdrPre name size hn)
  have s_drop : (tarHeader name fl size).drop 156 = hdrPost fl := by
    simp only [tarHeader]
    exact List.drop_left' (by simp only [List.length_append, length_hdrPre name size hn, length_chkField])
  -- the checksum
  have hchk : checksumOK (tarHeader name fl size) = true := by
    unfold checksumOK
    rw [s_chk, parseOctal_chkField _ hS, s_take, s_drop]
    simp only [sumBytes_append, sumBytes_spaces, beq_self_eq_true, Bool.true_or]
  have hfmt : getFormat (tarHeader name fl size) = .gnu := by
    unfold getFormat
    rw [s_magic, s_version]
    have m1 : ¬ ([117, 115, 116, 97, 114, 32] : Bytes) = bytesOf "ustar\x00" := by decide
    have m2 : ([117, 115, 116, 97, 114, 32] : Bytes) = bytesOf "ustar " := by decide
    have m3 : ([32, 0] : Bytes) = bytesOf " \x00" := by decide
    simp only [m1, false_and, if_false]
    simp only [← m2, ← m3, and_self, if_true]
  unfold parseHeader
  simp only [hchk, hfmt, Bool.not_true, Bool.false_eq_true, if_false, s_name, s_mode, s_uid, s_gid, s_size, s_mtime, s_flag,
    zeros 329 8 (by omega) (by omega), zeros 337 8 (by omega) (by omega), zeros 345 12 (by omega) (by omega),
    zeros 357 12 (by omega) (by omega), zeros 345 155 (by omega) (by omega),
    parseNumeric_octField 7 420 (by decide) (by decide), parseNumeric_octField 7 0 (by decide) (by decide),
    parseNumeric_octField 11 size hs (by decide), parseNumeric_octField 11 0 (by decide) (by decide),
    parseString_field 100 name h0]
  have hz8 : parseNumeric ([0, 0, 0, 0, 0, 0, 0, 0] : Bytes) = some 0 := by decide
  simp [hz8]

/-! ### `Next()` on what the writers produce -/

theorem readFull_append (blk rest : Bytes) (tl : Option Gzip.Err) (n : Nat) (h : blk.length = n) :
    readFull n ⟨blk ++ rest, tl⟩ = .ok blk ⟨rest, tl⟩ := by
  unfold readFull
  have : n ≤ (blk ++ rest).length := by simp [← h]
  simp only [this, if_true, List.take_left' h, List.drop_left' h]

theorem tarHeader_not_zero (name : Bytes) (fl : UInt8) (size : Nat) :
    (tarHeader name fl size).all (· = 0) = false := by
  rw [List.all_eq_false]
  refine ⟨48, ?_, by decide⟩
  simp only [tarHeader, hdrPre, List.mem_append]
  refine Or.inl (Or.inl (Or.inl (Or.inl (Or.inl (Or.inl (Or.inr ?_))))))
  decide

theorem flag_cases (k : TKind) : k.flag = 53 ∨ k.flag = 48 ∨ k.flag = 50 ∨ k.flag = 54 := by
  cases k <;> simp [TKind.flag]

/-- an ordinary header (directory, regular file, symlink, fifo) in front of `X`: `Next()` returns the member; the
    name is the pending GNU long name if there is one -/
theorem next_header (fuel : Nat) (hname longName X : Bytes) (k : TKind) (size : Nat) (tl : Option Gzip.Err)
    (hn : hname.length ≤ 100) (h0 : (0 : UInt8) ∉ hname) (hs : size < 8 ^ 11) (hk : k ≠ .reg → size = 0) :
    next (fuel + 1) ⟨tarHeader hname k.flag size ++ X, tl⟩ none longName =
      .member k.flag (if longName ≠ [] then longName else hname) size (padOf size) ⟨X, tl⟩ := by
  rw [next, readFull_append _ _ _ _ (length_tarHeader hname k.flag size hn)]
  simp only [tarHeader_not_zero, Bool.false_eq_true, if_false, parseHeader_tarHeader hname k.flag size hn h0 hs]
  cases k with
  | reg =>
    have hneg : ¬ ((size : Int) < 0) := by omega
    simp [TKind.flag, headerOnly, paxNumbersOK, paxVal, paxGet, hneg]
  | dir =>
    have := hk (by decide); subst this
    simp [TKind.flag, headerOnly, paxNumbersOK, paxVal, paxGet]
  | sym =>
    have := hk (by decide); subst this
    simp [TKind.flag, headerOnly, paxNumbersOK, paxVal, paxGet]
  | fifo =>
    have := hk (by decide); subst this
    simp [TKind.flag, headerOnly, paxNumbersOK, paxVal, paxGet]

theorem content_length (m : TarMember) (wf : m.WF) : m.content.length < 8 ^ 11 := by
  unfold TarMember.content
  split
  · exact wf.dataLen
  · simp

theorem content_nonreg (m : TarMember) (h : m.kind ≠ .reg) : m.content.length = 0 := by
  simp [TarMember.content, h]

theorem tryReadFull_zeros (n : Nat) (rest : Bytes) (tl : Option Gzip.Err) :
    tryReadFull n ⟨zeros n ++ rest, tl⟩ = .ok () ⟨rest, tl⟩ := by
  unfold tryReadFull
  have hl : (zeros n).length = n := by simp [zeros]
  have : n ≤ (zeros n ++ rest).length := by simp [hl]
  simp only [this, if_true, List.drop_left' hl]

theorem longLink_ok : (bytesOf "././@LongLink").length ≤ 100 ∧ (0 : UInt8) ∉ bytesOf "././@LongLink" := by decide

/-- `Next()` on a member as written (with or without a long-name member in front) -/
theorem next_member (fuel : Nat) (m : TarMember) (wf : m.WF) (X : Bytes) (tl : Option Gzip.Err) :
    next (fuel + 2) ⟨m.encode ++ X, tl⟩ none [] =
      .member m.kind.flag m.name m.content.length (padOf m.content.length) ⟨padded m.content ++ X, tl⟩ := by
  have hc := content_length m wf
  have hk : m.kind ≠ .reg → m.content.length = 0 := content_nonreg m
  unfold TarMember.encode
  by_cases hlong : m.name.length > 100
  · simp only [hlong, if_true, List.append_assoc]
    have hsz : m.name.length + 1 < 8 ^ 11 := by have := wf.nameLen; omega
    rw [next, readFull_append _ _ _ _ (length_tarHeader _ 76 _ longLink_ok.1)]
    simp only [tarHeader_not_zero, Bool.false_eq_true, if_false,
      parseHeader_tarHeader _ 76 _ longLink_ok.1 longLink_ok.2 hsz]
    have hneg : ¬ (Int.ofNat (m.name.length + 1) < 0) := by
      have : (0 : Int) ≤ ((m.name.length + 1 : Nat) : Int) := Int.natCast_nonneg _
      exact Int.not_lt.2 this
    have htn : (Int.ofNat (m.name.length + 1)).toNat = m.name.length + 1 := rfl
    have hho : headerOnly 76 = false := by decide
    have h1 : ¬ ((76 : UInt8) = 120 ∨ (76 : UInt8) = 103) := by decide
    simp only [hho, Bool.false_eq_true, if_false, hneg, htn, h1, if_true]
    -- the long name's data and padding
    have hsp : readSpecial (m.name.length + 1)
        ⟨padded (m.name ++ [0]) ++ (tarHeader (m.name.take 100) m.kind.flag m.content.length ++ (padded m.content ++ X)), tl⟩ =
        .ok (m.name ++ [0]) ⟨zeros (padOf (m.name.length + 1)) ++
          (tarHeader (m.name.take 100) m.kind.flag m.content.length ++ (padded m.content ++ X)), tl⟩ := by
      unfold readSpecial padded
      have hl : (m.name ++ [0]).length = m.name.length + 1 := by simp
      have hle : ¬ m.name.length + 1 > 1048576 := by have := wf.nameLen; omega
      simp only [hle, if_false, List.append_assoc, hl]
      have : m.name.length + 1 ≤ (m.name ++ ([0] ++ (zeros (padOf (m.name.length + 1)) ++
          (tarHeader (m.name.take 100) m.kind.flag m.content.length ++ (m.content ++ (zeros (padOf m.content.length) ++ X)))))).length := by
        simp
      simp only [this, if_true]
      rw [← List.append_assoc m.name [0], List.take_left' hl, List.drop_left' hl]
    rw [hsp]
    simp only [tryReadFull_zeros]
    rw [parseString_append_NUL m.name [] wf.nameNoNUL]
    rw [next_header fuel (m.name.take 100) m.name _ m.kind m.content.length tl (by simp; omega)
      (fun h => wf.nameNoNUL (List.mem_of_mem_take h)) hc hk]
    have : m.name ≠ [] := by intro e; rw [e] at hlong; simp at hlong
    simp [this]
  · simp only [hlong, if_false, List.nil_append, List.append_assoc]
    rw [List.take_of_length_le (by omega)]
    rw [next_header (fuel + 1) m.name [] _ m.kind m.content.length tl (by omega) wf.nameNoNUL hc hk]
    simp

/-! ### the whole stream -/

/-- how a tar stream may end: the end-of-archive marker followed by anything at all, a single zero block at the
    very end, or simply the end of the stream at a member boundary -/
inductive EndsArchive : Bytes → Option Gzip.Err → Prop where
  | marker (junk : Bytes) (tl : Option Gzip.Err) : EndsArchive (zeros 1024 ++ junk) tl
  | oneBlock : EndsArchive (zeros 512) none
  | nothing : EndsArchive [] none

theorem zeros_all (n : Nat) : (zeros n).all (· = 0) = true := by
  simp only [zeros, List.all_replicate]; split <;> simp

theorem zeros_add (a b : Nat) : zeros (a + b) = zeros a ++ zeros b := by
  simp only [zeros, List.replicate_append_replicate]

theorem next_end (tail : Bytes) (tl : Option Gzip.Err) (h : EndsArchive tail tl) (fuel : Nat) :
    next (fuel + 1) ⟨tail, tl⟩ none [] = .eof := by
  have hl : (zeros 512).length = 512 := by simp only [zeros, List.length_replicate]
  cases h with
  | marker junk tl =>
    rw [show (1024 : Nat) = 512 + 512 from rfl, zeros_add, List.append_assoc, next, readFull_append _ _ _ _ hl]
    simp only [zeros_all, if_true, readFull_append _ _ _ _ hl]
  | oneBlock =>
    have := readFull_append (zeros 512) [] none 512 hl
    simp only [List.append_nil] at this
    rw [next, this]
    simp [zeros_all, readFull]
  | nothing =>
    rw [next]
    simp [readFull]

theorem kindOf_flag (k : TKind) : kindOf k.flag = k.kind := by
  cases k <;> rfl

theorem padOf_zero : padOf 0 = 0 := by decide

/-- **the reader inverts the writer**: the members come back in order, with their names and contents -/
theorem readLoop_members (ms : List TarMember) (tail : Bytes) (tl : Option Gzip.Err) (hend : EndsArchive tail tl) :
    ∀ (fuel : Nat) (acc : List Extract.Entry), (∀ m ∈ ms, m.WF) → ms.length < fuel →
    readLoop fuel ⟨tarStream ms ++ tail, tl⟩ acc = (acc.reverse ++ ms.map TarMember.entry, .eof) := by
  induction ms with
  | nil =>
    intro fuel acc _ hf
    obtain ⟨f, rfl⟩ : ∃ f, fuel = f + 1 := ⟨fuel - 1, by omega⟩
    simp only [tarStream, List.flatMap_nil, List.nil_append, List.map_nil, List.append_nil]
    rw [readLoop, next_end tail tl hend]
  | cons m ms ih =>
    intro fuel acc hwf hf
    obtain ⟨f, rfl⟩ : ∃ f, fuel = f + 1 := ⟨fuel - 1, by omega⟩
    have wf := hwf m (by simp)
    simp only [tarStream, List.flatMap_cons, List.append_assoc]
    rw [readLoop, next_member _ m wf]
    simp only
    have ih' := ih f
    simp only [tarStream] at ih'
    by_cases hreg : m.kind = .reg
    · have hfl : m.kind.flag = 48 := by rw [hreg]; rfl
      have hlen : m.content.length ≤ (padded m.content ++ (List.flatMap TarMember.encode ms ++ tail)).length := by
        simp [padded]
      simp only [hfl, if_true, hlen]
      have htake : (padded m.content ++ (List.flatMap TarMember.encode ms ++ tail)).take m.content.length = m.content := by
        simp only [padded, List.append_assoc]; exact List.take_left' rfl
      have hdrop : (padded m.content ++ (List.flatMap TarMember.encode ms ++ tail)).drop m.content.length =
          zeros (padOf m.content.length) ++ (List.flatMap TarMember.encode ms ++ tail) := by
        simp only [padded, List.append_assoc]; exact List.drop_left' rfl
      rw [htake, hdrop, tryReadFull_zeros]
      simp only
      rw [ih' _ (fun x hx => hwf x (by simp [hx])) (by simp at hf; omega)]
      simp [TarMember.entry, hreg, TKind.kind]
    · have hfl : m.kind.flag ≠ 48 := by
        cases hk : m.kind <;> simp_all [TKind.flag]
      have hc : m.content = [] := by simp [TarMember.content, hreg]
      simp only [hfl, if_false, hc, List.length_nil, padOf_zero]
      have hp : padded ([] : Bytes) = [] := by simp [padded, padOf_zero, zeros]
      simp only [hp, List.nil_append, discard, tryReadFull, Nat.zero_le, if_true, List.drop_zero]
      rw [ih' _ (fun x hx => hwf x (by simp [hx])) (by simp at hf; omega)]
      simp [TarMember.entry, hc, kindOf_flag]

theorem length_encode (m : TarMember) : 512 ≤ m.encode.length := by
  have h : (m.name.take 100).length ≤ 100 := by simp; omega
  simp only [TarMember.encode, List.length_append, length_tarHeader _ _ _ h]
  omega

theorem length_tarStream (ms : List TarMember) : 512 * ms.length ≤ (tarStream ms).length := by
  induction ms with
  | nil => simp [tarStream]
  | cons m ms ih =>
    have := length_encode m
    simp only [tarStream, List.flatMap_cons, List.length_append, List.length_cons] at ih ⊢
    omega

theorem readTar_tarStream (ms : List TarMember) (hwf : ∀ m ∈ ms, m.WF) (tail : Bytes) (tl : Option Gzip.Err)
    (hend : EndsArchive tail tl) :
    readTar ⟨tarStream ms ++ tail, tl⟩ = (ms.map TarMember.entry, .eof) := by
  unfold readTar
  rw [readLoop_members ms tail tl hend _ [] hwf]
  · simp
  · have := length_tarStream ms
    simp only [List.length_append]
    omega

end LlgoVerif.Tar
