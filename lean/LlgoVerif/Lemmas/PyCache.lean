import LlgoVerif.Model.PyCache
/-!
# Lemmas for C19, `Py_Initialize` in the entry function across builds over one cache
-/
namespace LlgoVerif.PyGuard

theorem tryLoad_linked (c : Cache) (k : BPkg) (a : APkg) : (tryLoadFromCache c k a).linked = a.linked := by
  unfold tryLoadFromCache
  cases c.lookup (k.id, k.fp) <;> rfl

/-- a compiled (ordinary or binding) package carries the flag computed from ITS SOURCE, hit or miss -/
theorem buildOne_needPy (c : Cache) (k : BPkg) (hk : k.kind = .ordinary ∨ k.kind = .binding) :
    (buildOne c k).2.needPyInit = k.needPy ∧ (buildOne c k).2.linked = true := by
  unfold buildOne
  rcases hk with h | h <;> simp [h, tryLoad_linked]

theorem buildAll_needPy : ∀ (pkgs : List BPkg) (c : Cache), progNeedsPy pkgs = true →
    (((buildAll c pkgs).2.filter (·.linked)).any (·.needPyInit)) = true := by
  intro pkgs
  induction pkgs with
  | nil => intro c h; simp [progNeedsPy] at h
  | cons k ks ih =>
    intro c h
    simp only [progNeedsPy, List.any_cons, Bool.or_eq_true] at h
    simp only [buildAll]
    rcases h with h | h
    · simp only [Bool.and_eq_true, Bool.or_eq_true, beq_iff_eq] at h
      obtain ⟨hk, hp⟩ := h
      obtain ⟨h1, h2⟩ := buildOne_needPy c k hk
      simp [h2, h1, hp]
    · have := ih (buildOne c k).1 (by simpa [progNeedsPy] using h)
      by_cases hl : (buildOne c k).2.linked = true
      · simp only [List.filter_cons, hl, if_true, List.any_cons, Bool.or_eq_true]
        exact .inr this
      · simp only [List.filter_cons, hl]
        exact this

theorem lookup_saved (c : Cache) (k : BPkg) (a : APkg) (hm : k.isMain = false) :
    (saveToCache c k a).lookup (k.id, k.fp) = some (metaOf a) := by
  unfold saveToCache
  simp [hm]

theorem metaOf_getD (a : APkg) :
    ((metaOf a).getD {}).linkArgs = a.linkArgs ∧ ((metaOf a).getD {}).needRt = a.needRt ∧
    ((metaOf a).getD {}).needPyInit = a.needPyInit := by
  unfold metaOf
  by_cases h : (a.linkArgs.isEmpty && !a.needRt && !a.needPyInit) = true
  · simp only [h, if_true, Option.getD_none]
    simp only [Bool.and_eq_true, Bool.not_eq_true', List.isEmpty_iff] at h
    obtain ⟨⟨h1, h2⟩, h3⟩ := h
    exact ⟨h1.symm, h2.symm, h3.symm⟩
  · simp [h]

theorem cacheOk_save {F : Nat × Nat → Bool × Bool} {c : Cache} (k : BPkg) (a : APkg) (h : CacheOk F c)
    (hf : F (k.id, k.fp) = (a.needRt, a.needPyInit)) : CacheOk F (saveToCache c k a) := by
  unfold saveToCache
  by_cases hm : k.isMain = true
  · simpa [hm] using h
  · simp only [hm, Bool.false_eq_true, if_false]
    intro key md hl
    simp only [List.lookup_cons] at hl
    by_cases hk : (key == (k.id, k.fp)) = true
    · simp only [hk] at hl
      injection hl with hl
      subst hl
      have hk' : key = (k.id, k.fp) := by simpa using hk
      obtain ⟨_, h2, h3⟩ := metaOf_getD a
      rw [hk', hf]; exact ⟨h2, h3⟩
    · simp only [hk] at hl
      exact h key md hl

/-- `F` is what compiling the package's source yields (binding and `link:` packages never carry `NeedRt`) -/
def Describes (F : Nat × Nat → Bool × Bool) (k : BPkg) : Prop :=
  match k.kind with
  | .ordinary => F (k.id, k.fp) = (k.needRt, k.needPy)
  | .binding => F (k.id, k.fp) = (false, k.needPy)
  | .linkExtern => F (k.id, k.fp) = (false, false)
  | .declOnly => True

theorem tryLoad_miss_flags (c : Cache) (k : BPkg) (h : (tryLoadFromCache c k {}).cacheHit = false) :
    tryLoadFromCache c k {} = {} := by
  unfold tryLoadFromCache at h ⊢
  cases hl : c.lookup (k.id, k.fp) with
  | none => rfl
  | some md => simp [hl] at h

theorem buildOne_cacheOk {F : Nat × Nat → Bool × Bool} {c : Cache} (k : BPkg) (h : CacheOk F c) (hd : Describes F k) :
    CacheOk F (buildOne c k).1 := by
  unfold buildOne
  unfold Describes at hd
  cases hk : k.kind with
  | declOnly => simpa [hk] using h
  | ordinary =>
    simp only [hk] at hd ⊢
    by_cases hh : (tryLoadFromCache c k {}).cacheHit = true
    · simpa [hh] using h
    · simp only [hh, Bool.false_eq_true, if_false]
      exact cacheOk_save k _ h hd
  | binding =>
    simp only [hk] at hd ⊢
    by_cases hh : (tryLoadFromCache c k {}).cacheHit = true
    · simpa [hh] using h
    · simp only [hh, Bool.false_eq_true, if_false]
      have hm := tryLoad_miss_flags c k (by simpa using hh)
      apply cacheOk_save k _ h
      rw [hm]; exact hd
  | linkExtern =>
    simp only [hk] at hd ⊢
    by_cases hh : (tryLoadFromCache c k {}).cacheHit = true
    · simpa [hh] using h
    · simp only [hh, Bool.false_eq_true, if_false]
      have hm := tryLoad_miss_flags c k (by simpa using hh)
      apply cacheOk_save k _ h
      rw [hm]; exact hd

theorem buildAll_cacheOk {F : Nat × Nat → Bool × Bool} : ∀ (pkgs : List BPkg) (c : Cache), CacheOk F c →
    (∀ k ∈ pkgs, Describes F k) → CacheOk F (buildAll c pkgs).1 := by
  intro pkgs
  induction pkgs with
  | nil => intro c h _; exact h
  | cons k ks ih =>
    intro c h hd
    simp only [buildAll]
    exact ih _ (buildOne_cacheOk k h (hd k (by simp))) (fun x hx => hd x (by simp [hx]))

end LlgoVerif.PyGuard
