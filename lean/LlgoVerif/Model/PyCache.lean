/-!
# C19: does the entry function call `Py_Initialize`?  (internal/build: build.go `buildAllPkgs`, `linkMainPkg`; collect.go)

`genMainModule` emits `Py_Initialize()` as the first call of the entry function iff `needPyInit`, which
`linkMainPkg` computes as the OR of `aPkg.NeedPyInit` over the linked non-runtime packages.  Where that flag
comes from, per package (`buildOne`):

* `collectFingerprint`; `tryLoadFromCache`: on a hit (`<cache>/<triple>/<pkg>/<fingerprint>.{a,manifest}` exist)
  `LinkArgs / NeedRt / NeedPyInit` are RESTORED from the manifest's optional `metadata:` section (absent
  section = zero values) and `CacheHit = true`;
* `buildPkg` compiles the package with `cl.NewPackageEx` EVEN ON A HIT (only the object code is reused), so
  `LPkg.NeedRuntime / LPkg.NeedPyInit` are recomputed from the source on every build;
* ordinary package: `setNeedRuntimeOrPyInit(LPkg.NeedRuntime, LPkg.NeedPyInit)` — overrides what the cache said;
  binding package (`PkgPyModule`): `NeedPyInit = LPkg.NeedPyInit` (fix C19-4); `link:` packages keep the
  restored values;
* on a miss: `appendExternalLinkArgs` (`link:` packages), then `saveToCache`: main packages are never stored;
  the `metadata:` section is dropped iff there are no link args and both flags are false.

The cache directory outlives the build: a program is built again and again over the same cache
(`buildHistory`).
-/
namespace LlgoVerif.PyGuard

/-- `cl.PkgKindOf` as far as `buildOne` distinguishes -/
inductive BKind
  | ordinary | binding | linkExtern | declOnly
  deriving DecidableEq, Repr

/-- one package of a build, as the build driver sees it -/
structure BPkg where
  id : Nat
  kind : BKind := .ordinary
  isMain : Bool := false
  /-- fingerprint of the build inputs -/
  fp : Nat := 0
  /-- `LPkg.NeedRuntime` / `LPkg.NeedPyInit` after compiling THIS source (recomputed on every build) -/
  needRt : Bool := false
  needPy : Bool := false
  /-- what `appendExternalLinkArgs` yields for a `link: …` package -/
  extLinkArgs : List Nat := []
  deriving Repr

/-- the `metadata:` section of a cached manifest -/
structure Meta where
  linkArgs : List Nat := []
  needRt : Bool := false
  needPyInit : Bool := false
  deriving DecidableEq, Repr

/-- the cache directory: (package, fingerprint) ↦ manifest with an optional metadata section; newest first -/
abbrev Cache := List ((Nat × Nat) × Option Meta)

/-- `aPackage` fields that matter here -/
structure APkg where
  cacheHit : Bool := false
  linkArgs : List Nat := []
  needRt : Bool := false
  needPyInit : Bool := false
  /-- `ExportFile != ""`: takes part in linking -/
  linked : Bool := true
  deriving DecidableEq, Repr

/-- `tryLoadFromCache` + `parseManifestMetadata` -/
def tryLoadFromCache (c : Cache) (k : BPkg) (a : APkg) : APkg :=
  match c.lookup (k.id, k.fp) with
  | none => a
  | some md =>
    let m := md.getD {}
    { a with linkArgs := m.linkArgs, needRt := m.needRt, needPyInit := m.needPyInit, cacheHit := true }

/-- the metadata section `saveToCache` writes -/
def metaOf (a : APkg) : Option Meta :=
  if a.linkArgs.isEmpty && !a.needRt && !a.needPyInit then none
  else some { linkArgs := a.linkArgs, needRt := a.needRt, needPyInit := a.needPyInit }

/-- `saveToCache` -/
def saveToCache (c : Cache) (k : BPkg) (a : APkg) : Cache :=
  if k.isMain then c else ((k.id, k.fp), metaOf a) :: c

/-- `buildOne` -/
def buildOne (c : Cache) (k : BPkg) : Cache × APkg :=
  match k.kind with
  | .declOnly => (c, { linked := false })
  | .ordinary =>
    let a0 := tryLoadFromCache c k {}
    let a1 := { a0 with needRt := k.needRt, needPyInit := k.needPy }
    (if a1.cacheHit then c else saveToCache c k a1, a1)
  | .binding =>
    let a0 := tryLoadFromCache c k {}
    let a1 := { a0 with needPyInit := k.needPy }
    (if a1.cacheHit then c else saveToCache c k a1, a1)
  | .linkExtern =>
    let a0 := tryLoadFromCache c k {}
    if a0.cacheHit then (c, a0)
    else
      let a1 := { a0 with linkArgs := a0.linkArgs ++ k.extLinkArgs }
      (saveToCache c k a1, a1)

def buildAll (c : Cache) : List BPkg → Cache × List APkg
  | [] => (c, [])
  | k :: ks =>
    let r := buildOne c k
    let rs := buildAll r.1 ks
    (rs.1, r.2 :: rs.2)

/-- what `linkMainPkg` hands to `genMainModule` / the linker -/
structure Entry where
  rtInit : Bool
  pyInit : Bool
  linkArgs : List Nat
  deriving DecidableEq, Repr

def linkMain (as : List APkg) : Entry :=
  let ls := as.filter (·.linked)
  { rtInit := ls.any (·.needRt), pyInit := ls.any (·.needPyInit), linkArgs := ls.flatMap (·.linkArgs) }

/-- one `llgo build` over cache `c` -/
def build (c : Cache) (pkgs : List BPkg) : Cache × Entry :=
  let r := buildAll c pkgs
  (r.1, linkMain r.2)

/-- successive builds over the same cache directory -/
def buildHistory (c : Cache) : List (List BPkg) → List Entry
  | [] => []
  | p :: ps => (build c p).2 :: buildHistory (build c p).1 ps

/-- the program needs the interpreter: some compiled (ordinary or binding) package does -/
def progNeedsPy (pkgs : List BPkg) : Bool :=
  pkgs.any fun k => (k.kind == .ordinary || k.kind == .binding) && k.needPy

/-- the cache tells the truth about the packages `F` describes: an entry stored under (id, fingerprint) carries
    the flags compiling that source yields (`F key = (needRt, needPy)`) -/
def CacheOk (F : Nat × Nat → Bool × Bool) (c : Cache) : Prop :=
  ∀ key md, c.lookup key = some md → (md.getD {}).needRt = (F key).1 ∧ (md.getD {}).needPyInit = (F key).2

end LlgoVerif.PyGuard
