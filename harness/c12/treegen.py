"""Generator of multi-package Go module trees for C12 (package initialisation order).

A tree has 2..8 packages numbered topologically (every import of p is < p):
  0        the tracer package (leaf):  func T(s string, v int) int { println(s, v); n++; return v }
  1..n-2   library packages with scrambled names (import-path order != topological order)
  n-1      package main (module root)
Every package has package-level variables declared OUT of dependency order, spread over several files whose
names scramble the file order, initialisers that reference other variables of the package (directly and hidden
behind functions), variables of imported packages, several `init` functions per file, blank imports, and
optionally one package that imports the patched std package sync/atomic.

Each trace line is `<pkg>.<entity> <value>`; the value is the constant of the entity plus the values of
everything it references, so a line also shows that its dependencies were initialised before it ran.

The generator also computes
  * `imports_order[p]`: go/types' Package.Imports() order = first occurrence scanning the files sorted by name
    (that is the order in which go/ssa emits the calls of the imports' initialisers) - input of the Lean model;
  * `spec_body[p]`: the lines of p's body according to the Go spec (repeatedly the earliest variable in declaration
    order that is ready; then init functions in file/declaration order) - cross-checked against the reference
    toolchain on every run (validation of this file, not part of the verdict).
"""

NAMES = ["zeta", "alpha", "mid", "beta", "omega", "kilo", "delta", "echo", "yank", "bravo", "sierra", "able"]
FILES = ["a_first.go", "k_mid.go", "z_last.go", "b2.go", "y_9.go"]


class Ent:
    """a package-level variable or function"""

    def __init__(self, kind, idx, pkg):
        self.kind = kind        # 'var' | 'func'
        self.idx = idx
        self.pkg = pkg
        self.const = 0
        self.refs = []          # list of ('var'|'func', Ent) | ('xvar', Ent) | ('atomic',)
        self.traced = True      # variables may have a constant initialiser without a trace line
        self.file = 0

    @property
    def label(self):
        return "%s.%s%d" % (self.pkg.name, "V" if self.kind == "var" else "f", self.idx)

    @property
    def goname(self):
        return ("V%d" if self.kind == "var" else "F%d") % self.idx


class Init:
    def __init__(self, pkg, file, k):
        self.pkg, self.file, self.k = pkg, file, k
        self.const = 0
        self.refs = []

    @property
    def label(self):
        return "%s.init.%s.%d" % (self.pkg.name, self.pkg.files[self.file][:-3], self.k)


class Pkg:
    def __init__(self, pid, name):
        self.id = pid
        self.name = name           # Go package name (and last path element)
        self.path = ""             # import path
        self.dir = ""              # directory relative to the module root
        self.deps = []             # ids of imported tree packages
        self.atomic = False        # imports sync/atomic
        self.files = []            # file names
        self.vars, self.funcs, self.inits = [], [], []
        self.decl_order = {}       # file index -> list of Ent/Init in source order
        self.file_imports = {}     # file index -> list of (path, blank) in source order


class Tree:
    pass


def gen_tree(rng, mod, npk=None, atomic=None):
    n = npk or rng.randint(2, 8)
    t = Tree()
    t.mod = mod
    names = rng.sample(NAMES, n - 2) if n > 2 else []
    pk = [Pkg(0, "tr")] + [Pkg(i + 1, nm) for i, nm in enumerate(names)] + [Pkg(n - 1, "main")]
    t.pkgs = pk
    for p in pk[1:-1]:
        p.dir = p.name if rng.random() < 0.7 else "deep/" + p.name
        p.path = mod + "/" + p.dir
    pk[0].dir, pk[0].path = "tr", mod + "/tr"
    pk[-1].dir, pk[-1].path = "", mod
    for p in pk[1:]:
        cand = list(range(1, p.id))
        p.deps = [0] + [q for q in cand if rng.random() < 0.55]
        if p.id == n - 1 and n > 2 and len(p.deps) == 1:
            p.deps.append(rng.choice(cand))
    if atomic is None:
        atomic = rng.random() < 0.5
    if atomic:
        pk[rng.randint(1, n - 1)].atomic = True
    # tracer
    tr = pk[0]
    tr.files = ["tr.go"]
    # entities
    for p in pk[1:]:
        nfile = rng.randint(1, 3)
        p.files = sorted(rng.sample(FILES, nfile))
        nv, nf = rng.randint(1, 4), rng.randint(0, 2)
        p.vars = [Ent("var", k, p) for k in range(nv)]
        p.funcs = [Ent("func", k, p) for k in range(nf)]
        ents = p.vars + p.funcs
        rank = ents[:]
        rng.shuffle(rank)               # an entity may reference entities earlier in `rank` only (acyclic)
        used_atomic = False
        for r, e in enumerate(rank):
            e.const = rng.randint(1, 9) * (10 ** rng.randint(0, 2))
            e.file = rng.randrange(nfile)
            if e.kind == "var" and rng.random() < 0.12:
                e.traced = False        # `var V = 7`: no trace line, no references
                continue
            for o in rank[:r]:
                if rng.random() < 0.45:
                    e.refs.append((o.kind, o))
            for q in p.deps[1:]:
                if rng.random() < 0.5:
                    e.refs.append(("xvar", rng.choice(pk[q].vars)))
            if p.atomic and not used_atomic and e.kind == "var":
                cnt = Ent("var", 100 + p.id, p)      # `var cnt<N> int32`: declared, no initialiser; &cnt is a dependency
                cnt.traced, cnt.is_cnt, cnt.file = False, True, e.file
                p.cnt = cnt
                e.refs.append(("atomic", cnt))
                used_atomic = True
            rng.shuffle(e.refs)
        if p.atomic and not used_atomic:
            p.atomic = False
        for f in range(nfile):
            for k in range(rng.choice([0, 1, 1, 2, 3])):
                it = Init(p, f, k)
                it.const = rng.randint(1, 9)
                for o in ents:
                    if rng.random() < 0.3:
                        it.refs.append((o.kind, o))
                for q in p.deps[1:]:
                    if rng.random() < 0.3:
                        it.refs.append(("xvar", rng.choice(pk[q].vars)))
                p.inits.append(it)
        # source order inside each file: random interleaving of that file's declarations
        for f in range(nfile):
            decls = [e for e in ents if e.file == f] + [i for i in p.inits if i.file == f]
            if p.atomic and p.cnt.file == f:
                decls.append(p.cnt)
            inits_f = [d for d in decls if isinstance(d, Init)]
            rng.shuffle(decls)
            # init functions keep their relative numbering: re-insert them in k order at the shuffled positions
            pos = [i for i, d in enumerate(decls) if isinstance(d, Init)]
            for i, it in zip(pos, sorted(inits_f, key=lambda x: x.k)):
                decls[i] = it
            p.decl_order[f] = decls
        # imports per file (Go wants every import of a file used in that file)
        used_pk = set()
        for f in range(nfile):
            need, atomic_here = [], False
            for d in p.decl_order[f]:
                if isinstance(d, Init) or d.traced:
                    if pk[0].path not in need:
                        need.append(pk[0].path)
                for r in d.refs:
                    if r[0] == "xvar" and r[1].pkg.path not in need:
                        need.append(r[1].pkg.path)
                    if r[0] == "atomic":
                        atomic_here = True
            if p.id == n - 1 and f == 0 and pk[0].path not in need:
                need.append(pk[0].path)     # func main lives in the first file and traces
            if atomic_here:
                need.append("sync/atomic")
            rng.shuffle(need)
            p.file_imports[f] = [(x, False) for x in need]
            used_pk.update(need)
        for q in p.deps:
            if pk[q].path not in used_pk:
                f = rng.randrange(nfile)
                lst = p.file_imports[f]
                lst.insert(rng.randint(0, len(lst)), (pk[q].path, True))   # blank import: initialisation only
        # drop files that ended up empty (no declarations): their blank imports move to the first non-empty file
        keep = [f for f in range(nfile) if p.decl_order[f] or (p.id == n - 1 and f == 0)]
        if not keep:
            keep = [0]
        for f in range(nfile):
            if f not in keep:
                for imp in p.file_imports[f]:
                    if imp[0] not in [x[0] for x in p.file_imports[keep[0]]]:
                        p.file_imports[keep[0]].append((imp[0], True))
                p.file_imports[f] = []
        p.live_files = keep
    t.atomic = any(p.atomic for p in pk)
    t.files = render(t)
    t.imports_order = {p.id: imports_order(t, p) for p in pk}
    t.reachable = reach(t)
    t.spec_body = {p.id: spec_body(t, p) for p in pk}
    return t


def expr(p, const, refs):
    terms = [str(const)]
    for r in refs:
        if r[0] == "var":
            terms.append(r[1].goname)
        elif r[0] == "func":
            terms.append(r[1].goname + "()")
        elif r[0] == "xvar":
            terms.append(r[1].pkg.name + "." + r[1].goname)
        else:
            terms.append("int(atomic.AddInt32(&%s, 1))" % r[1].goname)
    return " + ".join(terms)


def render(t):
    files = {}      # relative to the tree's root directory; the batch writes go.mod (t.mod is the import path of the root)
    files["tr/tr.go"] = ("package tr\n\nvar n int\n\n// T traces one initialisation step.\n"
                         "func T(s string, v int) int { println(s, v); n++; return v }\n\n"
                         "func N() int { return n }\n\nvar Ready = T(\"tr.Ready\", 1)\n\nfunc init() { T(\"tr.init\", 2) }\n")
    n = len(t.pkgs)
    for p in t.pkgs[1:]:
        for f in p.live_files:
            out = ["package %s\n" % p.name]
            imps = p.file_imports[f]
            if imps:
                out.append("import (")
                for path, blank in imps:
                    out.append('\t%s"%s"' % ("_ " if blank else "", path))
                out.append(")\n")
            for d in p.decl_order[f]:
                if isinstance(d, Init):
                    out.append('func init() { tr.T("%s", %s) }\n' % (d.label, expr(p, d.const, d.refs)))
                elif getattr(d, "is_cnt", False):
                    out.append("var %s int32\n" % d.goname)
                elif d.kind == "var":
                    if d.traced:
                        out.append('var %s = tr.T("%s", %s)\n' % (d.goname, d.label, expr(p, d.const, d.refs)))
                    else:
                        out.append("var %s = %d\n" % (d.goname, d.const))
                else:
                    out.append('func %s() int { return tr.T("%s", %s) }\n' % (d.goname, d.label, expr(p, d.const, d.refs)))
            if p.id == n - 1 and f == p.live_files[0]:
                out.append('func main() {\n\ttr.T("main.main", 0)\n\tprintln("count", tr.N())\n}\n')
            files[(p.dir + "/" if p.dir else "") + p.files[f]] = "\n".join(out)
    return files


def imports_order(t, p):
    """go/types Package.Imports(): first occurrence, files in name order, import decl order. -> list of import paths"""
    if p.id == 0:
        return []
    seen = []
    for f in sorted(p.live_files, key=lambda f: p.files[f]):
        for path, _ in p.file_imports[f]:
            if path not in seen:
                seen.append(path)
    return seen


def reach(t):
    byp = {p.path: p.id for p in t.pkgs}
    seen, todo = set(), [len(t.pkgs) - 1]
    while todo:
        x = todo.pop()
        if x in seen:
            continue
        seen.add(x)
        todo += [byp[q] for q in t.imports_order[x] if q in byp]
    return seen


# ------------------------------------------------------------------ the Go specification, per package
def value(e, memo):
    if e in memo:
        return memo[e]
    if isinstance(e, Ent) and not e.traced:
        memo[e] = e.const
        return e.const
    v = e.const
    for r in e.refs:
        v += 1 if r[0] == "atomic" else value(r[1], memo)
    memo[e] = v
    return v


def emit(e, memo, out):
    """lines printed while evaluating e's expression (function calls in left-to-right order), then e's own line"""
    for r in e.refs:
        if r[0] == "func":
            emit(r[1], memo, out)
    out.append("%s %d" % (e.label, value(e, memo)))


def var_deps(e, seen=None):
    """package-level variables of the same package that e's initialiser depends on (through functions too)"""
    seen = seen if seen is not None else set()
    out = set()
    for r in e.refs:
        if r[0] in ("var", "atomic"):
            out.add(r[1])
        elif r[0] == "func" and r[1] not in seen:
            seen.add(r[1])
            out |= var_deps(r[1], seen)
    return out


def spec_body(t, p):
    if p.id == 0:
        return ["tr.Ready 1", "tr.init 2"]
    memo = {}
    decl = []
    for f in sorted(p.live_files, key=lambda f: p.files[f]):
        decl += [d for d in p.decl_order[f] if isinstance(d, Ent) and d.kind == "var"]
    done, out = set(), []
    while len(done) < len(decl):
        for v in decl:
            if v not in done and all(d in done for d in var_deps(v)):
                done.add(v)
                if v.traced:
                    emit(v, memo, out)
                break
        else:
            raise RuntimeError("generator produced a cyclic initialisation")
    for f in sorted(p.live_files, key=lambda f: p.files[f]):
        for d in p.decl_order[f]:
            if isinstance(d, Init):
                emit(d, memo, out)
    return out


def pkg_of_label(t, label):
    nm = label.split(".")[0]
    for p in t.pkgs:
        if p.name == nm:
            return p.id
    return None


def describe(t):
    return {"module": t.mod, "packages": [{"id": p.id, "path": p.path, "imports_in_go_types_order": t.imports_order[p.id],
                                           "files": [p.files[f] for f in getattr(p, "live_files", [0])] if p.id else ["tr.go"]} for p in t.pkgs],
            "files": t.files}
