// Harness for C18 (target descriptions resolve to one well-defined configuration).
//
//	harness.bin extract <repo> <out.lean>   go/ast fact extractor: fields of targets.Config / targets.RawConfig and the
//	                                        fields of dst written by (*Loader).mergeConfig; writes the Lean file
//	                                        Gen/C18Fields.lean and prints the same facts as JSON.
//	harness.bin serve                       line protocol (one JSON request per line, one JSON answer per line):
//	                                        materialise a forest of target files in a scratch directory (or use an
//	                                        existing directory) and run the REAL loader (targets.NewResolver(dir).Resolve,
//	                                        Loader.LoadAll) on it; a request with "ops" is a script of resolve / has / list / all
//	                                        calls on ONE Resolver (history dependence).  A fatal stack overflow kills this process; the check
//	                                        treats the missing answer as the observation "crash" and restarts the harness.
//
// The module path sits under github.com/goplus/llgo/internal/, so the internal package is imported unchanged.
package main

import (
	"bufio"
	"encoding/json"
	"errors"
	"fmt"
	"go/ast"
	"go/parser"
	"go/token"
	"go/types"
	"io/fs"
	"os"
	"path/filepath"
	"reflect"
	"runtime/debug"
	"strconv"
	"strings"

	"github.com/goplus/llgo/internal/targets"
)

// ---------------------------------------------------------------- extract

type fieldFact struct {
	Name string `json:"name"`
	Type string `json:"type"`
	Tag  string `json:"tag"`
}

type facts struct {
	Config     []fieldFact `json:"config"`
	Raw        []fieldFact `json:"raw"`
	Merged     []string    `json:"merged"`   // fields F with `dst.F = …` / `dst.F op= …` / `&dst.F` in mergeConfig
	SrcRead    []string    `json:"src_read"` // fields F with `src.F` mentioned in mergeConfig
	MergeFound bool        `json:"merge_found"`
}

func structFields(st *ast.StructType) []fieldFact {
	var out []fieldFact
	for _, f := range st.Fields.List {
		tag := ""
		if f.Tag != nil {
			if s, err := strconv.Unquote(f.Tag.Value); err == nil {
				tag = reflect.StructTag(s).Get("json")
				if i := strings.IndexByte(tag, ','); i >= 0 {
					tag = tag[:i]
				}
			}
		}
		ty := types.ExprString(f.Type)
		if len(f.Names) == 0 { // embedded
			out = append(out, fieldFact{Name: strings.TrimPrefix(ty, "*"), Type: ty, Tag: tag})
			continue
		}
		for _, n := range f.Names {
			out = append(out, fieldFact{Name: n.Name, Type: ty, Tag: tag})
		}
	}
	return out
}

func extract(repo string) (facts, error) {
	var fc facts
	dir := filepath.Join(repo, "internal", "targets")
	fset := token.NewFileSet()
	pkgs, err := parser.ParseDir(fset, dir, func(fi fs.FileInfo) bool { return !strings.HasSuffix(fi.Name(), "_test.go") }, 0)
	if err != nil {
		return fc, err
	}
	seen := map[string]bool{}
	seenSrc := map[string]bool{}
	for _, pkg := range pkgs {
		for _, file := range pkg.Files {
			for _, d := range file.Decls {
				switch d := d.(type) {
				case *ast.GenDecl:
					for _, sp := range d.Specs {
						ts, ok := sp.(*ast.TypeSpec)
						if !ok {
							continue
						}
						st, ok := ts.Type.(*ast.StructType)
						if !ok {
							continue
						}
						switch ts.Name.Name {
						case "Config":
							fc.Config = structFields(st)
						case "RawConfig":
							fc.Raw = structFields(st)
						}
					}
				case *ast.FuncDecl:
					if d.Name.Name != "mergeConfig" || d.Body == nil || d.Type.Params == nil {
						continue
					}
					var params []string
					for _, p := range d.Type.Params.List {
						for _, n := range p.Names {
							params = append(params, n.Name)
						}
					}
					if len(params) < 2 {
						continue
					}
					fc.MergeFound = true
					dst, src := params[0], params[1]
					isSel := func(e ast.Expr, recv string) (string, bool) {
						se, ok := e.(*ast.SelectorExpr)
						if !ok {
							return "", false
						}
						id, ok := se.X.(*ast.Ident)
						if !ok || id.Name != recv {
							return "", false
						}
						return se.Sel.Name, true
					}
					ast.Inspect(d.Body, func(n ast.Node) bool {
						switch n := n.(type) {
						case *ast.AssignStmt:
							for _, l := range n.Lhs {
								if f, ok := isSel(l, dst); ok && !seen[f] {
									seen[f] = true
									fc.Merged = append(fc.Merged, f)
								}
							}
						case *ast.UnaryExpr:
							if n.Op == token.AND {
								if f, ok := isSel(n.X, dst); ok && !seen[f] {
									seen[f] = true
									fc.Merged = append(fc.Merged, f)
								}
							}
						case *ast.SelectorExpr:
							if f, ok := isSel(n, src); ok && !seenSrc[f] {
								seenSrc[f] = true
								fc.SrcRead = append(fc.SrcRead, f)
							}
						}
						return true
					})
				}
			}
		}
	}
	if fc.Config == nil {
		return fc, errors.New("type Config struct not found in internal/targets")
	}
	return fc, nil
}

func leanStr(s string) string { return strconv.Quote(s) }

func writeLean(fc facts, out string) error {
	var b strings.Builder
	b.WriteString("/-! GENERATED by /verif/harness/c18 (`harness.bin extract`) from internal/targets/config.go and loader.go of the\n")
	b.WriteString("    working tree on every run of `./check C18`. Do not edit. -/\n")
	b.WriteString("namespace LlgoVerif.Gen.C18\n\n")
	triple := func(name string, fs []fieldFact) {
		b.WriteString("/-- (Go field name, Go type, json tag) in declaration order -/\n")
		b.WriteString("def " + name + " : List (String × String × String) :=\n  [")
		for i, f := range fs {
			if i > 0 {
				b.WriteString(",\n   ")
			}
			b.WriteString("(" + leanStr(f.Name) + ", " + leanStr(f.Type) + ", " + leanStr(f.Tag) + ")")
		}
		b.WriteString("]\n\n")
	}
	triple("configFields", fc.Config)
	triple("rawConfigFields", fc.Raw)
	b.WriteString("/-- fields `F` of the destination that `mergeConfig` writes (`dst.F = …`, `dst.F op= …`, `&dst.F`) -/\n")
	b.WriteString("def mergedFields : List String :=\n  [")
	for i, f := range fc.Merged {
		if i > 0 {
			b.WriteString(", ")
		}
		b.WriteString(leanStr(f))
	}
	b.WriteString("]\n\nend LlgoVerif.Gen.C18\n")
	return os.WriteFile(out, []byte(b.String()), 0o644)
}

// ---------------------------------------------------------------- serve

type request struct {
	Files map[string]string `json:"files"` // file name (without .json) -> file content
	Dir   string            `json:"dir"`   // use this existing directory instead of Files
	Seq   []string          `json:"seq"`   // names to resolve, in this order
	Fresh bool              `json:"fresh"` // a new Resolver for every name (else one Resolver for the whole sequence)
	All   bool              `json:"all"`   // also call ResolveAll
	// Ops: a script executed on ONE Resolver, in order (history dependence): ["resolve", N] | ["has", N] | ["list"] | ["all"]
	Ops [][]string `json:"ops"`
}

// one answer per script op
type opResult struct {
	Res  *result           `json:"res,omitempty"`  // resolve
	Has  *bool             `json:"has,omitempty"`  // HasTarget
	List []string          `json:"list,omitempty"` // ListAvailableTargets
	All  map[string]result `json:"all,omitempty"`  // ResolveAll
	Err  string            `json:"err,omitempty"`  // error class of list / all, or "panic"
	Msg  string            `json:"msg,omitempty"`
}

type result struct {
	Ok  map[string]any `json:"ok,omitempty"`
	Err string         `json:"err,omitempty"` // class: missing | parse | other
	Msg string         `json:"msg,omitempty"`
}

type answer struct {
	Res    []result          `json:"res"`
	All    map[string]result `json:"all,omitempty"`
	AllErr string            `json:"all_err,omitempty"`
	Script []opResult        `json:"script,omitempty"`
}

func runOp(r *targets.Resolver, op []string) (o opResult) {
	defer func() {
		if e := recover(); e != nil {
			o = opResult{Err: "panic", Msg: fmt.Sprint(e)}
		}
	}()
	switch {
	case len(op) == 2 && op[0] == "resolve":
		res := resolveOne(r, op[1])
		return opResult{Res: &res}
	case len(op) == 2 && op[0] == "has":
		h := r.HasTarget(op[1])
		return opResult{Has: &h}
	case len(op) == 1 && op[0] == "list":
		l, err := r.ListAvailableTargets()
		if err != nil {
			return opResult{Err: classify(err).Err, Msg: err.Error()}
		}
		if l == nil {
			l = []string{}
		}
		return opResult{List: append([]string{"."}, l...)} // leading "." keeps an empty listing visible
	case len(op) == 1 && op[0] == "all":
		all, err := r.ResolveAll()
		if err != nil {
			c := classify(err)
			return opResult{Err: c.Err, Msg: c.Msg}
		}
		m := map[string]result{}
		for k, c := range all {
			if c == nil {
				m[k] = result{Err: "nil-config"}
			} else {
				m[k] = result{Ok: dump(c)}
			}
		}
		return opResult{All: m}
	}
	return opResult{Err: "bad-op"}
}

// dump renders every field of the resolved Config by reflection (so a field added later is reported too);
// unset values (zero strings, false, empty slices) are omitted.
func dump(c *targets.Config) map[string]any {
	out := map[string]any{}
	v := reflect.ValueOf(c).Elem()
	t := v.Type()
	for i := 0; i < t.NumField(); i++ {
		f := v.Field(i)
		name := t.Field(i).Name
		switch {
		case f.Kind() == reflect.String:
			if f.String() != "" {
				out[name] = f.String()
			}
		case f.Kind() == reflect.Bool:
			if f.Bool() {
				out[name] = true
			}
		case f.Kind() == reflect.Slice && f.Type().Elem().Kind() == reflect.String:
			if f.Len() > 0 {
				l := make([]string, f.Len())
				for j := range l {
					l[j] = f.Index(j).String()
				}
				out[name] = l
			}
		default:
			if !f.IsZero() {
				out["?"+name] = fmt.Sprintf("%v", f.Interface())
			}
		}
	}
	return out
}

func classify(err error) result {
	var se *json.SyntaxError
	var te *json.UnmarshalTypeError
	cls := "other"
	switch {
	case errors.Is(err, fs.ErrNotExist):
		cls = "missing"
	case errors.As(err, &se), errors.As(err, &te), strings.Contains(err.Error(), "failed to parse"):
		cls = "parse"
	}
	msg := err.Error()
	if len(msg) > 300 {
		msg = msg[:300]
	}
	return result{Err: cls, Msg: msg}
}

func resolveOne(r *targets.Resolver, name string) (res result) {
	defer func() {
		if e := recover(); e != nil {
			res = result{Err: "panic", Msg: fmt.Sprint(e)}
		}
	}()
	c, err := r.Resolve(name)
	if err != nil {
		return classify(err)
	}
	if c == nil {
		return result{Err: "nil-config"}
	}
	return result{Ok: dump(c)}
}

func handle(req request) (ans answer, err error) {
	dir := req.Dir
	if dir == "" {
		dir, err = os.MkdirTemp("", "c18forest")
		if err != nil {
			return ans, err
		}
		defer os.RemoveAll(dir)
		for name, text := range req.Files {
			if err = os.WriteFile(filepath.Join(dir, name+".json"), []byte(text), 0o644); err != nil {
				return ans, err
			}
		}
	}
	r := targets.NewResolver(dir)
	ans.Res = []result{}
	if len(req.Ops) > 0 {
		for _, op := range req.Ops {
			ans.Script = append(ans.Script, runOp(r, op))
		}
		return ans, nil
	}
	for _, name := range req.Seq {
		if req.Fresh {
			r = targets.NewResolver(dir)
		}
		ans.Res = append(ans.Res, resolveOne(r, name))
	}
	if req.All {
		func() {
			defer func() {
				if e := recover(); e != nil {
					ans.AllErr = "panic"
				}
			}()
			all, err := targets.NewResolver(dir).ResolveAll()
			if err != nil {
				ans.AllErr = classify(err).Err
				return
			}
			ans.All = map[string]result{}
			for k, c := range all {
				ans.All[k] = result{Ok: dump(c)}
			}
		}()
	}
	return ans, nil
}

func main() {
	if len(os.Args) >= 4 && os.Args[1] == "extract" {
		fc, err := extract(os.Args[2])
		if err != nil {
			fmt.Fprintln(os.Stderr, "extract:", err)
			os.Exit(2)
		}
		if err := writeLean(fc, os.Args[3]); err != nil {
			fmt.Fprintln(os.Stderr, "extract:", err)
			os.Exit(2)
		}
		json.NewEncoder(os.Stdout).Encode(fc)
		return
	}
	if len(os.Args) >= 2 && os.Args[1] == "serve" {
		// The default limit (1 GB) makes every stack overflow cost seconds and a gigabyte; the check may lower it.
		// Legitimate forests need a few hundred bytes per inheritance level.
		if s := os.Getenv("C18_MAXSTACK"); s != "" {
			if n, err := strconv.Atoi(s); err == nil && n > 0 {
				debug.SetMaxStack(n)
			}
		}
		in := bufio.NewReaderSize(os.Stdin, 1<<20)
		out := bufio.NewWriter(os.Stdout)
		for {
			line, err := in.ReadString('\n')
			if strings.TrimSpace(line) != "" {
				var req request
				if e := json.Unmarshal([]byte(line), &req); e != nil {
					fmt.Fprintln(out, `{"bad":"request"}`)
				} else {
					ans, e := handle(req)
					if e != nil {
						fmt.Fprintf(out, "{\"bad\":%q}\n", e.Error())
					} else {
						b, _ := json.Marshal(ans)
						out.Write(b)
						out.WriteByte('\n')
					}
				}
				out.Flush()
			}
			if err != nil {
				return
			}
		}
	}
	fmt.Fprintln(os.Stderr, "usage: harness.bin extract <repo> <out.lean> | serve")
	os.Exit(2)
}
