/-! placeholder driver (property C18 not built yet) -/
def main : IO Unit := IO.println "bad-op"
