import LlgoVerif.Lemmas.FloatLaws
/-!
C02, float half: theorems about Go's float operators as specified in `Spec/GoFloat.lean` (IEEE-754 binary32/binary64,
one correctly rounded operation per operator; `Model/SoftFloat.lean`).  Helper lemmas live in `Lemmas/FloatLaws.lean`
and `Lemmas/FloatOps.lean`; the regenerated per-function obligations (llgo's IR computes exactly these functions) are in
`Gen/C02_float.lean`.  All statements quantify over every bit pattern, including NaNs, infinities, zeros and subnormals.
-/
namespace LlgoVerif.C02F
open LlgoVerif LlgoVerif.SoftFloat LlgoVerif.FloatLaws

/-! ### comparisons (Go spec, "Comparison operators": IEEE-754; NaN is unordered; -0 == +0) -/

theorem cmpInt_self (v : Int) : cmpInt v v = .eq := by simp [cmpInt]

theorem cmpFV_self (a : FV) : cmpFV a a = (if a = .nan then .un else .eq) := by
  cases a <;> simp [cmpFV, cmpInt_self]

/-- `x == x` holds exactly for non-NaN `x` -/
theorem eq_self_iff_not_nan (x : BitVec w) : GoFloat.eq x x = true ↔ decode (GoFloat.fmt w) x.toNat ≠ .nan := by
  unfold GoFloat.eq GoFloat.cmp SoftFloat.cmp
  rw [cmpFV_self]
  by_cases h : decode (GoFloat.fmt w) x.toNat = .nan <;> simp [h]

/-- `x != x` holds exactly for NaN -/
theorem ne_self_iff_nan (x : BitVec w) : GoFloat.ne x x = true ↔ decode (GoFloat.fmt w) x.toNat = .nan := by
  unfold GoFloat.ne GoFloat.eq GoFloat.cmp SoftFloat.cmp
  rw [cmpFV_self]
  by_cases h : decode (GoFloat.fmt w) x.toNat = .nan <;> simp [h]

theorem lt_irrefl (x : BitVec w) : GoFloat.lt x x = false := by
  unfold GoFloat.lt GoFloat.cmp SoftFloat.cmp
  rw [cmpFV_self]
  by_cases h : decode (GoFloat.fmt w) x.toNat = .nan <;> simp [h]

/-- `x < y` is `y > x` -/
theorem lt_iff_gt_swap (x y : BitVec w) : GoFloat.lt x y = GoFloat.gt y x := by
  unfold GoFloat.lt GoFloat.gt GoFloat.cmp SoftFloat.cmp
  generalize decode (GoFloat.fmt w) x.toNat = a
  generalize decode (GoFloat.fmt w) y.toNat = b
  have h := cmpFV_swap_lt a b
  cases h1 : cmpFV a b <;> cases h2 : cmpFV b a <;> first | decide | (exfalso; simp_all)

/-- `<` is asymmetric -/
theorem lt_asymm (x y : BitVec w) (h : GoFloat.lt x y = true) : GoFloat.lt y x = false := by
  rw [lt_iff_gt_swap] at h
  unfold GoFloat.gt at h
  unfold GoFloat.lt
  cases hc : GoFloat.cmp y x <;> simp_all

/-- a NaN operand makes `== < <= > >=` false and `!=` true -/
theorem nan_unordered (x y : BitVec w) (h : decode (GoFloat.fmt w) x.toNat = .nan) :
    GoFloat.eq x y = false ∧ GoFloat.lt x y = false ∧ GoFloat.le x y = false ∧ GoFloat.gt x y = false
      ∧ GoFloat.ge x y = false ∧ GoFloat.ne x y = true := by
  have hc : GoFloat.cmp x y = .un := by
    unfold GoFloat.cmp SoftFloat.cmp; rw [h]; cases decode (GoFloat.fmt w) y.toNat <;> rfl
  simp [GoFloat.eq, GoFloat.lt, GoFloat.le, GoFloat.gt, GoFloat.ge, GoFloat.ne, hc]

/-- two non-NaN values are comparable: exactly one of `<`, `==`, `>` holds -/
theorem trichotomy (x y : BitVec w) (hx : decode (GoFloat.fmt w) x.toNat ≠ .nan) (hy : decode (GoFloat.fmt w) y.toNat ≠ .nan) :
    (GoFloat.lt x y = true ∧ GoFloat.eq x y = false ∧ GoFloat.gt x y = false) ∨
    (GoFloat.lt x y = false ∧ GoFloat.eq x y = true ∧ GoFloat.gt x y = false) ∨
    (GoFloat.lt x y = false ∧ GoFloat.eq x y = false ∧ GoFloat.gt x y = true) := by
  have hc : GoFloat.cmp x y ≠ .un := by
    unfold GoFloat.cmp SoftFloat.cmp
    cases hdx : decode (GoFloat.fmt w) x.toNat <;> cases hdy : decode (GoFloat.fmt w) y.toNat <;>
      simp_all [cmpFV, cmpInt] <;> (repeat' split) <;> simp
  unfold GoFloat.lt GoFloat.eq GoFloat.gt
  cases h : GoFloat.cmp x y <;> simp_all

/-- `<=` is `<` or `==`, `>=` is `>` or `==`, `!=` is the negation of `==` (also on NaN) -/
theorem le_def (x y : BitVec w) : GoFloat.le x y = (GoFloat.lt x y || GoFloat.eq x y) := rfl
theorem ge_def (x y : BitVec w) : GoFloat.ge x y = (GoFloat.gt x y || GoFloat.eq x y) := rfl
theorem ne_def (x y : BitVec w) : GoFloat.ne x y = !GoFloat.eq x y := rfl

/-- negative zero equals positive zero -/
theorem neg_zero_eq_zero : GoFloat.eq (0x8000000000000000 : BitVec 64) 0 = true ∧ GoFloat.eq (0x80000000 : BitVec 32) 0 = true := by
  decide +kernel

/-! ### arithmetic -/

theorem add_comm (x y : BitVec w) : GoFloat.add x y = GoFloat.add y x := by
  unfold GoFloat.add SoftFloat.add; rw [addFV_comm]
theorem mul_comm (x y : BitVec w) : GoFloat.mul x y = GoFloat.mul y x := by
  unfold GoFloat.mul SoftFloat.mul; rw [mulFV_comm]

/-- unary minus is an involution on every bit pattern (it only flips the sign bit) -/
theorem neg_neg_float32 (x : BitVec 32) : GoFloat.neg (GoFloat.neg x) = x := neg_neg32 x
theorem neg_neg_float64 (x : BitVec 64) : GoFloat.neg (GoFloat.neg x) = x := neg_neg64 x

/-- unary minus is not `0 - x`: `-(+0)` is `-0`, `0 - (+0)` is `+0` -/
theorem neg_is_not_zero_minus_counterexample :
    GoFloat.neg (0 : BitVec 64) ≠ GoFloat.sub (0 : BitVec 64) 0 := by decide +kernel

/-- the one rounding every operation performs (`roundPack` → `roundShift`) is round-to-nearest, ties-to-even: dropping
    `k ≥ 1` low bits of the exact significand `m` yields a `q'` with `|m - q' * 2^k| ≤ 2^k / 2`, and `q'` is even on a tie -/
theorem rounding_is_nearest_even (m k : Nat) (hk : 0 < k) :
    2 * ((m : Int) - (roundShift m k false : Int) * 2 ^ k).natAbs ≤ 2 ^ k ∧
      (2 * ((m : Int) - (roundShift m k false : Int) * 2 ^ k).natAbs = 2 ^ k → roundShift m k false % 2 = 0) :=
  roundShift_nearest_even m k hk

/-! ### conversions -/

/-- an integer of at most `prec` significant bits (24 for float32, 53 for float64) converts to float EXACTLY: converting
    back (truncation) returns it; holds for every format meeting `Fmt.Ok` -/
theorem int_float_int_exact (F : Fmt) (ok : Fmt.Ok F) (x : Int) (hx : x.natAbs < 2 ^ F.prec) :
    SoftFloat.toInt F (SoftFloat.ofInt F x) = some x := ofInt_exact F ok x hx

theorem int_float32_int_exact (x : Int) (hx : x.natAbs < 2 ^ 24) : SoftFloat.toInt f32 (SoftFloat.ofInt f32 x) = some x :=
  ofInt_exact f32 ok32 x hx
theorem int_float64_int_exact (x : Int) (hx : x.natAbs < 2 ^ 53) : SoftFloat.toInt f64 (SoftFloat.ofInt f64 x) = some x :=
  ofInt_exact f64 ok64 x hx

/-- the bound is sharp: 2^24 + 1 does not survive float32 -/
theorem int_float32_int_inexact_counterexample :
    SoftFloat.toInt f32 (SoftFloat.ofInt f32 (2 ^ 24 + 1)) ≠ some (2 ^ 24 + 1) := by decide +kernel

/-- converting through a wider float first is NOT the same conversion (double rounding): `float32(x)` for
    x = 2^60 + 2^36 + 1 must round up to 2^60 + 2^37, but rounding to float64 first lands on the tie and then goes to even -/
theorem int_to_float32_via_float64_counterexample :
    GoFloat.ofInt true 32 (BitVec.ofNat 64 (2 ^ 60 + 2 ^ 36 + 1))
      ≠ GoFloat.conv 32 (GoFloat.ofInt true 64 (BitVec.ofNat 64 (2 ^ 60 + 2 ^ 36 + 1))) := by decide +kernel

/-- non-vacuity: the hypotheses of the theorems above are met by ordinary values -/
example : decode (GoFloat.fmt 64) (0x3ff0000000000000 : BitVec 64).toNat ≠ .nan := by decide +kernel
example : decode (GoFloat.fmt 32) (0x7fc00000 : BitVec 32).toNat = .nan := by decide +kernel
example : ((-16777215 : Int)).natAbs < 2 ^ 24 := by decide

end LlgoVerif.C02F
