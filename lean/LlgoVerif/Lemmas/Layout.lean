import LlgoVerif.Model.Layout
/-!
# C08 — lemmas: rounding up to an alignment, the struct-layout loops, and the layout invariant
-/
namespace LlgoVerif.Layout

/-! ## rounding up -/

theorem alignUp_dvd (x a : Nat) : a ∣ alignUp x a := Nat.dvd_mul_left _ _

theorem alignUp_of_dvd {x a : Nat} (ha : 0 < a) (h : a ∣ x) : alignUp x a = x := by
  obtain ⟨k, rfl⟩ := h
  unfold alignUp
  have : (a * k + a - 1) / a = k := by
    rw [Nat.div_eq_iff ha, Nat.mul_comm a k]
    omega
  rw [this, Nat.mul_comm]

theorem alignUp_zero {a : Nat} (ha : 0 < a) : alignUp 0 a = 0 := alignUp_of_dvd ha (Nat.dvd_zero a)

theorem alignUp_add_of_dvd {x e a : Nat} (ha : 0 < a) (h : a ∣ e) : alignUp (x + e) a = alignUp x a + e := by
  obtain ⟨k, rfl⟩ := h
  unfold alignUp
  have : x + a * k + a - 1 = (x + a - 1) + k * a := by rw [Nat.mul_comm a k]; omega
  rw [this, Nat.add_mul_div_right _ _ ha, Nat.add_mul, Nat.mul_comm k a]

theorem le_alignUp (x : Nat) {a : Nat} (ha : 0 < a) : x ≤ alignUp x a := by
  unfold alignUp
  have h1 := Nat.div_add_mod (x + a - 1) a
  have h2 := Nat.mod_lt (x + a - 1) ha
  rw [Nat.mul_comm] at h1
  omega

theorem alignUp_lt (x : Nat) {a : Nat} (ha : 0 < a) : alignUp x a < x + a := by
  unfold alignUp
  have h1 := Nat.div_add_mod (x + a - 1) a
  rw [Nat.mul_comm] at h1
  omega

theorem alignUp_succ_of_not_dvd {x a : Nat} (ha : 0 < a) (h : ¬ a ∣ x) : alignUp (x + 1) a = alignUp x a := by
  have hr : x % a ≠ 0 := fun h0 => h (Nat.dvd_of_mod_eq_zero h0)
  have hm := Nat.mod_lt x ha
  have hx := Nat.div_add_mod x a
  unfold alignUp
  have h1 : (x + 1 + a - 1) / a = x / a + 1 := by
    rw [Nat.div_eq_iff ha, Nat.add_mul, Nat.mul_comm (x / a) a]; omega
  have h2 : (x + a - 1) / a = x / a + 1 := by
    rw [Nat.div_eq_iff ha, Nat.add_mul, Nat.mul_comm (x / a) a]; omega
  rw [h1, h2]

/-- the C formulation with explicit padding is the same rounding -/
theorem pad_eq_alignUp (x : Nat) {a : Nat} (ha : 0 < a) : x + (a - x % a) % a = alignUp x a := by
  have hx := Nat.div_add_mod x a
  have hm := Nat.mod_lt x ha
  by_cases h0 : x % a = 0
  · have : a ∣ x := Nat.dvd_of_mod_eq_zero h0
    rw [alignUp_of_dvd ha this, h0, Nat.sub_zero, Nat.mod_self, Nat.add_zero]
  · have h1 : (a - x % a) % a = a - x % a := Nat.mod_eq_of_lt (by omega)
    rw [h1]
    have h2 : x + (a - x % a) = a * (x / a + 1) := by rw [Nat.mul_add, Nat.mul_one]; omega
    rw [h2]
    have h3 : x = a * (x / a) + x % a := hx.symm
    have : alignUp x a = a * (x / a + 1) := by
      have hd : a ∣ a * (x / a + 1) := Nat.dvd_mul_right _ _
      have : alignUp x a = alignUp (x % a + a * (x / a)) a := by rw [Nat.add_comm, ← h3]
      rw [this, alignUp_add_of_dvd ha (Nat.dvd_mul_right _ _)]
      have : alignUp (x % a) a = a := by
        unfold alignUp
        have : (x % a + a - 1) / a = 1 := by
          rw [Nat.div_eq_iff ha]; omega
        rw [this, Nat.one_mul]
      rw [this, Nat.mul_add, Nat.mul_one]; omega
    exact this.symm

/-! ## struct-layout loops -/

theorem lastOS_add_eq_endOff : ∀ (l : List (Nat × Nat)) (o : Nat), l ≠ [] → (lastOS l o).1 + (lastOS l o).2 = endOff l o
  | [], _, h => absurd rfl h
  | [(z, a)], o, _ => by simp [lastOS, endOff]
  | (z, a) :: p :: r, o, _ => by
    have := lastOS_add_eq_endOff (p :: r) (alignUp o a + z) (by simp)
    simpa [lastOS, endOff] using this

theorem maxAlignOf_pos : ∀ l : List (Nat × Nat), 0 < maxAlignOf l
  | [] => by simp [maxAlignOf]
  | (_, a) :: r => by
    have := maxAlignOf_pos r
    simp only [maxAlignOf]; split <;> omega

theorem cPlace_eq_offsLoop : ∀ (l : List (Nat × Nat)) (o : Nat), (∀ p ∈ l, 0 < p.2) → cPlace l o = offsLoop l o
  | [], _, _ => rfl
  | (z, a) :: r, o, h => by
    have ha : 0 < a := h (z, a) (by simp)
    have ih := cPlace_eq_offsLoop r (alignUp o a + z) (fun p hp => h p (by simp [hp]))
    simp only [cPlace, offsLoop, pad_eq_alignUp o ha, ih]

theorem cEnd_eq_endOff : ∀ (l : List (Nat × Nat)) (o : Nat), (∀ p ∈ l, 0 < p.2) → cEnd l o = endOff l o
  | [], _, _ => rfl
  | (z, a) :: r, o, h => by
    have ha : 0 < a := h (z, a) (by simp)
    have ih := cEnd_eq_endOff r (alignUp o a + z) (fun p hp => h p (by simp [hp]))
    simp only [cEnd, endOff, pad_eq_alignUp o ha, ih]

/-! ## the two shapes of a well-formed target -/

theorem wfTarget_cases (tg : Target) (h : wfTarget tg = true) : tg = gcTarget 4 ∨ tg = gcTarget 8 := by
  obtain ⟨p, gc, w, m, a8, a16, a32, a64, f32, f64, ap⟩ := tg
  simp only [wfTarget, Bool.and_eq_true, Bool.or_eq_true, beq_iff_eq] at h
  obtain ⟨⟨⟨⟨hgc, hw⟩, hp⟩, hm⟩, hall⟩ := h
  subst hgc hw hm
  rcases hp with rfl | rfl
  · left
    simp [Basic.all, basicStdAlign, llBasic, basicSize, clampAlign, Basic.isComplex, llScalar, llStruct, llPtrSA, llIntSA, maxAlignOf] at hall
    simp [gcTarget]
    omega
  · right
    simp [Basic.all, basicStdAlign, llBasic, basicSize, clampAlign, Basic.isComplex, llScalar, llStruct, llPtrSA, llIntSA, maxAlignOf] at hall
    simp [gcTarget]
    omega

/-! ## the layout invariant (by induction on the type) -/

structure Inv (tg : Target) (t : GoType) : Prop where
  align_eq : (llSA tg (toRaw t)).2 = (stdSA tg t).2
  size_eq : (llSA tg (toRaw t)).1 = (stdSA tg t).1 + extra tg t
  align_pos : 0 < (stdSA tg t).2
  align_dvd_ptr : (stdSA tg t).2 ∣ tg.ptrSize
  align_dvd_size : (stdSA tg t).2 ∣ (stdSA tg t).1
  ptr_dvd_extra : tg.ptrSize ∣ extra tg t

structure InvF (tg : Target) (fs : Fields) : Prop where
  offs : ∀ o E, tg.ptrSize ∣ E →
    offsLoop (llSAs tg (toRaws fs)) (o + E) = List.zipWith (· + ·) (offsLoop (stdSAs tg fs) o) (cumExtras tg fs E)
  endo : ∀ o E, tg.ptrSize ∣ E → endOff (llSAs tg (toRaws fs)) (o + E) = endOff (stdSAs tg fs) o + E + extras tg fs
  maxa : maxAlignOf (llSAs tg (toRaws fs)) = maxAlignOf (stdSAs tg fs)
  maxa_dvd : maxAlignOf (stdSAs tg fs) ∣ tg.ptrSize
  ptr_dvd : tg.ptrSize ∣ extras tg fs

theorem inv_basic (p : Nat) (hp : p = 4 ∨ p = 8) (b : Basic) : Inv (gcTarget p) (.basic b) := by
  rcases hp with rfl | rfl <;> cases b <;> constructor <;> decide

theorem inv_closure (p : Nat) (hp : p = 4 ∨ p = 8) : Inv (gcTarget p) .closure := by
  rcases hp with rfl | rfl <;> constructor <;> decide

theorem inv_func (p : Nat) (hp : p = 4 ∨ p = 8) : Inv (gcTarget p) .func := by
  rcases hp with rfl | rfl <;> constructor <;> decide

theorem inv_iface (p : Nat) (hp : p = 4 ∨ p = 8) (b : Bool) : Inv (gcTarget p) (.iface b) := by
  rcases hp with rfl | rfl <;> cases b <;> constructor <;> decide

theorem inv_slice (p : Nat) (hp : p = 4 ∨ p = 8) (e : GoType) : Inv (gcTarget p) (.slice e) := by
  rcases hp with rfl | rfl <;> constructor <;> simp [toRaw, llSA, stdSA, extra] <;> decide

theorem inv_map (p : Nat) (hp : p = 4 ∨ p = 8) (k v : GoType) : Inv (gcTarget p) (.map k v) := by
  rcases hp with rfl | rfl <;> constructor <;> simp [toRaw, llSA, stdSA, extra] <;> decide

theorem inv_chan (p : Nat) (hp : p = 4 ∨ p = 8) (e : GoType) : Inv (gcTarget p) (.chan e) := by
  rcases hp with rfl | rfl <;> constructor <;> simp [toRaw, llSA, stdSA, extra] <;> decide

theorem inv_pointer (p : Nat) (hp : p = 4 ∨ p = 8) (e : GoType) : Inv (gcTarget p) (.pointer e) := by
  rcases hp with rfl | rfl <;> constructor <;> simp [toRaw, llSA, stdSA, extra] <;> decide


theorem gc_ptr_pos (p : Nat) (hp : p = 4 ∨ p = 8) : 0 < (gcTarget p).ptrSize := by
  rcases hp with rfl | rfl <;> decide

theorem stdStructSize_gc (p : Nat) (l : List (Nat × Nat)) (h : tailOK l = true) :
    stdStructSize (gcTarget p) l = alignUp (endOff l 0) (maxAlignOf l) := by
  unfold stdStructSize
  cases l with
  | nil => simp [endOff, alignUp_zero (maxAlignOf_pos [])]
  | cons x r =>
    have he := lastOS_add_eq_endOff (x :: r) 0 (by simp)
    have hA := maxAlignOf_pos (x :: r)
    simp only [tailOK, Bool.not_eq_true', Bool.and_eq_false_iff, decide_eq_false_iff_not, beq_eq_false_iff_ne] at h
    simp only [List.isEmpty_cons, Bool.false_eq_true, if_false, gcTarget, if_true]
    split
    · rename_i hc
      rcases h with (h | h) | h
      · exact absurd hc.1 h
      · exact absurd hc.2 h
      · rw [hc.2, Nat.add_zero] at he
        rw [← he]
        exact alignUp_succ_of_not_dvd hA (fun hd => h (Nat.mod_eq_zero_of_dvd hd))
    · rw [he]

mutual
theorem inv (p : Nat) (hp : p = 4 ∨ p = 8) : ∀ t, padFree (gcTarget p) t = true → Inv (gcTarget p) t
  | .basic b, _ => inv_basic p hp b
  | .pointer e, _ => inv_pointer p hp e
  | .slice e, _ => inv_slice p hp e
  | .map k v, _ => inv_map p hp k v
  | .chan e, _ => inv_chan p hp e
  | .func, _ => inv_func p hp
  | .closure, _ => inv_closure p hp
  | .iface b, _ => inv_iface p hp b
  | .named t, h => by
    have ih := inv p hp t (by simpa [padFree] using h)
    exact ⟨by simpa [toRaw, llSA, stdSA] using ih.align_eq, by simpa [toRaw, llSA, stdSA, extra] using ih.size_eq,
      by simpa [stdSA] using ih.align_pos, by simpa [stdSA] using ih.align_dvd_ptr,
      by simpa [stdSA] using ih.align_dvd_size, by simpa [extra] using ih.ptr_dvd_extra⟩
  | .alias t, h => by
    have h' : padFree (gcTarget p) t = true ∧ extra (gcTarget p) t = 0 := by simpa [padFree] using h
    have ih := inv p hp t h'.1
    exact ⟨by simpa [toRaw, stdSA] using ih.align_eq, by simpa [toRaw, stdSA, extra, h'.2] using ih.size_eq,
      by simpa [stdSA] using ih.align_pos, by simpa [stdSA] using ih.align_dvd_ptr,
      by simpa [stdSA] using ih.align_dvd_size, by simp [extra]⟩
  | .array n e, h => by
    have ih := inv p hp e (by simpa [padFree] using h)
    have hsz : stdArraySize (gcTarget p) n (stdSA (gcTarget p) e).1 (stdSA (gcTarget p) e).2 = (stdSA (gcTarget p) e).1 * n := by
      unfold stdArraySize
      split
      · rename_i hc; rcases hc with rfl | hz
        · simp
        · simp [hz]
      · simp [gcTarget]
    refine ⟨?_, ?_, ?_, ?_, ?_, ?_⟩
    · simpa [toRaw, llSA, stdSA] using ih.align_eq
    · simp only [toRaw, llSA, stdSA, extra, hsz, ih.size_eq]
      rw [Nat.mul_comm, Nat.add_mul]
    · simpa [stdSA] using ih.align_pos
    · simpa [stdSA] using ih.align_dvd_ptr
    · simp only [stdSA, hsz]
      exact Nat.dvd_trans ih.align_dvd_size (Nat.dvd_mul_right _ _)
    · simp only [extra]
      exact Nat.dvd_trans ih.ptr_dvd_extra (Nat.dvd_mul_right _ _)
  | .struct fs, h => by
    have h' : padFrees (gcTarget p) fs = true ∧ tailOK (stdSAs (gcTarget p) fs) = true := by
      simpa [padFree] using h
    have ih := invF p hp fs h'.1
    have hP := gc_ptr_pos p hp
    have hApos := maxAlignOf_pos (stdSAs (gcTarget p) fs)
    have hE : maxAlignOf (stdSAs (gcTarget p) fs) ∣ extras (gcTarget p) fs := Nat.dvd_trans ih.maxa_dvd ih.ptr_dvd
    refine ⟨?_, ?_, ?_, ?_, ?_, ?_⟩
    · simp only [toRaw, llSA, stdSA, llStruct, ih.maxa]
    · simp only [toRaw, llSA, stdSA, llStruct, ih.maxa, extra, stdStructSize_gc p _ h'.2]
      have := ih.endo 0 0 (Nat.dvd_zero _)
      simp only [Nat.add_zero] at this
      rw [this, alignUp_add_of_dvd hApos hE]
    · simpa [stdSA] using hApos
    · simpa [stdSA] using ih.maxa_dvd
    · simp only [stdSA, stdStructSize_gc p _ h'.2]
      exact alignUp_dvd _ _
    · simpa [extra] using ih.ptr_dvd
theorem invF (p : Nat) (hp : p = 4 ∨ p = 8) : ∀ fs, padFrees (gcTarget p) fs = true → InvF (gcTarget p) fs
  | .nil, _ => by
    refine ⟨?_, ?_, ?_, ?_, ?_⟩
    · intro o E _; simp [toRaws, llSAs, stdSAs, offsLoop, cumExtras]
    · intro o E _; simp [toRaws, llSAs, stdSAs, endOff, extras]
    · simp [toRaws, llSAs, stdSAs]
    · simp [stdSAs, maxAlignOf]
    · simp [extras]
  | .cons t fs, h => by
    have h' : padFree (gcTarget p) t = true ∧ padFrees (gcTarget p) fs = true := by simpa [padFrees] using h
    have it := inv p hp t h'.1
    have ifs := invF p hp fs h'.2
    have hP := gc_ptr_pos p hp
    refine ⟨?_, ?_, ?_, ?_, ?_⟩
    · intro o E hE
      have haE : (stdSA (gcTarget p) t).2 ∣ E := Nat.dvd_trans it.align_dvd_ptr hE
      simp only [toRaws, llSAs, stdSAs, offsLoop, cumExtras, List.zipWith_cons_cons]
      rw [it.align_eq, it.size_eq, alignUp_add_of_dvd it.align_pos haE]
      congr 1
      have := ifs.offs (alignUp o (stdSA (gcTarget p) t).2 + (stdSA (gcTarget p) t).1) (E + extra (gcTarget p) t)
        ((Nat.dvd_add_right hE).2 it.ptr_dvd_extra)
      rw [← this]; congr 1; omega
    · intro o E hE
      have haE : (stdSA (gcTarget p) t).2 ∣ E := Nat.dvd_trans it.align_dvd_ptr hE
      simp only [toRaws, llSAs, stdSAs, endOff, extras]
      rw [it.align_eq, it.size_eq, alignUp_add_of_dvd it.align_pos haE]
      have := ifs.endo (alignUp o (stdSA (gcTarget p) t).2 + (stdSA (gcTarget p) t).1) (E + extra (gcTarget p) t)
        ((Nat.dvd_add_right hE).2 it.ptr_dvd_extra)
      rw [show alignUp o (stdSA (gcTarget p) t).2 + E + ((stdSA (gcTarget p) t).1 + extra (gcTarget p) t)
            = alignUp o (stdSA (gcTarget p) t).2 + (stdSA (gcTarget p) t).1 + (E + extra (gcTarget p) t) by omega, this]
      omega
    · simp only [toRaws, llSAs, stdSAs, maxAlignOf, it.align_eq, ifs.maxa]
    · simp only [stdSAs, maxAlignOf]
      split
      · exact it.align_dvd_ptr
      · exact ifs.maxa_dvd
    · simp only [extras]
      exact (Nat.dvd_add_right it.ptr_dvd_extra).2 ifs.ptr_dvd
end


/-! toRaw is idempotent -/
mutual
theorem toRaw_idem : ∀ t, toRaw (toRaw t) = toRaw t
  | .basic _ => by simp [toRaw]
  | .pointer e => by simp [toRaw, toRaw_idem e]
  | .slice e => by simp [toRaw, toRaw_idem e]
  | .map k v => by simp [toRaw, toRaw_idem k, toRaw_idem v]
  | .chan e => by simp [toRaw, toRaw_idem e]
  | .func => by simp [toRaw]
  | .closure => by simp [toRaw]
  | .iface _ => by simp [toRaw]
  | .array n e => by simp [toRaw, toRaw_idem e]
  | .struct fs => by simp [toRaw, toRaws_idem fs]
  | .named t => by simp [toRaw, toRaw_idem t]
  | .alias t => by simp [toRaw, toRaw_idem t]
theorem toRaws_idem : ∀ fs, toRaws (toRaws fs) = toRaws fs
  | .nil => by simp [toRaws]
  | .cons t fs => by simp [toRaws, toRaw_idem t, toRaws_idem fs]
end

/-- (a) = (b): size -/
theorem goSizeof_eq (p : Nat) (hp : p = 4 ∨ p = 8) (t : GoType) (h : padFree (gcTarget p) t = true) :
    goSizeof (gcTarget p) t = (llSA (gcTarget p) (toRaw t)).1 := by
  have i := inv p hp t h
  have hx : (stdSA (gcTarget p) t).2 ∣ extra (gcTarget p) t := Nat.dvd_trans i.align_dvd_ptr i.ptr_dvd_extra
  have hal : alignUp ((stdSA (gcTarget p) t).1 + extra (gcTarget p) t) (stdSA (gcTarget p) t).2
      = (stdSA (gcTarget p) t).1 + extra (gcTarget p) t :=
    alignUp_of_dvd i.align_pos ((Nat.dvd_add_right i.align_dvd_size).2 hx)
  unfold goSizeof
  simp only [hal, i.size_eq]
  split <;> rfl

/-- (a) = (b): offsets -/
theorem goOffsets_eq (p : Nat) (hp : p = 4 ∨ p = 8) : ∀ t, padFree (gcTarget p) t = true →
    goOffsets (gcTarget p) t = (if isStruct t then llOffsets (gcTarget p) (toRaw t) else [])
  | .named t, h => by
    have ih := goOffsets_eq p hp t (by simpa [padFree] using h)
    show goOffsets (gcTarget p) t = (if isStruct t then llOffsets (gcTarget p) (toRaw t) else [])
    exact ih
  | .alias t, h => by
    have h' : padFree (gcTarget p) t = true ∧ extra (gcTarget p) t = 0 := by simpa [padFree] using h
    have ih := goOffsets_eq p hp t h'.1
    show goOffsets (gcTarget p) t = (if isStruct t then llOffsets (gcTarget p) (toRaw t) else [])
    exact ih
  | .struct fs, h => by
    have h' : padFrees (gcTarget p) fs = true ∧ tailOK (stdSAs (gcTarget p) fs) = true := by
      simpa [padFree] using h
    have := (invF p hp fs h'.1).offs 0 0 (Nat.dvd_zero _)
    simp [goOffsets, isStruct, llOffsets, toRaw, under, ← this]
  | .closure, _ => by
    rcases hp with rfl | rfl <;> decide
  | .basic _, _ => by simp [goOffsets, isStruct, under]
  | .pointer _, _ => by simp [goOffsets, isStruct, under]
  | .slice _, _ => by simp [goOffsets, isStruct, under]
  | .map _ _, _ => by simp [goOffsets, isStruct, under]
  | .chan _, _ => by simp [goOffsets, isStruct, under]
  | .func, _ => by simp [goOffsets, isStruct, under]
  | .iface _, _ => by simp [goOffsets, isStruct, under]
  | .array _ _, _ => by simp [goOffsets, isStruct, under]

theorem go_eq_ll (p : Nat) (hp : p = 4 ∨ p = 8) (t : GoType) (h : padFree (gcTarget p) t = true) :
    goSizes (gcTarget p) t = llvmLayout (gcTarget p) t := by
  unfold goSizes llvmLayout
  rw [goSizeof_eq p hp t h, goOffsets_eq p hp t h]
  simp only [goAlignof, (inv p hp t h).align_eq]

/-! (c) = (b) -/

theorem abi_basic_size (p : Nat) (hp : p = 4 ∨ p = 8) (b : Basic) :
    abiBasicSize (gcTarget p) b = (llBasic (gcTarget p) b).1 := by
  rcases hp with rfl | rfl <;> cases b <;> decide

theorem abiOKG_spec {tg : Target} {ba : Basic → Nat} (h : abiOKG tg ba = true) (b : Basic) : ba b = (llBasic tg b).2 := by
  have := List.all_eq_true.1 h b (by cases b <;> simp [Basic.all])
  simpa using this

theorem gc_ptr_facts (p : Nat) (hp : p = 4 ∨ p = 8) :
    (gcTarget p).ptrSize = (llPtrSA (gcTarget p)).1 ∧ (gcTarget p).ptrSize = (llPtrSA (gcTarget p)).2 ∧
    3 * (gcTarget p).ptrSize = (llStruct [llPtrSA (gcTarget p), llIntSA (gcTarget p), llIntSA (gcTarget p)]).1 ∧
    (gcTarget p).ptrSize = (llStruct [llPtrSA (gcTarget p), llIntSA (gcTarget p), llIntSA (gcTarget p)]).2 ∧
    2 * (gcTarget p).ptrSize = (llStruct [llPtrSA (gcTarget p), llPtrSA (gcTarget p)]).1 ∧
    (gcTarget p).ptrSize = (llStruct [llPtrSA (gcTarget p), llPtrSA (gcTarget p)]).2 ∧
    goSizeof (gcTarget p) .closure = (llStruct [llPtrSA (gcTarget p), llPtrSA (gcTarget p)]).1 ∧
    (if (gcTarget p).ptrSize > 1 then (gcTarget p).ptrSize else 1) = (llStruct [llPtrSA (gcTarget p), llPtrSA (gcTarget p)]).2 := by
  rcases hp with rfl | rfl <;> decide

mutual
theorem abi_inv (p : Nat) (hp : p = 4 ∨ p = 8) (fw : Nat) (ba : Basic → Nat) (hba : abiOKG (gcTarget p) ba = true) :
    ∀ r, padFree (gcTarget p) (toRaw r) = true →
    abiSizeG (gcTarget p) fw (toRaw r) = (llSA (gcTarget p) (toRaw r)).1 ∧
    abiAlignG (gcTarget p) ba (toRaw r) = (llSA (gcTarget p) (toRaw r)).2
  | .basic b, _ => by
    simp only [toRaw, abiSizeG, abiAlignG, llSA]
    exact ⟨abi_basic_size p hp b, abiOKG_spec hba b⟩
  | .pointer _, _ => by
    have f := gc_ptr_facts p hp
    simp only [toRaw, abiSizeG, abiAlignG, llSA]; exact ⟨f.1, f.2.1⟩
  | .map _ _, _ => by
    have f := gc_ptr_facts p hp
    simp only [toRaw, abiSizeG, abiAlignG, llSA]; exact ⟨f.1, f.2.1⟩
  | .chan _, _ => by
    have f := gc_ptr_facts p hp
    simp only [toRaw, abiSizeG, abiAlignG, llSA]; exact ⟨f.1, f.2.1⟩
  | .slice _, _ => by
    have f := gc_ptr_facts p hp
    simp only [toRaw, abiSizeG, abiAlignG, llSA]; exact ⟨f.2.2.1, f.2.2.2.1⟩
  | .iface _, _ => by
    have f := gc_ptr_facts p hp
    simp only [toRaw, abiSizeG, abiAlignG, llSA]; exact ⟨f.2.2.2.2.1, f.2.2.2.2.2.1⟩
  | .func, _ => by
    have f := gc_ptr_facts p hp
    simp only [toRaw, abiSizeG, abiAlignG, llSA]; exact ⟨f.2.2.2.2.2.2.1, f.2.2.2.2.2.2.2⟩
  | .closure, _ => by
    have f := gc_ptr_facts p hp
    simp only [toRaw, abiSizeG, abiAlignG, llSA]; exact ⟨f.2.2.2.2.2.2.1, f.2.2.2.2.2.2.2⟩
  | .named t, h => by
    have ih := abi_inv p hp fw ba hba t (by simpa [padFree, toRaw] using h)
    simpa [toRaw, abiSizeG, abiAlignG, llSA] using ih
  | .alias t, h => by
    have ih := abi_inv p hp fw ba hba t (by simpa [toRaw] using h)
    simpa [toRaw] using ih
  | .array n e, h => by
    have ih := abi_inv p hp fw ba hba e (by simpa [padFree, toRaw] using h)
    simp only [toRaw, abiSizeG, abiAlignG, llSA, ih.1, ih.2, and_self]
  | .struct fs, h => by
    have h' : padFrees (gcTarget p) (toRaws fs) = true ∧ tailOK (stdSAs (gcTarget p) (toRaws fs)) = true := by
      simpa [padFree, toRaw] using h
    constructor
    · have := goSizeof_eq p hp (toRaw (.struct fs)) h
      rw [toRaw_idem] at this
      simpa [toRaw, abiSizeG] using this
    · have := abi_invF p hp fw ba hba fs h'.1
      simpa [toRaw, abiAlignG, llSA, llStruct] using this
theorem abi_invF (p : Nat) (hp : p = 4 ∨ p = 8) (fw : Nat) (ba : Basic → Nat) (hba : abiOKG (gcTarget p) ba = true) :
    ∀ fs, padFrees (gcTarget p) (toRaws fs) = true →
    abiAlignsG (gcTarget p) ba (toRaws fs) = maxAlignOf (llSAs (gcTarget p) (toRaws fs))
  | .nil, _ => by simp [toRaws, abiAlignsG, llSAs, maxAlignOf]
  | .cons t fs, h => by
    have h' : padFree (gcTarget p) (toRaw t) = true ∧ padFrees (gcTarget p) (toRaws fs) = true := by
      simpa [padFrees, toRaws] using h
    have it := abi_inv p hp fw ba hba t h'.1
    have ifs := abi_invF p hp fw ba hba fs h'.2
    simp only [toRaws, abiAlignsG, llSAs, maxAlignOf, it.2, ifs]
end

/-- (c) = (b) for any descriptor alignment table that agrees with the data layout on the basic kinds -/
theorem abi_eq_ll (p : Nat) (hp : p = 4 ∨ p = 8) (fw : Nat) (ba : Basic → Nat) (hba : abiOKG (gcTarget p) ba = true)
    (t : GoType) (h : padFree (gcTarget p) (toRaw t) = true) :
    (⟨abiSizeG (gcTarget p) fw (toRaw t), abiAlignG (gcTarget p) ba (toRaw t), abiOffsets (gcTarget p) t⟩ : Layout)
      = llvmLayout (gcTarget p) t := by
  unfold llvmLayout abiOffsets
  rw [(abi_inv p hp fw ba hba t h).1, (abi_inv p hp fw ba hba t h).2]

/-- the referenced element descriptor: right size iff a function type is recorded with two words -/
theorem elemDesc_eq (p : Nat) (hp : p = 4 ∨ p = 8) (fw : Nat) (t : GoType) (h : padFree (gcTarget p) (toRaw t) = true)
    (hf : fw = 2 ∨ toRaw t ≠ .closure) :
    elemDescSize (gcTarget p) fw t = (llvmLayout (gcTarget p) t).size := by
  unfold elemDescSize llvmLayout
  by_cases hc : toRaw t = .closure
  · rcases hf with rfl | hf
    · rw [hc]
      have f := gc_ptr_facts p hp
      simp only [publicType, abiSizeG, llSA]
      exact f.2.2.2.2.1
    · exact absurd hc hf
  · have hpub : publicType (toRaw t) = toRaw t := by
      cases hr : toRaw t <;> simp [publicType] <;> exact absurd hr hc
    rw [hpub]
    exact (abi_inv p hp fw (abiBasicAlignFixed (gcTarget p)) (by rcases hp with rfl | rfl <;> decide) t h).1

/-- on a well-formed target a struct whose own zero-size tail is padded by gc is larger at compile time than in LLVM -/
theorem zero_tail_key (fs : Fields) (p : Nat) (hp : p = 4 ∨ p = 8) (hf : padFrees (gcTarget p) fs = true)
    (ht : tailOK (stdSAs (gcTarget p) fs) = false) :
    (goSizes (gcTarget p) (.struct fs)).size ≠ (llvmLayout (gcTarget p) (.struct fs)).size := by
  have ih := invF p hp fs hf
  have hA := maxAlignOf_pos (stdSAs (gcTarget p) fs)
  have hE : maxAlignOf (stdSAs (gcTarget p) fs) ∣ extras (gcTarget p) fs := Nat.dvd_trans ih.maxa_dvd ih.ptr_dvd
  simp only [tailOK, Bool.not_eq_false', Bool.and_eq_true, decide_eq_true_eq, beq_iff_eq] at ht
  obtain ⟨⟨ho, hz⟩, hm⟩ := ht
  have hne : stdSAs (gcTarget p) fs ≠ [] := by
    intro he; rw [he] at ho; simp [lastOS] at ho
  have he := lastOS_add_eq_endOff _ 0 hne
  rw [hz, Nat.add_zero] at he
  have hd : maxAlignOf (stdSAs (gcTarget p) fs) ∣ (lastOS (stdSAs (gcTarget p) fs) 0).1 := Nat.dvd_of_mod_eq_zero hm
  have hstd : stdStructSize (gcTarget p) (stdSAs (gcTarget p) fs)
      = alignUp ((lastOS (stdSAs (gcTarget p) fs) 0).1 + 1) (maxAlignOf (stdSAs (gcTarget p) fs)) := by
    have hem : (stdSAs (gcTarget p) fs).isEmpty = false := by
      cases hl : stdSAs (gcTarget p) fs with
      | nil => exact absurd hl hne
      | cons _ _ => rfl
    have hgc : (gcTarget p).gcStyle = true := rfl
    simp only [stdStructSize, hem, hgc, Bool.false_eq_true, if_false, if_true, if_pos (And.intro ho hz)]
  have hge := le_alignUp ((lastOS (stdSAs (gcTarget p) fs) 0).1 + 1) hA
  have hdv := alignUp_dvd ((lastOS (stdSAs (gcTarget p) fs) 0).1 + 1) (maxAlignOf (stdSAs (gcTarget p) fs))
  have hll : (llvmLayout (gcTarget p) (.struct fs)).size = (lastOS (stdSAs (gcTarget p) fs) 0).1 + extras (gcTarget p) fs := by
    simp only [llvmLayout, toRaw, llSA, llStruct, ih.maxa]
    have := ih.endo 0 0 (Nat.dvd_zero _)
    simp only [Nat.add_zero] at this
    rw [this, alignUp_add_of_dvd hA hE, ← he, alignUp_of_dvd hA hd]
  have hgo : (goSizes (gcTarget p) (.struct fs)).size
      = alignUp ((lastOS (stdSAs (gcTarget p) fs) 0).1 + 1) (maxAlignOf (stdSAs (gcTarget p) fs)) + extras (gcTarget p) fs := by
    simp only [goSizes, goSizeof, under, stdSA, extra, hstd]
    exact alignUp_of_dvd hA ((Nat.dvd_add_right hdv).2 hE)
  rw [hll, hgo]
  omega

/-! ## `padFree` is preserved by the raw conversion -/

/-- `extraSize` of the last field / of the fields before it -/
def extraLast (tg : Target) : Fields → Nat
  | .nil => 0
  | .cons t .nil => extra tg t
  | .cons _ (.cons u fs) => extraLast tg (.cons u fs)
def extrasInit (tg : Target) : Fields → Nat
  | .nil => 0
  | .cons _ .nil => 0
  | .cons t (.cons u fs) => extra tg t + extrasInit tg (.cons u fs)

theorem le_lastOS : ∀ (l : List (Nat × Nat)) (o : Nat), (∀ q ∈ l, 0 < q.2) → o ≤ (lastOS l o).1
  | [], o, _ => by simp [lastOS]
  | [(z, a)], o, h => by
    simp only [lastOS]; exact le_alignUp o (show 0 < a from h (z, a) (by simp))
  | (z, a) :: q :: r, o, h => by
    have ih := le_lastOS (q :: r) (alignUp o a + z) (fun x hx => h x (by simp [hx]))
    have := le_alignUp o (show 0 < a from h (z, a) (by simp))
    simp only [lastOS]; omega

theorem le_endOff : ∀ (l : List (Nat × Nat)) (o : Nat), (∀ q ∈ l, 0 < q.2) → o ≤ endOff l o
  | [], o, _ => by simp [endOff]
  | (z, a) :: r, o, h => by
    have ih := le_endOff r (alignUp o a + z) (fun x hx => h x (by simp [hx]))
    have := le_alignUp o (show 0 < a from h (z, a) (by simp))
    simp only [endOff]; omega

structure RInv (tg : Target) (t : GoType) : Prop where
  pf : padFree tg (toRaw t) = true
  size : (stdSA tg (toRaw t)).1 = (stdSA tg t).1 + extra tg t
  align : (stdSA tg (toRaw t)).2 = (stdSA tg t).2
  pos : 0 < extra tg t → 0 < (stdSA tg t).1

structure RInvF (tg : Target) (fs : Fields) : Prop where
  pf : padFrees tg (toRaws fs) = true
  last : ∀ o E, tg.ptrSize ∣ E → fs ≠ .nil →
    lastOS (stdSAs tg (toRaws fs)) (o + E) =
      ((lastOS (stdSAs tg fs) o).1 + E + extrasInit tg fs, (lastOS (stdSAs tg fs) o).2 + extraLast tg fs)
  maxa : maxAlignOf (stdSAs tg (toRaws fs)) = maxAlignOf (stdSAs tg fs)
  initpos : ∀ o, 0 < extrasInit tg fs → 0 < (lastOS (stdSAs tg fs) o).1
  endo : ∀ o E, tg.ptrSize ∣ E → endOff (stdSAs tg (toRaws fs)) (o + E) = endOff (stdSAs tg fs) o + E + extras tg fs
  endpos : ∀ o, 0 < extras tg fs → 0 < endOff (stdSAs tg fs) o
  apos : ∀ q ∈ stdSAs tg fs, 0 < q.2
  initdvd : tg.ptrSize ∣ extrasInit tg fs

theorem rinv_leaf (p : Nat) (hp : p = 4 ∨ p = 8) (t : GoType) (hraw : toRaw t = t ∨ t = .func)
    (hx : extra (gcTarget p) t = 0 ∨ t = .func) (hs : stdSA (gcTarget p) (toRaw t) = stdSA (gcTarget p) t ∨ t = .func)
    (hpf : padFree (gcTarget p) (toRaw t) = true) : RInv (gcTarget p) t := by
  rcases hs with hs | rfl
  · rcases hx with hx | rfl
    · exact ⟨hpf, by rw [hs, hx]; rfl, by rw [hs], by rw [hx]; intro h; exact absurd h (Nat.lt_irrefl 0)⟩
    · exact ⟨hpf, by rcases hp with rfl | rfl <;> decide, by rcases hp with rfl | rfl <;> decide,
        by rcases hp with rfl | rfl <;> decide⟩
  · exact ⟨hpf, by rcases hp with rfl | rfl <;> decide, by rcases hp with rfl | rfl <;> decide,
      by rcases hp with rfl | rfl <;> decide⟩


theorem tailOK_raw {l l' : List (Nat × Nat)} {A Ei xl : Nat} (_hA : 0 < A) (hl : tailOK l = true)
    (hm : maxAlignOf l' = maxAlignOf l) (hAeq : maxAlignOf l = A)
    (hlast : lastOS l' 0 = ((lastOS l 0).1 + Ei, (lastOS l 0).2 + xl)) (hd : A ∣ Ei)
    (hpos : 0 < Ei → 0 < (lastOS l 0).1) : tailOK l' = true := by
  simp only [tailOK, Bool.not_eq_true', Bool.and_eq_false_iff, decide_eq_false_iff_not, beq_eq_false_iff_ne] at hl ⊢
  rw [hlast, hm, hAeq]
  rw [hAeq] at hl
  simp only
  by_cases h1 : 0 < (lastOS l 0).1 + Ei
  · by_cases h2 : (lastOS l 0).2 + xl = 0
    · right
      have hz : (lastOS l 0).2 = 0 := by omega
      have hlo : 0 < (lastOS l 0).1 := by
        by_cases hE : 0 < Ei
        · exact hpos hE
        · omega
      rcases hl with (h | h) | h
      · exact absurd hlo h
      · exact absurd hz h
      · intro hmod
        apply h
        have : A ∣ (lastOS l 0).1 + Ei := Nat.dvd_of_mod_eq_zero hmod
        exact Nat.mod_eq_zero_of_dvd ((Nat.dvd_add_left hd).1 this)
    · left; right; exact h2
  · left; left; exact h1

theorem maxAlignOf_cons (x : Nat × Nat) (r : List (Nat × Nat)) :
    maxAlignOf (x :: r) = if x.2 > maxAlignOf r then x.2 else maxAlignOf r := by
  obtain ⟨z, a⟩ := x; rfl

theorem lastOS_cons_cons (x y : Nat × Nat) (r : List (Nat × Nat)) (o : Nat) :
    lastOS (x :: y :: r) o = lastOS (y :: r) (alignUp o x.2 + x.1) := by
  obtain ⟨z, a⟩ := x
  simp [lastOS]

mutual
theorem rinv (p : Nat) (hp : p = 4 ∨ p = 8) : ∀ t, padFree (gcTarget p) t = true → RInv (gcTarget p) t
  | .basic b, _ => rinv_leaf p hp _ (Or.inl rfl) (Or.inl rfl) (Or.inl rfl) rfl
  | .pointer e, _ => ⟨by simp [toRaw, padFree], by simp [toRaw, stdSA, extra], by simp [toRaw, stdSA], by simp [extra]⟩
  | .slice e, _ => ⟨by simp [toRaw, padFree], by simp [toRaw, stdSA, extra], by simp [toRaw, stdSA], by simp [extra]⟩
  | .map k v, _ => ⟨by simp [toRaw, padFree], by simp [toRaw, stdSA, extra], by simp [toRaw, stdSA], by simp [extra]⟩
  | .chan e, _ => ⟨by simp [toRaw, padFree], by simp [toRaw, stdSA, extra], by simp [toRaw, stdSA], by simp [extra]⟩
  | .iface b, _ => ⟨by simp [toRaw, padFree], by simp [toRaw, stdSA, extra], by simp [toRaw, stdSA], by simp [extra]⟩
  | .closure, _ => ⟨by simp [toRaw, padFree], by simp [toRaw, extra], by simp [toRaw], by simp [extra]⟩
  | .func, _ => rinv_leaf p hp _ (Or.inr rfl) (Or.inr rfl) (Or.inr rfl) (by simp [toRaw, padFree])
  | .named t, h => by
    have ih := rinv p hp t (by simpa [padFree] using h)
    exact ⟨by simpa [toRaw, padFree] using ih.pf, by simpa [toRaw, stdSA, extra] using ih.size,
      by simpa [toRaw, stdSA] using ih.align, by simpa [stdSA, extra] using ih.pos⟩
  | .alias t, h => by
    have h' : padFree (gcTarget p) t = true ∧ extra (gcTarget p) t = 0 := by simpa [padFree] using h
    have ih := rinv p hp t h'.1
    exact ⟨by simpa [toRaw] using ih.pf, by simpa [toRaw, stdSA, extra, h'.2] using ih.size,
      by simpa [toRaw, stdSA] using ih.align, by simp [extra]⟩
  | .array n e, h => by
    have ih := rinv p hp e (by simpa [padFree] using h)
    have hsz : ∀ z a, stdArraySize (gcTarget p) n z a = z * n := by
      intro z a
      unfold stdArraySize
      split
      · rename_i hc; rcases hc with rfl | hz
        · simp
        · simp [hz]
      · simp [gcTarget]
    refine ⟨by simpa [toRaw, padFree] using ih.pf, ?_, by simpa [toRaw, stdSA] using ih.align, ?_⟩
    · simp only [toRaw, stdSA, extra, hsz, ih.size, Nat.add_mul]
    · simp only [stdSA, extra, hsz]
      intro hx
      have hxe : 0 < extra (gcTarget p) e := Nat.pos_of_mul_pos_right hx
      have hn : 0 < n := Nat.pos_of_mul_pos_left hx
      exact Nat.mul_pos (ih.pos hxe) hn
  | .struct fs, h => by
    have h' : padFrees (gcTarget p) fs = true ∧ tailOK (stdSAs (gcTarget p) fs) = true := by
      simpa [padFree] using h
    have ih := rinvF p hp fs h'.1
    have iv := invF p hp fs h'.1
    have hA := maxAlignOf_pos (stdSAs (gcTarget p) fs)
    have hE : maxAlignOf (stdSAs (gcTarget p) fs) ∣ extras (gcTarget p) fs := Nat.dvd_trans iv.maxa_dvd iv.ptr_dvd
    have htail : tailOK (stdSAs (gcTarget p) (toRaws fs)) = true := by
      cases fs with
      | nil => simp [toRaws, stdSAs, tailOK, lastOS]
      | cons t r =>
        have hl := ih.last 0 0 (Nat.dvd_zero _) (by simp)
        simp only [Nat.add_zero] at hl
        exact tailOK_raw hA h'.2 ih.maxa rfl (by rw [hl]) (Nat.dvd_trans iv.maxa_dvd ih.initdvd) (ih.initpos 0)
    refine ⟨?_, ?_, ?_, ?_⟩
    · simp only [toRaw, padFree, ih.pf, htail, Bool.and_self]
    · simp only [toRaw, stdSA, extra, stdStructSize_gc p _ htail, stdStructSize_gc p _ h'.2, ih.maxa]
      have := ih.endo 0 0 (Nat.dvd_zero _)
      simp only [Nat.add_zero] at this
      rw [this, alignUp_add_of_dvd hA hE]
    · simp only [toRaw, stdSA, ih.maxa]
    · simp only [stdSA, extra, stdStructSize_gc p _ h'.2]
      intro hx
      have := ih.endpos 0 hx
      have := le_alignUp (endOff (stdSAs (gcTarget p) fs) 0) hA
      omega
theorem rinvF (p : Nat) (hp : p = 4 ∨ p = 8) : ∀ fs, padFrees (gcTarget p) fs = true → RInvF (gcTarget p) fs
  | .nil, _ => by
    refine ⟨by simp [toRaws, padFrees], ?_, by simp [toRaws, stdSAs], ?_, ?_, ?_, ?_, ?_⟩
    · intro o E _ hne; exact absurd rfl hne
    · intro o h; simp [extrasInit] at h
    · intro o E _; simp [toRaws, stdSAs, endOff, extras]
    · intro o h; simp [extras] at h
    · intro q hq; simp [stdSAs] at hq
    · simp [extrasInit]
  | .cons t .nil, h => by
    have h' : padFree (gcTarget p) t = true := by simpa [padFrees] using h
    have it := rinv p hp t h'
    have iv := inv p hp t h'
    refine ⟨by simp [toRaws, padFrees, it.pf], ?_, ?_, ?_, ?_, ?_, ?_, ?_⟩
    · intro o E hE _
      have haE : (stdSA (gcTarget p) t).2 ∣ E := Nat.dvd_trans iv.align_dvd_ptr hE
      simp only [toRaws, stdSAs, lastOS, extrasInit, extraLast, it.size, it.align,
        alignUp_add_of_dvd iv.align_pos haE, Nat.add_zero]
    · simp only [toRaws, stdSAs]
      rw [maxAlignOf_cons, maxAlignOf_cons, it.align]
    · intro o hx; simp [extrasInit] at hx
    · intro o E hE
      have haE : (stdSA (gcTarget p) t).2 ∣ E := Nat.dvd_trans iv.align_dvd_ptr hE
      simp only [toRaws, stdSAs, endOff, extras, it.size, it.align, alignUp_add_of_dvd iv.align_pos haE]
      omega
    · intro o hx
      simp only [extras, Nat.add_zero] at hx
      have := it.pos hx
      simp only [stdSAs, endOff]; omega
    · intro q hq
      simp only [stdSAs, List.mem_singleton] at hq
      rw [hq]; exact iv.align_pos
    · simp [extrasInit]
  | .cons t (.cons u r), h => by
    have h' : padFree (gcTarget p) t = true ∧ padFrees (gcTarget p) (.cons u r) = true := by simpa [padFrees] using h
    have it := rinv p hp t h'.1
    have iv := inv p hp t h'.1
    have ifs := rinvF p hp (.cons u r) h'.2
    have ivf := invF p hp (.cons u r) h'.2
    have hapos : ∀ q ∈ stdSAs (gcTarget p) (.cons t (.cons u r)), 0 < q.2 := by
      intro q hq
      simp only [stdSAs, List.mem_cons] at hq
      rcases hq with rfl | hq
      · exact iv.align_pos
      · exact ifs.apos q (by simpa [stdSAs] using hq)
    have hpf : padFrees (gcTarget p) (toRaws (.cons t (.cons u r))) = true := by
      show (padFree (gcTarget p) (toRaw t) && padFrees (gcTarget p) (toRaws (.cons u r))) = true
      rw [it.pf, ifs.pf]; rfl
    refine ⟨hpf, ?_, ?_, ?_, ?_, ?_, hapos, ?_⟩
    · intro o E hE _
      have haE : (stdSA (gcTarget p) t).2 ∣ E := Nat.dvd_trans iv.align_dvd_ptr hE
      have := ifs.last (alignUp o (stdSA (gcTarget p) t).2 + (stdSA (gcTarget p) t).1) (E + extra (gcTarget p) t)
        ((Nat.dvd_add_right hE).2 iv.ptr_dvd_extra) (by simp)
      simp only [toRaws, stdSAs] at this ⊢
      rw [lastOS_cons_cons, lastOS_cons_cons]
      simp only [it.size, it.align, alignUp_add_of_dvd iv.align_pos haE]
      rw [show alignUp o (stdSA (gcTarget p) t).2 + E + ((stdSA (gcTarget p) t).1 + extra (gcTarget p) t)
            = alignUp o (stdSA (gcTarget p) t).2 + (stdSA (gcTarget p) t).1 + (E + extra (gcTarget p) t) by omega, this]
      simp only [extrasInit, extraLast, Prod.mk.injEq]
      constructor
      · omega
      · trivial
    · have := ifs.maxa
      show maxAlignOf (stdSA (gcTarget p) (toRaw t) :: stdSAs (gcTarget p) (toRaws (.cons u r)))
        = maxAlignOf (stdSA (gcTarget p) t :: stdSAs (gcTarget p) (.cons u r))
      rw [maxAlignOf_cons, maxAlignOf_cons, it.align, this]
    · intro o hx
      simp only [extrasInit] at hx
      simp only [stdSAs]
      rw [lastOS_cons_cons]
      have hmono := le_lastOS (stdSAs (gcTarget p) (.cons u r)) (alignUp o (stdSA (gcTarget p) t).2 + (stdSA (gcTarget p) t).1) ifs.apos
      simp only [stdSAs] at hmono
      by_cases hxt : 0 < extra (gcTarget p) t
      · have := it.pos hxt
        omega
      · have := ifs.initpos (alignUp o (stdSA (gcTarget p) t).2 + (stdSA (gcTarget p) t).1) (by omega)
        simpa [stdSAs] using this
    · intro o E hE
      have haE : (stdSA (gcTarget p) t).2 ∣ E := Nat.dvd_trans iv.align_dvd_ptr hE
      have := ifs.endo (alignUp o (stdSA (gcTarget p) t).2 + (stdSA (gcTarget p) t).1) (E + extra (gcTarget p) t)
        ((Nat.dvd_add_right hE).2 iv.ptr_dvd_extra)
      simp only [toRaws, stdSAs] at this ⊢
      simp only [endOff, it.size, it.align, alignUp_add_of_dvd iv.align_pos haE]
      rw [show alignUp o (stdSA (gcTarget p) t).2 + E + ((stdSA (gcTarget p) t).1 + extra (gcTarget p) t)
            = alignUp o (stdSA (gcTarget p) t).2 + (stdSA (gcTarget p) t).1 + (E + extra (gcTarget p) t) by omega]
      simp only [endOff] at this
      rw [this]
      simp only [extras]; omega
    · intro o hx
      simp only [extras] at hx
      have hmono := le_endOff (stdSAs (gcTarget p) (.cons u r)) (alignUp o (stdSA (gcTarget p) t).2 + (stdSA (gcTarget p) t).1) ifs.apos
      simp only [stdSAs, endOff] at hmono ⊢
      by_cases hxt : 0 < extra (gcTarget p) t
      · have := it.pos hxt
        omega
      · have := ifs.endpos (alignUp o (stdSA (gcTarget p) t).2 + (stdSA (gcTarget p) t).1) (by simp only [extras]; omega)
        simpa [stdSAs, endOff] using this
    · simp only [extrasInit]
      exact (Nat.dvd_add_right iv.ptr_dvd_extra).2 ifs.initdvd
end

theorem padFree_toRaw (p : Nat) (hp : p = 4 ∨ p = 8) (t : GoType) (h : padFree (gcTarget p) t = true) :
    padFree (gcTarget p) (toRaw t) = true := (rinv p hp t h).pf


/-! ## per-instance `unsafe.Offsetof` -/

theorem chainOffset_eq_spec : ∀ (ps : List Step) (sel : Nat), chainOffset sel ps = specOffset sel ps
  | [], sel => by simp [chainOffset, specOffset]
  | p :: ps, sel => by
    unfold chainOffset specOffset
    cases hpe : p.explicit
    · have ih := chainOffset_eq_spec ps (sel + p.off)
      simp only [Bool.false_eq_true, if_false, List.takeWhile_cons, hpe, Bool.not_false, if_true, List.map_cons,
        List.foldl_cons, Nat.zero_add]
      rw [ih]; unfold specOffset
      have : ∀ (l : List Nat) (a : Nat), List.foldl (· + ·) a l = a + List.foldl (· + ·) 0 l := by
        intro l
        induction l with
        | nil => intro a; simp
        | cons x r ihl => intro a; simp only [List.foldl_cons, Nat.zero_add]; rw [ihl (a + x), ihl x]; omega
      rw [this _ p.off]; omega
    · simp [hpe]

/-! ## natural C layout -/

theorem wfC_basic {tg : Target} {cmax : Nat} (h : wfC tg cmax = true) (b : Basic) (hb : b ≠ .string) :
    llBasic tg b = cBasic tg cmax b ∧ 0 < (cBasic tg cmax b).2 := by
  simp only [wfC, Bool.and_eq_true, decide_eq_true_eq] at h
  obtain ⟨⟨hc, hp⟩, hall⟩ := h
  have := List.all_eq_true.1 hall b (by cases b <;> simp [Basic.all])
  simp only [Bool.or_eq_true, beq_iff_eq] at this
  rcases this with h1 | h1
  · exact absurd h1 hb
  · refine ⟨h1.symm, ?_⟩
    cases b <;> simp [cBasic] <;> omega

mutual
theorem c_inv {tg : Target} {cmax : Nat} (h : wfC tg cmax = true) : ∀ t, isC t = true →
    llSA tg (toRaw t) = cSA tg cmax t ∧ 0 < (cSA tg cmax t).2
  | .basic b, hc => by
    have hb : b ≠ .string := by simpa [isC] using hc
    simpa [toRaw, llSA, cSA] using wfC_basic h b hb
  | .pointer e, _ => by
    have := wfC_basic h .unsafePointer (by decide)
    simpa [toRaw, llSA, cSA, llBasic, cBasic] using this
  | .array n e, hc => by
    have hc' : 0 < n ∧ isC e = true := by simpa [isC] using hc
    have ih := c_inv h e hc'.2
    simp only [toRaw, llSA, cSA, ih.1]
    exact ⟨trivial, ih.2⟩
  | .named t, hc => by
    have ih := c_inv h t (by simpa [isC] using hc)
    simpa [toRaw, llSA, cSA] using ih
  | .alias t, hc => by
    have ih := c_inv h t (by simpa [isC] using hc)
    simpa [toRaw, cSA] using ih
  | .struct fs, hc => by
    have hc' : isCs fs = true := by
      simp only [isC, Bool.and_eq_true] at hc; exact hc.2
    have ih := c_invF h fs hc'
    simp only [toRaw, llSA, cSA, llStruct, ih.1]
    have hA := maxAlignOf_pos (cSAs tg cmax fs)
    refine ⟨?_, hA⟩
    rw [pad_eq_alignUp _ hA, cEnd_eq_endOff _ _ ih.2]
  | .slice _, hc => by simp [isC] at hc
  | .map _ _, hc => by simp [isC] at hc
  | .chan _, hc => by simp [isC] at hc
  | .func, hc => by simp [isC] at hc
  | .closure, hc => by simp [isC] at hc
  | .iface _, hc => by simp [isC] at hc
theorem c_invF {tg : Target} {cmax : Nat} (h : wfC tg cmax = true) : ∀ fs, isCs fs = true →
    llSAs tg (toRaws fs) = cSAs tg cmax fs ∧ ∀ p ∈ cSAs tg cmax fs, 0 < p.2
  | .nil, _ => by simp [toRaws, llSAs, cSAs]
  | .cons t fs, hc => by
    have hc' : isC t = true ∧ isCs fs = true := by simpa [isCs] using hc
    have it := c_inv h t hc'.1
    have ifs := c_invF h fs hc'.2
    refine ⟨by simp only [toRaws, llSAs, cSAs, it.1, ifs.1], ?_⟩
    intro p hp
    simp only [cSAs, List.mem_cons] at hp
    rcases hp with rfl | hp
    · exact it.2
    · exact ifs.2 p hp
end

theorem c_offsets {tg : Target} {cmax : Nat} (h : wfC tg cmax = true) : ∀ t, isC t = true →
    (if isStruct t then llOffsets tg (toRaw t) else []) =
      cOffsets tg cmax t
  | .named t, hc => by
    have ih := c_offsets h t (by simpa [isC] using hc)
    show (if isStruct t then llOffsets tg (toRaw t) else []) = cOffsets tg cmax t
    exact ih
  | .alias t, hc => by
    have ih := c_offsets h t (by simpa [isC] using hc)
    show (if isStruct t then llOffsets tg (toRaw t) else []) = cOffsets tg cmax t
    exact ih
  | .struct fs, hc => by
    have hc' : isCs fs = true := by
      simp only [isC, Bool.and_eq_true] at hc; exact hc.2
    have ih := c_invF h fs hc'
    simp [isStruct, under, llOffsets, toRaw, cOffsets, ih.1, cPlace_eq_offsLoop _ _ ih.2]
  | .basic _, _ => by simp [isStruct, under, cOffsets]
  | .pointer _, _ => by simp [isStruct, under, cOffsets]
  | .array _ _, _ => by simp [isStruct, under, cOffsets]
  | .slice _, hc => by simp [isC] at hc
  | .map _ _, hc => by simp [isC] at hc
  | .chan _, hc => by simp [isC] at hc
  | .func, hc => by simp [isC] at hc
  | .closure, hc => by simp [isC] at hc
  | .iface _, hc => by simp [isC] at hc

theorem ll_eq_c {tg : Target} {cmax : Nat} (h : wfC tg cmax = true) (t : GoType) (hc : isC t = true) :
    llvmLayout tg t = cLayout tg cmax t := by
  unfold llvmLayout cLayout
  rw [(c_inv h t hc).1, c_offsets h t hc]


end LlgoVerif.Layout
