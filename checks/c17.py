"""C17 — command lines, flags and directives are split and re-assembled without loss.

Lean: LlgoVerif/Model/Shell.lean, Props/C17.lean.  Tie: hand-written model + correspondence on the
real `shellparse.Parse`, `safesplit.SplitPkgConfigFlags`, `buildtags.parseBuildTags`,
`env.ExpandEnvWithDefault` (harness/c17, built against /repo's working tree)."""
import itertools

from vlib.common import *

WS = set(chr(c) for c in [0x20, 9, 10, 11, 12, 13, 0x85, 0xA0, 0x1680, 0x2028, 0x2029, 0x202F, 0x205F, 0x3000] + list(range(0x2000, 0x200B)))
# several of these have 0x85 / 0xA0 bytes in their UTF-8 encoding (white space when bytes are read as Latin-1)
PLAIN_ALPHA = ["a", "b", "/", "-", "\\", "$", "{", "=", ",", "\u00e0", "\u00c5", "\u4f60", "\u597d", "\u2026", "\u20ac", "\u00e9", "\u0105", "\u0160", "\U0001f600", "\u0100"]
ALPHA = [" ", "\t", '"', "'", "\\", "-", "$", "{", "}", "a", "b", "I", "L", "\u00e9", "\u4e16", "\u00a0", "\u3000", "\n", ",", "="]


def rstr(rng, maxlen, alpha=ALPHA):
    n = rng.choice([0, 1, 1, 2, 3, 4, 6, maxlen])
    return "".join(rng.choice(alpha) for _ in range(rng.randint(0, n)))


def quote(args):
    return " ".join('"' + a.replace("\\", "\\\\").replace('"', '\\"') + '"' for a in args)


def squote(args):
    return " ".join("'" + a + "'" for a in args)


def esc_blank(s):
    return s.replace(" ", "\\ ").replace("\t", "\\\t")


def flag_wf(f):
    """the decidable well-formedness predicate of theorem split_join (Props/C17.lean)"""
    c, content = f[1], f[2:]
    if content.startswith("-"):
        return False
    if content.endswith("\\"):
        return False
    if f[-1] in WS:
        return False
    return True


def classify_split_failure(flags):
    """which documented limitation explains a failed safesplit round trip (else None)"""
    for f in flags:
        content = f[2:]
        if content.endswith("\\"):
            return "safesplit:flag-ending-in-backslash"
    for f in flags:
        if f[-1] in WS:
            return "safesplit:flag-ending-in-whitespace"
    for f in flags:
        if f[2:].startswith("-"):
            return "safesplit:content-starting-with-dash"
    return None


def decode_out(line):
    """'ok H H' -> list of byte strings ; 'err' -> None"""
    if line == "err":
        return None
    if not line.startswith("ok"):
        return line
    rest = line[2:].strip()
    if rest == ".":
        return []
    return [unhexs(h) for h in rest.split(" ")]


def gotool_eval(ctx, flags, exprs, si):
    """the go tool's own verdict: one file per expression carrying `// +build <expr>`, listed with `go list -tags`.
    -> string of 0/1 in the order of exprs.  The -tags VALUE handed to the go tool is the comma-joined list of tags an
    independent reading of the flags yields (`-tags v` and `-tags=v`, values split at commas and blanks)."""
    tags = []
    i = 0
    while i < len(flags):
        f = flags[i]
        if f == "-tags" and i + 1 < len(flags):
            tags += [t for t in flags[i + 1].replace(" ", ",").split(",") if t]
            i += 2
            continue
        if f.startswith("-tags="):
            tags += [t for t in f[6:].replace(" ", ",").split(",") if t]
        i += 1
    d = os.path.join(ctx.scratch, "gotool%d" % si)
    os.makedirs(d, exist_ok=True)
    with open(os.path.join(d, "go.mod"), "w") as f:
        f.write("module check\n\ngo 1.24\n")
    with open(os.path.join(d, "zz_always.go"), "w") as f:
        f.write("package check\n")
    for j, e in enumerate(exprs):
        with open(os.path.join(d, "f%03d.go" % j), "w") as f:
            f.write("// +build %s\n\npackage check\n" % e)
    cmd = ["go", "list", "-f", "{{range .GoFiles}}{{.}} {{end}}"] + (["-tags", ",".join(tags)] if tags else []) + ["."]
    p = run_cmd_c17(cmd, d)
    if p.returncode != 0:
        raise RuntimeError("go list (oracle for build constraints) failed:\n" + (p.stdout + p.stderr)[-1500:])
    listed = set(p.stdout.split())
    return "".join("1" if ("f%03d.go" % j) in listed else "0" for j in range(len(exprs)))


def run_cmd_c17(cmd, cwd):
    from vlib.common import run as _run
    env = go_env()
    env["CGO_ENABLED"] = "1"
    return _run(cmd, cwd=cwd, env=env, timeout=600)


def run(ctx, args):
    n = 4000 if ctx.tier == "quick" else 60000   # every 20th case spawns the stand-in pkg-config several times: keep the thorough tier within minutes on a busy machine
    rng = ctx.rng
    st = lean_check(ctx, ["LlgoVerif.Props.C17"], ["LlgoVerif/Props/C17.lean"],
                    extra_files=["LlgoVerif/Model/Shell.lean", "LlgoVerif/Lemmas/Shell.lean", "LlgoVerif/Model/Utf8.lean"],
                    leanchecker=(ctx.tier == "thorough"))
    modeld = build_driver(ctx, "modeld_c17")
    harness = build_go_harness(ctx, "c17", overlay={"internal/buildtags/zz_verif_export.go": "overlay/zz_buildtags_export.go.txt"})

    # stand-in pkg-config / llvm-config (the sub-command is a parameter of the model: Driver/C17.lean `fakeConfig`)
    bindir = os.path.join(ctx.scratch, "fakebin")
    os.makedirs(bindir, exist_ok=True)
    script = """#!/bin/sh
for a in "$@"; do [ "$a" = "--fail" ] && exit 1; done
for a in "$@"; do [ "$a" = "--nl" ] && { printf -- '-La\\n-lb\\n'; exit 0; }; done
out="-DARGS="; first=1
for a in "$@"; do if [ $first = 1 ]; then out="$out$a"; first=0; else out="$out,$a"; fi; done
printf '%s\\n' "$out"
"""
    for nm in ("pkg-config", "llvm-config"):
        with open(os.path.join(bindir, nm), "w") as f:
            f.write(script)
        os.chmod(os.path.join(bindir, nm), 0o755)
    henv = dict(os.environ)
    henv["PATH"] = bindir + os.pathsep + henv["PATH"]

    cases = []   # (kind, line, expected or None, meta)
    # corpus first
    corpus = [
        ("parse-rt", ["a b", 'c"d\\', "", "é'x"]),
        ("parse-rt", ["\\", '"', "\\\\\"", " "]),
        ("split-rt", ["-Ia", "-Lb c", "-D x"]),
        ("split-rt", ["-Ia\\", "-Ib"]),
        ("split-rt", ["-Ia "]),
        ("split-rt", ["-I-foo"]),
    ]
    for kind, a in corpus:
        if kind == "parse-rt":
            cases.append(("parse-rt", "parse " + hexs(quote(a)), [x.encode() for x in a], a))
        else:
            cases.append(("split-rt", "split " + hexs(" ".join(f[:2] + esc_blank(f[2:]) for f in a)), [x.encode() for x in a], a))
    # templates with an expectation computed here (independent of the Lean model): every `{name}` whose name is a known
    # key contributes exactly its value, `{}` the default, anything else - unknown names, lone or doubled braces - stays
    import re as _re
    for _ in range(80 if ctx.tier == "quick" else 800):
        kvw = {"root": rng.choice(["/usr", "/o p"]), "port": rng.choice(["8080", "/dev/ttyUSB0"]), "hex": "a.hex"}
        dflt = rng.choice(["D", "/dev/tty0"])
        pieces = [rng.choice(["{root}", "{port}", "{hex}", "{}", "{nope}", "{", "}", "{{", "}}", "x", " ", "-D", "\"", ":", "program ", "é"]) for _ in range(rng.randint(1, 8))]
        t = "".join(pieces)
        expw = _re.sub(r"\{([^{}]*)\}", lambda m: dflt if m.group(1) == "" else kvw.get(m.group(1), m.group(0)), t)
        cases.append(("expand-wf", (t, dflt, kvw), expw, (t, dflt, kvw)))
    # compiler / linker argument vectors: clang.Cmd.Compile / Link with a program that prints its argv
    pa = os.path.join(bindir, "printargs")
    with open(pa, "w") as f:
        f.write("#!/bin/sh\nfor a in \"$@\"; do printf '%s\\0' \"$a\"; done\n")
    os.chmod(pa, 0o755)
    flagpool = ["-O2", "-Wall", "-fPIC", "-Xlinker", "--icf=safe", "--gc-sections", "-Xclang", "-lm", "-lfoo", "-Ia", "-I", "a b", "-DX=1", "-Wl,-z,now", "-L/o p", "é", "-"]
    for _ in range(60 if ctx.tier == "quick" else 600):
        def envval():
            if rng.random() < 0.35:
                return ""
            fl = [rng.choice(["-O2", "-Wall", "-fPIC", "-Xlinker --no-undefined", "-Xclang -foo", "-lm", "-Ia", "-DX=1", "-Wl,-z,now", "-Xlinker", "-g"]) for _ in range(rng.randint(1, 4))]
            return rng.choice([" ", "  ", " "]).join(fl)
        e1, e2, e3 = envval(), envval(), envval()
        lists = [[rng.choice(flagpool) for _ in range(rng.randint(0, 5))] for _ in range(4)]
        if rng.random() < 0.5:      # config repeats what the environment says (order- and multiplicity-significant tokens)
            toks = (e1 + " " + e3).split()
            if toks:
                lists[2] += [rng.choice(toks), "-Xlinker", "--gc-sections", rng.choice(toks)]
                lists[0] += [rng.choice(toks)]
        enc = lambda l: ",".join(hexs(x) for x in l) if l else "."
        line = "cc %s %s %s %s %s %s %s %s" % (hexs(pa), hexs(e1), hexs(e2), hexs(e3), enc(lists[0]), enc(lists[1]), enc(lists[2]), enc(lists[3]))
        exp_c = e1.split() + e2.split() + lists[0] + lists[1] + lists[3]
        exp_l = e1.split() + e3.split() + lists[2] + lists[3]
        cases.append(("cc", line, (exp_c, exp_l), (e1, e2, e3, lists)))
    # build-constraint expressions: CheckTags(flags, exprs) vs (1) the Lean model and (2) the go tool itself
    # (`go list -tags ...` over files carrying the same `// +build` lines)
    n_sets = 6 if ctx.tier == "quick" else 40
    for si in range(n_sets):
        tagset = rng.sample(["a", "b", "c", "x", "ignore", "linux", "windows", "t_1", "v1.2"], rng.randint(0, 4))
        r = rng.random()
        if not tagset:
            fl = rng.choice([[], ["-v"], ["-tags="]])
        elif r < 0.4:
            fl = ["-tags", rng.choice([",", " "]).join(tagset)]
        elif r < 0.8:
            fl = ["-tags=" + ",".join(tagset)]
        else:
            half = len(tagset) // 2
            fl = ["-tags=" + ",".join(tagset[:half]), "-x", "-tags", " ".join(tagset[half:]), "-tags=" + tagset[0]]
        exprs = ["a", "!a", "a,b", "a b", "!a,!b", "!!a", "!", "", "linux", "!linux", "linux,gc", "windows a", "ignore", "!ignore", "$", "!$", "a,,b", "a,", ",", "t_1", "v1.2,!x", "unix", "!unix", "unix,linux", "amd64", "!amd64 a", "gc,unix", "gccgo", "!gccgo", "arm64", "darwin unix"]
        alpha = ["a", "b", "c", "x", "linux", "windows", "gc", "ignore", "unix", "amd64", "darwin", "!", "!", ",", ",", " ", "  ", "\t", "$", "t_1", "v1.2", "-"]
        while len(exprs) < (40 if ctx.tier == "quick" else 120):
            exprs.append("".join(rng.choice(alpha) for _ in range(rng.randint(1, 7))))
        exprs = list(dict.fromkeys(e.strip(" \t") if rng.random() < 0.5 else e for e in exprs))
        exprs = list(dict.fromkeys(exprs))
        line = "check %s %s" % (",".join(hexs(x) for x in fl) if fl else ".", ",".join(hexs(e) for e in exprs))
        cases.append(("check", line, gotool_eval(ctx, fl, exprs, si), (fl, exprs)))
    for i in range(n):
        k = i % 10
        if k == 0 and i % 20 == 0:      # unquoted words (theorem parse_plain): no white space, no quote characters, anything else
            a = []
            for _ in range(rng.randint(0, 5)):
                w = rstr(rng, 8, alpha=PLAIN_ALPHA)
                a.append(w if w else rng.choice(PLAIN_ALPHA))
            cases.append(("parse-rt", "parse " + hexs(" ".join(a)), [x.encode() for x in a], a))
        elif k in (0, 1):      # documented double-quote form
            a = [rstr(rng, 12) for _ in range(rng.randint(0, 5))]
            cases.append(("parse-rt", "parse " + hexs(quote(a)), [x.encode() for x in a], a))
        elif k == 2:         # single-quote form
            a = [rstr(rng, 12).replace("'", "q") for _ in range(rng.randint(0, 5))]
            cases.append(("parse-rt", "parse " + hexs(squote(a)), [x.encode() for x in a], a))
        elif k == 3:         # arbitrary command lines (malformed stream)
            s = rstr(rng, 30)
            cases.append(("parse-any", "parse " + hexs(s), None, s))
        elif k == 4:         # arguments with invalid UTF-8 bytes, quoted in the documented form
            a = []
            for _ in range(rng.randint(1, 3)):
                b = rstr(rng, 6).encode()
                if rng.random() < 0.7:
                    pos = rng.randint(0, len(b))
                    b = b[:pos] + bytes([rng.choice([0xff, 0xc0, 0x80, 0xe2, 0xf5])]) + b[pos:]
                a.append(b)
            q = b" ".join(b'"' + x.replace(b"\\", b"\\\\").replace(b'"', b'\\"') + b'"' for x in a)
            cases.append(("parse-rt-bytes", "parse " + hexs(q), a, a))
        elif k in (5, 6):    # pkg-config flags, well formed or near the edge
            fl = []
            for _ in range(rng.randint(0, 5)):
                c = rng.choice(["I", "L", "l", "D", "-", "W", "x"])
                content = rstr(rng, 8, alpha=[" ", "\t", "\\", "-", "a", "b", "/", "é", " ", "=", '"', "'", '"', "$", "("])
                if rng.random() < 0.8:
                    content = content.lstrip("-").rstrip("\\ \t ")
                fl.append("-" + c + content)
            cases.append(("split-rt", "split " + hexs(" ".join(f[:2] + esc_blank(f[2:]) for f in fl)), [x.encode() for x in fl], fl))
        elif k == 7:         # arbitrary flag strings
            s = rstr(rng, 30, alpha=[" ", "\t", "\\", "-", "a", "I", "é", " "])
            cases.append(("split-any", "split " + hexs(s), None, s))
        elif k == 8:
            fl = []
            for _ in range(rng.randint(0, 5)):
                r = rng.random()
                tags = rstr(rng, 10, alpha=["a", "b", "c", ",", " ", "x", "!"])
                if r < 0.4:
                    fl += ["-tags", tags]
                elif r < 0.8:
                    fl.append("-tags=" + tags)
                else:
                    fl.append(rng.choice(["-tags", "-v", "-tagsx", "-tags=", ""]))
            if not fl:
                fl = ["-v"]
            cases.append(("tags", "tags " + ",".join(hexs(x) for x in fl), None, fl))
        elif k == 9 and i % 20 == 9:
            keys = rng.sample(["a", "b", "c", "port", ""], rng.randint(0, 3))
            kv = {k_: rstr(rng, 6, alpha=["x", "y", "{", "}", "a", "b", " "]) for k_ in keys}
            t = rstr(rng, 14, alpha=["{", "}", "a", "b", "c", "x", " ", "{a}", "{b}", "{}", "{port}"])
            d = rstr(rng, 4, alpha=["d", "{", "}", "a"])
            cases.append(("expand", (t, d, kv), None, (t, d, kv)))
        else:                # link directives: $VAR / ${VAR} / $(pkg-config ...) mixed with literals
            names = rng.sample(["A", "B", "PREFIX", "X_1", "a"], rng.randint(0, 3))
            kv = {n_: rstr(rng, 6, alpha=["x", "/", "-", "l", " ", "$", "L", "\u00e9"]) for n_ in names}
            pieces = []
            for _ in range(rng.randint(0, 5)):
                r = rng.random()
                if r < 0.25:
                    pieces.append(rstr(rng, 6, alpha=["-", "l", "L", "a", " ", "/", "\t", ")", "(", "{", "}", "\u00e9"]))
                elif r < 0.45:
                    pieces.append("$" + rng.choice(["A", "B", "PREFIX", "X_1", "a", "NOPE", "1", "*", ""]))
                elif r < 0.6:
                    pieces.append("${" + rng.choice(["A", "B", "PREFIX", "NOPE", "", "A B", "*"]) + rng.choice(["}", "}", "}", ""]))
                else:
                    sep = rng.choice([" ", " ", "  ", "\t", "\n", " \t "])
                    cmd = rng.choice(["pkg-config", "pkg-config", "llvm-config", "echo", "pkg-config2", ""])
                    args_ = [rng.choice(["--libs", "--cflags", "foo", "bar", "--nl", "--fail", "$A", "a=b"]) for _ in range(rng.randint(0, 3))]
                    inner = rng.choice(["", " ", "  "]) + sep.join([cmd] + args_) + rng.choice(["", " ", "\n"])
                    pieces.append("$(" + inner + rng.choice([")", ")", ")", ""]))
            t = rng.choice(["", " ", "\t"]).join(pieces)
            enc = ",".join(hexs(k_) + "=" + hexs(v) for k_, v in kv.items()) if kv else "."
            cases.append(("xenv", "xenv %s %s" % (hexs(t), enc), None, (t, kv)))
            # well-formed twin with an expectation computed here, independently of the Lean model:
            # literals, ${NAME}/$NAME references and $(pkg-config words) each contribute exactly their value
            # values may themselves look like references: os.Expand inserts them verbatim, never re-expands (theorem expandEnv_render)
            kv2 = {"A": rng.choice(["/opt/a", "x", "", "$PREFIX", "${X_1}", "a$", "$(arch)", "-L$(PREFIX)/lib"]), "PREFIX": rng.choice(["/usr", "/o p", "$A", "$(pkg-config --libs foo)"]), "X_1": "-lz"}
            txt, val, cfg = "", "", False
            for _ in range(rng.randint(1, 5)):
                r = rng.random()
                if r < 0.3:
                    lit = rng.choice(["-L", "-l", "/lib", " ", "-I", "\u00e9", "/", "-Wl,", "  "])
                    txt += lit
                    val += lit
                elif r < 0.6:
                    nme = rng.choice(["A", "PREFIX", "X_1", "UNDEFINED_VAR"])
                    if rng.random() < 0.5:
                        txt += "${" + nme + "}"
                    else:
                        txt += "$" + nme + "/"
                        val_suffix = "/"
                    val += kv2.get(nme, "")
                    if txt.endswith("/") and not txt.endswith("}"):
                        val += "/"
                else:
                    cmd = rng.choice(["pkg-config", "llvm-config"])
                    words = [rng.choice(["--libs", "--cflags", "foo", "bar", "a=b", "--nl"]) for _ in range(rng.randint(0, 3))]
                    seps = [rng.choice([" ", "  ", "\t", "\n", " \t"]) for _ in words]
                    txt += "$(" + rng.choice(["", " "]) + cmd + "".join(sp + w for sp, w in zip(seps, words)) + rng.choice(["", " "]) + ")" + " "
                    out = "-La -lb" if "--nl" in words else "-DARGS=" + ",".join(words)
                    val += out + " "
                    cfg = True
            exp_r = val.strip(" \t\n")
            exp_args = [] if exp_r == "" else (exp_r.split() if cfg else [exp_r])
            # the argument list is judged only where the flag syntax is unambiguous (no '-' inside a flag: see the
            # known finding safesplit:content-starting-with-dash); the expanded STRING is always judged
            ok_args = (not cfg) or all(a.startswith("-") and len(a) > 1 and "-" not in a[1:] for a in exp_args)
            enc2 = ",".join(hexs(k_) + "=" + hexs(v) for k_, v in kv2.items())
            cases.append(("xenv-wf", "xenv %s %s" % (hexs(txt), enc2), (exp_r, exp_args if ok_args else None), (txt, kv2)))

    # protocol lines; `expand` needs the model for every iteration order of the map
    lines_real, lines_model, index = [], [], []
    for ci, (kind, line, exp, meta) in enumerate(cases):
        if kind in ("expand", "expand-wf"):
            t, d, kv = line
            items = list(kv.items())
            enc = lambda its: ",".join(hexs(k) + "=" + hexs(v) for k, v in its) if its else "."
            lines_real.append("expand %s %s %s" % (hexs(t), hexs(d), enc(items)))
            perms = list(itertools.permutations(items))
            for pm in perms:
                lines_model.append("expand %s %s %s" % (hexs(t), hexs(d), enc(list(pm))))
            index.append(len(perms))
        else:
            lines_real.append(line)
            lines_model.append(line)
            index.append(1)
    real, rc, err = run_lines([harness], lines_real, env=henv, timeout=4 * 3600)
    model, rc2, err2 = run_lines([modeld], lines_model, timeout=4 * 3600)
    if len(real) != len(lines_real) or len(model) != len(lines_model):
        raise RuntimeError("driver/harness died: real %d/%d model %d/%d\n%s\n%s" % (len(real), len(lines_real), len(model), len(lines_model), err[-2000:], err2[-2000:]))

    stats = {}
    mismatches = []
    spec_fail = 0
    nontrivial = set()
    mi = 0
    for ci, (kind, line, exp, meta) in enumerate(cases):
        r = real[ci]
        ms = model[mi:mi + index[ci]]
        mi += index[ci]
        stats[kind] = stats.get(kind, 0) + 1
        if len(lines_real[ci]) > 12:
            nontrivial.add(lines_real[ci])
        # 1. correspondence
        agrees = r in ms
        if kind in ("parse-rt-bytes",):
            agrees = agrees   # the model decodes like []rune(s): also comparable
        if not agrees:
            mismatches.append((ci, kind, lines_real[ci], r, ms[0]))
        # 2. specification, judged on the real code's output
        # (arguments that are not valid UTF-8 are not "text": Parse replaces the bad bytes by U+FFFD, the
        #  model does the same, and the property does not quantify over them - correspondence only)
        if kind == "parse-rt":
            got = decode_out(r)
            if got != exp:
                spec_fail += 1
                key = "shellparse:roundtrip:" + lines_real[ci]
                ctx.report(key, "Parse(quote(args)) != args", {"args": [x.hex() for x in exp], "line": lines_real[ci], "real": r})
        elif kind == "split-rt":
            got = decode_out(r)
            if got != exp:
                spec_fail += 1
                cls = classify_split_failure(meta)
                key = cls if cls else "safesplit:roundtrip:" + lines_real[ci]
                ctx.report(key, "SplitPkgConfigFlags(join(esc flags)) != flags", {"flags": meta, "line": lines_real[ci], "real": r})
        elif kind == "xenv-wf":
            exp_r, exp_args = exp
            want = "ok " + hexs(exp_r) + " | "
            okr = r.startswith(want)
            if okr and exp_args is not None:
                okr = r == want + (" ".join(hexs(a) for a in exp_args) if exp_args else ".")
            if not okr:
                spec_fail += 1
                ctx.report("xenv:expansion:" + lines_real[ci], "ExpandEnv/ExpandEnvToArgs does not substitute exactly the referenced values",
                           {"template": meta[0], "env": meta[1], "expected": [exp_r, exp_args], "real": r, "line": lines_real[ci],
                            "note": "pkg-config/llvm-config are the stand-in scripts of checks/c17.py"})
        elif kind == "expand-wf":
            if r != "ok " + hexs(exp):
                spec_fail += 1
                ctx.report("envtemplate:expansion:" + lines_real[ci], "ExpandEnvWithDefault does not substitute exactly the referenced values",
                           {"template": meta[0], "default": meta[1], "env": meta[2], "expected": exp, "real": r, "line": lines_real[ci]})
        elif kind == "cc":
            exp_c, exp_l = exp
            want = "ok " + (" ".join(hexs(a) for a in exp_c) if exp_c else ".") + " | " + (" ".join(hexs(a) for a in exp_l) if exp_l else ".")
            if r != want:
                spec_fail += 1
                ctx.report("clang:argv:" + lines_real[ci], "clang.Cmd.Compile/Link do not hand the compiler exactly env flags ++ config flags ++ arguments (a flag was lost, reordered or de-duplicated)",
                           {"CCFLAGS": meta[0], "CFLAGS": meta[1], "LDFLAGS": meta[2], "config_CCFLAGS_CFLAGS_LDFLAGS_args": meta[3],
                            "expected_compile_argv": exp_c, "expected_link_argv": exp_l, "real": r, "line": lines_real[ci]})
        elif kind == "check":
            fl_, exprs_ = meta
            got = r[3:] if r.startswith("ok ") else r
            if got != exp:
                spec_fail += 1
                bad = [exprs_[j] for j in range(min(len(got), len(exp))) if got[j] != exp[j]] if len(got) == len(exp) else ["<answer malformed>"]
                ctx.report("buildtags:checktags:%s:%s" % (" ".join(fl_), bad[0] if bad else "?"),
                           "CheckTags(%r) disagrees with the go tool (`go list -tags`) on the +build expression(s) %r" % (fl_, bad[:5]),
                           {"flags": fl_, "expressions": exprs_, "real": got, "go_tool": exp, "line": lines_real[ci]})
        elif kind == "expand":
            if len(set(ms)) > 1:
                stats["expand-order-dependent"] = stats.get("expand-order-dependent", 0) + 1
    if mismatches:
        ctx.log("correspondence mismatches: %d, first: %s" % (len(mismatches), mismatches[0]))
        ctx.broken.append("correspondence real vs Lean model (%d lines differ), e.g. %s" % (len(mismatches), mismatches[0][2]))
        found = False
        # does any mismatching line violate the specification on the real side?  (spec checks above already reported rt cases)
        for (ci, kind, line, r, m) in mismatches:
            if kind == "parse-any":
                # spec facts that need no model: an odd number of unescaped quotes cannot parse
                pass
        if not ctx.violations:
            ctx.report_broken("correspondence C17 real-vs-model", {"first": mismatches[:5]})
    for name, s in st.items():
        if s != "ok":
            ctx.log("theorem", name, s)
    if any(s != "ok" for s in st.values()) and not ctx.violations:
        ctx.report_broken("Props/C17: " + ", ".join(n for n, s in st.items() if s != "ok"), st)

    ctx.coverage["samples"] = [lines_real[0], lines_real[len(lines_real) // 2], {"real": real[0], "model": model[0]}]
    ctx.coverage["trusted_base"] += [
        "hand-written Lean model of shellparse/safesplit/buildtags/env tied by differential run on %d generated lines (real Go code built from the working tree vs compiled Lean model)" % len(lines_real),
        "Python generator + quoting functions in checks/c17.py (quote = documented double-quote form)",
        "CheckTags: go/build's evaluation of an old-style `// +build` line is modelled (Model/Shell.lean evalPlusBuild) for blank/comma/!/malformed-term syntax over an ASCII tag alphabet on a linux/amd64 host; the oracle is the go tool itself (`go list -tags` over files carrying the same lines)",
    ]
    ctx.assumptions += ["safesplit is modelled over characters: valid UTF-8 inputs only"]
    return ctx.finish("proof", {"evaluations": len(lines_real), "distinct_nontrivial": len(nontrivial),
                               "rule": "one protocol line per case; non-trivial = encoded input longer than 12 chars; distinct by line text",
                               "input_distribution": stats, "spec_failures_on_real_code": spec_fail,
                               "correspondence_mismatches": len(mismatches)})
