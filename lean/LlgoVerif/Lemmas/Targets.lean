import LlgoVerif.Spec.Targets
/-!
# Lemmas for C18 (target resolution)

Field-wise laws of `mergeConfig`, its algebra (associative, empty configuration neutral), the fold over a lineage,
the refinement `load = specResolve`, fuel monotonicity, and the termination arguments (acyclicity test, visited path).
-/
namespace LlgoVerif.Targets

/-! ## field access -/

theorem SField.mem_all (f : SField) : f ∈ SField.all := by cases f <;> decide
theorem LField.mem_all (f : LField) : f ∈ LField.all := by cases f <;> decide

/-- two configurations with the same name, the same value of every string setting, the same flag and the same
    value of every list setting are equal (the accessors cover every field of the structure) -/
theorem Config.ext' {a b : Config} (hn : a.name = b.name) (hs : ∀ f, a.str f = b.str f)
    (hb : a.rp2040BootPatch = b.rp2040BootPatch) (hl : ∀ l, a.list l = b.list l) : a = b := by
  cases a; cases b
  simp only [Config.mk.injEq]
  simp only [Config.str, Config.list] at hs hl hn hb
  exact ⟨hn, hs .llvmTarget, hs .cpu, hs .features, hl .buildTags, hs .goos, hs .goarch, hs .libc, hs .rtLib, hs .linker, hs .linkerScript, hl .cFlags, hl .ldFlags, hl .extraFiles, hs .codeModel, hs .targetABI, hs .relocationModel, hs .binaryFormat, hs .uf2FamilyID, hs .flashMethod, hs .flashCommand, hs .flash1200BpsReset, hs .serial, hl .serialPort, hl .msdVolumeName, hs .msdFirmwareName, hb, hs .emulator, hl .gdb, hs .openOCDInterface, hs .openOCDTransport, hs .openOCDTarget⟩

@[simp] theorem build_name (n s b l) : (Config.build n s b l).name = n := rfl
@[simp] theorem build_str (n s b l) (f : SField) : (Config.build n s b l).str f = s f := by cases f <;> rfl
@[simp] theorem build_flag (n s b l) : (Config.build n s b l).rp2040BootPatch = b := rfl
@[simp] theorem build_list (n s b l) (f : LField) : (Config.build n s b l).list f = l f := by cases f <;> rfl

@[simp] theorem empty_str (n : String) (f : SField) : ({ name := n } : Config).str f = "" := by cases f <;> rfl
@[simp] theorem empty_list (n : String) (f : LField) : ({ name := n } : Config).list f = [] := by cases f <;> rfl
@[simp] theorem withName_str (c : Config) (n : String) (f : SField) : ({ c with name := n } : Config).str f = c.str f := by
  cases f <;> rfl
@[simp] theorem withName_list (c : Config) (n : String) (f : LField) : ({ c with name := n } : Config).list f = c.list f := by
  cases f <;> rfl

/-! ## `mergeConfig`, field by field -/

@[simp] theorem mergeConfig_name (d s : Config) : (mergeConfig d s).name = d.name := rfl

theorem mergeConfig_str (d s : Config) (f : SField) :
    (mergeConfig d s).str f = if s.str f ≠ "" then s.str f else d.str f := by cases f <;> rfl

theorem mergeConfig_flag (d s : Config) :
    (mergeConfig d s).rp2040BootPatch = (s.rp2040BootPatch || d.rp2040BootPatch) := by
  simp only [mergeConfig]; cases s.rp2040BootPatch <;> simp

theorem mergeConfig_list (d s : Config) (f : LField) : (mergeConfig d s).list f = d.list f ++ s.list f := by
  have h : ∀ (x y : List String), (if y.length > 0 then x ++ y else x) = x ++ y := by
    intro x y; cases y <;> simp
  cases f <;> simp only [mergeConfig, Config.list, h]

/-! ## algebra of `mergeConfig` -/

theorem mergeConfig_assoc (a b c : Config) :
    mergeConfig a (mergeConfig b c) = mergeConfig (mergeConfig a b) c := by
  apply Config.ext'
  · simp
  · intro f
    simp only [mergeConfig_str]
    by_cases hc : c.str f = "" <;> simp [hc]
  · simp only [mergeConfig_flag, Bool.or_assoc]
  · intro l; simp only [mergeConfig_list, List.append_assoc]

theorem mergeConfig_empty_right (a : Config) (n : String) : mergeConfig a { name := n } = a := by
  apply Config.ext'
  · simp
  · intro f; simp [mergeConfig_str]
  · simp [mergeConfig_flag]
  · intro l; simp [mergeConfig_list]

theorem mergeConfig_empty_left (n : String) (c : Config) : mergeConfig { name := n } c = { c with name := n } := by
  apply Config.ext'
  · simp
  · intro f; simp only [mergeConfig_str, empty_str, withName_str]; by_cases h : c.str f = "" <;> simp [h]
  · simp [mergeConfig_flag]
  · intro l; simp [mergeConfig_list]

/-! ## folding `mergeConfig` over a lineage -/

/-- merge the own settings of the descriptions `ds`, in order, on top of `acc` -/
def mergeAll (acc : Config) (ds : List (String × Config)) : Config :=
  ds.foldl (fun a d => mergeConfig a d.2) acc

@[simp] theorem mergeAll_nil (acc : Config) : mergeAll acc [] = acc := rfl
@[simp] theorem mergeAll_cons (acc : Config) (d ds) : mergeAll acc (d :: ds) = mergeAll (mergeConfig acc d.2) ds := rfl
theorem mergeAll_append (acc : Config) (ds es) : mergeAll acc (ds ++ es) = mergeAll (mergeAll acc ds) es := by
  simp [mergeAll, List.foldl_append]

theorem mergeAll_merge (acc e : Config) (ds : List (String × Config)) :
    mergeConfig acc (mergeAll e ds) = mergeAll (mergeConfig acc e) ds := by
  induction ds generalizing e with
  | nil => rfl
  | cons d ds ih => simp only [mergeAll_cons]; rw [ih, mergeConfig_assoc]

@[simp] theorem mergeAll_name (e : Config) (ds) : (mergeAll e ds).name = e.name := by
  induction ds generalizing e with
  | nil => rfl
  | cons d ds ih => simp [ih]

theorem mergeAll_str (e : Config) (ds : List (String × Config)) (f : SField) :
    (mergeAll e ds).str f =
      if lastSet (ds.map fun d => d.2.str f) ≠ "" then lastSet (ds.map fun d => d.2.str f) else e.str f := by
  induction ds generalizing e with
  | nil => simp [lastSet]
  | cons d ds ih =>
    simp only [mergeAll_cons, ih, List.map_cons, lastSet, mergeConfig_str]
    by_cases h : lastSet (ds.map fun d => d.2.str f) = "" <;> simp [h]

theorem mergeAll_flag (e : Config) (ds : List (String × Config)) :
    (mergeAll e ds).rp2040BootPatch = ((ds.any fun d => d.2.rp2040BootPatch) || e.rp2040BootPatch) := by
  induction ds generalizing e with
  | nil => simp
  | cons d ds ih =>
    simp only [mergeAll_cons, ih, mergeConfig_flag, List.any_cons]
    cases (ds.any fun d => d.2.rp2040BootPatch) <;> cases d.2.rp2040BootPatch <;> simp

theorem mergeAll_list (e : Config) (ds : List (String × Config)) (l : LField) :
    (mergeAll e ds).list l = e.list l ++ (ds.map fun d => d.2.list l).flatten := by
  induction ds generalizing e with
  | nil => simp
  | cons d ds ih => simp [ih, mergeConfig_list, List.append_assoc]

theorem specConfig_eq_mergeAll (n : String) (ds : List (String × Config)) :
    specConfig n ds = mergeAll { name := n } ds := by
  apply Config.ext'
  · simp [specConfig]
  · intro f
    simp only [specConfig, build_str, mergeAll_str, empty_str]
    by_cases h : lastSet (ds.map fun d => d.2.str f) = "" <;> simp [h]
  · simp [specConfig, mergeAll_flag]
  · intro l; simp [specConfig, mergeAll_list]

/-! ## `lastSet` -/

theorem lastSet_all_unset : ∀ (vs : List String), (∀ v ∈ vs, v = "") → lastSet vs = ""
  | [], _ => rfl
  | v :: vs, h => by
    have := lastSet_all_unset vs (fun x hx => h x (List.mem_cons_of_mem _ hx))
    simp [lastSet, this, h v (List.mem_cons_self)]

theorem lastSet_last (pre : List String) (v : String) (post : List String) (hv : v ≠ "")
    (hpost : ∀ x ∈ post, x = "") : lastSet (pre ++ v :: post) = v := by
  induction pre with
  | nil => simp [lastSet, lastSet_all_unset post hpost]
  | cons p pre ih => simp [lastSet, ih, hv]

/-! ## the loader refines the specification -/

theorem loadRaw_name {fs : FS} {name : String} {raw : RawConfig} (h : loadRaw fs name = .ok raw) :
    raw.config.name = name := by
  unfold loadRaw at h
  split at h <;> cases h <;> rfl

theorem mergeParents_eq (ld : String → Outcome Config) (ln : String → Outcome (List (String × Config)))
    (h : ∀ p, ld p = (ln p).map (specConfig p)) (ps : List String) (acc : Config) :
    mergeParents ld ps acc = (lineages ln ps).map (mergeAll acc) := by
  induction ps generalizing acc with
  | nil => rfl
  | cons p ps ih =>
    simp only [mergeParents, lineages, h p]
    cases hp : ln p with
    | ok d =>
      simp only [Outcome.map]
      rw [ih, specConfig_eq_mergeAll, mergeAll_merge, mergeConfig_empty_right]
      cases lineages ln ps <;> simp [Outcome.map, mergeAll_append]
    | error e => rfl
    | diverge => rfl

theorem load_eq_spec (fs : FS) (fuel : Nat) (name : String) : load fs fuel name = specResolve fs fuel name := by
  induction fuel generalizing name with
  | zero => rfl
  | succ fuel ih =>
    simp only [load, specResolve, lineage]
    cases hr : loadRaw fs name with
    | error e => rfl
    | ok raw =>
      have hn := loadRaw_name hr
      simp only
      by_cases hi : raw.inherits = []
      · simp [RawConfig.hasInheritance, hi, lineages, Outcome.map, specConfig_eq_mergeAll,
          mergeConfig_empty_left, ← hn]
      · have hlen : raw.inherits.length > 0 := List.length_pos_iff.mpr hi
        simp only [RawConfig.hasInheritance, hlen, decide_true, Bool.not_true, Bool.false_eq_true, ↓reduceIte]
        rw [mergeParents_eq (load fs fuel) (lineage fs fuel) (fun p => ih p)]
        cases lineages (lineage fs fuel) raw.inherits with
        | ok ds =>
          simp only [Outcome.map, hn]
          rw [specConfig_eq_mergeAll, mergeAll_append]; rfl
        | error e => rfl
        | diverge => rfl

/-! ## one level of the loader, as a function of the recursive call -/

/-- body of `Load` after the cycle test, with the recursive call abstracted -/
def loadStep (fs : FS) (ld : String → Outcome Config) (name : String) : Outcome Config :=
  match loadRaw fs name with
  | .error e => .error e
  | .ok raw =>
    if !raw.hasInheritance then .ok raw.config
    else
      match mergeParents ld raw.inherits { name := raw.config.name } with
      | .ok result => .ok (mergeConfig result raw.config)
      | .error e => .error e
      | .diverge => .diverge

theorem load_succ (fs : FS) (fuel : Nat) (name : String) :
    load fs (fuel + 1) name = loadStep fs (load fs fuel) name := rfl

theorem loadV_succ (fs : FS) (fuel : Nat) (path : List String) (name : String) :
    loadV fs (fuel + 1) path name =
      if name ∈ path then .error (.cycle name) else loadStep fs (loadV fs fuel (name :: path)) name := rfl

theorem mergeParents_congr (ld ld' : String → Outcome Config) (ps : List String) (acc : Config)
    (h : ∀ p ∈ ps, ld p = ld' p) : mergeParents ld ps acc = mergeParents ld' ps acc := by
  induction ps generalizing acc with
  | nil => rfl
  | cons p ps ih =>
    simp only [mergeParents, ← h p (List.mem_cons_self)]
    cases ld p with
    | ok c => exact ih _ (fun q hq => h q (List.mem_cons_of_mem _ hq))
    | error e => rfl
    | diverge => rfl

theorem mergeParents_mono (ld ld' : String → Outcome Config)
    (h : ∀ p r, ld p = r → r ≠ .diverge → ld' p = r) (ps : List String) (acc : Config) (r : Outcome Config)
    (hr : mergeParents ld ps acc = r) (hd : r ≠ .diverge) : mergeParents ld' ps acc = r := by
  induction ps generalizing acc with
  | nil => exact hr
  | cons p ps ih =>
    simp only [mergeParents] at hr ⊢
    cases hp : ld p with
    | ok c => rw [h p _ hp (by simp)]; rw [hp] at hr; exact ih _ hr
    | error e => rw [h p _ hp (by simp)]; rw [hp] at hr; exact hr
    | diverge => rw [hp] at hr; exact absurd hr.symm hd

theorem mergeParents_ne_diverge (ld : String → Outcome Config) (ps : List String) (acc : Config)
    (h : ∀ p ∈ ps, ld p ≠ .diverge) : mergeParents ld ps acc ≠ .diverge := by
  induction ps generalizing acc with
  | nil => simp [mergeParents]
  | cons p ps ih =>
    simp only [mergeParents]
    cases hp : ld p with
    | ok c => exact ih _ (fun q hq => h q (List.mem_cons_of_mem _ hq))
    | error e => simp
    | diverge => exact absurd hp (h p (List.mem_cons_self))

theorem mergeParents_ok_all (ld : String → Outcome Config) (ps : List String) (acc res : Config)
    (h : mergeParents ld ps acc = .ok res) : ∀ p ∈ ps, ∃ c, ld p = .ok c := by
  induction ps generalizing acc with
  | nil => intro p hp; cases hp
  | cons q ps ih =>
    simp only [mergeParents] at h
    cases hq : ld q with
    | ok c =>
      rw [hq] at h
      intro p hp
      cases hp with
      | head => exact ⟨c, hq⟩
      | tail _ hp => exact ih _ h p hp
    | error e => rw [hq] at h; cases h
    | diverge => rw [hq] at h; cases h

theorem loadStep_congr (fs : FS) (ld ld' : String → Outcome Config) (name : String)
    (h : ∀ raw, loadRaw fs name = .ok raw → ∀ p ∈ raw.inherits, ld p = ld' p) :
    loadStep fs ld name = loadStep fs ld' name := by
  unfold loadStep
  cases hr : loadRaw fs name with
  | error e => rfl
  | ok raw => simp only; rw [mergeParents_congr ld ld' _ _ (h raw hr)]

theorem loadStep_mono (fs : FS) (ld ld' : String → Outcome Config)
    (h : ∀ p r, ld p = r → r ≠ .diverge → ld' p = r) (name : String) (r : Outcome Config)
    (hr : loadStep fs ld name = r) (hd : r ≠ .diverge) : loadStep fs ld' name = r := by
  unfold loadStep at hr ⊢
  cases hraw : loadRaw fs name with
  | error e => rw [hraw] at hr; exact hr
  | ok raw =>
    rw [hraw] at hr
    simp only at hr ⊢
    split
    · rename_i hi; simp only [hi, ↓reduceIte] at hr; exact hr
    · rename_i hi
      simp only [hi, Bool.false_eq_true, ↓reduceIte] at hr
      cases hm : mergeParents ld raw.inherits { name := raw.config.name } with
      | ok res => rw [mergeParents_mono ld ld' h _ _ _ hm (by simp)]; rw [hm] at hr; exact hr
      | error e => rw [mergeParents_mono ld ld' h _ _ _ hm (by simp)]; rw [hm] at hr; exact hr
      | diverge => rw [hm] at hr; exact absurd hr.symm hd

theorem loadStep_ne_diverge (fs : FS) (ld : String → Outcome Config) (name : String)
    (h : ∀ raw, loadRaw fs name = .ok raw → ∀ p ∈ raw.inherits, ld p ≠ .diverge) :
    loadStep fs ld name ≠ .diverge := by
  unfold loadStep
  cases hr : loadRaw fs name with
  | error e => simp
  | ok raw =>
    simp only
    split
    · simp
    · have := mergeParents_ne_diverge ld raw.inherits { name := raw.config.name } (h raw hr)
      cases hm : mergeParents ld raw.inherits { name := raw.config.name } with
      | ok res => simp
      | error e => simp
      | diverge => exact absurd hm this

theorem loadStep_ok_parents (fs : FS) (ld : String → Outcome Config) (name : String) (cfg : Config)
    (h : loadStep fs ld name = .ok cfg) :
    ∃ raw, loadRaw fs name = .ok raw ∧ ∀ p ∈ raw.inherits, ∃ c, ld p = .ok c := by
  unfold loadStep at h
  cases hr : loadRaw fs name with
  | error e => rw [hr] at h; cases h
  | ok raw =>
    refine ⟨raw, rfl, ?_⟩
    rw [hr] at h
    simp only at h
    by_cases hi : raw.inherits = []
    · intro p hp; rw [hi] at hp; cases hp
    · have hlen : raw.inherits.length > 0 := List.length_pos_iff.mpr hi
      simp only [RawConfig.hasInheritance, hlen, decide_true, Bool.not_true, Bool.false_eq_true, ↓reduceIte] at h
      cases hm : mergeParents ld raw.inherits { name := raw.config.name } with
      | ok res => exact mergeParents_ok_all ld _ _ _ hm
      | error e => rw [hm] at h; cases h
      | diverge => rw [hm] at h; cases h

/-- the parent loop, seen from the parents' *resolved* configurations -/
theorem mergeParents_ok_fold (ld : String → Outcome Config) (ps : List String) (acc res : Config)
    (h : mergeParents ld ps acc = .ok res) :
    ∃ cs : List Config, ps.map ld = cs.map Outcome.ok ∧
      res = mergeAll acc (cs.map fun c => ("", c)) := by
  induction ps generalizing acc with
  | nil => simp only [mergeParents] at h; injection h with h; exact ⟨[], rfl, by simp [h]⟩
  | cons q ps ih =>
    simp only [mergeParents] at h
    cases hq : ld q with
    | ok c =>
      rw [hq] at h
      obtain ⟨cs, hcs, hres⟩ := ih _ h
      exact ⟨c :: cs, by simp [hq, hcs], by simp [hres]⟩
    | error e => rw [hq] at h; cases h
    | diverge => rw [hq] at h; cases h

theorem loadStep_ok_nearest (fs : FS) (ld : String → Outcome Config) (name : String) (cfg : Config)
    (h : loadStep fs ld name = .ok cfg) :
    ∃ (raw : RawConfig) (cs : List Config), loadRaw fs name = .ok raw ∧ raw.inherits.map ld = cs.map Outcome.ok ∧
      cfg = mergeAll { name := name } ((cs.map fun c => ("", c)) ++ [(name, raw.config)]) := by
  unfold loadStep at h
  cases hr : loadRaw fs name with
  | error e => rw [hr] at h; cases h
  | ok raw =>
    have hn := loadRaw_name hr
    rw [hr] at h
    simp only at h
    by_cases hi : raw.inherits = []
    · refine ⟨raw, [], rfl, by rw [hi]; rfl, ?_⟩
      simp only [RawConfig.hasInheritance, hi, List.length_nil, Nat.lt_irrefl, decide_false, Bool.not_false,
        ↓reduceIte] at h
      injection h with h
      simp [mergeConfig_empty_left, ← h, ← hn]
    · have hlen : raw.inherits.length > 0 := List.length_pos_iff.mpr hi
      simp only [RawConfig.hasInheritance, hlen, decide_true, Bool.not_true, Bool.false_eq_true, ↓reduceIte] at h
      cases hm : mergeParents ld raw.inherits { name := raw.config.name } with
      | ok res =>
        rw [hm] at h
        injection h with h
        obtain ⟨cs, hcs, hres⟩ := mergeParents_ok_fold ld _ _ _ hm
        refine ⟨raw, cs, rfl, hcs, ?_⟩
        rw [mergeAll_append, ← hn, ← hres, ← h]; rfl
      | error e => rw [hm] at h; cases h
      | diverge => rw [hm] at h; cases h

/-! ## fuel monotonicity -/

theorem load_mono_succ (fs : FS) (fuel : Nat) (name : String) (r : Outcome Config)
    (h : load fs fuel name = r) (hd : r ≠ .diverge) : load fs (fuel + 1) name = r := by
  induction fuel generalizing name r with
  | zero => exact absurd h.symm hd
  | succ fuel ih =>
    rw [load_succ] at h ⊢
    exact loadStep_mono fs (load fs fuel) (load fs (fuel + 1)) (fun p r hp hr => ih p r hp hr) name r h hd

theorem load_mono (fs : FS) (fuel fuel' : Nat) (name : String) (r : Outcome Config)
    (h : load fs fuel name = r) (hd : r ≠ .diverge) (hle : fuel ≤ fuel') : load fs fuel' name = r := by
  induction hle with
  | refl => exact h
  | step _ ih => exact load_mono_succ fs _ name r ih hd

/-! ## the directory is used only through `lookup` -/

theorem loadRaw_congr (fs fs' : FS) (h : ∀ n, fs.lookup n = fs'.lookup n) (name : String) :
    loadRaw fs name = loadRaw fs' name := by
  unfold loadRaw; rw [h name]

theorem load_congr_fs (fs fs' : FS) (h : ∀ n, fs.lookup n = fs'.lookup n) (fuel : Nat) (name : String) :
    load fs fuel name = load fs' fuel name := by
  induction fuel generalizing name with
  | zero => rfl
  | succ fuel ih =>
    simp only [load_succ, loadStep, loadRaw_congr fs fs' h]
    have : load fs fuel = load fs' fuel := funext ih
    rw [this]

theorem lookup_cons' (n : String) (x : String × Entry) (l : FS) :
    List.lookup n (x :: l) = if n = x.1 then some x.2 else List.lookup n l := by
  obtain ⟨k, v⟩ := x
  by_cases h : n = k
  · subst h; simp [List.lookup]
  · have : (n == k) = false := by simpa using h
    simp [List.lookup, this, h]

/-- reordering the directory listing does not change what a name denotes (file names are unique) -/
theorem lookup_perm {fs fs' : FS} (hp : fs.Perm fs') (hnd : (fs.map Prod.fst).Nodup) (n : String) :
    fs.lookup n = fs'.lookup n := by
  induction hp with
  | nil => rfl
  | cons x _ ih =>
    simp only [List.map_cons, List.nodup_cons] at hnd
    simp only [lookup_cons', ih hnd.2]
  | swap x y l =>
    simp only [List.map_cons, List.nodup_cons, List.mem_cons, not_or] at hnd
    simp only [lookup_cons']
    have h3 : ¬ y.1 = x.1 := hnd.1.1
    by_cases h1 : n = x.1
    · have h2 : ¬ n = y.1 := fun h2 => h3 (h2.symm.trans h1)
      simp only [if_pos h1, if_neg h2]
    · by_cases h2 : n = y.1
      · simp only [if_neg h1, if_pos h2]
      · simp only [if_neg h1, if_neg h2]
  | trans h₁ _ ih₁ ih₂ =>
    rw [ih₁ hnd]
    exact ih₂ ((h₁.map Prod.fst).nodup_iff.mp hnd)

theorem lookup_some_mem {fs : FS} {n : String} {v : Entry} (h : fs.lookup n = some v) : (n, v) ∈ fs := by
  induction fs with
  | nil => simp at h
  | cons x fs ih =>
    rw [lookup_cons'] at h
    by_cases hx : n = x.1
    · rw [if_pos hx] at h
      injection h with h
      subst h; subst hx; exact List.mem_cons_self
    · rw [if_neg hx] at h
      exact List.mem_cons_of_mem _ (ih h)

theorem loadRaw_ok_mem {fs : FS} {n : String} {raw : RawConfig} (h : loadRaw fs n = .ok raw) :
    ∃ raw0, (n, Entry.good raw0) ∈ fs ∧ raw.inherits = raw0.inherits := by
  unfold loadRaw at h
  split at h
  · cases h
  · cases h
  · rename_i raw0 hl
    cases h
    exact ⟨raw0, lookup_some_mem hl, rfl⟩

theorem loadRaw_ok_key {fs : FS} {n : String} {raw : RawConfig} (h : loadRaw fs n = .ok raw) :
    n ∈ fs.map Prod.fst := by
  obtain ⟨raw0, hm, _⟩ := loadRaw_ok_mem h
  exact List.mem_map.mpr ⟨_, hm, rfl⟩

/-! ## termination: the acyclicity test, ranks, the visited path -/

/-- pigeonhole: a duplicate-free list whose elements all occur in `m` is no longer than `m` -/
theorem length_le_of_nodup_subset : ∀ (l m : List String), l.Nodup → (∀ x ∈ l, x ∈ m) → l.length ≤ m.length
  | [], _, _, _ => Nat.zero_le _
  | a :: l, m, hnd, hs => by
    simp only [List.nodup_cons] at hnd
    have ham : a ∈ m := hs a List.mem_cons_self
    have hsub : ∀ x ∈ l, x ∈ m.erase a := fun x hx =>
      (List.mem_erase_of_ne (fun h => hnd.1 (by rw [← h]; exact hx))).mpr (hs x (List.mem_cons_of_mem _ hx))
    have ih := length_le_of_nodup_subset l (m.erase a) hnd.2 hsub
    rw [List.length_erase_of_mem ham] at ih
    have : 0 < m.length := List.length_pos_of_mem ham
    simp only [List.length_cons]; omega

theorem path_short (fs : FS) (path : List String) (hnd : path.Nodup) (hk : ∀ q ∈ path, q ∈ fs.map Prod.fst) :
    path.length ≤ fs.length := by
  have := length_le_of_nodup_subset path (fs.map Prod.fst) hnd hk
  simpa using this

theorem acyclicFrom_load (fs : FS) (fuel : Nat) (path : List String) (name : String)
    (h : acyclicFrom fs fuel path name = true) : load fs fuel name ≠ .diverge := by
  induction fuel generalizing path name with
  | zero => simp [acyclicFrom] at h
  | succ fuel ih =>
    rw [load_succ]
    apply loadStep_ne_diverge
    intro raw hr p hp
    unfold acyclicFrom at h
    split at h
    · cases h
    · rw [hr] at h
      exact ih (name :: path) p (List.all_eq_true.mp h p hp)

theorem loadV_eq_load (fs : FS) (fuel : Nat) (path : List String) (name : String)
    (h : acyclicFrom fs fuel path name = true) : loadV fs fuel path name = load fs fuel name := by
  induction fuel generalizing path name with
  | zero => rfl
  | succ fuel ih =>
    unfold acyclicFrom at h
    split at h
    · cases h
    · rename_i hnp
      rw [loadV_succ, load_succ, if_neg hnp]
      apply loadStep_congr
      intro raw hr p hp
      rw [hr] at h
      exact ih (name :: path) p (List.all_eq_true.mp h p hp)

theorem loadV_ne_diverge (fs : FS) (fuel : Nat) (path : List String) (name : String)
    (hnd : path.Nodup) (hk : ∀ q ∈ path, q ∈ fs.map Prod.fst) (hf : fs.length < fuel + path.length) :
    loadV fs fuel path name ≠ .diverge := by
  induction fuel generalizing path name with
  | zero => have := path_short fs path hnd hk; omega
  | succ fuel ih =>
    rw [loadV_succ]
    split
    · simp
    · rename_i hnp
      apply loadStep_ne_diverge
      intro raw hr p _
      apply ih
      · exact List.nodup_cons.mpr ⟨hnp, hnd⟩
      · intro q hq
        cases hq with
        | head => exact loadRaw_ok_key hr
        | tail _ hq => exact hk q hq
      · simp only [List.length_cons]; omega

/-- the forest is a DAG: some rank strictly decreases along every `inherits` edge -/
def Ranked (fs : FS) (rank : String → Nat) : Prop :=
  ∀ n raw, loadRaw fs n = .ok raw → ∀ p ∈ raw.inherits, rank p < rank n

/-- decidable form of `Ranked` for a given rank function -/
def rankedB (fs : FS) (rank : String → Nat) : Bool :=
  fs.all fun e => match e.2 with
    | .bad => true
    | .good raw => raw.inherits.all fun p => rank p < rank e.1

theorem ranked_of_rankedB (fs : FS) (rank : String → Nat) (h : rankedB fs rank = true) : Ranked fs rank := by
  intro n raw hr p hp
  obtain ⟨raw0, hm, hi⟩ := loadRaw_ok_mem hr
  have := List.all_eq_true.mp h _ hm
  simp only at this
  rw [hi] at hp
  simpa using List.all_eq_true.mp this p hp

theorem acyclicFrom_of_ranked (fs : FS) (rank : String → Nat) (hr : Ranked fs rank) (fuel : Nat)
    (path : List String) (name : String) (hlt : ∀ q ∈ path, rank name < rank q) (hnd : path.Nodup)
    (hk : ∀ q ∈ path, q ∈ fs.map Prod.fst) (hf : fs.length < fuel + path.length) :
    acyclicFrom fs fuel path name = true := by
  induction fuel generalizing path name with
  | zero => have := path_short fs path hnd hk; omega
  | succ fuel ih =>
    have hnp : name ∉ path := fun hm => Nat.lt_irrefl _ (hlt name hm)
    unfold acyclicFrom
    rw [if_neg hnp]
    cases hraw : loadRaw fs name with
    | error e => rfl
    | ok raw =>
      simp only
      apply List.all_eq_true.mpr
      intro p hp
      apply ih
      · intro q hq
        cases hq with
        | head => exact hr name raw hraw p hp
        | tail _ hq => exact Nat.lt_trans (hr name raw hraw p hp) (hlt q hq)
      · exact List.nodup_cons.mpr ⟨hnp, hnd⟩
      · intro q hq
        cases hq with
        | head => exact loadRaw_ok_key hraw
        | tail _ hq => exact hk q hq
      · simp only [List.length_cons]; omega

/-! ## reachability along `inherits` -/

/-- `Reach fs n q`: `q` is `n` or an ancestor of `n` (through readable descriptions) -/
inductive Reach (fs : FS) : String → String → Prop where
  | refl (n : String) : Reach fs n n
  | step {n p q : String} {raw : RawConfig} : loadRaw fs n = .ok raw → p ∈ raw.inherits → Reach fs p q → Reach fs n q

theorem Reach.trans {fs : FS} {a b c : String} (h₁ : Reach fs a b) (h₂ : Reach fs b c) : Reach fs a c := by
  induction h₁ with
  | refl => exact h₂
  | step hr hp _ ih => exact .step hr hp (ih h₂)

/-- `n` lies on an inheritance cycle: it is a proper ancestor of itself -/
def OnCycle (fs : FS) (n : String) : Prop :=
  ∃ raw p, loadRaw fs n = .ok raw ∧ p ∈ raw.inherits ∧ Reach fs p n

theorem OnCycle.next {fs : FS} {n p : String} {raw : RawConfig} (hr : loadRaw fs n = .ok raw)
    (hp : p ∈ raw.inherits) (hpn : Reach fs p n) : OnCycle fs p := by
  cases hpn with
  | refl => exact ⟨raw, _, hr, hp, .refl _⟩
  | step hr' hp' hrest => exact ⟨_, _, hr', hp', hrest.trans (.step hr hp (.refl _))⟩

theorem load_ok_reach (fs : FS) (fuel : Nat) (name q : String) (cfg : Config)
    (h : load fs fuel name = .ok cfg) (hq : Reach fs name q) : ∃ raw, loadRaw fs q = .ok raw := by
  induction hq generalizing fuel cfg with
  | refl n =>
    cases fuel with
    | zero => cases h
    | succ fuel =>
      rw [load_succ] at h
      obtain ⟨raw, hr, _⟩ := loadStep_ok_parents fs _ _ _ h
      exact ⟨raw, hr⟩
  | step hr hp _ ih =>
    cases fuel with
    | zero => cases h
    | succ fuel =>
      rw [load_succ] at h
      obtain ⟨raw', hr', hall⟩ := loadStep_ok_parents fs _ _ _ h
      rw [hr] at hr'; cases hr'
      obtain ⟨c, hc⟩ := hall _ hp
      exact ih fuel c hc

theorem load_cycle_not_ok (fs : FS) (fuel : Nat) (name : String) (hc : OnCycle fs name) (cfg : Config) :
    load fs fuel name ≠ .ok cfg := by
  induction fuel generalizing name cfg with
  | zero => simp [load]
  | succ fuel ih =>
    intro h
    rw [load_succ] at h
    obtain ⟨raw', hr', hall⟩ := loadStep_ok_parents fs _ _ _ h
    obtain ⟨raw, p, hr, hp, hpn⟩ := hc
    rw [hr] at hr'; cases hr'
    obtain ⟨c, hcp⟩ := hall _ hp
    exact ih p (OnCycle.next hr hp hpn) c hcp

theorem loadV_cycle_not_ok (fs : FS) (fuel : Nat) (path : List String) (name : String) (hc : OnCycle fs name)
    (cfg : Config) : loadV fs fuel path name ≠ .ok cfg := by
  induction fuel generalizing path name cfg with
  | zero => simp [loadV]
  | succ fuel ih =>
    intro h
    rw [loadV_succ] at h
    split at h
    · cases h
    · obtain ⟨raw', hr', hall⟩ := loadStep_ok_parents fs _ _ _ h
      obtain ⟨raw, p, hr, hp, hpn⟩ := hc
      rw [hr] at hr'; cases hr'
      obtain ⟨c, hcp⟩ := hall _ hp
      exact ih (name :: path) p (OnCycle.next hr hp hpn) c hcp

end LlgoVerif.Targets
