import LlgoVerif.Util
import LlgoVerif.Model.Sema
/-! Line-protocol driver for C11 (semaphore + notify list under a schedule).

    `run <cfg> <val> <progs> <schedule>`
      <cfg>      three bits `ticketLess oneBroadcast casRetry` (`000` = pinned tree, `111` = repaired)
      <val>      initial semaphore count
      <progs>    threads separated by `;`, operations by `.`: `A` acquire `R` release `W` add+wait `O` NotifyOne `B` NotifyAll
      <schedule> actions separated by `,`: `s<i>` | `s<i>><pick>` | `w<i>` ; `-` = empty
    answer: `<trace> # <end>` in the format of harness/c11 (one semaphore, one list):
      step = `<action>;<events>;S<val>/<waiters>:L<wait>/<notify>:T<status>.<parked at>.<ops done>,…`
      end  = `done` | `stuck` | `cut` | `disabled@<k>` -/
open LlgoVerif LlgoVerif.Util LlgoVerif.Sema

def parseOp : Char → Option Op
  | 'A' => some .acquire | 'R' => some .release | 'W' => some .wait | 'O' => some .notifyOne | 'B' => some .notifyAll
  | _ => none

def parseProg (s : String) : Option (List Op) :=
  if s = "-" || s = "" then some [] else (s.splitOn ".").mapM fun o =>
    match o.toList with
    | [c] => parseOp c
    | _ => none

def parseAction (s : String) : Option Action :=
  match s.toList with
  | 's' :: rest =>
    match (String.ofList rest).splitOn ">" with
    | [i] => i.toNat?.map fun i => Action.step i 0
    | [i, p] => do pure (Action.step (← i.toNat?) (← p.toNat?))
    | _ => none
  | 'w' :: rest => (String.ofList rest).toNat?.map Action.spurious
  | _ => none

def parseCfg (s : String) : Option Cfg :=
  match s.toList with
  | [a, b, c] =>
    if (a = '0' || a = '1') && (b = '0' || b = '1') && (c = '0' || c = '1') then
      some ⟨a = '1', b = '1', c = '1'⟩
    else none
  | _ => none

def showEvent : Option Event → String
  | none => "-"
  | some (.acquired _) => "A0"
  | some .released => "R0"
  | some (.ticket t) => s!"K0.{t}"
  | some (.waitRet t n) => s!"W0.{t}.{n}"
  | some .notifiedOne => "O0"
  | some .notifiedAll => "B0"

def showState (s : State) : String :=
  let ths := s.threads.map fun t => s!"{t.status s.sh}.{t.parkedAt}.{t.opsDone}"
  s!"S{s.sh.val}/{s.sh.waiters}:L{s.sh.wait}/{s.sh.notify}:T{",".intercalate ths}"

def endOf (s : State) : String :=
  if s.threads.all (fun t => t.pc = .done) then "done"
  else if s.threads.all (fun t => t.status s.sh ≠ 'r') then "stuck"
  else "cut"

/-- in the harness the release event `R` is reported when `semaRelease` RETURNS (the model's ghost event marks the Add);
    the other events coincide with the return of the operation -/
def eventsOf (before : Thread) (after : Option Thread) (ev : Option Event) : String :=
  match ev with
  | some .released => "-"
  | some e => showEvent (some e)
  | none =>
    match before.pc, after with
    | .rLock, some a => if a.opsDone = before.opsDone + 1 then "R0" else "-"
    | _, _ => "-"

def runTrace (cfg : Cfg) (s : State) (acts : List String) : String := Id.run do
  let mut st := s
  let mut out := #["init;-;" ++ showState s]
  let mut k := 0
  for a in acts do
    match parseAction a with
    | none => return "|".intercalate out.toList ++ s!" # disabled@{k}"
    | some act =>
      match nextEv cfg st act with
      | none => return "|".intercalate out.toList ++ s!" # disabled@{k}"
      | some (st', ev) =>
        let evs := match act with
          | .step i _ => match st.threads[i]? with
            | some b => eventsOf b st'.threads[i]? ev
            | none => "-"
          | .spurious _ => "-"
        out := out.push (a ++ ";" ++ evs ++ ";" ++ showState st')
        st := st'
        k := k + 1
  return "|".intercalate out.toList ++ " # " ++ endOf st

def handle (line : String) : String :=
  match fields line with
  | ["run", c, v, progs, sched] =>
    match parseCfg c, v.toNat?, (progs.splitOn ";").mapM parseProg with
    | some cfg, some v, some ps =>
      let acts := if sched = "-" then [] else sched.splitOn ","
      runTrace cfg (init v ps) acts
    | _, _, _ => "bad-op"
  | _ => "bad-op"

def main : IO Unit := lineLoop handle
