// Command vp04 reports, for the files of a generated Go package (first file = the layouts), how llgo's compiler classifies every defer
// statement: it builds go/ssa exactly as internal/build does (SanityCheckFunctions|InstantiateGenerics),
// calls the REAL cl/blocks.Infos on each function's blocks, and walks the blocks in the same order as
// cl/compile.go (Info.Next chain), which is the order in which ssa/eh.go numbers defer ids and bits.
//
// Output (only for defers of the FIRST file):
//
//	D <fnline> <order> <line> <kind> <clo> <nargs> <dom> <cyc>   a defer statement of the function at fnline
//	S <fnline> <order>                                           a drain point (call of a range-over-func whose body defers)
//	X <ownerline> <line> <clo> <nargs>                           a defer inside a range-over-func body (explicit defer stack)
//	K <fnline>                                                   the function evaluates ssa:deferstack()
//	L <fnline> <order> <line> <clo> <nargs>                      explicit-stack defer without owner (generic instance): loop statement
//	Z <fnline> <line>                                            explicit-stack defer without owner in a function without recover block: dropped
//	N <fnline>                                                   the frame is set up in place by a DeferAlways statement whose block does
//	                                                             not dominate the other defer statements / RunDefers of the function
//	Q <fnline>                                                   the function sets its frame up at entry (ssa:deferstack) but no return
//	                                                             runs RunDefers: go/ssa emitted none and cl/compile.go adds none
//	                                                             (returnNeedsImplicitRunDefers refuses synthetic functions, and an
//	                                                             instance of a generic function is "synthetic") - the frame is never popped
//	I <fnline>                                                   a return of the function gets an IMPLICIT RunDefers from
//	                                                             cl/compile.go returnNeedsImplicitRunDefers (go/ssa emitted none)
//
// fnline = source line of the enclosing function (declaration or func literal), order = index of the replay
// statement in compile order within that function, line = source line of the defer statement,
// kind = always|cond|loop (llssa.DeferAlways/DeferInCond/DeferInLoop, from the REAL cl/blocks), clo = 1 when the
// callee is a closure value, nargs = number of call arguments; dom / cyc are computed here, independently of
// cl/blocks, from go/ssa's dominator tree and CFG (see blockFacts).
package main

import (
	"bufio"
	"fmt"
	"go/ast"
	"go/parser"
	"go/token"
	"go/types"
	"os"
	"sort"

	"github.com/goplus/llgo/cl/blocks"
	llssa "github.com/goplus/llgo/ssa"
	"golang.org/x/tools/go/ssa"
	"golang.org/x/tools/go/ssa/ssautil"
)

type unsafeOnly struct{}

func (unsafeOnly) Import(path string) (*types.Package, error) {
	if path == "unsafe" {
		return types.Unsafe, nil
	}
	return nil, fmt.Errorf("import %q not available in the kinds harness", path)
}

func main() {
	if len(os.Args) < 2 {
		fmt.Fprintln(os.Stderr, "usage: vp04 file.go...")
		os.Exit(2)
	}
	fset := token.NewFileSet()
	var files []*ast.File
	for _, name := range os.Args[1:] {
		f, err := parser.ParseFile(fset, name, nil, parser.ParseComments)
		if err != nil {
			fmt.Fprintln(os.Stderr, err)
			os.Exit(1)
		}
		files = append(files, f)
	}
	info := &types.Info{
		Types: map[ast.Expr]types.TypeAndValue{}, Defs: map[*ast.Ident]types.Object{}, Uses: map[*ast.Ident]types.Object{},
		Implicits: map[ast.Node]types.Object{}, Scopes: map[ast.Node]*types.Scope{}, Selections: map[*ast.SelectorExpr]*types.Selection{},
		Instances: map[*ast.Ident]types.Instance{}, FileVersions: map[*ast.File]string{},
	}
	conf := types.Config{Importer: unsafeOnly{}, GoVersion: "go1.24"}
	pkg, err := conf.Check("main", fset, files, info)
	if err != nil {
		fmt.Fprintln(os.Stderr, err)
		os.Exit(1)
	}
	prog := ssa.NewProgram(fset, ssa.SanityCheckFunctions|ssa.InstantiateGenerics)
	prog.CreatePackage(types.Unsafe, nil, nil, true)
	sp := prog.CreatePackage(pkg, files, info, true)
	sp.Build()
	w := bufio.NewWriter(os.Stdout)
	defer w.Flush()
	var visit func(fn *ssa.Function)
	visit = func(fn *ssa.Function) {
		if len(fn.Blocks) > 0 {
			report(w, fset, fn)
		}
		for _, af := range fn.AnonFuncs {
			visit(af)
		}
	}
	// every function llgo compiles: the members of the package and the INSTANCES of its generic functions (the
	// generic templates themselves are not compiled)
	var roots []*ssa.Function
	for fn := range ssautil.AllFunctions(prog) {
		if fn.Pkg != sp && (fn.Origin() == nil || fn.Origin().Pkg != sp) {
			continue
		}
		if fn.Parent() != nil || len(fn.Blocks) == 0 {
			continue // nested functions are visited through their parent
		}
		if fn.TypeParams().Len() > 0 && len(fn.TypeArgs()) == 0 {
			continue // template
		}
		if fn.Synthetic != "" && fn.Origin() == nil {
			continue // wrappers, init
		}
		roots = append(roots, fn)
	}
	sort.Slice(roots, func(i, j int) bool {
		if roots[i].Pos() != roots[j].Pos() {
			return roots[i].Pos() < roots[j].Pos()
		}
		return roots[i].Name() < roots[j].Name()
	})
	for _, fn := range roots {
		visit(fn)
	}
}

func kindName(k llssa.DoAction) string {
	switch k {
	case llssa.DeferAlways:
		return "always"
	case llssa.DeferInCond:
		return "cond"
	case llssa.DeferInLoop:
		return "loop"
	}
	return fmt.Sprint("kind", int(k))
}

// hasStackDefer mirrors cl/compile.go functionHasExplicitStackDefer: a defer with an explicit defer stack in fn or in
// a function nested in it.
func hasStackDefer(fn *ssa.Function) bool {
	for _, b := range fn.Blocks {
		for _, in := range b.Instrs {
			if d, ok := in.(*ssa.Defer); ok && d.DeferStack != nil {
				return true
			}
		}
	}
	for _, c := range fn.AnonFuncs {
		if hasStackDefer(c) {
			return true
		}
	}
	return false
}

// drainPoint mirrors rangeFuncCallNeedsDeferDrain: a call that passes a range-over-func yield closure which defers.
func drainPoint(c *ssa.Call) bool {
	for _, arg := range c.Call.Args {
		mc, ok := arg.(*ssa.MakeClosure)
		if !ok {
			continue
		}
		fn, ok := mc.Fn.(*ssa.Function)
		if ok && fn.Synthetic == "range-over-func yield" && hasStackDefer(fn) {
			return true
		}
	}
	return false
}

// INDEPENDENT facts about the block of a defer, from the definition rather than from cl/blocks:
// dom = the block dominates every block where the function ends (return or explicit panic; the recover block and
// unreachable blocks do not count), cyc = the block lies on a cycle.
func blockFacts(fn *ssa.Function, b *ssa.BasicBlock) (dom, cyc int) {
	dom = 1
	for _, e := range fn.Blocks {
		if len(e.Succs) != 0 || e == fn.Recover || (len(e.Preds) == 0 && e.Index != 0) {
			continue
		}
		if !b.Dominates(e) {
			dom = 0
		}
	}
	seen := map[*ssa.BasicBlock]bool{}
	var stack []*ssa.BasicBlock
	stack = append(stack, b.Succs...)
	for len(stack) > 0 {
		x := stack[len(stack)-1]
		stack = stack[:len(stack)-1]
		if x == b {
			cyc = 1
			break
		}
		if seen[x] {
			continue
		}
		seen[x] = true
		stack = append(stack, x.Succs...)
	}
	return
}

// implicitRunDefers mirrors cl/compile.go returnNeedsImplicitRunDefers: a return outside the recover block that is not
// preceded by a RunDefers instruction, in a non-synthetic function with an explicit-stack defer in a nested function.
// isWrapper mirrors the test `fn.Synthetic != ""` of cl/instr.go deferStackOwner and cl/compile.go
// returnNeedsImplicitRunDefers. With VP04_INSTANCE_OWNER=1 (the check sets it when the working tree behaves like
// fixes/C04-2.diff: probed with the corpus witness k) an instance of a generic function is not a wrapper.
func isWrapper(fn *ssa.Function) bool {
	if fn.Synthetic == "" {
		return false
	}
	if os.Getenv("VP04_INSTANCE_OWNER") == "1" && fn.Parent() == nil && len(fn.TypeArgs()) > 0 {
		return false
	}
	return true
}

func implicitRunDefers(fn *ssa.Function) bool {
	if isWrapper(fn) {
		return false
	}
	nested := false
	for _, c := range fn.AnonFuncs {
		if hasStackDefer(c) {
			nested = true
		}
	}
	if !nested {
		return false
	}
	// cl/compile.go adds a RunDefers in front of every return that is not directly preceded by one. Where go/ssa emitted its
	// own RunDefers (function with an own defer statement: store results, rundefers, reload, return) the added one finds
	// nothing left to run and the results are the reloaded ones. Where go/ssa emitted none at all (the only defers are in
	// range-over-func bodies), the added one runs AFTER the operands of Return were evaluated: that is what is reported.
	for _, b := range fn.Blocks {
		for _, in := range b.Instrs {
			if _, ok := in.(*ssa.RunDefers); ok {
				return false
			}
		}
	}
	return true
}

func hasRunDefers(fn *ssa.Function) bool {
	for _, b := range fn.Blocks {
		for _, in := range b.Instrs {
			if _, ok := in.(*ssa.RunDefers); ok {
				return true
			}
		}
	}
	return false
}

func usesDeferStack(fn *ssa.Function) bool {
	for _, b := range fn.Blocks {
		for _, in := range b.Instrs {
			if c, ok := in.(*ssa.Call); ok {
				if bi, ok := c.Call.Value.(*ssa.Builtin); ok && bi.Name() == "ssa:deferstack" {
					return true
				}
			}
		}
	}
	return false
}

func calleeIsClosure(d *ssa.Defer) int {
	if _, static := d.Call.Value.(*ssa.Function); static && d.Call.Method == nil {
		return 0
	}
	if _, bi := d.Call.Value.(*ssa.Builtin); bi {
		return 0
	}
	return 1
}

func report(w *bufio.Writer, fset *token.FileSet, fn *ssa.Function) {
	has := false
	for _, b := range fn.Blocks {
		for _, in := range b.Instrs {
			switch v := in.(type) {
			case *ssa.Defer:
				has = true
			case *ssa.Call:
				if drainPoint(v) {
					has = true
				}
				if bi, ok := v.Call.Value.(*ssa.Builtin); ok && bi.Name() == "ssa:deferstack" {
					fmt.Fprintf(w, "K %d\n", fset.Position(fn.Pos()).Line)
				}
			}
		}
	}
	if implicitRunDefers(fn) {
		fmt.Fprintf(w, "I %d\n", fset.Position(fn.Pos()).Line)
	} else if usesDeferStack(fn) && !hasRunDefers(fn) {
		fmt.Fprintf(w, "Q %d\n", fset.Position(fn.Pos()).Line)
	}
	if !has {
		return
	}
	first := os.Args[1]
	fnline := fset.Position(fn.Pos()).Line
	// defers of a range-over-func body belong to the enclosing syntactic function (cl deferStackOwner: walk up while the
	// function is synthetic). For an INSTANCE of a generic function ("instance of …" is synthetic, no parent) the walk ends
	// at nil: llgo then falls back to Builder.Defer(DeferInLoop) in the function being compiled — an ordinary loop statement
	// when that function has a recover block, silently nothing in a yield closure (it has none).
	owner := fn
	for owner != nil && isWrapper(owner) {
		owner = owner.Parent()
	}
	infos := blocks.Infos(fn.Blocks)
	order := 0
	// frame creation: the first of {defer statement, RunDefers, drain point, ssa:deferstack()} in compile order creates the
	// frame; only a DeferAlways statement creates it IN PLACE in its own block, which then has to dominate all the others
	var initBlk *ssa.BasicBlock
	initKnown := false
	var users []*ssa.BasicBlock
	for i := 0; i >= 0; i = infos[i].Next {
		for _, in := range fn.Blocks[i].Instrs {
			creates, inPlace := false, false
			switch d := in.(type) {
			case *ssa.RunDefers:
				creates = true
			case *ssa.Call:
				if bi, ok := d.Call.Value.(*ssa.Builtin); ok && bi.Name() == "ssa:deferstack" {
					creates, inPlace = true, true
				}
				if drainPoint(d) {
					creates = true
					if fset.Position(fn.Pos()).Filename == first {
						fmt.Fprintf(w, "S %d %d\n", fnline, order)
						order++
					}
				}
			case *ssa.Defer:
				pos := fset.Position(d.Pos())
				if pos.Filename != first {
					continue
				}
				if d.DeferStack != nil {
					if owner != nil {
						fmt.Fprintf(w, "X %d %d %d %d\n", fset.Position(owner.Pos()).Line, pos.Line, calleeIsClosure(d), len(d.Call.Args))
						continue
					}
					if fn.Recover == nil {
						fmt.Fprintf(w, "Z %d %d\n", fnline, pos.Line)
						continue
					}
					creates = true
					fmt.Fprintf(w, "L %d %d %d %d %d\n", fnline, order, pos.Line, calleeIsClosure(d), len(d.Call.Args))
					order++
					break
				}
				creates = true
				inPlace = infos[i].Kind == llssa.DeferAlways
				dom, cyc := blockFacts(fn, fn.Blocks[i])
				fmt.Fprintf(w, "D %d %d %d %s %d %d %d %d\n", fnline, order, pos.Line, kindName(infos[i].Kind), calleeIsClosure(d), len(d.Call.Args), dom, cyc)
				order++
			}
			if creates {
				users = append(users, fn.Blocks[i])
				if !initKnown {
					initKnown = true
					if inPlace {
						initBlk = fn.Blocks[i]
					}
				}
			}
		}
	}
	if initBlk != nil {
		for _, u := range users {
			if !initBlk.Dominates(u) {
				fmt.Fprintf(w, "N %d\n", fnline)
				break
			}
		}
	}
}
