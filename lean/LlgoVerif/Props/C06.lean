import LlgoVerif.Lemmas.HMap
/-!
# C06 — maps behave as finite maps under every operation history and key type

Property theorems only.  Model: `LlgoVerif/Model/HMap.lean` (bucket-level transcription of llgo's `map.go`),
specification: `LlgoVerif/Spec/AssocList.lean`, lemmas and the invariant `WF`: `LlgoVerif/Lemmas/HMap.lean`.

`abs : HMap K V → AList K V` reads a table as the association list of its filled cells; two association lists
denote the same map when one is a permutation of the other (`List.Perm`).  `Inv o h` = `WF o h`, or the bucket
array is not allocated yet.  `HashOK o` = what the runtime assumes about the hasher and `==` (no reflexivity:
NaN keys are covered).

Stages of DESIGN.md §4 C06: (1) no growth, (2) growth incl. same-size growth, (3) delete with the emptyRest
back-propagation, (4) clear are PROVED here for every table state and every history; (5) iteration is stated
(`IterationSpec`) and is FALSE for the code as it is (`iteration_counterexample`); proved parts: empty maps
(`iteration_partial_empty*`), "no deleted entry" while the table does not grow (`iteration_partial_stable`), and
the complete loop over a table that is neither growing nor mutated: every entry exactly once, then it stops
(`iteration_stable_complete`).
-/
namespace LlgoVerif.HMap
open LlgoVerif.AssocList
variable {K V : Type} [Inhabited K] [Inhabited V]

/-! ## single operations -/

/-- `make(map[K]V, hint)` is the empty map and satisfies the invariant. -/
theorem makemap_refines (o : Ops K) (hint : Nat) (r : Rand) :
    Inv o (makemap hint r : HMap K V) ∧ abs (makemap hint r : HMap K V) = [] :=
  makemap_spec o hint r

/-- `m[k]` / `v, ok := m[k]` return what the association list holds for `k`; the table is unchanged.
    Stages 1+2: also while the map is growing (old buckets not yet evacuated are searched). -/
theorem mapaccess_refines {o : Ops K} (ho : HashOK o) {h : HMap K V} (hi : Inv o h) (k : K) :
    (∀ r h', mapaccess o h k = .ok (r, h') →
      r.map (·.val) = lookup o.eq k (abs h) ∧ Inv o h' ∧ abs h' = abs h) ∧
    (∀ e, mapaccess o h k = .error e → e = .unhashable ∧ o.unhashable k = true) :=
  mapaccess_spec ho hi k

/-- `m[k] = v` is `insert`, for every table state: in place, into a free cell, into a new overflow bucket, and
    across `hashGrow` (doubling and same-size), `growWork`, `evacuate`.  The only error besides the unhashable-key
    panic is the model's bound on the number of `goto again` passes (`Err.loop`). -/
theorem mapassign_refines {o : Ops K} (ho : HashOK o) {h : HMap K V} (hi : Inv o h) (k : K) (v : V) :
    (∀ h', mapassign o h k v = .ok h' →
      WF o h' ∧ (abs h').Perm (insert o.eq o.needKeyUpdate k v (abs h))) ∧
    (∀ e, mapassign o h k v = .error e → (e = .unhashable ∧ o.unhashable k = true) ∨ e = .loop) :=
  mapassign_spec ho hi k v

/-- `delete(m, k)` is `erase` (stage 3: including the emptyRest back-propagation, and during growth). -/
theorem mapdelete_refines {o : Ops K} (ho : HashOK o) {h : HMap K V} (hi : Inv o h) (k : K) :
    (∀ h', mapdelete o h k = .ok h' → Inv o h' ∧ (abs h').Perm (erase o.eq k (abs h))) ∧
    (∀ e, mapdelete o h k = .error e → e = .unhashable ∧ o.unhashable k = true) :=
  mapdelete_spec ho hi k

/-- `clear(m)` is the empty map (stage 4; with a `memclr` that clears, which is what `map.go` assumes). -/
theorem mapclear_refines {o : Ops K} {h : HMap K V} (hi : Inv o h) :
    Inv o (mapclear h) ∧ abs (mapclear h) = [] :=
  mapclear_spec hi

/-- `len(m)` is the number of entries. -/
theorem maplen_refines {o : Ops K} {h : HMap K V} (hi : Inv o h) : h.count = len (abs h) :=
  inv_count hi

/-- one evacuation step moves entries without losing or duplicating any (stage 2) -/
theorem evacuate_preserves {o : Ops K} (ho : HashOK o) {h : HMap K V} (hw : WF o h) {j : Nat}
    (hjs : ∀ oa, h.old = some oa → j < oa.size) :
    ∃ h', evacuate o h j = .ok h' ∧ WF o h' ∧ (abs h').Perm (abs h) :=
  let ⟨h', e, p⟩ := evacuate_spec ho hw hjs
  ⟨h', e, p.wf, p.perm⟩

/-- starting a growth changes nothing observable (stage 2) -/
theorem hashGrow_preserves {o : Ops K} {h : HMap K V} (hw : WF o h) (hold : h.old = none) :
    WF o (hashGrow h) ∧ abs (hashGrow h) = abs h :=
  let ⟨w, a, _⟩ := hashGrow_spec hw hold
  ⟨w, a⟩

/-! ## all histories -/

theorem step_refines {o : Ops K} (ho : HashOK o) (hp : PanicOK o) {h : HMap K V} (hi : Inv o h)
    {m : AList K V} (hm : (abs h).Perm m) (op : Op K V) :
    (∀ ob h', stepModel o h op = .ok (ob, h') →
      ob = (stepSpec o m op).1 ∧ Inv o h' ∧ (abs h').Perm (stepSpec o m op).2) ∧
    (∀ e, stepModel o h op = .error e → e = .loop) := by
  have hnd := inv_nodup hi
  cases op with
  | assign k v =>
    obtain ⟨a1, a2⟩ := mapassign_spec ho hi k v
    simp only [stepModel, stepSpec]
    cases hr : mapassign o h k v with
    | ok h' =>
      obtain ⟨w, p⟩ := a1 h' hr
      have hu : o.unhashable k = false := by
        cases hu : o.unhashable k with
        | false => rfl
        | true => simp [mapassign, hashKey, hu, bind, Except.bind] at hr
      simp only [hu, Bool.false_eq_true, if_false]
      refine ⟨fun ob h'' e => ?_, (fun e he => by cases he)⟩
      cases e
      exact ⟨rfl, Or.inl w, p.trans (insert_perm ho.eqok hm hnd)⟩
    | error e =>
      rcases a2 e hr with ⟨rfl, hu⟩ | rfl
      · simp only [hu, if_true]
        refine ⟨fun ob h'' e => ?_, (fun e he => by cases he)⟩
        cases e
        exact ⟨rfl, hi, hm⟩
      · exact ⟨(fun ob h'' e => by cases e), (fun e he => by cases he; rfl)⟩
  | access k =>
    obtain ⟨a1, a2⟩ := mapaccess_spec ho hi k
    simp only [stepModel, stepSpec]
    cases hr : mapaccess o h k with
    | ok p =>
      obtain ⟨r, h'⟩ := p
      obtain ⟨e1, e2, e3⟩ := a1 r h' hr
      have hu : o.unhashable k = false := by
        cases hu : o.unhashable k with
        | false => rfl
        | true =>
          exfalso
          by_cases hmp : o.hashMightPanic = false
          · rw [hp hmp k] at hu; cases hu
          · have hmp' : o.hashMightPanic = true := by simpa using hmp
            unfold mapaccess at hr
            simp only [hmp', if_true, hashKey, hu, bind, Except.bind] at hr
            split at hr <;> cases hr
      simp only [hu, Bool.false_eq_true, if_false]
      refine ⟨fun ob h'' e => ?_, (fun e he => by cases he)⟩
      cases e
      refine ⟨?_, e2, by rw [e3]; exact hm⟩
      rw [e1, lookup_perm ho.eqok hm hnd]
    | error e =>
      obtain ⟨rfl, hu⟩ := a2 e hr
      simp only [hu, if_true]
      refine ⟨fun ob h'' e => ?_, (fun e he => by cases he)⟩
      cases e
      exact ⟨rfl, hi, hm⟩
  | delete k =>
    obtain ⟨a1, a2⟩ := mapdelete_spec ho hi k
    simp only [stepModel, stepSpec]
    cases hr : mapdelete o h k with
    | ok h' =>
      obtain ⟨w, p⟩ := a1 h' hr
      have hu : o.unhashable k = false := by
        cases hu : o.unhashable k with
        | false => rfl
        | true =>
          exfalso
          by_cases hmp : o.hashMightPanic = false
          · rw [hp hmp k] at hu; cases hu
          · have hmp' : o.hashMightPanic = true := by simpa using hmp
            unfold mapdelete at hr
            simp only [hmp', if_true, hashKey, hu, bind, Except.bind] at hr
            split at hr <;> cases hr
      simp only [hu, Bool.false_eq_true, if_false]
      refine ⟨fun ob h'' e => ?_, (fun e he => by cases he)⟩
      cases e
      exact ⟨rfl, w, p.trans (erase_perm ho.eqok hm hnd)⟩
    | error e =>
      obtain ⟨rfl, hu⟩ := a2 e hr
      simp only [hu, if_true]
      refine ⟨fun ob h'' e => ?_, (fun e he => by cases he)⟩
      cases e
      exact ⟨rfl, hi, hm⟩
  | clear =>
    obtain ⟨c1, c2⟩ := mapclear_spec hi
    simp only [stepModel, stepSpec]
    refine ⟨fun ob h'' e => ?_, (fun e he => by cases he)⟩
    cases e
    exact ⟨rfl, c1, by rw [c2]⟩
  | len =>
    simp only [stepModel, stepSpec]
    refine ⟨fun ob h'' e => ?_, (fun e he => by cases he)⟩
    cases e
    refine ⟨?_, hi, hm⟩
    rw [inv_count hi, AssocList.len, hm.length_eq]

/-- **Refinement for all histories.**  From any table that satisfies the invariant and stands for `m`, every
    sequence of assign / access / delete / clear / len — of any length, through every growth, same-size growth
    and overflow bucket — produces exactly the observations of the association list (lookups return the most
    recently stored value or "absent", `len` is the number of entries, unhashable keys panic and change
    nothing), the invariant holds afterwards and the table stands for the specification's final state. -/
theorem history_refines {o : Ops K} (ho : HashOK o) (hp : PanicOK o) (ops : List (Op K V)) :
    ∀ (h : HMap K V) (m : AList K V), Inv o h → (abs h).Perm m →
    (∀ obs h', runModel o h ops = .ok (obs, h') →
      obs = (runSpec o m ops).1 ∧ Inv o h' ∧ (abs h').Perm (runSpec o m ops).2) ∧
    (∀ e, runModel o h ops = .error e → e = .loop) := by
  induction ops with
  | nil =>
    intro h m hi hm
    refine ⟨fun obs h' e => ?_, (fun e he => by cases he)⟩
    cases e
    exact ⟨rfl, hi, hm⟩
  | cons op ops ih =>
    intro h m hi hm
    obtain ⟨s1, s2⟩ := step_refines ho hp hi hm op
    simp only [runModel, runSpec]
    cases hs : stepModel o h op with
    | error e =>
      exact ⟨(fun obs h' e' => by cases e'), (fun e' he' => by cases he'; exact s2 e hs)⟩
    | ok p =>
      obtain ⟨ob, h1⟩ := p
      obtain ⟨e1, i1, p1⟩ := s1 ob h1 hs
      obtain ⟨r1, r2⟩ := ih h1 (stepSpec o m op).2 i1 p1
      simp only
      cases hr : runModel o h1 ops with
      | error e => exact ⟨(fun obs h' e' => by cases e'), (fun e' he' => by cases he'; exact r2 e hr)⟩
      | ok q =>
        obtain ⟨obs, h2⟩ := q
        obtain ⟨f1, f2, f3⟩ := r1 obs h2 hr
        refine ⟨fun obs' h' e' => ?_, (fun e' he' => by cases he')⟩
        cases e'
        exact ⟨by rw [e1, f1], f2, f3⟩

/-- the history theorem for a map created by `make` -/
theorem history_refines_from_make {o : Ops K} (ho : HashOK o) (hp : PanicOK o) (hint : Nat) (r : Rand)
    (ops : List (Op K V)) :
    (∀ obs h', runModel o (makemap hint r : HMap K V) ops = .ok (obs, h') →
      obs = (runSpec o ([] : AList K V) ops).1 ∧ Inv o h' ∧ (abs h').Perm (runSpec o ([] : AList K V) ops).2) ∧
    (∀ e, runModel o (makemap hint r : HMap K V) ops = .error e → e = .loop) := by
  obtain ⟨i, a⟩ := makemap_spec (V := V) o hint r
  exact history_refines ho hp ops _ [] i (by rw [a])


/-! ## iteration (stage 5) -/

/-- **Full statement of the iteration property** (stage 5): for every table that satisfies the invariant and
    every range loop over it, with arbitrary mutations between the iteration steps —
    nothing deleted is yielded, nothing is yielded twice, and (once the loop has ended) everything that was
    present the whole time has been yielded. -/
def IterationSpec (o : Ops K) (V : Type) [Inhabited V] : Prop :=
  YieldsLive o V ∧ NoTwice o V ∧ YieldsAll o V

/-- the part that is proved: a loop over a map that is empty when `MapIterNext` is called ends there
    (`z_map.go` checks `count == 0` before `mapiternext` touches possibly cleared buckets) -/
theorem iteration_partial_empty (o : Ops K) (h : HMap K V) (it : Iter K V) (hc : h.count = 0) :
    mapIterNext o (.ref h) it = .ok (none, { it with key := none, elem := none }) := by
  simp [mapIterNext, hc, pure, Except.pure]

/-- … and a loop over a nil or empty map yields nothing at all -/
theorem iteration_partial_empty_loop (o : Ops K) (h : HMap K V) (steps : List (LoopStep K V)) (hc : h.count = 0) :
    ∃ tr, runLoop o h steps = .ok (tr, true) ∧ ∀ kv hy, LoopEv.yield kv hy ∉ tr := by
  have h1 : newMapIter o (.ref h) = .ok ({ ready := true }, .ref h) := by
    simp [newMapIter, mapiterinit, hc, pure, Except.pure, bind, Except.bind]
  refine ⟨[.table h], ?_, ?_⟩
  · simp [runLoop, h1, runLoopFrom, mapIterNext, pure, Except.pure]
  · intro kv hy hm
    simp at hm

/-- the other proved part: as long as the table is not growing, an iterator that walks the current bucket array
    (`IterCur`: true for a fresh iterator and kept by every step) yields only entries the table holds at that
    moment — whatever deletions, updates and insertions happened since the loop started (they all keep the array) -/
theorem iteration_partial_stable {o : Ops K} {h : HMap K V} (hw : WF o h) (hold : h.old = none) {it it' : Iter K V}
    (hic : IterCur h it) (e : mapiternext o h it = .ok it') :
    IterCur h it' ∧ ∀ k v, it'.key = some k → it'.elem = some v → (k, v) ∈ abs h :=
  mapiternext_yields_live hw hold hic e

example (h : HMap (Nat × Bool) Nat) : IterCur h { gen := h.gen } := ⟨rfl, rfl, fun _ e => by cases e⟩

/-- **Stage 5 without growth and without mutation, complete**: for every table with the invariant that is not
    growing (`h.old = none`), every start bucket and start offset (`fastrand` is arbitrary: it is part of `h`), a
    whole range loop — `mapiterinit`, then `mapiternext` until it returns no key (`iterAll`, given at least
    `count + 1` steps) — terminates without the model running out of fuel and yields every entry of the table
    EXACTLY once: the list of yielded pairs is a permutation of `abs h`.  Proved by induction over the bucket walk
    (`startBucket`, `wrapped`, wrap-around at `2^B`), the overflow-chain walk and the offset-rotated cell scan
    (`iterLoop_walk`, `restChains_step`, `cy_perm`, `byf_perm` in the lemmas). -/
theorem iteration_stable_complete {o : Ops K} {h : HMap K V} (hi : Inv o h) (hold : h.old = none) {n : Nat}
    (hn : h.count < n) : ∃ ys, iterAll o h n = .ok ys ∧ ys.Perm (abs h) := by
  rcases hi with hw | hl
  · exact iterAll_spec hw hold hn
  · refine ⟨[], ?_, by rw [abs_lazy hl]⟩
    simp [iterAll, mapiterinit, hl.count, pure, Except.pure]

/-- one step of that loop, from any position the walk can be in (`PosOK`): `mapiternext` either ends the loop and
    nothing was left to yield, or yields the head of the remaining entries `remOf` and leaves exactly the tail -/
theorem iteration_stable_step {o : Ops K} {h : HMap K V} (hw : WF o h) (hold : h.old = none) {it : Iter K V}
    (hp : PosOK h it it.bucket it.bptr it.i) (hcb : it.checkBucket = none) :
    ∃ it', mapiternext o h it = .ok it' ∧
      ((it'.key = none ∧ remOf h it.offset it.startBucket it.wrapped it.bucket it.bptr it.i = []) ∨
       (∃ k v, it'.key = some k ∧ it'.elem = some v ∧ it'.checkBucket = none ∧
          it'.startBucket = it.startBucket ∧ it'.offset = it.offset ∧
          PosOK h it' it'.bucket it'.bptr it'.i ∧
          remOf h it.offset it.startBucket it.wrapped it.bucket it.bptr it.i =
            (k, v) :: remOf h it.offset it.startBucket it'.wrapped it'.bucket it'.bptr it'.i)) :=
  mapiternext_walk hw hold hp hcb

/-- **Stage 5 with deletions between the steps, no growth — "no deleted entry"**: a loop whose body deletes arbitrary
    keys between the iteration steps (`runDelLoop`: `none` = `mapiternext`, `some k` = `delete(m, k)`), started from
    any iterator that walks the current array (`IterCur`; `iteration_init_stable` provides it for a fresh loop),
    yields only pairs that are entries of the table at the moment they are yielded.
    NOT proved for such loops: "no key twice" and "every key present for the whole loop is yielded". -/
theorem iteration_delete_yields_live {o : Ops K} (ho : HashOK o) (steps : List (Option K)) (h : HMap K V) (it : Iter K V)
    (ys : List ((K × V) × HMap K V)) (hw : WF o h) (hold : h.old = none) (hic : IterCur h it)
    (e : runDelLoop o h it steps = .ok ys) : ∀ y ∈ ys, y.1 ∈ abs y.2 :=
  runDelLoop_yields_live ho steps h it ys hw hold hic e

/-- `mapiterinit` on a non-empty table that is not growing returns an iterator with `IterCur`; its first entry is an
    entry of the table; the table stands for the same map afterwards -/
theorem iteration_init_stable {o : Ops K} {h h' : HMap K V} {it : Iter K V} (hw : WF o h) (hold : h.old = none)
    (hc : h.count ≠ 0) (e : mapiterinit o h = .ok (it, h')) :
    WF o h' ∧ h'.old = none ∧ abs h' = abs h ∧ IterCur h' it ∧
      ∀ k v, it.key = some k → it.elem = some v → (k, v) ∈ abs h' :=
  mapiterinit_stable hw hold hc e

example : ∃ ys, iterAll cxOps (makemap 0 {} : HMap (Nat × Bool) Nat) 1 = .ok ys ∧ ys.Perm (abs (makemap 0 {} : HMap (Nat × Bool) Nat)) :=
  iteration_stable_complete (makemap_spec cxOps 0 {}).1 rfl (by decide)

/-! ### the counterexample (keys: a number and a "is NaN" flag; NaN keys are equal to nothing) -/

def cxOps : Ops (Nat × Bool) :=
  { hash := fun _ k => UInt64.ofNat k.1
    nanHash := fun _ k xs => UInt64.ofNat k.1 + (xs.headD 0).toUInt64
    nanCount := fun _ => 1
    eq := fun a b => !a.2 && !b.2 && a.1 == b.1
    unhashable := fun _ => false
    reflexiveKey := false, needKeyUpdate := true, hashMightPanic := false }

/-- `m := map[float64]int{1: 63}` -/
def cxStart : Except Err (HMap (Nat × Bool) Nat) := mapassign cxOps (makemap 0 { script := [7, 0] }) (1, false) 63

/-- `for k, v := range m { 8 insertions, one of them m[NaN] = 65 (the map grows); clear(m); m[9] = 151 }` -/
def cxSteps : List (LoopStep (Nat × Bool) Nat) :=
  [.mutate (.assign (2, false) 64), .mutate (.assign (0, true) 65), .mutate (.assign (3, false) 71),
   .mutate (.assign (4, false) 72), .mutate (.assign (5, false) 132), .mutate (.assign (6, false) 133),
   .mutate (.assign (7, false) 134), .mutate (.assign (8, false) 135), .mutate .clear,
   .mutate (.assign (9, false) 151), .next]

/-- does the run yield something that is not in the map at that moment? -/
def cxCheck : Bool :=
  match cxStart with
  | .ok h =>
    match runLoop cxOps h cxSteps with
    | .ok (tr, _) => tr.any (fun ev => match ev with
        | .yield kv hy => !(decide (kv ∈ abs hy))
        | .table _ => false)
    | .error _ => false
  | .error _ => false

theorem cxOps_hashOK : HashOK cxOps := by
  refine ⟨⟨?_, ?_⟩, ?_⟩
  · intro a b h
    simp only [cxOps, Bool.and_eq_true, Bool.not_eq_true', beq_iff_eq] at h ⊢
    exact ⟨⟨h.1.2, h.1.1⟩, h.2.symm⟩
  · intro a b c h1 h2
    simp only [cxOps, Bool.and_eq_true, Bool.not_eq_true', beq_iff_eq] at h1 h2 ⊢
    exact ⟨⟨h1.1.1, h2.1.2⟩, h1.2.trans h2.2⟩
  · intro s a b h
    simp only [cxOps, Bool.and_eq_true, Bool.not_eq_true', beq_iff_eq] at h ⊢
    rw [h.2]

/-- the second iteration of the loop yields the NaN entry that `clear` deleted (evaluated by the kernel) -/
theorem cx_check : cxCheck = true := by decide +kernel

/-- **The iteration property is false for `map.go` as it is**: an iterator that walks a bucket array the map
    has already retired returns its `key != key` cells directly ("the entry can't be deleted or updated"), but
    `clear` does delete them.  The same history is replayed on the real code by `checks/c06.py`
    (`corpus/C06/nan-entry-after-clear.json`). -/
theorem iteration_counterexample : ¬ IterationSpec cxOps Nat := by
  intro ⟨hYL, _, _⟩
  have hc := cx_check
  unfold cxCheck at hc
  cases hs : cxStart with
  | error e => rw [hs] at hc; cases hc
  | ok h0 =>
    rw [hs] at hc
    simp only at hc
    have hw : WF cxOps h0 :=
      ((mapassign_spec cxOps_hashOK (makemap_spec cxOps 0 { script := [7, 0] }).1 (1, false) 63).1 h0 hs).1
    cases hr : runLoop cxOps h0 cxSteps with
    | error e => rw [hr] at hc; cases hc
    | ok p =>
      obtain ⟨tr, ended⟩ := p
      rw [hr] at hc
      simp only [List.any_eq_true] at hc
      obtain ⟨ev, hev, hbad⟩ := hc
      cases ev with
      | table _ => cases hbad
      | yield kv hy =>
        have := hYL h0 cxSteps tr ended (Or.inl hw) hr kv hy hev
        simp [this] at hbad

/-! ## the hypotheses are satisfiable -/

example : HashOK cxOps := cxOps_hashOK
example : PanicOK cxOps := fun _ _ => rfl
example : Inv cxOps (makemap 20 {} : HMap (Nat × Bool) Nat) := (makemap_spec cxOps 20 {}).1
example : ∃ h : HMap (Nat × Bool) Nat, cxStart = .ok h ∧ WF cxOps h ∧ h.count = 1 := by
  cases hs : cxStart with
  | error e => have := cx_check; unfold cxCheck at this; rw [hs] at this; cases this
  | ok h0 =>
    have hp := (mapassign_spec cxOps_hashOK (makemap_spec cxOps 0 { script := [7, 0] }).1 (1, false) 63).1 h0 hs
    refine ⟨h0, rfl, hp.1, ?_⟩
    rw [hp.1.count, hp.2.length_eq, (makemap_spec cxOps 0 { script := [7, 0] }).2]
    rfl

end LlgoVerif.HMap
