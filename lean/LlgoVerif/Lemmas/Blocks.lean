import LlgoVerif.Model.Blocks
/-! Soundness of the `cl/blocks` validator: reachability closure = paths, *always* blocks are visited exactly once by
    every complete path, and what `checkInfos` accepts satisfies the specification. -/
namespace LlgoVerif.Blocks

/-! ### the reachability closure -/

theorem mem_addNew {xs : List Nat} : ∀ {S : List Nat} {y : Nat}, y ∈ addNew S xs ↔ y ∈ S ∨ y ∈ xs := by
  induction xs with
  | nil => intro S y; simp [addNew]
  | cons x xs ih =>
    intro S y
    simp only [addNew]
    rw [ih]
    by_cases h : S.contains x = true
    · simp only [h, if_true]
      have hx : x ∈ S := by simpa using h
      constructor
      · rintro (h1 | h1)
        · exact .inl h1
        · exact .inr (List.mem_cons_of_mem _ h1)
      · rintro (h1 | h1)
        · exact .inl h1
        · rcases List.mem_cons.mp h1 with rfl | h2
          · exact .inl hx
          · exact .inr h2
    · simp only [h]
      simp only [Bool.false_eq_true, if_false, List.mem_append, List.mem_cons, List.not_mem_nil, or_false]
      constructor
      · rintro ((h1 | h1) | h1)
        · exact .inl h1
        · exact .inr (.inl h1)
        · exact .inr (.inr h1)
      · rintro (h1 | h1 | h1)
        · exact .inl (.inl h1)
        · exact .inl (.inr h1)
        · exact .inr h1

/-- `x` is in `S` or reachable from an element of `S` -/
def From (g : CFG) (S : List Nat) (x : Nat) : Prop := x ∈ S ∨ ∃ s ∈ S, Reach g s x

theorem mem_expand {g : CFG} {S : List Nat} {x : Nat} (h : x ∈ expand g S) : x ∈ S ∨ ∃ s ∈ S, x ∈ succs g s := by
  unfold expand at h
  rcases mem_addNew.mp h with h | h
  · exact .inl h
  · rw [List.mem_flatMap] at h
    exact .inr h

theorem subset_expand {g : CFG} {S : List Nat} {x : Nat} (h : x ∈ S) : x ∈ expand g S :=
  mem_addNew.mpr (.inl h)

theorem closure_sound {g : CFG} : ∀ (k : Nat) {S : List Nat} {x : Nat}, x ∈ closure g k S → From g S x := by
  intro k
  induction k with
  | zero => intro S x h; exact .inl h
  | succ k ih =>
    intro S x h
    simp only [closure] at h
    rcases ih h with h1 | ⟨t, ht, hr⟩
    · rcases mem_expand h1 with h2 | ⟨s, hs, hx⟩
      · exact .inl h2
      · exact .inr ⟨s, hs, .step hx⟩
    · rcases mem_expand ht with h2 | ⟨s, hs, hx⟩
      · exact .inr ⟨t, h2, hr⟩
      · exact .inr ⟨s, hs, .trans hx hr⟩

theorem subset_closure {g : CFG} : ∀ (k : Nat) {S : List Nat} {x : Nat}, x ∈ S → x ∈ closure g k S := by
  intro k
  induction k with
  | zero => intro S x h; exact h
  | succ k ih => intro S x h; simp only [closure]; exact ih (subset_expand h)

theorem reachSet_sound {g : CFG} {a x : Nat} (h : x ∈ reachSet g a) : Reach g a x := by
  unfold reachSet at h
  rcases closure_sound _ h with h1 | ⟨s, hs, hr⟩
  · rcases mem_addNew.mp h1 with h2 | h2
    · cases h2
    · exact .step h2
  · rcases mem_addNew.mp hs with h2 | h2
    · cases h2
    · exact .trans h2 hr

theorem closed_of_closedB {g : CFG} {S : List Nat} (h : closedB g S = true) :
    ∀ x ∈ S, ∀ y ∈ succs g x, y ∈ S := by
  intro x hx y hy
  unfold closedB at h
  rw [List.all_eq_true] at h
  have h1 := h x hx
  rw [List.all_eq_true] at h1
  simpa using h1 y hy

theorem reach_in_closed {g : CFG} {S : List Nat} (hc : ∀ x ∈ S, ∀ y ∈ succs g x, y ∈ S) {x c : Nat}
    (hr : Reach g x c) : x ∈ S → c ∈ S := by
  induction hr with
  | step hb => intro hx; exact hc _ hx _ hb
  | trans hb _ ih => intro hx; exact ih (hc _ hx _ hb)

theorem reachSet_complete {g : CFG} {a b : Nat} (hc : closedB g (reachSet g a) = true) (hr : Reach g a b) :
    b ∈ reachSet g a := by
  have hcl := closed_of_closedB hc
  have hstart : ∀ y ∈ succs g a, y ∈ reachSet g a := by
    intro y hy
    exact subset_closure _ (mem_addNew.mpr (.inr hy))
  cases hr with
  | step hb => exact hstart _ hb
  | trans hb hr' => exact reach_in_closed hcl hr' (hstart _ hb)

/-- the executable answer, when there is one, is the truth -/
theorem reaches_spec {g : CFG} {a b : Nat} {r : Bool} (h : reaches? g a b = some r) : r = true ↔ Reach g a b := by
  unfold reaches? at h
  simp only at h
  split at h
  · rename_i hc
    injection h with h
    subst h
    constructor
    · intro hm
      exact reachSet_sound (by simpa using hm)
    · intro hr
      have := reachSet_complete hc hr
      simpa using this
  · cases h

/-! ### well-formed graphs -/

theorem le_sum_of_mem {l : List Nat} {x : Nat} (h : x ∈ l) : x ≤ l.sum := by
  induction l with
  | nil => cases h
  | cons y ys ih =>
    simp only [List.sum_cons]
    rcases List.mem_cons.mp h with rfl | h1
    · omega
    · have := ih h1; omega

theorem indeg_pos {g : CFG} {x y : Nat} (h : y ∈ succs g x) : 0 < indeg g y := by
  unfold succs at h
  cases hx : g[x]? with
  | none => simp [hx] at h
  | some b =>
    simp only [hx] at h
    have hb : b ∈ g := List.mem_of_getElem? hx
    have hc : 0 < b.succs.count y := List.count_pos_iff.mpr h
    have hm : b.succs.count y ∈ g.map (fun b => b.succs.count y) := List.mem_map.mpr ⟨b, hb, rfl⟩
    have := le_sum_of_mem hm
    unfold indeg
    omega

structure WF (g : CFG) : Prop where
  pos : 0 < g.length
  succ_lt : ∀ x y, y ∈ succs g x → y < g.length
  preds_eq : ∀ i, i < g.length → predsOf g i = indeg g i

theorem wf_of_wellFormed {g : CFG} (h : wellFormed g = true) : WF g := by
  unfold wellFormed at h
  simp only [Bool.and_eq_true, decide_eq_true_eq] at h
  obtain ⟨⟨h1, h2⟩, h3⟩ := h
  refine ⟨h1, ?_, ?_⟩
  · intro x y hy
    unfold succs at hy
    cases hx : g[x]? with
    | none => simp [hx] at hy
    | some b =>
      simp only [hx] at hy
      rw [List.all_eq_true] at h2
      have hb := h2 b (List.mem_of_getElem? hx)
      rw [List.all_eq_true] at hb
      simpa using hb y hy
  · intro i hi
    rw [List.all_eq_true] at h3
    simpa using h3 i (List.mem_range.mpr hi)

/-! ### paths and the meaning of *always* -/

theorem path_tail_has_pred {g : CFG} : ∀ {r : List Nat} {a : Nat}, IsPath g (a :: r) → ∀ x ∈ r, ∃ y, x ∈ succs g y := by
  intro r
  induction r with
  | nil => intro a _ x hx; cases hx
  | cons b r ih =>
    intro a hp x hx
    simp only [IsPath] at hp
    rcases List.mem_cons.mp hx with rfl | hx'
    · exact ⟨a, hp.1⟩
    · exact ih hp.2 x hx'

theorem path_nonlast_has_succ {g : CFG} {l : Nat} : ∀ {pre : List Nat}, IsPath g (pre ++ [l]) → ∀ x ∈ pre, succs g x ≠ [] := by
  intro pre
  induction pre with
  | nil => intro _ x hx; cases hx
  | cons a pre ih =>
    intro hp x hx
    cases pre with
    | nil =>
      simp only [List.cons_append, List.nil_append, IsPath] at hp
      rcases List.mem_cons.mp hx with rfl | hx'
      · intro he; rw [he] at hp; exact absurd hp.1 (List.not_mem_nil)
      · cases hx'
    | cons b pre' =>
      simp only [List.cons_append, IsPath] at hp
      rcases List.mem_cons.mp hx with rfl | hx'
      · intro he; rw [he] at hp; exact absurd hp.1 (List.not_mem_nil)
      · exact ih (by simpa using hp.2) x hx'

/-- every complete execution path visits `b` exactly once -/
def AlwaysOnce (g : CFG) (b : Nat) : Prop := ∀ p, CompletePath g p → p.count b = 1

theorem mem_ends {g : CFG} {l : Nat} (hl : l < g.length) (he : isEnd g l = true) : l ∈ ends g := by
  unfold ends
  exact List.mem_filter.mpr ⟨List.mem_range.mpr hl, he⟩

theorem always_once {g : CFG} (hwf : WF g) {b : Nat} (h : alwaysSpec g b = true) : AlwaysOnce g b := by
  intro p hp
  obtain ⟨pre, l, hpl, hhead, hpath, hlast⟩ := hp
  unfold alwaysSpec at h
  rw [Bool.or_eq_true] at h
  rcases h with h | h
  · -- the entry block, which nothing jumps to
    rw [Bool.and_eq_true] at h
    have hb : b = 0 := by simpa using h.1
    have hp0 : predsOf g 0 = 0 := by simpa using h.2
    subst hb
    cases p with
    | nil => simp at hhead
    | cons a r =>
      have ha : a = 0 := by simpa using hhead
      subst ha
      have hnot : 0 ∉ r := by
        intro hin
        obtain ⟨y, hy⟩ := path_tail_has_pred hpath 0 hin
        have := indeg_pos hy
        rw [← hwf.preds_eq 0 hwf.pos, hp0] at this
        omega
      rw [List.count_cons_self, List.count_eq_zero.mpr hnot]
  · -- the unique exit block
    have hends : ends g = [b] := by simpa using h
    -- the last block of the path is an end block
    have hl_lt_and_end : l < g.length ∧ isEnd g l = true := by
      cases pre with
      | nil =>
        have : l = 0 := by rw [hpl] at hhead; simpa using hhead
        subst this
        refine ⟨hwf.pos, ?_⟩
        unfold isEnd
        simp [hlast]
      | cons a pre' =>
        have hin : l ∈ pre' ++ [l] := by simp
        rw [hpl] at hpath
        obtain ⟨y, hy⟩ := path_tail_has_pred (by simpa using hpath) l hin
        have hlt := hwf.succ_lt _ _ hy
        refine ⟨hlt, ?_⟩
        have hpos := indeg_pos hy
        rw [← hwf.preds_eq l hlt] at hpos
        unfold isEnd
        simp [hlast, hpos]
    have hlb : l = b := by
      have := mem_ends hl_lt_and_end.1 hl_lt_and_end.2
      rw [hends] at this
      simpa using this
    subst hlb
    have hnot : l ∉ pre := by
      intro hin
      rw [hpl] at hpath
      exact path_nonlast_has_succ hpath l hin hlast
    rw [hpl, List.count_append, List.count_eq_zero.mpr hnot]
    simp

/-! ### the validator -/

theorem check_parts {g : CFG} {infos : List Info} (h : checkInfos g infos = true) :
    wellFormed g = true ∧ infos.length = g.length ∧
    (orderOf infos (g.length + 1) 0).isPerm (List.range g.length) = true ∧ kindsOK g infos = true := by
  unfold checkInfos at h
  simp only [Bool.and_eq_true, beq_iff_eq] at h
  exact ⟨h.1.1.1, h.1.1.2, h.1.2, h.2⟩

theorem kinds_of_check {g : CFG} {infos : List Info} (h : kindsOK g infos = true) {b : Nat} (hb : b < g.length) :
    ∃ i k, infos[b]? = some i ∧ specKind? g b = some k ∧ i.kind = k := by
  unfold kindsOK at h
  rw [List.all_eq_true] at h
  have hb' := h b (List.mem_range.mpr hb)
  cases hi : infos[b]? with
  | none => simp [hi] at hb'
  | some i =>
    cases hk : specKind? g b with
    | none => simp [hi, hk] at hb'
    | some k =>
      simp only [hi, hk] at hb'
      exact ⟨i, k, rfl, rfl, by simpa using hb'⟩

theorem specKind_loop {g : CFG} {b : Nat} {k : Kind} (h : specKind? g b = some k) : k = .loop ↔ Reach g b b := by
  unfold specKind? at h
  cases hr : reaches? g b b with
  | none => simp [hr] at h
  | some r =>
    have hs := reaches_spec hr
    cases r with
    | true =>
      simp only [hr] at h
      injection h with h
      subst h
      simpa using hs
    | false =>
      simp only [hr] at h
      injection h with h
      subst h
      have hn : ¬ Reach g b b := by intro hx; have := hs.mpr hx; cases this
      constructor
      · intro hk; split at hk <;> cases hk
      · intro hx; exact absurd hx hn

theorem specKind_always {g : CFG} {b : Nat} (h : specKind? g b = some .always) : alwaysSpec g b = true := by
  unfold specKind? at h
  cases hr : reaches? g b b with
  | none => simp [hr] at h
  | some r =>
    cases r with
    | true => simp [hr] at h
    | false =>
      simp only [hr] at h
      injection h with h
      by_cases ha : alwaysSpec g b = true
      · exact ha
      · simp [ha] at h

end LlgoVerif.Blocks
