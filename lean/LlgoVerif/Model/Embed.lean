import LlgoVerif.Model.Utf8
/-!
Model for C16: `internal/goembed/goembed.go`.

* strings are **byte strings** (`Str = List Nat`, a byte is `< 256`): file names are whatever the OS
  returns, patterns are whatever stands in the source line; `sort.Strings` is byte-wise order;
* the package directory is an inductive file tree (`Node`/`Ents`): regular file with its bytes,
  directory with its entries, symbolic link (carrying the node `os.Stat` would resolve it to),
  dangling link, irregular file (fifo, socket, device);
* `path.Match` is transcribed byte for byte (`scanChunk`, `matchChunk`, `getEsc`) including its
  treatment of UTF-8; `filepath.Glob` is rendered component-wise (see `globTrail`);
* `module.CheckFilePath` is transcribed (`checkFilePath`), with `unicode.IsLetter` given by a range
  table for the blocks listed at `inLetterDomain` (the driver refuses names outside of them);
* `ResolvePatterns`, `CheckPath`, `IsBadName`, `ValidPattern`, `SplitArgs`, `ParseDirective`,
  `ParsePatterns` (one comment line), `BuildFSEntries` mirror goembed.go.

`Cfg.nonDirCheck = false` is the code as it stands; `true` is the code with `fixes/C16-1.diff`
(cmd/go's "in non-directory" test in `CheckPath`).

Not rendered literally (see design/C16.md): the `dirOK` cache of `CheckPath` and the `have`/`pid`
counters of `ResolvePatterns` (any failed test aborts the whole resolution, so a cache hit only
skips tests that passed before; `listCount == 0` is "this pattern listed no file"), and the
package directory's own path (assumed free of glob metacharacters; `pkgDir` is the tree's root).
-/
namespace LlgoVerif.Embed

abbrev Str := List Nat

/-! ## byte-string helpers -/

def lit (cs : List Char) : Str := cs.map Char.toNat

def sDot : Str := [46]
def sDotDot : Str := [46, 46]
def sGoMod : Str := lit ['g', 'o', '.', 'm', 'o', 'd']
def sAll : Str := lit ['a', 'l', 'l', ':']
def sGoEmbed : Str := lit ['g', 'o', ':', 'e', 'm', 'b', 'e', 'd']

/-- byte-wise `a < b` (Go's string comparison) -/
def strLt : Str → Str → Bool
  | [], [] => false
  | [], _ :: _ => true
  | _ :: _, [] => false
  | a :: as, b :: bs => if a < b then true else if b < a then false else strLt as bs

/-- byte-wise `a ≤ b` -/
def strLe (a b : Str) : Bool := !strLt b a

/-- `strings.Split(s, "/")`-like: split at every `sep` byte (always at least one component) -/
def splitOn (sep : Nat) : Str → List Str
  | [] => [[]]
  | c :: rest =>
    if c = sep then [] :: splitOn sep rest
    else match splitOn sep rest with
      | [] => [[c]]            -- unreachable
      | h :: t => (c :: h) :: t

/-- `strings.Join(parts, "/")` -/
def joinSlash : List Str → Str
  | [] => []
  | [a] => a
  | a :: b :: rest => a ++ 47 :: joinSlash (b :: rest)

/-! ## UTF-8 (`unicode/utf8`) -/

/-- `utf8.DecodeRuneInString` on a non-empty string: `(rune, width)` -/
def decodeRune (s : Str) : Nat × Nat := Utf8.nextRune s

def validUtf8Aux : Nat → Str → Bool
  | 0, _ => true
  | _, [] => true
  | fuel+1, b :: rest =>
    let p := decodeRune (b :: rest)
    if b ≥ 0x80 && p.2 = 1 then false else validUtf8Aux fuel ((b :: rest).drop p.2)

/-- `utf8.ValidString` -/
def validUtf8 (s : Str) : Bool := validUtf8Aux s.length s

/-- `for _, r := range s` -/
def runes (s : Str) : List Nat := Utf8.toRunes s

/-! ## `unicode.IsLetter` (table for the blocks the generator uses) and `unicode.IsSpace` -/

def inRanges (r : Nat) : List (Nat × Nat) → Bool
  | [] => false
  | (lo, hi) :: rest => (lo ≤ r && r ≤ hi) || inRanges r rest

/-- the code points for which `isLetter` below is a transcription of Go 1.24's tables -/
def inLetterDomain (r : Nat) : Bool :=
  inRanges r [(0, 0x24F), (0x370, 0x52F), (0x2000, 0x206F), (0x3040, 0x30FF), (0x4E00, 0x9FFF), (0x1F300, 0x1F6FF), (0xFFFD, 0xFFFD)]

def isLetter (r : Nat) : Bool :=
  inRanges r [(0x41, 0x5A), (0x61, 0x7A), (0xAA, 0xAA), (0xB5, 0xB5), (0xBA, 0xBA), (0xC0, 0xD6), (0xD8, 0xF6), (0xF8, 0x24F),
    (0x370, 0x374), (0x376, 0x377), (0x37A, 0x37D), (0x37F, 0x37F), (0x386, 0x386), (0x388, 0x38A), (0x38C, 0x38C),
    (0x38E, 0x3A1), (0x3A3, 0x3F5), (0x3F7, 0x481), (0x48A, 0x52F),
    (0x3041, 0x3096), (0x309D, 0x309F), (0x30A1, 0x30FA), (0x30FC, 0x30FF), (0x4E00, 0x9FFF)]

def isSpaceRune (n : Nat) : Bool :=
  n = 0x20 || (0x09 ≤ n && n ≤ 0x0D) || n = 0x85 || n = 0xA0 || n = 0x1680 ||
  (0x2000 ≤ n && n ≤ 0x200A) || n = 0x2028 || n = 0x2029 || n = 0x202F || n = 0x205F || n = 0x3000

/-! ## `path.Match` -/

def dropStars : Str → Str
  | 42 :: rest => dropStars rest
  | p => p

/-- the `Scan:` loop of `scanChunk`: `(chunk, rest)` -/
def scanChunkAux (inrange : Bool) : Str → Str × Str
  | [] => ([], [])
  | [c] => if c = 42 && !inrange then ([], [c]) else ([c], [])
  | c :: d :: rest =>
    if c = 92 then
      let r := scanChunkAux inrange rest
      (c :: d :: r.1, r.2)
    else if c = 91 then
      let r := scanChunkAux true (d :: rest)
      (c :: r.1, r.2)
    else if c = 93 then
      let r := scanChunkAux false (d :: rest)
      (c :: r.1, r.2)
    else if c = 42 && !inrange then ([], c :: d :: rest)
    else
      let r := scanChunkAux inrange (d :: rest)
      (c :: r.1, r.2)

/-- `scanChunk`: `(star, chunk, rest)` -/
def scanChunk (p : Str) : Bool × Str × Str :=
  let r := scanChunkAux false (dropStars p)
  (p.head? = some 42, r.1, r.2)

/-- `getEsc`: `(rune, nchunk)` or `ErrBadPattern` -/
def getEsc (chunk : Str) : Except Unit (Nat × Str) :=
  match chunk with
  | [] => .error ()
  | c :: rest =>
    if c = 45 || c = 93 then .error () else
    let chunk1 := if c = 92 then rest else c :: rest
    if chunk1.isEmpty then .error () else
    let p := decodeRune chunk1
    let nchunk := chunk1.drop p.2
    if p.1 = Utf8.runeError && p.2 = 1 then .error ()
    else if nchunk.isEmpty then .error ()
    else .ok (p.1, nchunk)

/-- the "parse all ranges" loop: `(match, chunk after the closing bracket)` -/
def classLoop : Nat → Nat → Str → Bool → Nat → Except Unit (Bool × Str)
  | 0, _, _, _, _ => .error ()
  | fuel+1, r, chunk, matched, nrange =>
    match chunk with
    | 93 :: rest => if nrange > 0 then .ok (matched, rest) else .error ()   -- getEsc rejects ']'
    | _ =>
      match getEsc chunk with
      | .error e => .error e
      | .ok (lo, chunk1) =>
        match chunk1 with
        | 45 :: rest =>
          match getEsc rest with
          | .error e => .error e
          | .ok (hi, chunk2) => classLoop fuel r chunk2 (matched || (lo ≤ r && r ≤ hi)) (nrange + 1)
        | _ => classLoop fuel r chunk1 (matched || (lo ≤ r && r ≤ lo)) (nrange + 1)

/-- `matchChunk`: `error` = ErrBadPattern, `ok none` = no match, `ok (some rest)` = match -/
def matchChunkAux : Nat → Bool → Str → Str → Except Unit (Option Str)
  | 0, _, _, _ => .error ()
  | fuel+1, failed0, chunk, s =>
    match chunk with
    | [] => if failed0 then .ok none else .ok (some s)
    | c :: crest =>
      let failed := failed0 || s.isEmpty
      if c = 91 then
        let r := if failed then 0 else (decodeRune s).1
        let s' := if failed then s else s.drop (decodeRune s).2
        let negated := crest.head? = some 94
        let ch := if negated then crest.tail else crest
        match classLoop (ch.length + 1) r ch false 0 with
        | .error e => .error e
        | .ok (m, ch') => matchChunkAux fuel (failed || (m == negated)) ch' s'
      else if c = 63 then
        if failed then matchChunkAux fuel true crest s
        else matchChunkAux fuel (s.head? = some 47) crest (s.drop (decodeRune s).2)
      else if c = 92 then
        match crest with
        | [] => .error ()
        | c2 :: crest2 =>
          if failed then matchChunkAux fuel true crest2 s
          else matchChunkAux fuel (s.head? != some c2) crest2 s.tail
      else
        if failed then matchChunkAux fuel true crest s
        else matchChunkAux fuel (s.head? != some c) crest s.tail

def matchChunk (chunk s : Str) : Except Unit (Option Str) := matchChunkAux (chunk.length + 1) false chunk s

/-- the `for i := 0; i < len(name) && name[i] != '/'; i++` loop (`name[i+1:]` is the tail) -/
def starLoop (chunk : Str) (lastChunk : Bool) : Str → Except Unit (Option Str)
  | [] => .ok none
  | b :: rest =>
    if b = 47 then .ok none else
    match matchChunk chunk rest with
    | .error e => .error e
    | .ok (some t) => if lastChunk && !t.isEmpty then starLoop chunk lastChunk rest else .ok (some t)
    | .ok none => starLoop chunk lastChunk rest

/-- "check that the remainder of the pattern is syntactically valid" -/
def validRest : Nat → Str → Except Unit Unit
  | 0, _ => .ok ()
  | fuel+1, pattern =>
    if pattern.isEmpty then .ok () else
    let sc := scanChunk pattern
    match matchChunk sc.2.1 [] with
    | .error e => .error e
    | .ok _ => validRest fuel sc.2.2

def matchAux : Nat → Str → Str → Except Unit Bool
  | 0, _, _ => .error ()
  | fuel+1, pattern, name =>
    if pattern.isEmpty then .ok name.isEmpty else
    let sc := scanChunk pattern
    let star := sc.1
    let chunk := sc.2.1
    let rest := sc.2.2
    if star && chunk.isEmpty then .ok (!name.contains 47) else
    match matchChunk chunk name with
    | .error e => .error e
    | .ok r =>
      let direct : Option Str := match r with
        | some t => if t.isEmpty || !rest.isEmpty then some t else none
        | none => none
      match direct with
      | some t => matchAux fuel rest t
      | none =>
        match (if star then starLoop chunk rest.isEmpty name else .ok none) with
        | .error e => .error e
        | .ok (some t) => matchAux fuel rest t
        | .ok none =>
          match validRest (rest.length + 1) rest with
          | .error e => .error e
          | .ok _ => .ok false

/-- `path.Match(pattern, name)` -/
def pathMatch (pattern name : Str) : Except Unit Bool := matchAux (pattern.length + 1) pattern name

/-- "`Match` says yes" (an error counts as no) -/
def matchOK (pattern name : Str) : Bool :=
  match pathMatch pattern name with
  | .ok b => b
  | .error _ => false

/-- `_, err := path.Match(pat, ""); err == nil` -/
def globSyntaxOK (pattern : Str) : Bool :=
  match pathMatch pattern [] with
  | .ok _ => true
  | .error _ => false

/-! ## `fs.ValidPath`, `ValidPattern` -/

def validElems : List Str → Bool
  | [] => true
  | e :: rest => !(e.isEmpty || e = sDot || e = sDotDot) && validElems rest

/-- `fs.ValidPath` -/
def validPath (name : Str) : Bool :=
  if !validUtf8 name then false
  else if name = sDot then true
  else validElems (splitOn 47 name)

/-- `ValidPattern` -/
def validPattern (pattern : Str) : Bool := pattern != sDot && validPath pattern

/-! ## `module.CheckFilePath`, `IsBadName` -/

/-- `fileNameOK` -/
def fileNameOK (r : Nat) : Bool :=
  if r < 0x80 then
    (0x30 ≤ r && r ≤ 0x39) || (0x41 ≤ r && r ≤ 0x5A) || (0x61 ≤ r && r ≤ 0x7A) ||
    (lit ['!', '#', '$', '%', '&', '(', ')', '+', ',', '-', '.', '=', '@', '[', ']', '^', '_', '{', '}', '~', ' ']).contains r
  else isLetter r

def toUpperAscii (c : Nat) : Nat := if 0x61 ≤ c && c ≤ 0x7A then c - 32 else c

/-- CON PRN AUX NUL COM1..9 LPT1..9 -/
def badWindowsNames : List Str :=
  [lit ['C', 'O', 'N'], lit ['P', 'R', 'N'], lit ['A', 'U', 'X'], lit ['N', 'U', 'L']] ++
  (List.range 9).map (fun i => lit ['C', 'O', 'M'] ++ [0x31 + i]) ++
  (List.range 9).map (fun i => lit ['L', 'P', 'T'] ++ [0x31 + i])

/-- `short`: up to the first `.` -/
def shortName : Str → Str
  | [] => []
  | c :: rest => if c = 46 then [] else c :: shortName rest

/-- `checkElem(elem, filePath) == nil` -/
def checkElemOK (elem : Str) : Bool :=
  if elem.isEmpty then false
  else if elem.all (· = 46) then false
  else if elem.getLast? = some 46 then false
  else if !(runes elem).all fileNameOK then false
  else if badWindowsNames.contains ((shortName elem).map toUpperAscii) then false
  else true

/-- `module.CheckFilePath(path) == nil` -/
def checkFilePath (path : Str) : Bool :=
  if !validUtf8 path then false
  else if path.isEmpty then false
  else if (splitOn 47 path).length > 1 && (splitOn 47 path).any (·.isEmpty) then false   -- "//", trailing slash, empty element
  else (splitOn 47 path).all checkElemOK

/-- `IsBadName` -/
def isBadName (name : Str) : Bool :=
  if !checkFilePath name then true
  else [[], lit ['.', 'b', 'z', 'r'], lit ['.', 'g', 'i', 't'], lit ['.', 'h', 'g'], lit ['.', 's', 'v', 'n']].contains name

/-! ## the file tree -/

mutual
  inductive Node where
    | file (data : Str)
    | dir (ents : Ents)
    /-- symbolic link; `target` is what the link's own target path denotes (possibly another link) -/
    | link (target : Node)
    | dangling
    | irregular
  inductive Ents where
    | nil
    | cons (name : Str) (node : Node) (rest : Ents)
end

def Ents.toList : Ents → List (Str × Node)
  | .nil => []
  | .cons nm n rest => (nm, n) :: rest.toList

/-- what `os.Stat` sees: links followed -/
def Node.resolve : Node → Option Node
  | .link t => t.resolve
  | .dangling => none
  | n => some n

/-- `os.Stat(p)` succeeds and is a directory: its entries -/
def Node.dirEnts (n : Node) : Option Ents :=
  match n.resolve with
  | some (.dir es) => some es
  | _ => none

/-- `os.Lstat(p).IsDir()` -/
def Node.isDir : Node → Bool
  | .dir _ => true
  | _ => false

/-- `os.Lstat(p).Mode().IsRegular()` -/
def Node.isRegular : Node → Bool
  | .file _ => true
  | _ => false

/-- `_, err := os.Stat(filepath.Join(dir, "go.mod")); err == nil` for the directory entries `es` -/
def entsHaveGoMod (es : Ents) : Bool :=
  es.toList.any fun e => e.1 = sGoMod && e.2.resolve.isSome

/-- the same for a path that was reached (a non-directory has no `go.mod` below it) -/
def Node.hasGoMod (n : Node) : Bool :=
  match n.dirEnts with
  | some es => entsHaveGoMod es
  | none => false

/-! ## `filepath.Glob`

`Glob` splits the pattern at the last separator and recurses on the directory part; a literal
directory part is handed to the OS, a literal whole pattern to `Lstat`; names of a directory are
matched against one component with `Match`.  For a pattern that passed `path.Match(pat, "")` and
`ValidPattern` this is: every path whose elements match the pattern's components one by one,
intermediate elements being resolved with `Stat` (links followed), the last with `Lstat`.  A
component that is not a well-formed pattern on its own (`[a/b]`) makes `Glob` fail before it lists
anything; goembed ignores that error and sees no matches — here such a component matches nothing.

A match is returned as its *trail*: one `(name, Lstat node)` per path element, so that `CheckPath`
can look at every directory on the way. -/
def globTrail (n : Node) : List Str → List (List (Str × Node))
  | [] => [[]]
  | c :: cs =>
    match n.dirEnts with
    | some es => es.toList.flatMap fun e =>
        if matchOK c e.1 then (globTrail e.2 cs).map fun m => (e.1, e.2) :: m else []
    | none => []

/-! ## `filepath.WalkDir` with goembed's callback -/

/-- `cur != m && (IsBadName(name) || ((name[0]=='.' || name[0]=='_') && !all))` -/
def skipName (all : Bool) (name : Str) : Bool :=
  isBadName name || ((name.head? = some 46 || name.head? = some 95) && !all)

mutual
  /-- files delivered below an entry whose name passed the filter: `(relative path, data)` -/
  def walkNode (all : Bool) : Node → List (List Str × Str)
    | .file d => [([], d)]
    | .dir es => if entsHaveGoMod es then [] else walkEnts all es
    | .link _ => []
    | .dangling => []
    | .irregular => []
  def walkEnts (all : Bool) : Ents → List (List Str × Str)
    | .nil => []
    | .cons nm n rest =>
      (if skipName all nm then [] else (walkNode all n).map fun f => (nm :: f.1, f.2)) ++ walkEnts all rest
end

/-! ## `CheckPath` -/

structure Cfg where
  /-- cmd/go's `if dir != file { Lstat(dir) is not a directory → error }`, absent from goembed -/
  nonDirCheck : Bool
deriving DecidableEq, Repr

inductive Err where
  | badPattern | noMatch | diffModule | badName | nonDir | irregular | emptyDir
deriving DecidableEq, Repr

/-- the nodes met on the way to a match, one per path element: `trail root [a,b]` = `[node a, node a/b]` -/
def checkTrail (cfg : Cfg) : List (Str × Node) → Except Err Unit
  | [] => .ok ()
  | (nm, n) :: rest =>
    -- the Go loop runs from the match upwards; every element gets the same tests, the order decides only
    -- which message wins
    match checkTrail cfg rest with
    | .error e => .error e
    | .ok () =>
      if n.hasGoMod then .error .diffModule
      else if cfg.nonDirCheck && !rest.isEmpty && !n.isDir then .error .nonDir
      else if isBadName nm then .error .badName
      else .ok ()

/-! ## `ResolvePatterns` -/

abbrev Seen := List (Str × Str)

/-- `addFile`: `if _, ok := seen[rel]; ok { return }; seen[rel] = data` -/
def addFile (seen : Seen) (rel data : Str) : Seen :=
  if seen.any (·.1 = rel) then seen else seen ++ [(rel, data)]

def addFiles (seen : Seen) : List (Str × Str) → Seen
  | [] => seen
  | f :: rest => addFiles (addFile seen f.1 f.2) rest

/-- one glob match `m` (trail non-empty): the files it delivers, as `(rel, data)` -/
def matchFiles (cfg : Cfg) (all : Bool) (trail : List (Str × Node)) : Except Err (List (Str × Str)) :=
  match checkTrail cfg trail with
  | .error e => .error e
  | .ok () =>
    match trail.getLast? with
    | none => .error .irregular          -- the package directory itself: not reachable, `ValidPattern` rejects
    | some (_, n) =>
      let rel := trail.map (·.1)
      match n with
      | .file d => .ok [(joinSlash rel, d)]
      | .dir es =>
        let fs := if entsHaveGoMod es then [] else walkEnts all es
        if fs.isEmpty then .error .emptyDir
        else .ok (fs.map fun f => (joinSlash (rel ++ f.1), f.2))
      | _ => .error .irregular

def matchesFiles (cfg : Cfg) (all : Bool) : List (List (Str × Node)) → Except Err (List (Str × Str))
  | [] => .ok []
  | t :: rest =>
    match matchFiles cfg all t with
    | .error e => .error e
    | .ok fs =>
      match matchesFiles cfg all rest with
      | .error e => .error e
      | .ok gs => .ok (fs ++ gs)

/-- `all:` prefix: `(all, glob)` -/
def splitAll (pat : Str) : Bool × Str :=
  if sAll.isPrefixOf pat then (true, pat.drop 4) else (false, pat)

/-- body of the `for _, pat = range patterns` loop: the files this pattern lists -/
def patternFiles (cfg : Cfg) (root : Node) (pat : Str) : Except Err (List (Str × Str)) :=
  let all := (splitAll pat).1
  let glob := (splitAll pat).2
  if !globSyntaxOK glob || !validPattern glob then .error .badPattern else
  match matchesFiles cfg all (globTrail root (splitOn 47 glob)) with
  | .error e => .error e
  | .ok fs => if fs.isEmpty then .error .noMatch else .ok fs

def resolveLoop (cfg : Cfg) (root : Node) (seen : Seen) : List Str → Except Err Seen
  | [] => .ok seen
  | pat :: rest =>
    match patternFiles cfg root pat with
    | .error e => .error e
    | .ok fs => resolveLoop cfg root (addFiles seen fs) rest

/-- `sort.Strings(names)` + table lookup -/
def sortSeen (seen : Seen) : Seen := seen.mergeSort fun a b => strLe a.1 b.1

/-- `ResolvePatterns(pkgDir, patterns)` with `pkgDir` = `root` -/
def resolve (cfg : Cfg) (root : Node) (pats : List Str) : Except Err Seen :=
  match resolveLoop cfg root [] pats with
  | .error e => .error e
  | .ok seen => .ok (sortSeen seen)

/-! ## `SplitArgs`, `ParseDirective`, `ParsePatterns` -/

def isBlank (c : Nat) : Bool := c = 32 || c = 9

inductive Mode where
  | between
  | plain (cur : Str)            -- `cur` reversed
  | quoted (q : Nat) (cur : Str)
  | escaped (q : Nat) (cur : Str)

/-- the index loops of `SplitArgs` as one pass: `out` holds the finished fields -/
def splitStep (out : List Str) (m : Mode) (c : Nat) : List Str × Mode :=
  match m with
  | .between =>
    if isBlank c then (out, .between)
    else if c = 34 || c = 96 then (out, .quoted c [c])
    else (out, .plain [c])
  | .plain cur =>
    if isBlank c then (out ++ [cur.reverse], .between) else (out, .plain (c :: cur))
  | .quoted q cur =>
    if c = q then (out ++ [(c :: cur).reverse], .between)
    else if q = 34 && c = 92 then (out, .escaped q (c :: cur))
    else (out, .quoted q (c :: cur))
  | .escaped q cur => (out, .quoted q (c :: cur))

def splitRun (out : List Str) (m : Mode) : Str → List Str × Mode
  | [] => (out, m)
  | c :: rest => splitRun (splitStep out m c).1 (splitStep out m c).2 rest

/-- what is left to do when the input is exhausted -/
def splitFinish : List Str × Mode → Except Unit (List Str)
  | (out, .between) => .ok out
  | (out, .plain cur) => .ok (out ++ [cur.reverse])
  | (_, .quoted _ _) => .error ()
  | (_, .escaped _ _) => .error ()

/-- `SplitArgs`: `.error ()` is "invalid //go:embed quoted pattern" (unterminated quote) -/
def splitArgs (s : Str) : Except Unit (List Str) := splitFinish (splitRun [] .between s)

/-- forward UTF-8 segmentation `(rune, bytes)` for `strings.TrimSpace` -/
def segmentsAux : Nat → Str → List (Nat × Str)
  | 0, _ => []
  | _, [] => []
  | fuel+1, b :: bs =>
    let p := decodeRune (b :: bs)
    (p.1, (b :: bs).take p.2) :: segmentsAux fuel ((b :: bs).drop p.2)

/-- `strings.TrimSpace` -/
def trimSpace (l : Str) : Str :=
  (((((segmentsAux l.length l).dropWhile fun s => isSpaceRune s.1).reverse).dropWhile fun s => isSpaceRune s.1).reverse).flatMap (·.2)

/-- `ParseDirective(line)`: `none` = not a directive, `some args` -/
def parseDirective (line : Str) : Option Str :=
  if !sGoEmbed.isPrefixOf line then none
  else
    match line.drop 8 with
    | [] => some []
    | ch :: rest => if ch != 32 && ch != 9 then none else some (trimSpace (ch :: rest))

/-- result of `strconv.Unquote` as far as it is modelled -/
inductive UQ where
  | ok (s : Str)
  | bad                 -- `Unquote` returns an error
  | unsupported         -- escape sequences other than `\\` and `\"`: not modelled
deriving DecidableEq, Repr

/-- body of a double-quoted literal in `Unquote`'s slow path: only `\\` and `\"` are modelled;
    bytes ≥ 0x80 go through DecodeRune/EncodeRune (invalid bytes become U+FFFD) -/
def unquoteBody : Nat → Str → UQ
  | 0, _ => .bad
  | _, [] => .ok []
  | fuel+1, c :: rest =>
    if c = 34 then .bad                    -- unescaped quote inside
    else if c = 92 then
      match rest with
      | d :: rest' =>
        if d = 92 || d = 34 then
          match unquoteBody fuel rest' with
          | .ok t => .ok (d :: t)
          | r => r
        else .unsupported
      | [] => .bad
    else if c < 0x80 then
      match unquoteBody fuel rest with
      | .ok t => .ok (c :: t)
      | r => r
    else
      let p := decodeRune (c :: rest)
      match unquoteBody fuel ((c :: rest).drop p.2) with
      | .ok t => .ok (Utf8.encodeRune p.1 ++ t)
      | r => r

/-- `strconv.Unquote(f)` -/
def unquote (f : Str) : UQ :=
  match f with
  | [] => .bad
  | [_] => .bad
  | q :: rest =>
    if rest.getLast? != some q then .bad else
    let body := rest.dropLast
    if q = 96 then
      if body.contains 96 then .bad
      else .ok (body.filter (· != 13))
    else if q = 34 then
      if body.contains 10 then .bad
      else if !body.contains 92 && !body.contains 34 && validUtf8 body then .ok body
      else unquoteBody (body.length + 1) body
    else if q = 39 then
      if body.contains 10 then .bad
      else if body.contains 92 then .unsupported
      else if body.contains 39 then .bad
      else
        match body with
        | [] => .ok []                       -- `''` unquotes to the empty string
        | b :: _ =>
          let p := decodeRune body
          if p.2 != body.length then .bad    -- more than one character
          else if b ≥ 0x80 && p.2 = 1 then .ok (Utf8.encodeRune p.1)   -- a lone invalid byte: U+FFFD
          else .ok body
    else .bad

inductive Parsed where
  | noDirective
  | err
  | unsupported
  | pats (ps : List Str)
deriving DecidableEq, Repr

/-- one field of `ParsePatterns`: unquoted if `strconv.Unquote` accepts it, an error if it looks
    quoted but is not, else taken as it stands -/
def unquoteField (f : Str) : Parsed :=
  match unquote f with
  | .ok uq => .pats [uq]
  | .unsupported => .unsupported
  | .bad => if f.head? = some 34 || f.head? = some 96 then .err else .pats [f]

def unquoteFields : List Str → Parsed
  | [] => .pats []
  | f :: rest =>
    match unquoteField f with
    | .pats a =>
      match unquoteFields rest with
      | .pats b => .pats (a ++ b)
      | r => r
    | r => r

def sSlashSlash : Str := [47, 47]

/-- `ParsePatterns` for a comment group consisting of the one comment `text` -/
def parseLine (text : Str) : Parsed :=
  let line := trimSpace (if sSlashSlash.isPrefixOf text then text.drop 2 else text)
  match parseDirective line with
  | none => .noDirective
  | some args =>
    if args.isEmpty then .err else
    match splitArgs args with
    | .error _ => .err
    | .ok fields => unquoteFields fields

/-! ## `BuildFSEntries` -/

/-- index-free `strings.LastIndexByte(s, '/')`: `(before, after)` of the last slash -/
def splitLastSlash (s : Str) : Option (Str × Str) :=
  match (splitOn 47 s).reverse with
  | [] => none
  | [_] => none
  | last :: revInit => some (joinSlash revInit.reverse, last)

/-- `path.Dir(name)` for a clean relative slash path (`a/b/c`: no empty, `.` or `..` element) -/
def pathDir (s : Str) : Str :=
  match splitLastSlash s with
  | none => sDot
  | some (d, _) => d

/-- names for which `pathDir` is `path.Dir` -/
def cleanRel (s : Str) : Bool := validElems (splitOn 47 s)

/-- proper non-empty prefixes of an element list, longest first -/
def dirPrefixes (cs : List Str) : List (List Str) :=
  (List.range (cs.length - 1)).reverse.map fun k => cs.take (k + 1)

/-- the `for dir := path.Dir(name); dir != "." && dir != "/"; dir = path.Dir(dir)` loop: for a clean
    relative name `path.Dir` drops the last element, so the loop visits the proper prefixes of the
    element list, longest first; each is entered with a trailing slash -/
def parentDirs (name : Str) : List Str :=
  (dirPrefixes (splitOn 47 name)).map fun p => joinSlash p ++ [47]

/-- `entries[k] = v` on an association list (insertion order kept, value overwritten) -/
def mapSet (m : Seen) (k v : Str) : Seen :=
  if m.any (·.1 = k) then m.map fun e => if e.1 = k then (k, v) else e else m ++ [(k, v)]

def addEntry (m : Seen) (f : Str × Str) : Seen :=
  (parentDirs f.1).foldl (fun m d => mapSet m d []) (mapSet m f.1 f.2)

/-- `embedSplit` -/
def embedSplit (name : Str) : Str × Str :=
  let n := if name.getLast? = some 47 then name.dropLast else name
  match splitLastSlash n with
  | some (d, e) => (d, e)
  | none => (sDot, n)

/-- the `less` of `sort.Slice` -/
def entryLt (a b : Str) : Bool :=
  let x := embedSplit a
  let y := embedSplit b
  if x.1 != y.1 then strLt x.1 y.1 else strLt x.2 y.2

/-- `BuildFSEntries` (map iteration order does not matter when no two keys compare equal) -/
def buildFSEntries (files : Seen) : Seen :=
  (files.foldl addEntry []).mergeSort fun a b => !entryLt b.1 a.1

end LlgoVerif.Embed
