// C15 harness: runs the REAL ssa/abi descriptor-content functions (Str, TFlag, Kind, the naming used for method and
// field tables) on go/types values obtained by type-checking generated multi-package source.
//
// usage: harness.bin job.json     (job = {"packages":[{"path":..,"src":..}, …], "compiling": "<path of the package whose descriptors are emitted>"})
//
// For every variable V<i>:
//
//	desc <i> <hex symbol> <hex Str_> <hex String()> <kind> <named><extrastar><variadic><closure> <uncommon 0/1> <hex pkgpath> <xcount>
//	     M: (hexname hexftypesym)… | F: (hexname hextag emb hextypesym)… | IM: (hexname hexftypesym)… | <term>
//
// and once per package / named declaration met:
//
//	pkg <hex path> <hex name>
//	under <decl> | <term of the underlying type>
//
// The method / field tables are laid out the way ssa/abitype.go lays them out (abiUncommonMethodSet, abiUncommonMethods,
// abiInterfaceImethods, abiStructFields: three lines each, re-stated here; the IR read-back of the check ties the real ones).
package main

import (
	"encoding/hex"
	"encoding/json"
	"fmt"
	"go/ast"
	"go/parser"
	"go/token"
	"go/types"
	"os"
	"regexp"
	"sort"
	"strconv"
	"strings"

	rabi "github.com/goplus/llgo/runtime/abi"
	"github.com/goplus/llgo/ssa/abi"
)

type jobPkg struct {
	Path string `json:"path"`
	Src  string `json:"src"`
}
type job struct {
	Packages []jobPkg `json:"packages"`
}

type imp struct{ pkgs map[string]*types.Package }

func (i imp) Import(p string) (*types.Package, error) {
	if q, ok := i.pkgs[p]; ok {
		return q, nil
	}
	if p == "unsafe" {
		return types.Unsafe, nil
	}
	return nil, fmt.Errorf("unknown package %q", p)
}

func hx(s string) string {
	if s == "" {
		return "-"
	}
	return hex.EncodeToString([]byte(s))
}

type ser struct {
	decls map[*types.TypeName]int
}

func (s *ser) declID(o *types.TypeName) int {
	if id, ok := s.decls[o]; ok {
		return id
	}
	id := len(s.decls) + 1
	s.decls[o] = id
	return id
}

// scope of a type declaration as the model wants it: g | s:i.j.k (innermost first) | p:pos
func scopeTerm(obj types.Object) string {
	pkg := obj.Pkg()
	if pkg == nil || obj.Parent() == pkg.Scope() || obj.Parent() == nil && false {
		return "g"
	}
	var idx []string
	sc := obj.Parent()
	root := pkg.Scope()
	for sc != nil {
		parent := sc.Parent()
		if parent == nil {
			break
		}
		for i := 0; i < parent.NumChildren(); i++ {
			if parent.Child(i) == sc {
				idx = append(idx, strconv.Itoa(i))
				break
			}
		}
		if parent == root {
			return "s:" + strings.Join(idx, ".")
		}
		sc = parent
	}
	return "p:" + strconv.Itoa(int(obj.Pos()))
}

func (s *ser) term(t types.Type) string {
	switch t := t.(type) {
	case *types.Basic:
		return "B " + t.String()
	case *types.Pointer:
		return "P " + s.term(t.Elem())
	case *types.Slice:
		return "S " + s.term(t.Elem())
	case *types.Array:
		return "A " + strconv.FormatInt(t.Len(), 10) + " " + s.term(t.Elem())
	case *types.Map:
		return "M " + s.term(t.Key()) + " " + s.term(t.Elem())
	case *types.Chan:
		d := map[types.ChanDir]string{types.SendRecv: "0", types.SendOnly: "1", types.RecvOnly: "2"}[t.Dir()]
		return "C " + d + " " + s.term(t.Elem())
	case *types.Signature:
		v := "0"
		if t.Variadic() {
			v = "1"
		}
		parts := []string{"F", v, strconv.Itoa(t.Params().Len()), strconv.Itoa(t.Results().Len())}
		for i := 0; i < t.Params().Len(); i++ {
			parts = append(parts, s.term(t.Params().At(i).Type()))
		}
		for i := 0; i < t.Results().Len(); i++ {
			parts = append(parts, s.term(t.Results().At(i).Type()))
		}
		return strings.Join(parts, " ")
	case *types.Struct:
		parts := []string{"T", strconv.Itoa(t.NumFields())}
		for i := 0; i < t.NumFields(); i++ {
			f := t.Field(i)
			pkg := "~"
			if !f.Exported() && f.Pkg() != nil {
				pkg = hx(f.Pkg().Path())
			}
			e := "0"
			if f.Embedded() {
				e = "1"
			}
			parts = append(parts, hx(f.Name()), pkg, e, hx(t.Tag(i)), s.term(f.Type()))
		}
		return strings.Join(parts, " ")
	case *types.Interface:
		return s.methodsTerm(ifaceMethods(t))
	case *types.Named:
		o := t.Obj()
		pkg := "~"
		if o.Pkg() != nil {
			pkg = hx(o.Pkg().Path())
		}
		parts := []string{"N", strconv.Itoa(s.declID(t.Origin().Obj())), pkg, hx(o.Name()), scopeTerm(o)}
		n := 0
		if ta := t.TypeArgs(); ta != nil {
			n = ta.Len()
		}
		parts = append(parts, strconv.Itoa(n))
		for i := 0; i < n; i++ {
			parts = append(parts, s.term(t.TypeArgs().At(i)))
		}
		return strings.Join(parts, " ")
	case *types.Alias:
		return "L " + hx(t.Obj().Name()) + " " + s.term(t.Rhs())
	}
	panic(fmt.Sprintf("term: unsupported %T %v", t, t))
}

type meth struct {
	name string
	pkg  *types.Package
	exp  bool
	sig  *types.Signature
}

func ifaceMethods(t *types.Interface) []meth {
	var ms []meth
	for i := 0; i < t.NumMethods(); i++ {
		m := t.Method(i)
		ms = append(ms, meth{m.Name(), m.Pkg(), m.Exported(), m.Type().(*types.Signature)})
	}
	return ms
}

func msetMethods(t types.Type) []meth {
	var ms []meth
	set := types.NewMethodSet(t)
	for i := 0; i < set.Len(); i++ {
		o := set.At(i).Obj().(*types.Func)
		ms = append(ms, meth{o.Name(), o.Pkg(), o.Exported(), set.At(i).Type().(*types.Signature)})
	}
	return ms
}

func (s *ser) methodsTerm(ms []meth) string {
	parts := []string{"I", strconv.Itoa(len(ms))}
	for _, m := range ms {
		pkg := "~"
		if !m.exp && m.pkg != nil {
			pkg = hx(m.pkg.Path())
		}
		parts = append(parts, hx(m.name), pkg, s.term(m.sig))
	}
	return strings.Join(parts, " ")
}

var varRe = regexp.MustCompile(`^V(\d+)$`)

func b01(b bool) string {
	if b {
		return "1"
	}
	return "0"
}

// funcByValue: does a value of the type hold a func value directly (field, array element, the type itself)?  llgo represents
// a func value by two words (closure), so Size_/Align_ of such types in the EMITTED descriptors legitimately differ from gc's.
func funcByValue(t types.Type, depth int) bool {
	if depth > 50 {
		return false
	}
	switch t := types.Unalias(t).(type) {
	case *types.Signature:
		return true
	case *types.Named:
		return funcByValue(t.Underlying(), depth+1)
	case *types.Array:
		return funcByValue(t.Elem(), depth+1)
	case *types.Struct:
		for i := 0; i < t.NumFields(); i++ {
			if funcByValue(t.Field(i).Type(), depth+1) {
				return true
			}
		}
	}
	return false
}

// toRaw re-states llgo's lowering of func VALUES to closure structs (ssa/type_cvt.go cvtType/cvtClosure): it is used ONLY to
// find the symbol under which a struct with func-typed fields is emitted; keepTags=false drops every tag of a struct that had
// a field converted, as cvtStruct does on the pinned tree.  A wrong re-statement makes the symbol unfindable, never a finding.
func toRaw(t types.Type, keepTags bool, depth int) (types.Type, bool) {
	if depth > 40 {
		return t, false
	}
	switch t := t.(type) {
	case *types.Signature:
		conv := func(tu *types.Tuple) *types.Tuple {
			vs := make([]*types.Var, tu.Len())
			for i := range vs {
				r, _ := toRaw(tu.At(i).Type(), keepTags, depth+1)
				vs[i] = types.NewParam(token.NoPos, nil, "", r)
			}
			return types.NewTuple(vs...)
		}
		sig := types.NewSignatureType(nil, nil, nil, conv(t.Params()), conv(t.Results()), t.Variadic())
		return types.NewStruct([]*types.Var{
			types.NewField(token.NoPos, nil, "$f", sig, false),
			types.NewField(token.NoPos, nil, "$data", types.Typ[types.UnsafePointer], false)}, nil), true
	case *types.Pointer:
		if r, c := toRaw(t.Elem(), keepTags, depth+1); c {
			return types.NewPointer(r), true
		}
	case *types.Slice:
		if r, c := toRaw(t.Elem(), keepTags, depth+1); c {
			return types.NewSlice(r), true
		}
	case *types.Array:
		if r, c := toRaw(t.Elem(), keepTags, depth+1); c {
			return types.NewArray(r, t.Len()), true
		}
	case *types.Chan:
		if r, c := toRaw(t.Elem(), keepTags, depth+1); c {
			return types.NewChan(t.Dir(), r), true
		}
	case *types.Map:
		k, c1 := toRaw(t.Key(), keepTags, depth+1)
		e, c2 := toRaw(t.Elem(), keepTags, depth+1)
		if c1 || c2 {
			return types.NewMap(k, e), true
		}
	case *types.Struct:
		n := t.NumFields()
		flds := make([]*types.Var, n)
		tags := make([]string, n)
		cvt := false
		for i := 0; i < n; i++ {
			f := t.Field(i)
			tags[i] = t.Tag(i)
			if r, c := toRaw(f.Type(), keepTags, depth+1); c {
				f = types.NewField(f.Pos(), f.Pkg(), f.Name(), r, f.Anonymous())
				cvt = true
			}
			flds[i] = f
		}
		if cvt {
			if !keepTags {
				tags = nil
			}
			return types.NewStruct(flds, tags), true
		}
	}
	return t, false
}

// abiUncommonMethodSet
func uncommonMethodSet(t types.Type) (ms []meth, ok bool) {
	switch t := types.Unalias(t).(type) {
	case *types.Named:
		if _, isIface := t.Underlying().(*types.Interface); isIface {
			return nil, false
		}
		return msetMethods(t), true
	case *types.Struct, *types.Pointer:
		if m := msetMethods(t); len(m) != 0 {
			return m, true
		}
	}
	return nil, false
}

// abiUncommonPkg (second result)
func uncommonPkgPath(t types.Type, compiling string) string {
	for {
		switch typ := types.Unalias(t).(type) {
		case *types.Pointer:
			t = typ.Elem()
			continue
		case *types.Named:
			return abi.PathOf(typ.Obj().Pkg())
		}
		return compiling
	}
}

func emitted(m meth) string {
	if !token.IsExported(m.name) {
		return abi.FullName(m.pkg, m.name)
	}
	return m.name
}

type collector struct {
	s      *ser
	pkgs   map[string]string
	unders map[int]string
	order  []int
}

func (c *collector) walk(t types.Type, depth int) {
	if depth > 60 {
		return
	}
	switch t := t.(type) {
	case *types.Named:
		if p := t.Obj().Pkg(); p != nil {
			c.pkgs[p.Path()] = p.Name()
		}
		id := c.s.declID(t.Origin().Obj())
		if _, ok := c.unders[id]; !ok {
			c.unders[id] = ""
			c.order = append(c.order, id)
			c.unders[id] = c.s.term(t.Underlying())
			c.walk(t.Underlying(), depth+1)
		}
		for i := 0; i < t.TypeArgs().Len(); i++ {
			c.walk(t.TypeArgs().At(i), depth+1)
		}
	case *types.Alias:
		c.walk(t.Rhs(), depth+1)
	case *types.Pointer:
		c.walk(t.Elem(), depth+1)
	case *types.Slice:
		c.walk(t.Elem(), depth+1)
	case *types.Array:
		c.walk(t.Elem(), depth+1)
	case *types.Chan:
		c.walk(t.Elem(), depth+1)
	case *types.Map:
		c.walk(t.Key(), depth+1)
		c.walk(t.Elem(), depth+1)
	case *types.Signature:
		for i := 0; i < t.Params().Len(); i++ {
			c.walk(t.Params().At(i).Type(), depth+1)
		}
		for i := 0; i < t.Results().Len(); i++ {
			c.walk(t.Results().At(i).Type(), depth+1)
		}
	case *types.Struct:
		for i := 0; i < t.NumFields(); i++ {
			if p := t.Field(i).Pkg(); p != nil {
				c.pkgs[p.Path()] = p.Name()
			}
			c.walk(t.Field(i).Type(), depth+1)
		}
	case *types.Interface:
		for i := 0; i < t.NumMethods(); i++ {
			if p := t.Method(i).Pkg(); p != nil {
				c.pkgs[p.Path()] = p.Name()
			}
			c.walk(t.Method(i).Type(), depth+1)
		}
	}
}

func main() {
	data, err := os.ReadFile(os.Args[1])
	if err != nil {
		panic(err)
	}
	var jb struct {
		Packages  []jobPkg `json:"packages"`
		Compiling string   `json:"compiling"`
	}
	if err := json.Unmarshal(data, &jb); err != nil {
		panic(err)
	}
	fset := token.NewFileSet()
	im := imp{map[string]*types.Package{}}
	vars := map[int]types.Type{}
	for _, p := range jb.Packages {
		f, err := parser.ParseFile(fset, p.Path+"/x.go", p.Src, 0)
		if err != nil {
			fmt.Println("error parse", p.Path, err)
			os.Exit(2)
		}
		info := &types.Info{Defs: map[*ast.Ident]types.Object{}}
		conf := types.Config{Importer: im}
		pkg, err := conf.Check(p.Path, fset, []*ast.File{f}, info)
		if err != nil {
			fmt.Println("error check", p.Path, err)
			os.Exit(2)
		}
		im.pkgs[p.Path] = pkg
		for id, obj := range info.Defs {
			if v, ok := obj.(*types.Var); ok {
				if m := varRe.FindStringSubmatch(id.Name); m != nil {
					n, _ := strconv.Atoi(m[1])
					vars[n] = v.Type()
				}
			}
		}
	}
	b := abi.New(8, types.SizesFor("gc", "amd64"))
	s := &ser{map[*types.TypeName]int{}}
	col := &collector{s: s, pkgs: map[string]string{}, unders: map[int]string{}}
	var idx []int
	for i := range vars {
		idx = append(idx, i)
	}
	sort.Ints(idx)
	w := os.Stdout
	for _, i := range idx {
		t := vars[i]
		col.walk(t, 0)
		sym, _ := b.TypeName(t)
		str := b.Str(t)
		fl := b.TFlag(t)
		full := str
		if fl&rabi.TFlagExtraStar != 0 {
			full = "*" + str
		}
		flags := b01(fl&rabi.TFlagNamed != 0) + b01(fl&rabi.TFlagExtraStar != 0) + b01(fl&rabi.TFlagVariadic != 0) + b01(fl&rabi.TFlagClosure != 0)
		ms, unc := uncommonMethodSet(t)
		x := 0
		var mparts []string
		for _, m := range ms {
			if ast.IsExported(m.name) {
				x++
			}
			mparts = append(mparts, hx(emitted(m)), hx(b.FuncName(m.sig)))
		}
		var fparts, iparts []string
		if st, ok := t.Underlying().(*types.Struct); ok {
			for k := 0; k < st.NumFields(); k++ {
				f := st.Field(k)
				fn, _ := b.TypeName(abi.PublicType(f.Type()))
				fparts = append(fparts, hx(f.Name()), hx(st.Tag(k)), b01(f.Embedded()), hx(fn))
			}
		}
		if it, ok := t.Underlying().(*types.Interface); ok {
			for _, m := range ifaceMethods(it) {
				iparts = append(iparts, hx(emitted(m)), hx(b.FuncName(m.sig)))
			}
		}
		pkgpath := ""
		if unc {
			pkgpath = uncommonPkgPath(t, jb.Compiling)
		}
		// an unnamed struct with tags and a func-typed field: the two candidate symbols of its lowered form
		rawsyms := "-"
		if st, ok := t.(*types.Struct); ok {
			hasTag := false
			for k := 0; k < st.NumFields(); k++ {
				hasTag = hasTag || st.Tag(k) != ""
			}
			if r1, c := toRaw(st, true, 0); c && hasTag {
				r2, _ := toRaw(st, false, 0)
				n1, _ := b.TypeName(r1)
				n2, _ := b.TypeName(r2)
				rawsyms = hx(n1) + "," + hx(n2)
			}
		}
		layout := fmt.Sprintf("%s,%d,%d,%d,%s", b01(b.EqualName(t) != ""), b.Align(t), b.FieldAlign(t), b.Size(t), b01(funcByValue(t, 0)))
		fmt.Fprintf(w, "desc %d %s %s %s %d %s %s %s %d %s R:%s M: %s | F: %s | IM: %s | %s | %s\n", i, hx(sym), hx(str), hx(full), uint(b.Kind(t)), flags,
			b01(unc), hx(pkgpath), x, layout, rawsyms, strings.Join(mparts, " "), strings.Join(fparts, " "), strings.Join(iparts, " "), s.term(t), s.methodsTerm(ms))
	}
	var paths []string
	for p := range col.pkgs {
		paths = append(paths, p)
	}
	sort.Strings(paths)
	for _, p := range paths {
		fmt.Fprintf(w, "pkg %s %s\n", hx(p), hx(col.pkgs[p]))
	}
	for _, id := range col.order {
		fmt.Fprintf(w, "under %d | %s\n", id, col.unders[id])
	}
}
