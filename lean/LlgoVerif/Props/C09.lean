import LlgoVerif.Lemmas.CAbiLayout
import LlgoVerif.Lemmas.CAbiCall
import LlgoVerif.Lemmas.CgoStr
/-!
# C09 — values cross the Go/C boundary intact (x86-64)

Property theorems only.  Model: `LlgoVerif/Model/CAbi.lean` (`internal/cabi` `TypeInfoAmd64.GetTypeInfo` — as it is
now, `Cfg.repaired`, and as it was before the nested-padding fix, `Cfg.legacy` —, `transformFuncType`, the scalar
calling convention, the C-string helpers); specification: `LlgoVerif/Spec/SysV.lean` (psABI classification, register
image, sequential register assignment); lemmas: `LlgoVerif/Lemmas/CAbi.lean`, `LlgoVerif/Lemmas/CAbiLayout.lean`.
-/
namespace LlgoVerif.CAbi
open LlgoVerif.SysV LlgoVerif.CAbiCall LlgoVerif.CgoStr

/-! ## Classification of one aggregate -/

/-- **Classification soundness of the current code, for EVERY type of the universe** — structs of any number of
    fields, any nesting, arrays of structs, any padding (only zero-length arrays are excluded, `wf`): the pass kind
    llgo chooses carries every byte of the object in the register class the psABI assigns: same mode (memory for
    > 16 bytes, registers otherwise), same number of registers, register `k` has the class of eightbyte `k` and is
    loaded from object offset `8k`, no register is wider than an eightbyte, and every scalar leaf lies inside the
    bytes its register carries.  Both for parameters and results.
    (`goodView_of_wf`: mutual induction over the type with the layout cursor as invariant — aligned, disjoint, in
    order, no padding run covers a multiple of 8; `getTypeInfo_sound_good`: the classifier on such layouts.) -/
theorem amd64_classify_sound_repaired (t : CType) (h : t.wf = true) (isRet : Bool) :
    Sound (classify t isRet) t.view :=
  classifyV_sound_good t.view (goodView_of_wf t h) isRet

/-- in particular every flat struct — any list of scalar fields -/
theorem amd64_classify_sound_flat (fs : List Scalar) (isRet : Bool) :
    Sound (classify (.struct (fs.map .sc)) isRet) (CType.struct (fs.map .sc)).view :=
  amd64_classify_sound_repaired _ (wf_flat fs) isRet

/-- the statement for ALL value types of the universe, per configuration -/
def Amd64ClassifySoundFull (c : Cfg) : Prop := ∀ t : CType, t.wf = true → Sound (classifyC c t.view false) t.view

/-- true for the code as it is now -/
theorem amd64_classify_sound_full : Amd64ClassifySoundFull .repaired :=
  fun t h => amd64_classify_sound_repaired t h false

/-- false for the code before the fix: `struct { int8 a,b,c,d,e; struct { int8 x; int32 y; } i; }` (16 bytes; `i.x` at
    8, `i.y` at 12): the legacy split loop runs on the flattened list with a running offset that ignores the padding
    before the nested struct, the second half becomes `i32` loaded from byte 8, and `i.y` never crosses the boundary. -/
theorem amd64_classify_counterexample : ¬ Amd64ClassifySoundFull .legacy := by
  intro h
  exact absurd (h (.struct [.sc .i8, .sc .i8, .sc .i8, .sc .i8, .sc .i8, .struct [.sc .i8, .sc .i32]]) (by decide)) (by decide)

/-- (legacy) `struct { int8 x; struct { int8 a; int32 b; } i; }`: the second half was the integer type of width 0,
    which LLVM cannot generate code for -/
theorem amd64_classify_illformed :
    (classifyLegacy (.struct [.sc .i8, .struct [.sc .i8, .sc .i32]]) false).wellFormed = false := by decide

/-- (legacy) sound on every type whose flattened scalar list, laid out naturally, reproduces its real layout
    (induction over the flattened field list with the running-offset invariant of the old split loop) -/
theorem amd64_classify_sound_legacy (t : CType) (h : t.view.natural) (isRet : Bool) :
    Sound (classifyLegacy t isRet) t.view :=
  classifyV_sound t.view h isRet

/-- the fix changed no classification of a naturally laid out shape (in particular of any flat struct) -/
theorem amd64_repair_conservative (t : CType) (h : t.view.natural) (isRet : Bool) :
    classify t isRet = classifyLegacy t isRet :=
  classifyFixedV_eq_natural t.view h isRet

example : (CType.struct [.sc .f32, .array 3 (.sc .i16), .struct [.sc .i16], .sc .f32]).view.natural := by decide
example : ¬ (CType.struct [.sc .i8, .struct [.sc .i8, .sc .i32]]).view.natural := by decide
example : (CType.struct [.sc .i8, .array 2 (.struct [.sc .i16, .sc .i8]), .struct [.struct [], .sc .f32]]).wf = true := by decide

/-- objects of more than 16 bytes with ≥ 2 leaves go to memory (byval / sret) on both sides, whatever their nesting -/
theorem amd64_large_memory (t : CType) (h16 : 16 < t.size) (hn : 2 ≤ t.flatten.length) (isRet : Bool) :
    classify t isRet = .memory ∧ classifyAgg t.size t.elems = .memory := by
  constructor
  · unfold classify classifyV
    have h0 : t.view.size ≠ 0 := by show t.size ≠ 0; omega
    rw [if_neg h0]
    unfold getTypeInfo
    rw [if_pos (show t.view.types.length ≥ 2 from hn), if_pos (show t.view.size > 16 from h16)]
  · unfold classifyAgg
    rw [if_neg (by omega), if_pos h16]

/-! ## Placement of a whole parameter list (current code) -/

def sigWf (sig : Sig) : Prop := (∀ t ∈ sig.ret, t.wf = true) ∧ ∀ t ∈ sig.params, t.wf = true

instance (sig : Sig) : Decidable (sigWf sig) := by unfold sigWf; infer_instance

/-- **Placement soundness, full statement**: llgo's per-parameter classification followed by the x86-64
    convention for the resulting scalar list puts every eightbyte of every argument (and the result) where the
    psABI's sequential assignment puts it.  FALSE on the current tree. -/
def amd64_placement_sound : Prop := ∀ sig : Sig, sigWf sig → implPlace sig = place sig

/-- six `int64` then `struct { double d; int8 b; }`: the psABI passes the struct in memory as a whole (no
    INTEGER register is left for its second eightbyte); llgo passes `d` in XMM0 and `b` on the stack. -/
theorem amd64_placement_counterexample : ¬ amd64_placement_sound := by
  intro h
  exact absurd (h ⟨none, [.sc .i64, .sc .i64, .sc .i64, .sc .i64, .sc .i64, .sc .i64,
    .struct [.sc .f64, .sc .i8]]⟩ (by decide)) (by decide)

/-- **Placement, sharp form**: equal placement whenever no argument is *split* (all its eightbytes get
    registers, or none of them could) — for every signature over the universe. -/
theorem amd64_placement_nosplit (sig : Sig) (hn : sigWf sig) (h : noSplit sig = true) :
    implPlace sig = place sig := by
  have hret : implRetC classifyV (sig.ret.map CType.view) = placeRet (sig.ret.map CType.view) := by
    apply implRet_eq
    intro v hv
    simp only [Option.mem_def, Option.map_eq_some_iff] at hv
    obtain ⟨t, ht, rfl⟩ := hv
    exact clsOK_good _ (goodView_of_wf t (hn.1 t ht))
  unfold implPlace implPlaceC place placeV
  rw [hret]
  congr 1
  apply placeArgs_eq
  · constructor
    · simp only; split <;> omega
    · simp
  · intro v hv
    simp only [List.mem_map] at hv
    obtain ⟨t, ht, rfl⟩ := hv
    exact clsOK_good _ (goodView_of_wf t (hn.2 t ht))
  · exact h

/-- **Placement, partial**: under `fitsInRegs sig` — every aggregate that the psABI passes in registers still
    finds all the registers its eightbytes need — the placements agree. -/
theorem amd64_placement_partial (sig : Sig) (hn : sigWf sig) (h : fitsInRegs sig = true) :
    implPlace sig = place sig := by
  apply amd64_placement_nosplit sig hn
  unfold noSplit
  unfold fitsInRegs at h
  apply fitsArgs_noSplit
  · constructor
    · simp only; split <;> omega
    · simp
  · intro v hv
    simp only [List.mem_map] at hv
    obtain ⟨t, ht, rfl⟩ := hv
    exact (clsOK_good _ (goodView_of_wf t (hn.2 t ht))).few
  · exact h

/-- the hypotheses are satisfiable by a non-trivial signature: a 24-byte result (sret), scalars of both classes,
    a mixed two-eightbyte struct, a nested struct with padding, a three-float struct and a large struct -/
example :
    let sig : Sig := ⟨some (.struct [.sc .i64, .sc .i64, .sc .i64]),
      [.sc .i32, .struct [.sc .f64, .sc .i8], .sc .f32, .struct [.sc .i8, .struct [.sc .i8, .sc .i32]],
       .struct [.sc .f32, .sc .f32, .sc .f32], .struct [.sc .i64, .sc .i64, .sc .i64], .sc .ptr]⟩
    sigWf sig ∧ fitsInRegs sig = true := by decide

/-- not every register-exhausted signature is affected: both eightbytes INTEGER and no INTEGER register left -/
example :
    let sig : Sig := ⟨none, [.sc .i64, .sc .i64, .sc .i64, .sc .i64, .sc .i64, .sc .i64,
      .struct [.sc .i64, .sc .i64]]⟩
    fitsInRegs sig = false ∧ noSplit sig = true ∧ implPlace sig = place sig := by decide

/-! ## arm64 (model and specification only: nothing executes on the host) -/

/-- **arm64 classification soundness**: for every type of the universe `TypeInfoArm64.GetTypeInfo` chooses what
    AAPCS64 prescribes — a homogeneous floating-point aggregate of 1–4 members stays an aggregate of floats (SIMD
    registers), two pointer/`i64` leaves stay two general registers, any other composite of ≤ 16 bytes becomes
    `i64` / `[2 x i64]` (results ≤ 8 bytes: the integer of the object's width), and anything larger is passed
    through a pointer (results: `sret`, i.e. `x8`). -/
theorem arm64_classify_sound (t : CType) (h : t.wf = true) (isRet : Bool) :
    AAPCS64.Sound (classifyArm64 t isRet) t.view := by
  cases t with
  | sc s => exact arm64_sound_scalar s isRet
  | struct fs => exact arm64_sound_good _ (goodView_of_wf _ h) isRet
  | array n e => exact arm64_sound_good _ (goodView_of_wf _ h) isRet

example : classifyArm64 (.struct [.sc .f32, .array 2 (.sc .f32)]) false = .direct ∧
    classifyArm64 (.struct [.sc .f64, .sc .i8]) false = .coerceI64x2 ∧
    classifyArm64 (.struct [.sc .i8, .struct [.sc .i8, .sc .i32]]) true = .coerceI64x2 ∧
    classifyArm64 (.struct [.sc .i16, .sc .i8]) true = .coerceInt 4 := by decide

/-! ## C strings -/

/-- **C-string round trip.** Copying a Go string into any (dirty) memory region that has room for it plus
    the terminator (`CStrCopy`, used by `AllocaCStr`, `AllocCStr`, `CString`) and reading it back with
    `StringFromCStr` (`strlen` + copy) yields the original bytes, provided the string contains no NUL byte;
    the write stays inside `[dest, dest+len]`. -/
theorem cstr_roundtrip (m : Mem) (dest : Nat) (s : List UInt8)
    (hroom : dest + s.length + 1 ≤ m.length) (hnul : (0 : UInt8) ∉ s) :
    ∃ m', cstrCopy m dest s = some m' ∧ stringFromCStr m' dest = some s ∧
      m'.length = m.length ∧ m'.take dest = m.take dest ∧
      m'.drop (dest + s.length + 1) = m.drop (dest + s.length + 1) := by
  have hA : (m.take dest).length = dest := by simp [List.length_take]; omega
  have hAB : (m.take dest ++ s).length = dest + s.length := by simp [List.length_take]; omega
  have hABC : (m.take dest ++ s ++ [0]).length = dest + s.length + 1 := by simp [List.length_take]; omega
  refine ⟨m.take dest ++ s ++ [0] ++ m.drop (dest + s.length + 1), ?_, ?_, ?_, ?_, ?_⟩
  · unfold cstrCopy memWrite
    rw [if_pos (by omega)]
    simp only
    have hl1 : (m.take dest ++ s ++ m.drop (dest + s.length)).length = m.length := by
      simp [List.length_take, List.length_drop]; omega
    rw [if_pos (by rw [hl1]; simp; omega)]
    have htk : (m.take dest ++ s ++ m.drop (dest + s.length)).take (dest + s.length) = m.take dest ++ s :=
      take_append_len _ _ _ hAB
    have hdr : (m.take dest ++ s ++ m.drop (dest + s.length)).drop (dest + s.length + [(0 : UInt8)].length)
        = m.drop (dest + s.length + 1) := by
      have h1 : (m.take dest ++ s ++ m.drop (dest + s.length)).drop (dest + s.length + [(0 : UInt8)].length)
          = ((m.take dest ++ s ++ m.drop (dest + s.length)).drop (dest + s.length)).drop 1 := by
        simp [List.drop_drop]
      rw [h1, drop_append_len _ _ _ hAB, List.drop_drop]
    rw [htk, hdr]
  · unfold stringFromCStr strlen
    have hlen : dest ≤ (m.take dest ++ s ++ [0] ++ m.drop (dest + s.length + 1)).length := by
      simp [List.length_take]; omega
    rw [if_pos hlen]
    have hd : (m.take dest ++ s ++ [0] ++ m.drop (dest + s.length + 1)).drop dest
        = s ++ 0 :: m.drop (dest + s.length + 1) := by
      have : m.take dest ++ s ++ [0] ++ m.drop (dest + s.length + 1)
          = m.take dest ++ (s ++ 0 :: m.drop (dest + s.length + 1)) := by simp
      rw [this, drop_append_len _ _ _ hA]
    rw [hd, strlenFrom_append s _ hnul]
    simp
  · simp [List.length_take, List.length_drop]; omega
  · have : m.take dest ++ s ++ [0] ++ m.drop (dest + s.length + 1)
        = m.take dest ++ (s ++ 0 :: m.drop (dest + s.length + 1)) := by simp
    rw [this, take_append_len _ _ _ hA]
  · exact drop_append_len _ _ _ hABC

example : (2 + [104, 105].length + 1 ≤ (List.replicate 8 (0xAA : UInt8)).length) ∧ (0 : UInt8) ∉ ([104, 105] : List UInt8) := by
  decide

/-- the round trip for EVERY byte string — false: C strings cannot carry a NUL -/
def CStrRoundtripFull : Prop :=
  ∀ (m : Mem) (dest : Nat) (s : List UInt8), dest + s.length + 1 ≤ m.length →
    ∀ m', cstrCopy m dest s = some m' → stringFromCStr m' dest = some s

/-- `"A\x00B"` comes back as `"A"` -/
theorem cstr_roundtrip_counterexample : ¬ CStrRoundtripFull := by
  intro h
  have := h (List.replicate 6 0xAA) 1 [65, 0, 66] (by decide) [0xAA, 65, 0, 66, 0, 0xAA] (by decide)
  revert this
  decide


/-! ## Call sites: result and by-value parameter objects (`transformCallInstr`, model `Model/CAbiCall.lean`) -/



/-- result object placed on a fresh temporary, by-value arguments copied to fresh temporaries -/
theorem call_temp_sound (frame : Frame) (f : Prog) (c : CallSite) (m : Cells)
    (hd : Disjoint (temps frame c))
    (hs : Safe (temps frame c) f (initA (fun off => m (frame 0 + off)) c m)) :
    ∀ x, ¬ InRanges (temps frame c) x →
      implCall .temp .temp frame f c m x = specCall (fun off => m (frame 0 + off)) f c m x := by
  intro x hx
  have hsim := run_sim (temps frame c) hd f _ _ (init_sim .temp frame c m hd) hs
  have hb0 : (placement .temp frame c).base 0 = frame 0 := by simp [placement]
  simp only [temps, hb0] at hsim
  simp only [implCall, specCall]
  have hcells : readCells (runC (placement .temp frame c) f (initC .temp frame c m)).mem (frame 0) c.nres
      = privCells (runA f (initA (fun off => m (frame 0 + off)) c m)).priv 0 0 c.nres := by
    have := readCells_eq_privCells (runC (placement .temp frame c) f (initC .temp frame c m)).mem
      (runA f (initA (fun off => m (frame 0 + off)) c m)).priv 0 (frame 0) c.nres 0 (fun i hi => by
        have := hsim.inn 0 (by simp only [placement]; omega) i (by simp only [placement, if_pos]; exact hi)
        simp only [hb0] at this
        simp only [Nat.zero_add, Nat.add_zero]
        exact this)
    simpa using this
  rw [hcells]
  exact (writeCells_congr _ _ _ _ _ (hsim.out x hx)).symm


/-- **passing the destination as `sret`, partial**: right when the callee cannot reach the destination through any
    other name (what LLVM's call-slot optimisation proves before it does the same) -/
theorem call_dest_partial (frame : Frame) (f : Prog) (c : CallSite) (m : Cells)
    (hd : Disjoint (placement .dest frame c))
    (hs : Safe (placement .dest frame c) f (initA (fun off => m (c.dst + off)) c m)) :
    ∀ x, (∀ k, 1 ≤ k → k < (temps frame c).n → ¬ ((temps frame c).base k ≤ x ∧ x < (temps frame c).base k + (temps frame c).size k)) →
      implCall .dest .temp frame f c m x = specCall (fun off => m (c.dst + off)) f c m x := by
  intro x hx
  have hsim := run_sim _ hd f _ _ (init_sim .dest frame c m hd) hs
  have hb0 : (placement .dest frame c).base 0 = c.dst := by simp [placement]
  simp only [hb0] at hsim
  simp only [implCall, specCall]
  by_cases hin : c.dst ≤ x ∧ x < c.dst + c.nres
  · have h1 := hsim.inn 0 (by simp only [placement]; omega) (x - c.dst) (by simp only [placement, if_pos]; omega)
    rw [hb0, show c.dst + (x - c.dst) = x by omega] at h1
    rw [← h1]
    have h2 := writeCells_in (privCells (runA f (initA (fun off => m (c.dst + off)) c m)).priv 0 0 c.nres)
      (runA f (initA (fun off => m (c.dst + off)) c m)).mem c.dst (x - c.dst) (by rw [privCells_length]; omega)
    rw [show c.dst + (x - c.dst) = x by omega] at h2
    rw [h2, privCells_getD _ _ _ _ _ (by omega)]
    simp
  · have hout : ¬ InRanges (placement .dest frame c) x := by
      rintro ⟨k, hk, h1, h2⟩
      by_cases hk0 : k = 0
      · subst hk0
        simp only [placement, if_pos] at h1 h2
        exact hin ⟨h1, h2⟩
      · refine hx k (by omega) (by simpa [temps, placement] using hk) ?_
        simp only [temps, placement, hk0, if_false] at h1 h2 ⊢
        exact ⟨h1, h2⟩
    rw [writeCells_out _ _ _ _ (by rw [privCells_length]; omega)]
    exact (hsim.out x hout).symm

/-- the hypotheses of `call_dest_partial` are satisfiable: `b = rotate(&a)` with `b` elsewhere -/
example : Disjoint (placement .dest frame1000 ⟨3, [.word 100], 200⟩) ∧
    Safe (placement .dest frame1000 ⟨3, [.word 100], 200⟩) rotate (initA (fun off => mem123 (200 + off)) ⟨3, [.word 100], 200⟩ mem123) := by
  decide

/-- **Call-site soundness, full statement** for a configuration of `transformCallInstr`: whatever the callee does
    (any program that stays inside its private objects and does not reach into the caller's fresh, unpublished
    temporaries), whatever the destination of the result, whatever the memory and whatever happened to the memory
    the by-value arguments were loaded from — after the rewritten call every cell outside the dead temporaries holds
    what the Go-level meaning of `*dst = f(args…)` says. -/
def CallSiteSound (rc : RetCfg) (bc : ByvalCfg) : Prop :=
  ∀ (u : ResultUse) (a : ArgDef) (frame : Frame) (f : Prog) (c : CallSite) (m : Cells),
    Disjoint (temps frame c) →
    Safe (temps frame c) f (initA (fun off => m (frame 0 + off)) c m) →
    ∀ x, ¬ InRanges (temps frame c) x →
      implCallCfg rc bc u a frame f c m x = specCall (fun off => m (frame 0 + off)) f c m x

/-- **true for the code as it is**: a fresh temporary for the result object, the argument values for the by-value
    parameter objects -/
theorem callsite_sound : CallSiteSound .temp .copy := by
  intro u a frame f c m hd hs x hx
  exact call_temp_sound frame f c m hd hs x hx

/-- **false when the destination of the following store is passed as `sret`**: `v = rotate(&v)` with `rotate`
    filling its result object while it reads `*p` — (1,2,3) must become (2,3,1), the third cell comes out as 2 -/
theorem callsite_elide_counterexample : ¬ CallSiteSound .elideIntoStore .copy := by
  intro h
  have := h ⟨true⟩ ⟨true⟩ frame1000 rotate ⟨3, [.word 100], 100⟩ mem123 (by decide) (by decide) 102 (by decide)
  revert this
  decide

/-- **false when the address a by-value argument was loaded from is passed instead of the loaded value**:
    `t := *p; p.X = 7; f(t)` — the callee must see `t.X = 1`, it sees 7 -/
theorem callsite_reuse_counterexample : ¬ CallSiteSound .temp .reuseLoadSource := by
  intro h
  have := h ⟨true⟩ ⟨true⟩ frame1000 leakParam ⟨0, [.byval [1, 2, 3] 100], 200⟩ mem723 (by decide) (by decide) 300 (by decide)
  revert this
  decide

/-- … and right when nothing was stored to that memory between the load and the call -/
theorem callsite_reuse_partial (u : ResultUse) (a : ArgDef) (frame : Frame) (f : Prog) (c : CallSite) (m : Cells)
    (hl : ArgsLoaded c m) (hd : Disjoint (temps frame c))
    (hs : Safe (temps frame c) f (initA (fun off => m (frame 0 + off)) c m)) :
    ∀ x, ¬ InRanges (temps frame c) x →
      implCallCfg .temp .reuseLoadSource u a frame f c m x = specCall (fun off => m (frame 0 + off)) f c m x := by
  intro x hx
  have : implCallCfg .temp .reuseLoadSource u a frame f c m = implCall .temp .temp frame f c m := by
    unfold implCallCfg lowerRet lowerByval
    cases hb : a.isLoad
    · rfl
    · simp only [implCall, initC, ite_true, bvContents_temp, bvContents_source m _ hl]
  rw [this]
  exact call_temp_sound frame f c m hd hs x hx

/-- the hypotheses of `call_temp_sound` / `callsite_sound` hold for `v = rotate(&v)` (destination = what `p` points to),
    those of `callsite_reuse_partial` for a by-value argument whose source was not touched since the load -/
example :
    (Disjoint (temps frame1000 ⟨3, [.word 100], 100⟩) ∧
      Safe (temps frame1000 ⟨3, [.word 100], 100⟩) rotate (initA (fun off => mem123 (frame1000 0 + off)) ⟨3, [.word 100], 100⟩ mem123)) ∧
    (ArgsLoaded ⟨0, [.byval [1, 2, 3] 100], 200⟩ mem123 ∧ Disjoint (temps frame1000 ⟨0, [.byval [1, 2, 3] 100], 200⟩) ∧
      Safe (temps frame1000 ⟨0, [.byval [1, 2, 3] 100], 200⟩) leakParam
        (initA (fun off => mem123 (frame1000 0 + off)) ⟨0, [.byval [1, 2, 3] 100], 200⟩ mem123)) := by
  decide

/-! ## cgo conversion helpers: copies, not windows (`z_cgo.go`, model `Model/CgoStr.lean`) -/


/-- **A Go string made from C memory keeps its bytes**, full statement per configuration: whatever C stores
    afterwards into memory it owns (anything but the Go allocator's new object), the string still reads as the `n`
    bytes C held at `p` when `GoStringN(p, n)` was called. -/
def GoStringNStable (cfg : CopyCfg) : Prop :=
  ∀ (s : Heap) (p : Nat) (n : Int) (ws : List (Nat × Nat)), Avoids s.brk n.toNat ws →
    readCells (applyWrites (goStringN cfg s p n).2.mem ws) (goStringN cfg s p n).1.data (goStringN cfg s p n).1.len
      = readCells s.mem p n.toNat

theorem gostringn_stable : GoStringNStable .copy := by
  intro s p n ws h
  unfold goStringN
  by_cases hn : n ≤ 0
  · rw [if_pos hn]
    have : n.toNat = 0 := by omega
    simp [this, readCells]
  · rw [if_neg hn]
    exact copy_stable s.mem s.brk p n.toNat ws h

/-- `unsafe.String(p, n)` instead of the copying conversion: C overwrites its buffer and the Go string changes -/
theorem gostringn_alias_counterexample : ¬ GoStringNStable .alias := by
  intro h
  have := h ⟨fun a => if a = 10 then 102 else if a = 11 then 105 else 0, 20⟩ 10 2 [(10, 90)] (by decide)
  revert this
  decide

/-- `GoString(p)` (`strlen` + `GoStringN`): the same for the bytes before the first NUL -/
theorem gostring_stable (s : Heap) (p : Nat) (hp : p ≠ 0) (r : GoStr × Heap) (h : goString .copy s p = some r) :
    ∃ n, strlenB s.mem p (s.brk - p) = some n ∧ r.1.len = n ∧
      ∀ ws, Avoids s.brk n ws → readCells (applyWrites r.2.mem ws) r.1.data r.1.len = readCells s.mem p n := by
  unfold goString at h
  rw [if_neg hp] at h
  cases hl : strlenB s.mem p (s.brk - p) with
  | none => rw [hl] at h; simp at h
  | some n =>
    rw [hl] at h
    simp only [Option.some.injEq] at h
    subst h
    refine ⟨n, rfl, ?_, ?_⟩
    · unfold goStringN
      by_cases hn : (n : Int) ≤ 0
      · rw [if_pos hn]; simp only; omega
      · rw [if_neg hn]; simp
    · intro ws hws
      have := gostringn_stable s p n ws (by simpa using hws)
      simpa using this

/-- hypotheses of `gostring_stable`: "fi\0" at 10, frontier 20; C later overwrites its own buffer -/
example : (∃ r, goString .copy ⟨fun a => if a = 10 then 102 else if a = 11 then 105 else 0, 20⟩ 10 = some r ∧ r.1.len = 2) ∧
    Avoids 20 2 [(10, 90), (11, 90), (12, 90)] := ⟨⟨_, rfl, rfl⟩, by decide⟩

/-- **A Go byte slice made from C memory keeps its bytes**, full statement per configuration -/
def GoBytesStable (cfg : CopyCfg) : Prop :=
  ∀ (s : Heap) (p n : Nat) (ws : List (Nat × Nat)), Avoids s.brk n ws →
    readCells (applyWrites (goBytes cfg s p n).2.mem ws) (goBytes cfg s p n).1.data (goBytes cfg s p n).1.len
      = readCells s.mem p n

theorem gobytes_stable_copy : GoBytesStable .copy := by
  intro s p n ws h
  exact copy_stable s.mem s.brk p n ws h

/-- `(*[1<<30]byte)(p)[:n:n]` returned as is: the slice is a window onto C's buffer -/
theorem gobytes_alias_counterexample : ¬ GoBytesStable .alias := by
  intro h
  have := h ⟨fun a => if a = 10 then 102 else if a = 11 then 105 else 0, 20⟩ 10 2 [(11, 90)] (by decide)
  revert this
  decide

/-- `C.CBytes(b)` is a copy: later stores to the Go slice (or anywhere else outside the new C object) do not show -/
theorem cbytes_stable (guard : Bool) (s : Heap) (h : GoSlice) (r : Nat × Heap) (hr : cBytes guard s h = some r)
    (ws : List (Nat × Nat)) (hw : Avoids s.brk h.len ws) :
    readCells (applyWrites r.2.mem ws) r.1 h.len = readCells s.mem h.data h.len := by
  unfold cBytes at hr
  split at hr
  · simp at hr
  · simp only [Option.some.injEq] at hr
    subst hr
    exact copy_stable s.mem s.brk h.data h.len ws hw

example : (∃ r, cBytes false ⟨fun a => a, 40⟩ ⟨16, 3, 3⟩ = some r ∧ r.1 = 40) ∧
    Avoids 40 3 [(16, 0), (17, 0), (18, 0)] := ⟨⟨_, rfl, rfl⟩, by decide⟩

/-- every byte slice can be handed to C — full statement per configuration -/
def CBytesTotal (guard : Bool) : Prop := ∀ (s : Heap) (h : GoSlice), (cBytes guard s h).isSome = true

theorem cbytes_total_guarded : CBytesTotal true := by
  intro s h
  simp [cBytes]

/-- `&b[0]` of the empty slice: index out of range -/
theorem cbytes_empty_counterexample : ¬ CBytesTotal false := by
  intro h
  have := h ⟨fun _ => 0, 16⟩ ⟨16, 0, 0⟩
  revert this
  decide

/-- … and fine for every non-empty slice -/
theorem cbytes_total_partial (s : Heap) (h : GoSlice) (hl : 0 < h.len) : (cBytes false s h).isSome = true := by
  simp [cBytes]; omega

example : (0 : Nat) < (GoSlice.mk 16 3 3).len := by decide

/-- **Go string → `C.CString` → `C.GoString`** gives back the bytes of a NUL-free string, and that result is again
    independent of what happens to the C copy afterwards (`free`, reuse). -/
theorem cgo_string_roundtrip (s : Heap) (h : GoStr) (hb : 0 < s.brk)
    (hnul : ∀ i, i < h.len → s.mem (h.data + i) ≠ 0) :
    ∃ r, goString .copy (cString s h).2 (cString s h).1 = some r ∧ r.1.len = h.len ∧
      ∀ ws, Avoids (cString s h).2.brk h.len ws →
        readCells (applyWrites r.2.mem ws) r.1.data r.1.len = s.str h := by
  have hsrc : readCells (cString s h).2.mem s.brk h.len = readCells s.mem h.data h.len := by
    simp only [cString]
    have h1 := readCells_writeCells (readCells s.mem h.data h.len) s.mem s.brk
    rw [readCells_length] at h1
    refine Eq.trans ?_ h1
    apply readCells_congr
    intro i hi
    exact writeCells_out [0] _ _ _ (by simp; omega)
  have hcell : ∀ i, i < h.len → (cString s h).2.mem (s.brk + i) = s.mem (h.data + i) := by
    intro i hi
    have h1 := readCells_getD (cString s h).2.mem h.len s.brk i hi
    rw [hsrc, readCells_getD s.mem h.len h.data i hi] at h1
    exact h1.symm
  have hz : (cString s h).2.mem (s.brk + h.len) = 0 := by
    simp only [cString, writeCells]
    exact Cells.set_eq _ _ _
  have hlen : strlenB (cString s h).2.mem s.brk ((cString s h).2.brk - s.brk) = some h.len :=
    strlenB_spec _ h.len s.brk _ (fun i hi => by rw [hcell i hi]; exact hnul i hi) hz (by simp only [cString]; omega)
  have hg : goString .copy (cString s h).2 (cString s h).1 = some (goStringN .copy (cString s h).2 s.brk h.len) := by
    unfold goString
    rw [show (cString s h).1 = s.brk from rfl, if_neg (by omega), hlen]
  refine ⟨_, hg, ?_, ?_⟩
  · unfold goStringN
    by_cases hn : (h.len : Int) ≤ 0
    · rw [if_pos hn]; simp only; omega
    · rw [if_neg hn]; simp
  · intro ws hws
    have := gostringn_stable (cString s h).2 s.brk h.len ws (by simpa using hws)
    rw [this]
    simpa [Heap.str] using hsrc

/-- hypotheses of `cgo_string_roundtrip`: the Go string "hi" at 16, frontier 24 -/
example : (0 : Nat) < (Heap.mk (fun a => if a = 16 then 104 else if a = 17 then 105 else 0) 24).brk ∧
    ∀ i, i < (GoStr.mk 16 2).len → (Heap.mk (fun a => if a = 16 then 104 else if a = 17 then 105 else 0) 24).mem ((GoStr.mk 16 2).data + i) ≠ 0 := by
  decide

end LlgoVerif.CAbi
