/-! placeholder driver (property C02 not built yet) -/
def main : IO Unit := IO.println "bad-op"
