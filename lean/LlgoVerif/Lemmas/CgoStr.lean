import LlgoVerif.Model.CgoStr
import LlgoVerif.Lemmas.CAbiCall
/-!
# C09 — lemmas about the cgo conversion helpers (`Model/CgoStr.lean`)
-/
namespace LlgoVerif.CgoStr
open LlgoVerif.CAbiCall

theorem readCells_length (m : Cells) : ∀ (n a : Nat), (readCells m a n).length = n := by
  intro n
  induction n with
  | zero => intro a; rfl
  | succ n ih => intro a; simp [readCells, ih]

theorem readCells_getD (m : Cells) : ∀ (n a i : Nat), i < n → (readCells m a n).getD i 0 = m (a + i) := by
  intro n
  induction n with
  | zero => intro a i h; omega
  | succ n ih =>
    intro a i h
    cases i with
    | zero => simp [readCells]
    | succ j =>
      simp only [readCells, List.getD_cons_succ]
      rw [ih (a + 1) j (by omega)]
      congr 1; omega

theorem readCells_congr (m m' : Cells) : ∀ (n a : Nat), (∀ i, i < n → m (a + i) = m' (a + i)) → readCells m a n = readCells m' a n := by
  intro n
  induction n with
  | zero => intro a _; rfl
  | succ n ih =>
    intro a h
    simp only [readCells]
    have h0 := h 0 (by omega)
    simp only [Nat.add_zero] at h0
    rw [h0, ih (a + 1) (fun i hi => by
      have := h (i + 1) (by omega)
      rw [show a + 1 + i = a + (i + 1) by omega]
      exact this)]

theorem readCells_writeCells (l : List Nat) : ∀ (m : Cells) (a : Nat), readCells (writeCells m a l) a l.length = l := by
  induction l with
  | nil => intro m a; rfl
  | cons v r ih =>
    intro m a
    simp only [List.length_cons, readCells, writeCells]
    rw [writeCells_out r (m.set a v) (a + 1) a (by omega), Cells.set_eq, ih]

theorem applyWrites_out (ws : List (Nat × Nat)) : ∀ (m : Cells) (x : Nat), (∀ w ∈ ws, w.1 ≠ x) → applyWrites m ws x = m x := by
  induction ws with
  | nil => intro m x _; rfl
  | cons w r ih =>
    intro m x h
    simp only [applyWrites]
    rw [ih (m.set w.1 w.2) x (fun w' hw' => h w' (List.mem_cons_of_mem _ hw'))]
    exact Cells.set_ne m w.1 w.2 x (fun he => h w (List.mem_cons_self) he.symm)

/-- a fresh copy keeps its bytes whatever is stored elsewhere afterwards -/
theorem copy_stable (m : Cells) (brk p n : Nat) (ws : List (Nat × Nat)) (h : Avoids brk n ws) :
    readCells (applyWrites (writeCells m brk (readCells m p n)) ws) brk n = readCells m p n := by
  have hlen := readCells_length m n p
  have : readCells (writeCells m brk (readCells m p n)) brk n = readCells m p n := by
    have := readCells_writeCells (readCells m p n) m brk
    rw [hlen] at this
    exact this
  refine Eq.trans ?_ this
  apply readCells_congr
  intro i hi
  apply applyWrites_out
  intro w hw he
  rcases h w hw with h1 | h1 <;> omega

theorem strlenB_spec (m : Cells) : ∀ (k p fuel : Nat), (∀ i, i < k → m (p + i) ≠ 0) → m (p + k) = 0 → k < fuel →
    strlenB m p fuel = some k := by
  intro k
  induction k with
  | zero =>
    intro p fuel _ h0 hf
    cases fuel with
    | zero => omega
    | succ f => simp only [strlenB]; rw [if_pos (by simpa using h0)]
  | succ k ih =>
    intro p fuel hne h0 hf
    cases fuel with
    | zero => omega
    | succ f =>
      simp only [strlenB]
      have := hne 0 (by omega)
      simp only [Nat.add_zero] at this
      rw [if_neg this, ih (p + 1) f (fun i hi => by
        have := hne (i + 1) (by omega)
        rw [show p + 1 + i = p + (i + 1) by omega]; exact this)
        (by rw [show p + 1 + k = p + (k + 1) by omega]; exact h0) (by omega)]
      rfl

end LlgoVerif.CgoStr
