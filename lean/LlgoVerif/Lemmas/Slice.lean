import LlgoVerif.Spec.Slice
/-! Helper lemmas for C05: UTF-8 encode/decode, string iteration and ordering, the byte heap, append/copy/slice3. -/
namespace LlgoVerif.Slice
open LlgoVerif.Utf8

/-! ## nextslicecap -/

theorem capLoop_ge (newLen newcap : Int) (h : 0 ≤ newcap) : newLen ≤ capLoop newLen newcap := by
  fun_induction capLoop newLen newcap with
  | case1 newcap nc hc ih =>
    apply ih; omega
  | case2 newcap nc hc =>
    omega

theorem capLoop_pos (newLen newcap : Int) (h : 0 ≤ newcap) : newcap < capLoop newLen newcap := by
  fun_induction capLoop newLen newcap with
  | case1 newcap nc hc ih =>
    have := ih (by omega); omega
  | case2 newcap nc hc =>
    omega

theorem nextslicecap_ge' (newLen oldCap : Int) : newLen ≤ nextslicecap newLen oldCap := by
  unfold nextslicecap
  simp only
  split
  · omega
  · split
    · omega
    · split
      · omega
      · apply capLoop_ge; omega

/-- on the model's domain the code's unsigned comparison is the signed one -/
theorem uint_cmp_domain' (a b : Int) (ha : 0 ≤ a) (ha' : a < 2 ^ 63) (hb : 0 ≤ b) (hb' : b < 2 ^ 63) :
    (a % 2 ^ 64 ≥ b % 2 ^ 64) ↔ a ≥ b := by
  omega

/-! ## UTF-8 -/

/-! ## UTF-8 -/

theorem bad_iff (i : Nat) : (i > maxRune || (surrogateMin ≤ i && i ≤ surrogateMax)) = true ↔
    (0x10FFFF < i ∨ (0xD800 ≤ i ∧ i ≤ 0xDFFF)) := by
  simp only [Bool.or_eq_true, Bool.and_eq_true, decide_eq_true_eq, gt_iff_lt]
  unfold maxRune surrogateMin surrogateMax
  exact Iff.rfl

/-- `encodeRune` with its Boolean tests as propositions -/
theorem encodeRune_eq (i : Nat) : encodeRune i =
  if i ≤ 0x7F then [i]
  else if i ≤ 0x7FF then [0xC0 + i / 64, 0x80 + i % 64]
  else if 0x10FFFF < i ∨ (0xD800 ≤ i ∧ i ≤ 0xDFFF) then [0xEF, 0xBF, 0xBD]
  else if i ≤ 0xFFFF then [0xE0 + i / 4096, 0x80 + (i / 64) % 64, 0x80 + i % 64]
  else [0xF0 + i / 262144, 0x80 + (i / 4096) % 64, 0x80 + (i / 64) % 64, 0x80 + i % 64] := by
  unfold encodeRune
  simp only [bad_iff]

/-- `decodeRune` with its Boolean tests as propositions -/
theorem decodeRune_eq (s : List Nat) : decodeRune s =
  match s with
  | [] => (runeError, 1)
  | b0 :: rest =>
    if 0xC0 ≤ b0 ∧ b0 < 0xE0 then
      match rest with
      | b1 :: _ =>
        if 0x80 ≤ b1 ∧ b1 ≤ 0xBF then
          if 0x7F < (b0 % 32) * 64 + b1 % 64 then ((b0 % 32) * 64 + b1 % 64, 2) else (runeError, 1)
        else (runeError, 1)
      | _ => (runeError, 1)
    else if 0xE0 ≤ b0 ∧ b0 < 0xF0 then
      match rest with
      | b1 :: b2 :: _ =>
        if (0x80 ≤ b1 ∧ b1 ≤ 0xBF) ∧ (0x80 ≤ b2 ∧ b2 ≤ 0xBF) then
          if 0x7FF < (b0 % 16) * 4096 + (b1 % 64) * 64 + b2 % 64 ∧ ¬ (0xD800 ≤ (b0 % 16) * 4096 + (b1 % 64) * 64 + b2 % 64 ∧ (b0 % 16) * 4096 + (b1 % 64) * 64 + b2 % 64 ≤ 0xDFFF) then ((b0 % 16) * 4096 + (b1 % 64) * 64 + b2 % 64, 3) else (runeError, 1)
        else (runeError, 1)
      | _ => (runeError, 1)
    else if 0xF0 ≤ b0 ∧ b0 < 0xF8 then
      match rest with
      | b1 :: b2 :: b3 :: _ =>
        if (0x80 ≤ b1 ∧ b1 ≤ 0xBF) ∧ (0x80 ≤ b2 ∧ b2 ≤ 0xBF) ∧ (0x80 ≤ b3 ∧ b3 ≤ 0xBF) then
          if 0xFFFF < (b0 % 8) * 262144 + (b1 % 64) * 4096 + (b2 % 64) * 64 + b3 % 64 ∧ (b0 % 8) * 262144 + (b1 % 64) * 4096 + (b2 % 64) * 64 + b3 % 64 ≤ 0x10FFFF then ((b0 % 8) * 262144 + (b1 % 64) * 4096 + (b2 % 64) * 64 + b3 % 64, 4) else (runeError, 1)
        else (runeError, 1)
      | _ => (runeError, 1)
    else (runeError, 1) := by
  unfold decodeRune
  split
  · rfl
  · simp only [isCont, Bool.and_eq_true, decide_eq_true_eq, Bool.and_eq_false_imp, decide_eq_false_iff_not,
      and_assoc, Bool.not_eq_eq_eq_not, Bool.not_true, not_and]
    unfold maxRune surrogateMin surrogateMax
    rfl

theorem decode2 (b0 b1 : Nat) (rest : List Nat) (h0 : 0xC0 ≤ b0 ∧ b0 < 0xE0) (h1 : 0x80 ≤ b1 ∧ b1 ≤ 0xBF)
    (hr : 0x7F < b0 % 32 * 64 + b1 % 64) : decodeRune (b0 :: b1 :: rest) = (b0 % 32 * 64 + b1 % 64, 2) := by
  rw [decodeRune_eq]; simp only; rw [if_pos h0, if_pos h1, if_pos hr]

theorem decode3 (b0 b1 b2 : Nat) (rest : List Nat) (h0 : 0xE0 ≤ b0 ∧ b0 < 0xF0) (h1 : 0x80 ≤ b1 ∧ b1 ≤ 0xBF)
    (h2 : 0x80 ≤ b2 ∧ b2 ≤ 0xBF)
    (hr : 0x7FF < b0 % 16 * 4096 + b1 % 64 * 64 + b2 % 64 ∧
      ¬ (0xD800 ≤ b0 % 16 * 4096 + b1 % 64 * 64 + b2 % 64 ∧ b0 % 16 * 4096 + b1 % 64 * 64 + b2 % 64 ≤ 0xDFFF)) :
    decodeRune (b0 :: b1 :: b2 :: rest) = (b0 % 16 * 4096 + b1 % 64 * 64 + b2 % 64, 3) := by
  rw [decodeRune_eq]; simp only; rw [if_neg (by omega), if_pos h0, if_pos ⟨h1, h2⟩, if_pos hr]

theorem decode4 (b0 b1 b2 b3 : Nat) (rest : List Nat) (h0 : 0xF0 ≤ b0 ∧ b0 < 0xF8) (h1 : 0x80 ≤ b1 ∧ b1 ≤ 0xBF)
    (h2 : 0x80 ≤ b2 ∧ b2 ≤ 0xBF) (h3 : 0x80 ≤ b3 ∧ b3 ≤ 0xBF)
    (hr : 0xFFFF < b0 % 8 * 262144 + b1 % 64 * 4096 + b2 % 64 * 64 + b3 % 64 ∧
      b0 % 8 * 262144 + b1 % 64 * 4096 + b2 % 64 * 64 + b3 % 64 ≤ 0x10FFFF) :
    decodeRune (b0 :: b1 :: b2 :: b3 :: rest) = (b0 % 8 * 262144 + b1 % 64 * 4096 + b2 % 64 * 64 + b3 % 64, 4) := by
  rw [decodeRune_eq]; simp only
  rw [if_neg (by omega), if_neg (by omega), if_pos h0, if_pos ⟨h1, h2, h3⟩, if_pos hr]

theorem encode1 (r : Nat) (h : r ≤ 0x7F) : encodeRune r = [r] := by rw [encodeRune_eq, if_pos h]
theorem encode2 (r : Nat) (h : 0x7F < r) (h' : r ≤ 0x7FF) : encodeRune r = [0xC0 + r / 64, 0x80 + r % 64] := by
  rw [encodeRune_eq, if_neg (by omega), if_pos h']
theorem encode3 (r : Nat) (h : 0x7FF < r) (h' : r ≤ 0xFFFF) (hs : ¬ (0xD800 ≤ r ∧ r ≤ 0xDFFF)) :
    encodeRune r = [0xE0 + r / 4096, 0x80 + (r / 64) % 64, 0x80 + r % 64] := by
  rw [encodeRune_eq, if_neg (by omega), if_neg (by omega), if_neg (by omega), if_pos h']
theorem encode4 (r : Nat) (h : 0xFFFF < r) (h' : r ≤ 0x10FFFF) :
    encodeRune r = [0xF0 + r / 262144, 0x80 + (r / 4096) % 64, 0x80 + (r / 64) % 64, 0x80 + r % 64] := by
  rw [encodeRune_eq, if_neg (by omega), if_neg (by omega), if_neg (by omega), if_neg (by omega)]
theorem encodeErr (r : Nat) (h : 0x10FFFF < r ∨ (0xD800 ≤ r ∧ r ≤ 0xDFFF)) : encodeRune r = [0xEF, 0xBF, 0xBD] := by
  rw [encodeRune_eq, if_neg (by omega), if_neg (by omega), if_pos h]

theorem validScalar_iff (r : Nat) : validScalar r ↔ r ≤ 0x10FFFF ∧ ¬ (0xD800 ≤ r ∧ r ≤ 0xDFFF) := by
  unfold validScalar maxRune surrogateMin surrogateMax; exact Iff.rfl

theorem encode_length (r : Nat) (h : validScalar r) : (encodeRune r).length = width r := by
  rw [validScalar_iff] at h
  unfold width
  by_cases h1 : r ≤ 0x7F
  · rw [encode1 r h1, if_pos h1]; rfl
  · by_cases h2 : r ≤ 0x7FF
    · rw [encode2 r (by omega) h2, if_neg h1, if_pos h2]; rfl
    · by_cases h3 : r ≤ 0xFFFF
      · rw [encode3 r (by omega) h3 h.2, if_neg h1, if_neg h2, if_pos h3]; rfl
      · rw [encode4 r (by omega) h.1, if_neg h1, if_neg h2, if_neg h3]; rfl

theorem width_pos (r : Nat) : 1 ≤ width r := by
  unfold width; repeat' split
  all_goals omega

theorem decode_encode' (r : Nat) (rest : List Nat) (h : validScalar r) (h80 : 0x80 ≤ r) :
    decodeRune (encodeRune r ++ rest) = (r, width r) := by
  rw [validScalar_iff] at h
  unfold width
  by_cases h1 : r ≤ 0x7FF
  · rw [encode2 r (by omega) h1]
    simp only [List.cons_append, List.nil_append]
    rw [decode2 _ _ _ (by omega) (by omega) (by omega), if_neg (by omega), if_pos h1]
    congr 1; omega
  · by_cases h2 : r ≤ 0xFFFF
    · rw [encode3 r (by omega) h2 (by omega)]
      simp only [List.cons_append, List.nil_append]
      rw [decode3 _ _ _ _ (by omega) (by omega) (by omega) (by omega), if_neg (by omega), if_neg h1, if_pos h2]
      congr 1; omega
    · rw [encode4 r (by omega) (by omega)]
      simp only [List.cons_append, List.nil_append]
      rw [decode4 _ _ _ _ _ (by omega) (by omega) (by omega) (by omega) (by omega), if_neg (by omega), if_neg h1, if_neg h2]
      congr 1; omega

/-- the bytes accepted by `decodeRune` are the canonical encoding of the rune it returns -/
theorem enc2_of_bytes (b0 b1 : Nat) (h0 : 0xC0 ≤ b0 ∧ b0 < 0xE0) (h1 : 0x80 ≤ b1 ∧ b1 ≤ 0xBF)
    (hr : 0x7F < b0 % 32 * 64 + b1 % 64) : encodeRune (b0 % 32 * 64 + b1 % 64) = [b0, b1] := by
  rw [encode2 _ hr (by omega)]
  simp only [List.cons.injEq, and_true]; omega

theorem enc3_of_bytes (b0 b1 b2 : Nat) (h0 : 0xE0 ≤ b0 ∧ b0 < 0xF0) (h1 : 0x80 ≤ b1 ∧ b1 ≤ 0xBF) (h2 : 0x80 ≤ b2 ∧ b2 ≤ 0xBF)
    (hr : 0x7FF < b0 % 16 * 4096 + b1 % 64 * 64 + b2 % 64 ∧
      ¬ (0xD800 ≤ b0 % 16 * 4096 + b1 % 64 * 64 + b2 % 64 ∧ b0 % 16 * 4096 + b1 % 64 * 64 + b2 % 64 ≤ 0xDFFF)) :
    encodeRune (b0 % 16 * 4096 + b1 % 64 * 64 + b2 % 64) = [b0, b1, b2] := by
  rw [encode3 _ hr.1 (by omega) hr.2]
  simp only [List.cons.injEq, and_true]; omega

theorem enc4_of_bytes (b0 b1 b2 b3 : Nat) (h0 : 0xF0 ≤ b0 ∧ b0 < 0xF8) (h1 : 0x80 ≤ b1 ∧ b1 ≤ 0xBF) (h2 : 0x80 ≤ b2 ∧ b2 ≤ 0xBF)
    (h3 : 0x80 ≤ b3 ∧ b3 ≤ 0xBF)
    (hr : 0xFFFF < b0 % 8 * 262144 + b1 % 64 * 4096 + b2 % 64 * 64 + b3 % 64 ∧
      b0 % 8 * 262144 + b1 % 64 * 4096 + b2 % 64 * 64 + b3 % 64 ≤ 0x10FFFF) :
    encodeRune (b0 % 8 * 262144 + b1 % 64 * 4096 + b2 % 64 * 64 + b3 % 64) = [b0, b1, b2, b3] := by
  rw [encode4 _ hr.1 hr.2]
  simp only [List.cons.injEq, and_true]; omega

theorem decode_invalid' (s : List Nat) : DecodeOk s (decodeRune s) := by
  match s with
  | [] => left; rfl
  | b0 :: rest =>
    by_cases c2 : 0xC0 ≤ b0 ∧ b0 < 0xE0
    · match rest with
      | [] => left; rw [decodeRune_eq]; simp only; rw [if_pos c2]
      | b1 :: tail =>
        by_cases k1 : 0x80 ≤ b1 ∧ b1 ≤ 0xBF
        · by_cases hr : 0x7F < b0 % 32 * 64 + b1 % 64
          · right
            rw [decode2 b0 b1 tail c2 k1 hr]
            refine ⟨by rw [validScalar_iff]; simp only; omega, by simp only; omega, ?_, ?_⟩
            · simp only [List.take_succ_cons, List.take_zero]; exact (enc2_of_bytes b0 b1 c2 k1 hr).symm
            · simp only [width]; rw [if_neg (by omega), if_pos (by omega)]
          · left; rw [decodeRune_eq]; simp only; rw [if_pos c2, if_pos k1, if_neg hr]
        · left; rw [decodeRune_eq]; simp only; rw [if_pos c2, if_neg k1]
    · by_cases c3 : 0xE0 ≤ b0 ∧ b0 < 0xF0
      · match rest with
        | [] => left; rw [decodeRune_eq]; simp only; rw [if_neg c2, if_pos c3]
        | [_] => left; rw [decodeRune_eq]; simp only; rw [if_neg c2, if_pos c3]
        | b1 :: b2 :: tail =>
          by_cases k : (0x80 ≤ b1 ∧ b1 ≤ 0xBF) ∧ (0x80 ≤ b2 ∧ b2 ≤ 0xBF)
          · by_cases hr : 0x7FF < b0 % 16 * 4096 + b1 % 64 * 64 + b2 % 64 ∧
                ¬ (0xD800 ≤ b0 % 16 * 4096 + b1 % 64 * 64 + b2 % 64 ∧ b0 % 16 * 4096 + b1 % 64 * 64 + b2 % 64 ≤ 0xDFFF)
            · right
              rw [decode3 b0 b1 b2 tail c3 k.1 k.2 hr]
              refine ⟨by rw [validScalar_iff]; simp only; omega, by simp only; omega, ?_, ?_⟩
              · simp only [List.take_succ_cons, List.take_zero]; exact (enc3_of_bytes b0 b1 b2 c3 k.1 k.2 hr).symm
              · simp only [width]; rw [if_neg (by omega), if_neg (by omega), if_pos (by omega)]
            · left; rw [decodeRune_eq]; simp only; rw [if_neg c2, if_pos c3, if_pos k, if_neg hr]
          · left; rw [decodeRune_eq]; simp only; rw [if_neg c2, if_pos c3, if_neg k]
      · by_cases c4 : 0xF0 ≤ b0 ∧ b0 < 0xF8
        · match rest with
          | [] => left; rw [decodeRune_eq]; simp only; rw [if_neg c2, if_neg c3, if_pos c4]
          | [_] => left; rw [decodeRune_eq]; simp only; rw [if_neg c2, if_neg c3, if_pos c4]
          | [_, _] => left; rw [decodeRune_eq]; simp only; rw [if_neg c2, if_neg c3, if_pos c4]
          | b1 :: b2 :: b3 :: tail =>
            by_cases k : (0x80 ≤ b1 ∧ b1 ≤ 0xBF) ∧ (0x80 ≤ b2 ∧ b2 ≤ 0xBF) ∧ (0x80 ≤ b3 ∧ b3 ≤ 0xBF)
            · by_cases hr : 0xFFFF < b0 % 8 * 262144 + b1 % 64 * 4096 + b2 % 64 * 64 + b3 % 64 ∧
                  b0 % 8 * 262144 + b1 % 64 * 4096 + b2 % 64 * 64 + b3 % 64 ≤ 0x10FFFF
              · right
                rw [decode4 b0 b1 b2 b3 tail c4 k.1 k.2.1 k.2.2 hr]
                refine ⟨by rw [validScalar_iff]; simp only; omega, by simp only; omega, ?_, ?_⟩
                · simp only [List.take_succ_cons, List.take_zero]; exact (enc4_of_bytes b0 b1 b2 b3 c4 k.1 k.2.1 k.2.2 hr).symm
                · simp only [width]; rw [if_neg (by omega), if_neg (by omega), if_neg (by omega)]
              · left; rw [decodeRune_eq]; simp only; rw [if_neg c2, if_neg c3, if_pos c4, if_pos k, if_neg hr]
            · left; rw [decodeRune_eq]; simp only; rw [if_neg c2, if_neg c3, if_pos c4, if_neg k]
        · left; rw [decodeRune_eq]; simp only; rw [if_neg c2, if_neg c3, if_neg c4]

theorem nextRune_cons (b : Nat) (t : List Nat) :
    nextRune (b :: t) = if b < 0x80 then (b, 1) else decodeRune (b :: t) := by
  simp [nextRune]

theorem next_encode (r : Nat) (rest : List Nat) (h : validScalar r) :
    nextRune (encodeRune r ++ rest) = (r, width r) := by
  by_cases h1 : r ≤ 0x7F
  · rw [encode1 r h1]; simp only [List.cons_append, List.nil_append]
    rw [nextRune_cons, if_pos (by omega)]; simp only [width]; rw [if_pos h1]
  · have hd := decode_encode' r rest h (by omega)
    have h' := (validScalar_iff r).1 h
    by_cases h2 : r ≤ 0x7FF
    · rw [encode2 r (by omega) h2] at hd ⊢
      simp only [List.cons_append, List.nil_append] at hd ⊢
      rw [nextRune_cons, if_neg (by omega)]; exact hd
    · by_cases h3 : r ≤ 0xFFFF
      · rw [encode3 r (by omega) h3 h'.2] at hd ⊢
        simp only [List.cons_append, List.nil_append] at hd ⊢
        rw [nextRune_cons, if_neg (by omega)]; exact hd
      · rw [encode4 r (by omega) h'.1] at hd ⊢
        simp only [List.cons_append, List.nil_append] at hd ⊢
        rw [nextRune_cons, if_neg (by omega)]; exact hd

theorem decode_width_pos (s : List Nat) : 1 ≤ (decodeRune s).2 := by
  rcases decode_invalid' s with h | ⟨_, _, _, h⟩
  · rw [h]; exact Nat.le_refl 1
  · rw [h]; exact width_pos _

theorem next_width_pos (s : List Nat) : 1 ≤ (nextRune s).2 := by
  match s with
  | [] => exact Nat.le_refl 1
  | b :: t =>
    rw [nextRune_cons]; split
    · exact Nat.le_refl 1
    · exact decode_width_pos _

theorem toRunesAux_fromRunes (rs : List Nat) (h : ∀ r ∈ rs, validScalar r) :
    ∀ fuel, (fromRunes rs).length ≤ fuel → toRunesAux fuel (fromRunes rs) = rs := by
  induction rs with
  | nil => intro fuel _; cases fuel <;> simp [fromRunes, toRunesAux]
  | cons r rs ih =>
    intro fuel hf
    have hr : validScalar r := h r (by simp)
    have hlen := encode_length r hr
    have hw := width_pos r
    have e : fromRunes (r :: rs) = encodeRune r ++ fromRunes rs := by simp [fromRunes]
    rw [e] at hf ⊢
    have hf' : width r + (fromRunes rs).length ≤ fuel := by rw [List.length_append, hlen] at hf; exact hf
    match fuel, hf' with
    | 0, hf' => omega
    | fuel + 1, hf' =>
      have hne : encodeRune r ++ fromRunes rs ≠ [] := by
        intro hc; have := congrArg List.length hc; rw [List.length_append, hlen] at this; simp at this; omega
      match hs : encodeRune r ++ fromRunes rs with
      | [] => exact absurd hs hne
      | b :: t =>
        rw [toRunesAux]
        · rw [← hs, next_encode r _ hr]
          simp only
          rw [← hlen, List.drop_left]
          rw [ih (fun x hx => h x (by simp [hx])) fuel (by omega)]
        · intro hc; cases hc

theorem toRunes_fromRunes' (rs : List Nat) (h : ∀ r ∈ rs, validScalar r) : toRunes (fromRunes rs) = rs :=
  toRunesAux_fromRunes rs h _ (Nat.le_refl _)

/-! ## range iteration -/
theorem iterNext_none (s : List Nat) (pos : Nat) (h : s.length ≤ pos) : StringIterNext s pos = none := by
  unfold StringIterNext; rw [if_pos h]

theorem iterNext_some (s : List Nat) (pos : Nat) (h : pos < s.length) :
    StringIterNext s pos = some (pos, (nextRune (s.drop pos)).1, pos + (nextRune (s.drop pos)).2) := by
  unfold StringIterNext
  rw [if_neg (by omega)]
  have hd : s.drop pos = s[pos] :: s.drop (pos + 1) := List.drop_eq_getElem_cons h
  have hg : s.getD pos 0 = s[pos] := by simp [List.getD, h]
  simp only [hg]
  rw [hd, nextRune_cons]
  split <;> rfl

theorem iterFrom_enumerates (s : List Nat) : ∀ fuel pos, s.length - pos ≤ fuel →
    Enumerates pos (s.drop pos) (iterFrom s fuel pos) := by
  intro fuel
  induction fuel with
  | zero =>
    intro pos h
    rw [List.drop_eq_nil_of_le (by omega)]
    exact Enumerates.nil pos
  | succ fuel ih =>
    intro pos h
    by_cases hp : s.length ≤ pos
    · rw [List.drop_eq_nil_of_le hp]
      simp only [iterFrom, iterNext_none s pos hp]
      exact Enumerates.nil pos
    · have hp' : pos < s.length := by omega
      simp only [iterFrom, iterNext_some s pos hp']
      apply Enumerates.cons
      · intro hc; have := congrArg List.length hc; simp at this; omega
      · rw [List.drop_drop]
        have := next_width_pos (s.drop pos)
        exact ih _ (by omega)

theorem iter_spec' (s : List Nat) : Enumerates 0 s (iterAll s) := by
  have := iterFrom_enumerates s s.length 0 (by omega)
  simpa [iterAll] using this

/-- the specification is functional: a string has exactly one enumeration -/
theorem Enumerates.unique {off : Nat} {s : List Nat} {l l' : List (Nat × Nat)}
    (h : Enumerates off s l) (h' : Enumerates off s l') : l = l' := by
  induction h generalizing l' with
  | nil off => cases h' with
    | nil => rfl
    | cons _ _ _ hne _ => exact absurd rfl hne
  | cons off s l hne _ ih =>
    cases h' with
    | nil => exact absurd rfl hne
    | cons _ _ l2 _ h2 => rw [ih h2]

/-- the runes of the enumeration are `[]rune(s)` -/
theorem enumerates_runes {off : Nat} {s : List Nat} {l : List (Nat × Nat)} (h : Enumerates off s l) :
    ∀ fuel, s.length ≤ fuel → l.map (·.2) = toRunesAux fuel s := by
  induction h with
  | nil off => intro fuel _; cases fuel <;> simp [toRunesAux]
  | cons off s l hne _ ih =>
    intro fuel hf
    match fuel, s, hne with
    | 0, [], hne => exact absurd rfl hne
    | 0, _ :: _, _ => simp at hf
    | fuel + 1, b :: t, _ =>
      rw [toRunesAux]
      · simp only [List.map_cons]
        congr 1
        apply ih
        have := next_width_pos (b :: t)
        simp only [List.length_drop]; omega
      · intro hc; cases hc

theorem iterAll_runes (s : List Nat) : (iterAll s).map (·.2) = toRunes s :=
  enumerates_runes (iter_spec' s) s.length (Nat.le_refl _)

/-! ## string comparison -/

theorem less_nil_nil : StringLess [] [] = false := by simp [StringLess, lessLoop]
theorem less_nil_cons (b : Nat) (y : List Nat) : StringLess [] (b :: y) = true := by simp [StringLess, lessLoop]
theorem less_cons_nil (a : Nat) (x : List Nat) : StringLess (a :: x) [] = false := by simp [StringLess, lessLoop]
theorem less_cons_cons (a b : Nat) (x y : List Nat) :
    StringLess (a :: x) (b :: y) = if a < b then true else if a > b then false else StringLess x y := by
  simp only [StringLess, List.zip_cons_cons, lessLoop, List.length_cons]
  by_cases hab : a < b
  · simp [hab]
  · by_cases hba : a > b
    · simp [hab, hba]
    · simp [hab, hba]

theorem less_iff_lt : ∀ (x y : List Nat), StringLess x y = true ↔ x < y
  | [], [] => by simp [less_nil_nil]
  | [], b :: y => by simp [less_nil_cons]
  | a :: x, [] => by simp [less_cons_nil]
  | a :: x, b :: y => by
    rw [less_cons_cons, List.cons_lt_cons_iff]
    have ih := less_iff_lt x y
    split
    · simp [*]
    · split
      · simp; omega
      · have : a = b := by omega
        simp [this, ih]

theorem less_irrefl (x : List Nat) : StringLess x x = false := by
  induction x with
  | nil => exact less_nil_nil
  | cons a x ih => rw [less_cons_cons]; simp [ih]

theorem less_trans : ∀ (x y z : List Nat), StringLess x y = true → StringLess y z = true → StringLess x z = true
  | [], _, [] => by intro h1 h2; cases ‹List Nat› <;> simp_all [less_nil_nil, less_cons_nil]
  | [], _, c :: z => by intros; exact less_nil_cons c z
  | a :: x, [], _ => by intro h1; simp [less_cons_nil] at h1
  | a :: x, b :: y, [] => by intro _ h2; simp [less_cons_nil] at h2
  | a :: x, b :: y, c :: z => by
    rw [less_cons_cons, less_cons_cons, less_cons_cons]
    intro h1 h2
    have ih := less_trans x y z
    by_cases hab : a < b
    · by_cases hbc : b < c
      · simp [show a < c by omega]
      · by_cases hcb : b > c
        · simp [hbc, hcb] at h2
        · have : b = c := by omega
          subst this; simp [hab]
    · by_cases hba : a > b
      · simp [hab, hba] at h1
      · have : a = b := by omega
        subst this
        simp only [hab, if_false] at h1
        by_cases hbc : a < c
        · simp [hbc]
        · by_cases hcb : a > c
          · simp [hbc, hcb] at h2
          · simp only [hbc, hcb, if_false] at h2 ⊢
            exact ih h1 h2

theorem less_total : ∀ (x y : List Nat), StringLess x y = true ∨ x = y ∨ StringLess y x = true
  | [], [] => by simp
  | [], b :: y => by simp [less_nil_cons]
  | a :: x, [] => by simp [less_nil_cons]
  | a :: x, b :: y => by
    rw [less_cons_cons, less_cons_cons]
    have ih := less_total x y
    by_cases hab : a < b
    · simp [hab]
    · by_cases hba : a > b
      · right; right; simp [show b < a by omega]
      · have : a = b := by omega
        subst this
        simp only [Nat.lt_irrefl, if_false, gt_iff_lt, List.cons.injEq, true_and]
        exact ih

theorem eqLoop_zip : ∀ (x y : List Nat), x.length = y.length → (eqLoop (x.zip y) = true ↔ x = y)
  | [], [], _ => by simp [eqLoop]
  | [], _ :: _, h => by simp at h
  | _ :: _, [], h => by simp at h
  | a :: x, b :: y, h => by
    simp only [List.zip_cons_cons, eqLoop, List.cons.injEq]
    have ih := eqLoop_zip x y (by simpa using h)
    by_cases hab : a = b
    · simp [hab, ih]
    · simp [hab]

theorem equal_iff (x y : List Nat) : StringEqual x y = true ↔ x = y := by
  unfold StringEqual
  by_cases h : x.length = y.length
  · simp only [h, ne_eq, not_true_eq_false, if_false]; exact eqLoop_zip x y h
  · simp only [ne_eq, h, not_false_eq_true, if_true]
    constructor
    · intro hc; cases hc
    · intro hc; exact absurd (congrArg List.length hc) h

/-! ## heap, append -/

theorem read_length (m : Mem) (a n : Nat) : (m.read a n).length = n := by simp [Mem.read]

theorem read_congr {m m' : Mem} {a a' n : Nat} (h : ∀ i, i < n → m.bytes (a + i) = m'.bytes (a' + i)) :
    m.read a n = m'.read a' n := by
  apply List.ext_getElem
  · simp [Mem.read]
  · intro i h1 h2
    simp [Mem.read] at h1 ⊢
    exact h i h1

theorem read_add (m : Mem) (a x y : Nat) : m.read a (x + y) = m.read a x ++ m.read (a + x) y := by
  apply List.ext_getElem
  · simp [Mem.read]
  · intro i h1 h2
    simp [Mem.read] at h1
    by_cases hi : i < x
    · rw [List.getElem_append_left (by simp [Mem.read]; exact hi)]
      simp [Mem.read]
    · rw [List.getElem_append_right (by simp [Mem.read]; omega)]
      simp [Mem.read]
      congr 1; omega

theorem memmove_bytes (m : Mem) (dst src n x : Nat) :
    (memmove m dst src n).bytes x = if dst ≤ x ∧ x < dst + n then m.bytes (src + (x - dst)) else m.bytes x := rfl
theorem memmove_next (m : Mem) (dst src n : Nat) : (memmove m dst src n).next = m.next := rfl
theorem memset_bytes (m : Mem) (p c n x : Nat) :
    (memset m p c n).bytes x = if p ≤ x ∧ x < p + n then c else m.bytes x := rfl
theorem memset_next (m : Mem) (p c n : Nat) : (memset m p c n).next = m.next := rfl

theorem memcpy_ok (m : Mem) (dst src n : Nat) (h : ¬ overlaps dst src n) :
    memcpy m dst src n = .ok (memmove m dst src n) := by
  unfold memcpy; rw [if_neg h]

theorem advance_nonneg (p : Nat) (off : Int) (h : 0 ≤ off) : advance p off = p + off.toNat := by
  unfold advance; omega

/-- growing: a fresh zeroed block that starts with the old elements -/
theorem grow_spec (pol : Int → Int → Int) (m : Mem) (s : Slice) (num esz : Int)
    (hesz : 0 ≤ esz) (hwf : WF m s esz) (hgrow : s.len + num > s.cap) :
    ∃ m2, GrowSlice pol m s num esz = .ok (m2, ⟨m.next, s.len + num, pol (s.len + num) s.cap⟩) ∧
      m2.next = m.next + (pol (s.len + num) s.cap * esz).toNat + 1 ∧
      ∀ x, m2.bytes x =
        if m.next ≤ x ∧ x < m.next + (s.len * esz).toNat then m.bytes (s.data + (x - m.next))
        else if m.next ≤ x ∧ x < m.next + (pol (s.len + num) s.cap * esz).toNat then 0 else m.bytes x := by
  obtain ⟨h0, hlc, hdl, hinb⟩ := hwf
  have hL : s.len * esz ≤ s.cap * esz := Int.mul_le_mul_of_nonneg_right hlc hesz
  have hL0 : 0 ≤ s.len * esz := Int.mul_nonneg h0 hesz
  unfold GrowSlice
  simp only [hgrow, if_true, allocZ, allocU]
  generalize hC : (pol (s.len + num) s.cap * esz).toNat = C
  generalize hLL : (s.len * esz).toNat = L
  have hLle : s.data + L ≤ m.next := by omega
  by_cases hz : s.len = 0
  · have : L = 0 := by subst hLL; rw [hz]; simp
    subst this
    rw [if_neg (by simp [hz])]
    refine ⟨_, rfl, rfl, ?_⟩
    intro x
    rw [memset_bytes]
    simp only [Nat.add_zero]
    have hn : ¬ (m.next ≤ x ∧ x < m.next) := by omega
    rw [if_neg hn]
  · rw [if_pos hz]
    rw [memcpy_ok _ _ _ _ (by unfold overlaps; omega)]
    refine ⟨_, rfl, rfl, ?_⟩
    intro x
    rw [memmove_bytes, memset_bytes, memset_bytes]
    by_cases hx : m.next ≤ x ∧ x < m.next + L
    · rw [if_pos hx, if_pos hx, if_neg (by omega)]
    · rw [if_neg hx, if_neg hx]

theorem append_ok (cfg : Cfg) (pol : Int → Int → Int) (m : Mem) (s : Slice) (data : Nat) (num esz : Int)
    (hpol : ∀ a b, a ≤ pol a b) (hesz : 0 ≤ esz) (hnum : 0 ≤ num) (hwf : WF m s esz)
    (hsrc : data + (num * esz).toNat ≤ m.next)
    (hz : cfg.zeroSizeFix = true ∨ esz ≠ 0)
    (ho : cfg.memmoveFix = true ∨
      (s.len + num ≤ s.cap → ¬ overlaps (s.data + (s.len * esz).toNat) data (num * esz).toNat)) :
    AppendSpec cfg pol m s data num esz := by
  have hwf' := hwf
  obtain ⟨h0, hlc, hdl, hinb⟩ := hwf
  have hL0 : 0 ≤ s.len * esz := Int.mul_nonneg h0 hesz
  have hN0 : 0 ≤ num * esz := Int.mul_nonneg hnum hesz
  have hadd : (s.len + num) * esz = s.len * esz + num * esz := Int.add_mul _ _ _
  have hsplit : ((s.len + num) * esz).toNat = (s.len * esz).toNat + (num * esz).toNat := by omega
  unfold AppendSpec
  have hcond : ¬ (esz = 0 ∧ cfg.zeroSizeFix = false) := by
    rcases hz with h | h
    · simp [h]
    · simp [h]
  unfold SliceAppend
  rw [if_neg hcond]
  by_cases hgrow : s.len + num > s.cap
  · -- a new block
    obtain ⟨m2, hg, hnext, hbytes⟩ := grow_spec pol m s num esz hesz hwf' hgrow
    rw [hg]
    simp only
    have hcapge : s.len + num ≤ pol (s.len + num) s.cap := hpol _ _
    have hLC : (s.len + num) * esz ≤ pol (s.len + num) s.cap * esz := Int.mul_le_mul_of_nonneg_right hcapge hesz
    have hLle : s.len * esz ≤ s.cap * esz := Int.mul_le_mul_of_nonneg_right hlc hesz
    rw [advance_nonneg _ _ hL0]
    generalize hC : (pol (s.len + num) s.cap * esz).toNat = C at *
    generalize hLL : (s.len * esz).toNat = L at *
    generalize hNN : (num * esz).toNat = N at *
    have hLNC : L + N ≤ C := by omega
    have hmm : ∀ x, (memmove m2 (m.next + L) data N).bytes x =
        if m.next ≤ x ∧ x < m.next + L then m.bytes (s.data + (x - m.next))
        else if m.next + L ≤ x ∧ x < m.next + L + N then m.bytes (data + (x - (m.next + L)))
        else if m.next ≤ x ∧ x < m.next + C then 0 else m.bytes x := by
      intro x
      rw [memmove_bytes]
      by_cases h1 : m.next + L ≤ x ∧ x < m.next + L + N
      · rw [if_pos h1, if_neg (by omega), if_pos h1, hbytes, if_neg (by omega), if_neg (by omega)]
      · rw [if_neg h1, hbytes]
        by_cases h2 : m.next ≤ x ∧ x < m.next + L
        · rw [if_pos h2, if_pos h2]
        · rw [if_neg h2, if_neg h2, if_neg h1]
    have hfinal : ∃ m3, (if cfg.memmoveFix = true then
          (Except.ok (memmove m2 (m.next + L) data N, (⟨m.next, s.len + num, pol (s.len + num) s.cap⟩ : Slice)) : Except Err (Mem × Slice))
        else match memcpy m2 (m.next + L) data N with
          | .error e => .error e
          | .ok m2' => .ok (m2', ⟨m.next, s.len + num, pol (s.len + num) s.cap⟩)) =
        .ok (m3, ⟨m.next, s.len + num, pol (s.len + num) s.cap⟩) ∧ m3 = memmove m2 (m.next + L) data N := by
      by_cases hf : cfg.memmoveFix = true
      · rw [if_pos hf]; exact ⟨_, rfl, rfl⟩
      · rw [if_neg hf, memcpy_ok _ _ _ _ (by unfold overlaps; omega)]; exact ⟨_, rfl, rfl⟩
    obtain ⟨m3, he, hm3⟩ := hfinal
    refine ⟨m3, _, he, rfl, hcapge, ?_, ?_, ?_, ?_, ?_⟩
    · -- contents
      simp only [view]
      rw [hsplit, hLL, read_add, hm3]
      congr 1
      · apply read_congr; intro i hi
        rw [hmm, if_pos (by omega)]; congr 1; omega
      · apply read_congr; intro i hi
        rw [hmm, if_neg (by omega), if_pos (by omega)]; congr 1; omega
    · constructor
      · intro h; simp only at h; omega
      · intro h; omega
    · intro a ha _
      rw [hm3, hmm, if_neg (by omega), if_neg (by omega), if_neg (by omega)]
    · subst hm3
      exact ⟨by simp only; omega, hcapge, by simp only [memmove_next]; omega, by simp only [memmove_next]; omega⟩
    · subst hm3; simp only [memmove_next]; omega
  · -- in place
    have hgrow' : s.len + num ≤ s.cap := by omega
    have hg : GrowSlice pol m s num esz = .ok (m, { s with len := s.len + num }) := by
      unfold GrowSlice; simp only [hgrow, if_false]
    rw [hg]
    simp only
    have hLC : (s.len + num) * esz ≤ s.cap * esz := Int.mul_le_mul_of_nonneg_right hgrow' hesz
    rw [advance_nonneg _ _ hL0]
    have ho' : cfg.memmoveFix = true ∨ ¬ overlaps (s.data + (s.len * esz).toNat) data (num * esz).toNat := by
      rcases ho with h | h
      · exact Or.inl h
      · exact Or.inr (h hgrow')
    generalize hLL : (s.len * esz).toNat = L at *
    generalize hNN : (num * esz).toNat = N at *
    have hfinal : ∃ m3, (if cfg.memmoveFix = true then
          (Except.ok (memmove m (s.data + L) data N, ({ s with len := s.len + num } : Slice)) : Except Err (Mem × Slice))
        else match memcpy m (s.data + L) data N with
          | .error e => .error e
          | .ok m2' => .ok (m2', { s with len := s.len + num })) =
        .ok (m3, { s with len := s.len + num }) ∧ m3 = memmove m (s.data + L) data N := by
      by_cases hf : cfg.memmoveFix = true
      · rw [if_pos hf]; exact ⟨_, rfl, rfl⟩
      · rw [if_neg hf, memcpy_ok _ _ _ _ (by rcases ho' with h | h; exact absurd h hf; exact h)]; exact ⟨_, rfl, rfl⟩
    obtain ⟨m3, he, hm3⟩ := hfinal
    refine ⟨m3, _, he, rfl, hgrow', ?_, ?_, ?_, ?_, ?_⟩
    · simp only [view]
      rw [hsplit, hLL, read_add, hm3]
      congr 1
      · apply read_congr; intro i hi
        rw [memmove_bytes, if_neg (by omega)]
      · apply read_congr; intro i hi
        rw [memmove_bytes, if_pos (by omega)]; congr 1; omega
    · simp [hgrow']
    · intro a ha hna
      rw [hm3, memmove_bytes, if_neg (by omega)]
    · subst hm3
      exact ⟨by simp only; omega, hgrow', by simp only [memmove_next]; exact hdl, by simp only [memmove_next]; exact hinb⟩
    · subst hm3; simp only [memmove_next]; omega

/-! ## copy, slice3 -/

theorem copy_spec' (m : Mem) (dst : Slice) (data : Nat) (num esz : Int) (hesz : 0 ≤ esz) :
    (SliceCopy m dst data num esz).2 = min dst.len num ∧
    (SliceCopy m dst data num esz).1.read dst.data ((min dst.len num) * esz).toNat
      = m.read data ((min dst.len num) * esz).toNat ∧
    (∀ a, ¬ (dst.data ≤ a ∧ a < dst.data + ((min dst.len num) * esz).toNat) →
      (SliceCopy m dst data num esz).1.bytes a = m.bytes a) ∧
    (SliceCopy m dst data num esz).1.next = m.next := by
  have hmin : (if dst.len > num then num else dst.len) = min dst.len num := by
    split <;> omega
  unfold SliceCopy
  simp only [hmin]
  generalize min dst.len num = n
  by_cases hn : n > 0
  · simp only [hn, if_true]
    refine ⟨trivial, ?_, ?_, rfl⟩
    · apply read_congr; intro i hi
      rw [memmove_bytes, if_pos (by omega)]; congr 1; omega
    · intro a ha; rw [memmove_bytes, if_neg ha]
  · simp only [hn, if_false]
    have : n * esz ≤ 0 := Int.mul_nonpos_of_nonpos_of_nonneg (by omega) hesz
    have h0 : (n * esz).toNat = 0 := by omega
    refine ⟨trivial, by rw [h0]; rfl, fun _ _ => trivial, trivial⟩

theorem slice3_ok (base : Nat) (esz cap i j k : Int) (h : 0 ≤ i ∧ i ≤ j ∧ j ≤ k ∧ k ≤ cap) :
    NewSlice3 base esz cap i j k =
      .ok { data := if k - i > 0 then advance base (i * esz) else base, len := j - i, cap := k - i } := by
  unfold NewSlice3
  rw [if_neg (by omega), if_neg (by omega), if_neg (by omega)]

theorem slice3_panic (base : Nat) (esz cap i j k : Int) (h : ¬ (0 ≤ i ∧ i ≤ j ∧ j ≤ k ∧ k ≤ cap)) :
    NewSlice3 base esz cap i j k = .error .panic := by
  unfold NewSlice3
  by_cases h1 : k < 0 ∨ k > cap
  · rw [if_pos h1]
  · rw [if_neg h1]
    by_cases h2 : j < 0 ∨ j > k
    · rw [if_pos h2]
    · rw [if_neg h2, if_pos (by omega)]

theorem read_drop_take (m : Mem) (base C I J : Nat) (h : I + J ≤ C) :
    ((m.read base C).drop I).take J = m.read (base + I) J := by
  apply List.ext_getElem
  · simp [Mem.read]; omega
  · intro n h1 h2
    simp [Mem.read]; congr 1; omega

theorem slice3_window' (m : Mem) (base : Nat) (esz cap i j k : Int) (hesz : 0 ≤ esz)
    (h : 0 ≤ i ∧ i ≤ j ∧ j ≤ k ∧ k ≤ cap) (s : Slice) (hs : NewSlice3 base esz cap i j k = .ok s) :
    view m s esz = ((m.read base (cap * esz).toNat).drop (i * esz).toNat).take ((j - i) * esz).toNat := by
  rw [slice3_ok base esz cap i j k h] at hs
  injection hs with hs
  subst hs
  simp only [view]
  have hi : 0 ≤ i * esz := Int.mul_nonneg h.1 hesz
  have hji : 0 ≤ (j - i) * esz := Int.mul_nonneg (by omega) hesz
  have hjc : j * esz ≤ cap * esz := Int.mul_le_mul_of_nonneg_right (by omega) hesz
  have hsub : (j - i) * esz = j * esz - i * esz := Int.sub_mul _ _ _
  rw [read_drop_take m base _ _ _ (by omega)]
  by_cases hk : k - i > 0
  · rw [if_pos hk, advance_nonneg _ _ hi]
  · rw [if_neg hk]
    have : j - i = 0 := by omega
    rw [this]; simp [Mem.read]

/-! ## make, clear, conversions -/
theorem mulUintptr_small (a b : Nat) (h : a * b < 2 ^ 64) : mulUintptr a b = (a * b, false) := by
  unfold mulUintptr
  by_cases hf : (a < 2 ^ 32 ∧ b < 2 ^ 32) ∨ a = 0
  · rw [if_pos hf, Nat.mod_eq_of_lt h]
  · rw [if_neg hf, Nat.mod_eq_of_lt h]
    have ha : 0 < a := by omega
    have : b ≤ (2 ^ 64 - 1) / a := (Nat.le_div_iff_mul_le ha).2 (by rw [Nat.mul_comm]; omega)
    simp only [Prod.mk.injEq, true_and, decide_eq_false_iff_not, gt_iff_lt]
    omega

theorem makeSlice_ok (m : Mem) (len cap esz : Int) (h : 0 ≤ len ∧ len ≤ cap) (hesz : 0 ≤ esz)
    (hb : cap < 2 ^ 63 ∧ esz < 2 ^ 63) (hsz : cap * esz ≤ 2 ^ 48) :
    ∃ m', MakeSlice m len cap esz = .ok (m', ⟨m.next, len, cap⟩) ∧
      (∀ i, i < (cap * esz).toNat → m'.bytes (m.next + i) = 0) ∧
      (∀ a, a < m.next → m'.bytes a = m.bytes a) ∧ WF m' ⟨m.next, len, cap⟩ esz := by
  have hu1 : uintptr esz = esz.toNat := by unfold uintptr; omega
  have hu2 : uintptr cap = cap.toNat := by unfold uintptr; omega
  have hprod : (esz.toNat * cap.toNat : Nat) = (cap * esz).toNat := by
    have h1 : ((esz.toNat * cap.toNat : Nat) : Int) = cap * esz := by
      rw [Int.natCast_mul, Int.toNat_of_nonneg hesz, Int.toNat_of_nonneg (by omega), Int.mul_comm]
    omega
  have hlt : esz.toNat * cap.toNat < 2 ^ 64 := by rw [hprod]; omega
  unfold MakeSlice
  simp only [hu1, hu2, mulUintptr_small _ _ hlt, hprod, maxAlloc]
  rw [if_neg (by simp; omega)]
  refine ⟨_, rfl, ?_, ?_, ?_⟩
  · intro i hi
    simp only [allocZ, allocU, memset_bytes]; rw [if_pos (by omega)]
  · intro a ha
    simp only [allocZ, allocU, memset_bytes]; rw [if_neg (by omega)]
  · exact ⟨h.1, h.2, by simp [allocZ, allocU, memset]; omega, by simp [allocZ, allocU, memset]⟩

theorem makeSlice_panic (m : Mem) (len cap esz : Int) (h : len < 0 ∨ len > cap) :
    MakeSlice m len cap esz = .error .panic := by
  unfold MakeSlice
  simp only
  rw [if_pos (by omega)]

theorem clear_spec' (m : Mem) (s : Slice) (esz : Nat) (h0 : 0 ≤ s.len) (hb : s.len * esz < 2 ^ 64) :
    (∀ i, i < (s.len * esz).toNat → (SliceClear m s esz).bytes (s.data + i) = 0) ∧
    (∀ a, ¬ (s.data ≤ a ∧ a < s.data + (s.len * esz).toNat) → (SliceClear m s esz).bytes a = m.bytes a) := by
  have hlen : s.len < 2 ^ 64 ∨ esz = 0 := by
    by_cases he : esz = 0
    · exact Or.inr he
    · left
      have : s.len * 1 ≤ s.len * esz := Int.mul_le_mul_of_nonneg_left (by omega) h0
      omega
  have hn : uintptr s.len * esz % 2 ^ 64 = (s.len * esz).toNat := by
    rcases hlen with hl | he
    · have hu : uintptr s.len = s.len.toNat := by unfold uintptr; omega
      have h1 : ((s.len.toNat * esz : Nat) : Int) = s.len * esz := by
        rw [Int.natCast_mul, Int.toNat_of_nonneg h0]
      rw [hu, Nat.mod_eq_of_lt (by omega)]; omega
    · subst he; simp
  unfold SliceClear
  rw [hn]
  constructor
  · intro i hi; rw [memset_bytes, if_pos (by omega)]
  · intro a ha; rw [memset_bytes, if_neg ha]

theorem u32_of_nonneg (r : Int) (h0 : 0 ≤ r) (h1 : r < 2 ^ 32) : u32 r = r.toNat := by unfold u32; omega

theorem encode_runeError : encodeRune runeError = [0xEF, 0xBF, 0xBD] := by decide

theorem stringFromRune_spec' (r : Int) (h : -2 ^ 31 ≤ r ∧ r < 2 ^ 31) :
    StringFromRune r = if 0 ≤ r ∧ validScalar r.toNat then encodeRune r.toNat else [0xEF, 0xBF, 0xBD] := by
  unfold StringFromRune
  by_cases h0 : 0 ≤ r
  · rw [u32_of_nonneg r h0 (by omega)]
    by_cases hv : validScalar r.toNat
    · rw [if_pos ⟨h0, hv⟩]
    · rw [if_neg (by simp [hv])]
      rw [validScalar_iff] at hv
      exact encodeErr _ (by omega)
  · rw [if_neg (by omega)]
    apply encodeErr
    left; unfold u32; omega

theorem stringFromInt64_spec' (r : Int) :
    StringFromInt64 r = if 0 ≤ r ∧ validScalar r.toNat then encodeRune r.toNat else [0xEF, 0xBF, 0xBD] := by
  unfold StringFromInt64
  have hm : ((maxRune : Nat) : Int) = 1114111 := rfl
  by_cases hr : r < 0 ∨ r > maxRune
  · rw [if_pos hr, if_neg]
    · exact (stringFromRune_spec' runeError (by decide)).trans (by decide)
    · rw [validScalar_iff]; omega
  · rw [if_neg hr, stringFromRune_spec' r (by omega)]

theorem stringFromUint64_spec' (r : Nat) :
    StringFromUint64 r = if validScalar r then encodeRune r else [0xEF, 0xBF, 0xBD] := by
  unfold StringFromUint64
  have hm : maxRune = 1114111 := rfl
  by_cases hr : r > maxRune
  · rw [if_pos hr, if_neg]
    · exact (stringFromRune_spec' runeError (by decide)).trans (by decide)
    · rw [validScalar_iff]; omega
  · rw [if_neg hr, stringFromRune_spec' r (by omega)]
    simp

theorem stringSlice_spec' (base : List Nat) (i j : Int) :
    StringSlice base i j =
      if 0 ≤ i ∧ i ≤ j ∧ j ≤ base.length then .ok ((base.drop i.toNat).take (j - i).toNat) else .error .panic := by
  unfold StringSlice
  by_cases h : 0 ≤ i ∧ i ≤ j ∧ j ≤ base.length
  · rw [if_neg (by omega), if_pos h]
    by_cases hi : i < base.length
    · rw [if_pos hi]
    · rw [if_neg hi]
      have : j - i = 0 := by omega
      rw [this]; simp
  · rw [if_pos (by omega), if_neg h]

end LlgoVerif.Slice
