import LlgoVerif.Model.TypeStr
/-!
# Lemmas for C15: the emitted type string follows Go's grammar

`goStr` is the declarative rendering of `reflect.Type.String()` (plain structural recursion, no flag
bookkeeping).  `strOk` is the decidable fragment on which llgo's `Str_` + `TFlagExtraStar`
(`reflectString`) produces it; outside it the check has concrete counterexamples on the real code.
-/
namespace LlgoVerif.Types

/-- Go parenthesises exactly `chan (<-chan T)` -/
def chanParen (d : ChanDir) (e : GoType) : Bool := d == .both && isRecvChan (unalias e)

mutual
/-- `reflect.Type.String()` as Go defines it; `q` = `strconv.Quote` (for struct tags) -/
def goStr (q : Str → Str) (env : Env) : GoType → Str
  | .alias _ a => goStr q env a
  | .basic k => basicStr k
  | .pointer e => '*' :: goStr q env e
  | .slice e => '[' :: ']' :: goStr q env e
  | .array n e => '[' :: dec n ++ ']' :: goStr q env e
  | .map k v => litMapOpen ++ goStr q env k ++ ']' :: goStr q env v
  | .chan d e => chanDirStr d ++ ' ' :: (if chanParen d e then '(' :: goStr q env e ++ [')'] else goStr q env e)
  | .func ps rs v => litFuncOpen ++ goParams q env ps v ++ ')' :: goResults q env rs
  | .struct fs => litStructOpen ++ goFields q env fs true ++ (if fs.length = 0 then ['}'] else [' ', '}'])
  | .iface ms => litIfaceOpen ++ goMethods q env ms true ++ (if ms.isNil then ['}'] else [' ', '}'])
  | .named _ pkg name _ targs =>
    let nm := name ++ (if targs.isNil then [] else '[' :: goTargs q env targs ++ [']'])
    match pkg with
    | some p => env.pkgName p ++ '.' :: nm
    | none => nm
def goParams (q : Str → Str) (env : Env) : TList → Bool → Str
  | .nil, _ => []
  | .cons t r, v =>
    (if r.isNil && v then
      match t with
      | .slice e => '.' :: '.' :: '.' :: goStr q env e
      | _ => ['?']
    else goStr q env t) ++ (if r.isNil then [] else ',' :: ' ' :: goParams q env r v)
def goResults (q : Str → Str) (env : Env) : TList → Str
  | .nil => []
  | .cons t r =>
    if r.isNil then ' ' :: goStr q env t
    else ' ' :: '(' :: goStr q env t ++ goMoreResults q env r ++ [')']
def goMoreResults (q : Str → Str) (env : Env) : TList → Str
  | .nil => []
  | .cons t r => ',' :: ' ' :: goStr q env t ++ goMoreResults q env r
/-- `name type "tag"` / `type "tag"` for an embedded field, separated by `; ` -/
def goFields (q : Str → Str) (env : Env) : FList → Bool → Str
  | .nil, _ => []
  | .cons name _ emb tag t r, first =>
    (if first then [' '] else [';', ' ']) ++ (if emb then [] else name ++ [' ']) ++
      goStr q env t ++ (if tag = [] then [] else ' ' :: q tag) ++ goFields q env r false
def goMethods (q : Str → Str) (env : Env) : MList → Bool → Str
  | .nil, _ => []
  | .cons name pkg sig r, first =>
    (if first then [' '] else [';', ' ']) ++
      (match pkg with | some p => env.pkgName p ++ '.' :: name | none => name) ++
      (goStr q env sig).drop 4 ++ goMethods q env r false
def goTargs (q : Str → Str) (env : Env) : TList → Str
  | .nil => []
  | .cons t r => goTarg q env t ++ (if r.isNil then [] else ',' :: goTargs q env r)
/-- a type argument: like `goStr`, packages by (PathOf) import path -/
def goTarg (q : Str → Str) (env : Env) : GoType → Str
  | .alias _ a => goTarg q env a
  | .basic k => basicStr k
  | .named _ pkg name _ targs =>
    let nm := name ++ (if targs.isNil then [] else '[' :: goTargs q env targs ++ [']'])
    match pkg with
    | some p => targPkgPath env p ++ '.' :: nm
    | none => nm
  | .iface ms => litIfaceOpen ++ goMethods q env ms true ++ (if ms.isNil then ['}'] else [' ', '}'])
  | .pointer e => '*' :: goTarg q env e
  | .slice e => '[' :: ']' :: goTarg q env e
  | .array n e => '[' :: dec n ++ ']' :: goTarg q env e
  | .map k v => litMapOpen ++ goTarg q env k ++ ']' :: goTarg q env v
  | .chan d e => chanDirStr d ++ ' ' :: (if chanParen d e then '(' :: goTarg q env e ++ [')'] else goTarg q env e)
  | .func _ _ _ => ['?']
  | .struct _ => ['?']
end

mutual
/-- the fragment: no named type with a pointer underlying type, no tags, no closure structs, no
    pointer-typed (star-flagged) map keys, no `chan (<-chan T)`; type arguments without func /
    struct (their rendering is the unmodelled `types.TypeString` fall-back) -/
def strOk (env : Env) : GoType → Bool
  | .alias _ a => strOk env a
  | .basic _ => true
  | .pointer e => strOk env e
  | .slice e => strOk env e
  | .array _ e => strOk env e
  | .map k v => !extraStar env k && strOk env k && strOk env v
  | .chan d e => !chanParen d e && strOk env e
  | .func ps rs _ => strOkL env ps && strOkL env rs
  | .struct fs => !isClosure fs && strOkF env fs
  | .iface ms => strOkM env ms
  | .named d _ _ _ targs => !env.underStar d && strOkL env targs
def strOkL (env : Env) : TList → Bool
  | .nil => true
  | .cons t r => strOk env t && targOk t && strOkL env r
def strOkF (env : Env) : FList → Bool
  | .nil => true
  | .cons _ _ _ tag t r => tag == [] && strOk env t && strOkF env r
def strOkM (env : Env) : MList → Bool
  | .nil => true
  | .cons _ _ s r => strOk env s && strOkM env r
/-- no func / struct anywhere below (used for type arguments) -/
def targOk : GoType → Bool
  | .alias _ a => targOk a
  | .basic _ => true
  | .pointer e => targOk e
  | .slice e => targOk e
  | .array _ e => targOk e
  | .map k v => targOk k && targOk v
  | .chan _ e => targOk e
  | .func _ _ _ => false
  | .struct _ => false
  | .iface _ => true
  | .named _ _ _ _ targs => targOkL targs
def targOkL : TList → Bool
  | .nil => true
  | .cons t r => targOk t && targOkL r
end

theorem star_pointer (env : Env) (e : GoType) (s : Str) :
    star env (.pointer e) (if extraStar env e then '*' :: '*' :: s else s) = '*' :: star env e s := by
  unfold star
  simp only [extraStar]
  by_cases h : extraStar env e = true <;> simp [h]

set_option linter.unusedVariables false in
mutual
theorem real_eq_go (q : Str → Str) (env : Env) : ∀ t : GoType, strOk env t = true →
    star env t (strC env t) = goStr q env t
  | .alias _ a, h => by
    have ih := real_eq_go q env a (by simpa [strOk] using h)
    unfold star at ih ⊢
    simp only [extraStar, strC, goStr]
    exact ih
  | .basic k, _ => by simp [star, extraStar, strC, goStr]
  | .pointer e, h => by
    have ih := real_eq_go q env e (by simpa [strOk] using h)
    simp only [strC, goStr]
    rw [star_pointer, ih]
  | .slice e, h => by
    have ih := real_eq_go q env e (by simpa [strOk] using h)
    simp [star, extraStar, strC, goStr, ← ih]
  | .array n e, h => by
    have ih := real_eq_go q env e (by simpa [strOk] using h)
    simp [star, extraStar, strC, goStr, ← ih]
  | .map k v, h => by
    simp only [strOk, Bool.and_eq_true, Bool.not_eq_true'] at h
    have ihk := real_eq_go q env k h.1.2
    have ihv := real_eq_go q env v h.2
    have hk : strC env k = goStr q env k := by simpa [star, h.1.1] using ihk
    simp [star, extraStar, strC, goStr, hk, ← ihv]
  | .chan d e, h => by
    simp only [strOk, Bool.and_eq_true, Bool.not_eq_true'] at h
    have ih := real_eq_go q env e h.2
    simp [star, extraStar, strC, goStr, h.1, ← ih]
  | .func ps rs v, h => by
    simp only [strOk, Bool.and_eq_true] at h
    simp [star, extraStar, strC, goStr, params_eq_go q env ps v h.1, results_eq_go q env rs h.2]
  | .struct fs, h => by
    simp only [strOk, Bool.and_eq_true, Bool.not_eq_true'] at h
    simp [star, extraStar, strC, goStr, h.1, fields_eq_go q env fs true h.2]
  | .iface ms, h => by
    simp [star, extraStar, strC, goStr, methods_eq_go q env ms true (by simpa [strOk] using h)]
  | .named d pkg name sc targs, h => by
    simp only [strOk, Bool.and_eq_true, Bool.not_eq_true'] at h
    cases pkg <;> simp [star, extraStar, strC, goStr, h.1, targs_eq_go q env targs h.2]
theorem params_eq_go (q : Str → Str) (env : Env) : ∀ (l : TList) (v : Bool), strOkL env l = true →
    paramsC env l v = goParams q env l v
  | .nil, _, _ => by simp [paramsC, goParams]
  | .cons t r, v, h => by
    simp only [strOkL, Bool.and_eq_true] at h
    have iht := real_eq_go q env t h.1.1
    have ihr := params_eq_go q env r v h.2
    cases t with
    | slice e =>
      have ihe := real_eq_go q env e (by simpa [strOk] using h.1.1)
      simp only [paramsC, goParams, ihr, iht, ihe]
    | alias _ _ => simp only [paramsC, goParams, ihr, iht]
    | basic _ => simp only [paramsC, goParams, ihr, iht]
    | pointer _ => simp only [paramsC, goParams, ihr, iht]
    | array _ _ => simp only [paramsC, goParams, ihr, iht]
    | map _ _ => simp only [paramsC, goParams, ihr, iht]
    | chan _ _ => simp only [paramsC, goParams, ihr, iht]
    | func _ _ _ => simp only [paramsC, goParams, ihr, iht]
    | struct _ => simp only [paramsC, goParams, ihr, iht]
    | iface _ => simp only [paramsC, goParams, ihr, iht]
    | named _ _ _ _ _ => simp only [paramsC, goParams, ihr, iht]
theorem results_eq_go (q : Str → Str) (env : Env) : ∀ l : TList, strOkL env l = true →
    resultsC env l = goResults q env l
  | .nil, _ => by simp [resultsC, goResults]
  | .cons t r, h => by
    simp only [strOkL, Bool.and_eq_true] at h
    simp [resultsC, goResults, real_eq_go q env t h.1.1, more_eq_go q env r h.2]
theorem more_eq_go (q : Str → Str) (env : Env) : ∀ l : TList, strOkL env l = true →
    moreResultsC env l = goMoreResults q env l
  | .nil, _ => by simp [moreResultsC, goMoreResults]
  | .cons t r, h => by
    simp only [strOkL, Bool.and_eq_true] at h
    simp [moreResultsC, goMoreResults, real_eq_go q env t h.1.1, more_eq_go q env r h.2]
theorem fields_eq_go (q : Str → Str) (env : Env) : ∀ (l : FList) (b : Bool), strOkF env l = true →
    sfieldsC env l b = goFields q env l b
  | .nil, _, _ => by simp [sfieldsC, goFields]
  | .cons name pkg emb tag t r, b, h => by
    simp only [strOkF, Bool.and_eq_true, beq_iff_eq] at h
    simp [sfieldsC, goFields, real_eq_go q env t h.1.2, fields_eq_go q env r false h.2, h.1.1]
theorem methods_eq_go (q : Str → Str) (env : Env) : ∀ (l : MList) (b : Bool), strOkM env l = true →
    imethodsC env l b = goMethods q env l b
  | .nil, _, _ => by simp [imethodsC, goMethods]
  | .cons name pkg s r, b, h => by
    simp only [strOkM, Bool.and_eq_true] at h
    cases pkg <;> simp [imethodsC, goMethods, real_eq_go q env s h.1, methods_eq_go q env r false h.2]
theorem targs_eq_go (q : Str → Str) (env : Env) : ∀ l : TList, strOkL env l = true →
    targsC env l = goTargs q env l
  | .nil, _ => by simp [targsC, goTargs]
  | .cons t r, h => by
    simp only [strOkL, Bool.and_eq_true] at h
    simp [targsC, goTargs, targ_eq_go q env t h.1.1 h.1.2, targs_eq_go q env r h.2]
theorem targ_eq_go (q : Str → Str) (env : Env) : ∀ t : GoType, strOk env t = true → targOk t = true →
    star env t (targBaseC env t) = goTarg q env t
  | .alias _ a, h, g => by
    have ih := targ_eq_go q env a (by simpa [strOk] using h) (by simpa [targOk] using g)
    unfold star at ih ⊢
    simp only [extraStar, targBaseC, goTarg]
    exact ih
  | .basic k, _, _ => by simp [star, extraStar, targBaseC, goTarg]
  | .pointer e, h, g => by
    have ih := targ_eq_go q env e (by simpa [strOk] using h) (by simpa [targOk] using g)
    simp only [targBaseC, goTarg]
    rw [star_pointer, ih]
  | .slice e, h, g => by
    have ih := targ_eq_go q env e (by simpa [strOk] using h) (by simpa [targOk] using g)
    simp [star, extraStar, targBaseC, goTarg, ← ih]
  | .array n e, h, g => by
    have ih := targ_eq_go q env e (by simpa [strOk] using h) (by simpa [targOk] using g)
    simp [star, extraStar, targBaseC, goTarg, ← ih]
  | .map k v, h, g => by
    simp only [strOk, Bool.and_eq_true, Bool.not_eq_true'] at h
    simp only [targOk, Bool.and_eq_true] at g
    have ihk := targ_eq_go q env k h.1.2 g.1
    have ihv := targ_eq_go q env v h.2 g.2
    have hk : targBaseC env k = goTarg q env k := by simpa [star, h.1.1] using ihk
    simp [star, extraStar, targBaseC, goTarg, hk, ← ihv]
  | .chan d e, h, g => by
    simp only [strOk, Bool.and_eq_true, Bool.not_eq_true'] at h
    have ih := targ_eq_go q env e h.2 (by simpa [targOk] using g)
    simp [star, extraStar, targBaseC, goTarg, h.1, ← ih]
  | .func ps rs v, _, g => by simp [targOk] at g
  | .struct fs, _, g => by simp [targOk] at g
  | .iface ms, h, _ => by
    simp [star, extraStar, targBaseC, goTarg, methods_eq_go q env ms true (by simpa [strOk] using h)]
  | .named d pkg name sc targs, h, g => by
    simp only [strOk, Bool.and_eq_true, Bool.not_eq_true'] at h
    cases pkg <;> simp [star, extraStar, targBaseC, goTarg, h.1, targs_eq_go q env targs h.2]
end

/-! ## method tables -/

/-- lexicographic `<` on texts by code point (= Go's byte order on their UTF-8 encodings) -/
def strLt : Str → Str → Bool
  | [], [] => false
  | [], _ :: _ => true
  | _ :: _, [] => false
  | a :: as, b :: bs => if a.toNat < b.toNat then true else if b.toNat < a.toNat then false else strLt as bs

/-- go/types delivers a method set strictly sorted by `Id` -/
def SortedById (ms : List MethodIn) : Prop := ms.Pairwise fun a b => strLt (methodId a) (methodId b) = true

/-- no method comes from a package under llgo's patch prefix (there `PathOf` rewrites the path) -/
def noPatchPkg (ms : List MethodIn) : Bool := ms.all fun m =>
  match m.pkg with
  | none => true
  | some p => !patchPrefix.isPrefixOf p

theorem emittedName_eq_id (m : MethodIn) (h : (match m.pkg with | none => true | some p => !patchPrefix.isPrefixOf p) = true) :
    emittedName m = methodId m := by
  unfold emittedName methodId
  cases hp : m.pkg with
  | none => rfl
  | some p =>
    simp only [hp, Bool.not_eq_true'] at h
    simp [pathOf, h]

theorem methodTable_sorted : ∀ (ms : List MethodIn), SortedById ms → noPatchPkg ms = true →
    (methodTable ms).Pairwise fun a b => strLt a.1 b.1 = true
  | [], _, _ => by simp [methodTable]
  | m :: ms, hs, hp => by
    simp only [noPatchPkg, List.all_cons, Bool.and_eq_true] at hp
    have hs' := List.pairwise_cons.1 hs
    have ih := methodTable_sorted ms hs'.2 (by simpa [noPatchPkg] using hp.2)
    simp only [methodTable, List.map_cons, List.pairwise_cons]
    refine ⟨?_, by simpa [methodTable] using ih⟩
    intro x hx
    simp only [List.mem_map] at hx
    obtain ⟨m', hm', rfl⟩ := hx
    have hall : ∀ y ∈ ms, (match y.pkg with | none => true | some p => !patchPrefix.isPrefixOf p) = true := by
      have := hp.2
      simpa [List.all_eq_true] using this
    rw [emittedName_eq_id m hp.1, emittedName_eq_id m' (hall m' hm')]
    exact hs'.1 m' hm'

/-- the field table is the field list, in order, with names, tags and embedding as declared -/
theorem fieldTable_length : ∀ fs : FList, (fieldTable fs).length = fs.length
  | .nil => rfl
  | .cons _ _ _ _ _ r => by simp [fieldTable, FList.length, fieldTable_length r]

end LlgoVerif.Types
