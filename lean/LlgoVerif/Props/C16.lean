import LlgoVerif.Lemmas.Embed
/-!
# C16 — go:embed delivers exactly the files and bytes the go tool would embed

Property theorems only.  Model: `LlgoVerif/Model/Embed.lean` (goembed.go); specification (cmd/go's rule):
`LlgoVerif/Spec/Embed.lean`; lemmas: `LlgoVerif/Lemmas/Embed.lean`.

`resolve ⟨true⟩` is `ResolvePatterns` with cmd/go's "in non-directory" test in `CheckPath`
(`fixes/C16-1.diff`); `resolve ⟨false⟩` is `ResolvePatterns` as it stands.  All statements are for
every file tree (any depth, any names, links, fifos, nested modules) and every pattern list.
-/
namespace LlgoVerif.Embed
open LlgoVerif.Embed.Spec

/-! ## `ResolvePatterns` with the `CheckPath` repair: equal to cmd/go's rule -/

/-- **Errors exactly where the specification rejects**: the pattern list is resolved without error
    iff cmd/go accepts every pattern (valid syntax, at least one match, every match acceptable and
    delivering at least one file). -/
theorem resolve_accepts_iff (root : Node) (pats : List Str) :
    (∃ fs, resolve ⟨true⟩ root pats = .ok fs) ↔ Accepted root pats := by
  rw [resolve_ok_iff_loop, resolveLoop_ok_iff]
  unfold Accepted PatternOK
  constructor
  · intro h p hp
    have := (patternFiles_ok_iff ⟨true⟩ root p).1 (h p hp)
    refine ⟨this.1, this.2.1, fun t ht => ?_⟩
    exact ⟨(trailOK_true_iff t).1 (this.2.2 t ht).1, (this.2.2 t ht).2⟩
  · intro h p hp
    have := h p hp
    exact (patternFiles_ok_iff ⟨true⟩ root p).2
      ⟨this.1, this.2.1, fun t ht => ⟨(trailOK_true_iff t).2 (this.2.2 t ht).1, (this.2.2 t ht).2⟩⟩

/-- **Sound and complete**: a name is in the result iff the specification says the pattern list
    embeds it.  (Holds for both variants of `CheckPath`: the variants differ only in what they reject.) -/
theorem resolve_sound_complete (cfg : Cfg) (root : Node) (pats : List Str) (fs : Seen)
    (h : resolve cfg root pats = .ok fs) (name : Str) :
    name ∈ fs.map (·.1) ↔ embedded root pats name := by
  unfold resolve at h
  cases hl : resolveLoop cfg root [] pats with
  | error e => simp [hl] at h
  | ok seen =>
    simp only [hl, Except.ok.injEq] at h
    subst h
    have hk : name ∈ (sortSeen seen).map (·.1) ↔ name ∈ keys seen := (keys_sortSeen_perm seen).mem_iff
    rw [hk, keys_resolveLoop cfg root [] seen pats hl]
    simp only [keys, List.map_nil, List.not_mem_nil, false_or]
    unfold embedded embeddedData
    constructor
    · rintro ⟨p, hp, gs, hgs, hn⟩
      simp only [List.mem_map] at hn
      obtain ⟨⟨n', d⟩, hx, rfl⟩ := hn
      obtain ⟨t, f, hm, hd, hj⟩ := (mem_patternFiles cfg root p gs hgs n' d).1 hx
      exact ⟨d, p, hp, t, f, hm, hd, hj⟩
    · rintro ⟨d, p, hp, t, f, hm, hd, hj⟩
      obtain ⟨gs, hgs⟩ := (resolveLoop_ok_iff cfg root [] pats).1 ⟨seen, hl⟩ p hp
      refine ⟨p, hp, gs, hgs, ?_⟩
      simp only [List.mem_map]
      exact ⟨(name, d), (mem_patternFiles cfg root p gs hgs name d).2 ⟨t, f, hm, hd, hj⟩, rfl⟩

/-- **Contents**: every `(name, bytes)` of the result is a file the specification embeds under that
    name with exactly those bytes. -/
theorem resolve_content (cfg : Cfg) (root : Node) (pats : List Str) (fs : Seen)
    (h : resolve cfg root pats = .ok fs) (name d : Str) (hx : (name, d) ∈ fs) :
    embeddedData root pats name d := by
  unfold resolve at h
  cases hl : resolveLoop cfg root [] pats with
  | error e => simp [hl] at h
  | ok seen =>
    simp only [hl, Except.ok.injEq] at h
    subst h
    have hx' : (name, d) ∈ seen := (mem_sortSeen seen _).1 hx
    rcases mem_resolveLoop cfg root [] seen pats hl _ hx' with h0 | ⟨p, hp, gs, hgs, hg⟩
    · simp at h0
    · obtain ⟨t, f, hm, hd, hj⟩ := (mem_patternFiles cfg root p gs hgs name d).1 hg
      exact ⟨p, hp, t, f, hm, hd, hj⟩

/-- **Sorted and duplicate-free**: the names of the result are strictly increasing in byte order
    (`sort.Strings` order, each name once). -/
theorem resolve_sorted (cfg : Cfg) (root : Node) (pats : List Str) (fs : Seen)
    (h : resolve cfg root pats = .ok fs) :
    (fs.map (·.1)).Pairwise (fun a b => strLt a b = true) := by
  unfold resolve at h
  cases hl : resolveLoop cfg root [] pats with
  | error e => simp [hl] at h
  | ok seen =>
    simp only [hl, Except.ok.injEq] at h
    subst h
    exact sortSeen_sorted seen (nodup_resolveLoop cfg root [] seen pats hl (by simp [keys]))

/-- a package directory with a hidden file, an underscore file, a VCS directory, a nested module and a fifo -/
def exTree : Node :=
  .dir (.cons (lit ['d']) (.dir
      (.cons (lit ['.', 'h']) (.file [1])
      (.cons (lit ['_', 'u']) (.file [2])
      (.cons (lit ['k']) (.file [3])
      (.cons (lit ['.', 'g', 'i', 't']) (.dir (.cons (lit ['c']) (.file [4]) .nil))
      (.cons (lit ['m']) (.dir (.cons sGoMod (.file []) (.cons (lit ['q']) (.file [5]) .nil)))
      .nil))))))
    (.cons (lit ['f']) .irregular .nil))

/-- the hypothesis `resolve … = .ok fs` of the three theorems above is satisfiable: `//go:embed d all:d` succeeds -/
example : ∃ fs, resolve ⟨true⟩ exTree [lit ['d'], lit ['a', 'l', 'l', ':', 'd']] = .ok fs := by
  rw [resolve_ok_iff_loop]
  exact ⟨[(lit ['d', '/', 'k'], [3]), (lit ['d', '/', '.', 'h'], [1]), (lit ['d', '/', '_', 'u'], [2])], by decide⟩

/-- … and the rejecting side as well: the fifo is refused -/
example : resolveLoop ⟨true⟩ exTree [] [lit ['f']] = .error .irregular := by decide

/-! ## `ResolvePatterns` as it stands -/

/-- the full statement for the current code: it rejects exactly what cmd/go rejects -/
def ResolveCurrentAgrees : Prop :=
  ∀ (root : Node) (pats : List Str), (∃ fs, resolve ⟨false⟩ root pats = .ok fs) ↔ Accepted root pats

/-- package directory with `real/x.txt` and `link -> real` (the link resolves to the directory) -/
def cexTree : Node :=
  .dir (.cons (lit ['l', 'i', 'n', 'k']) (.link (.dir (.cons (lit ['x']) (.file (lit ['h', 'i'])) .nil))) .nil)

/-- `link/x` -/
def cexPat : Str := lit ['l', 'i', 'n', 'k', '/', 'x']

/-- **Counterexample**: `//go:embed link/x` where `link` is a symbolic link to a directory is accepted
    by `ResolvePatterns` (it embeds `link/x`), while cmd/go rejects it ("cannot embed file link/x: in
    non-directory link").  Replayed on the real code and on `go list` by the check. -/
theorem resolve_current_counterexample : ¬ ResolveCurrentAgrees := by
  intro h
  have hok : ∃ fs, resolve ⟨false⟩ cexTree [cexPat] = .ok fs := by
    rw [resolve_ok_iff_loop]
    exact ⟨[(cexPat, lit ['h', 'i'])], by decide⟩
  have hacc := (h cexTree [cexPat]).1 hok cexPat (by simp)
  let inner : Ents := .cons (lit ['x']) (.file (lit ['h', 'i'])) .nil
  let t : Trail := [(lit ['l', 'i', 'n', 'k'], .link (.dir inner)), (lit ['x'], .file (lit ['h', 'i']))]
  have hm : Matches cexTree (splitAll cexPat).2 t := by
    refine ⟨?_, ?_⟩
    · refine Reach.cons (es := .cons (lit ['l', 'i', 'n', 'k']) (.link (.dir inner)) .nil) rfl (by simp [Ents.toList]) ?_
      exact Reach.cons (es := inner) rfl (by simp [inner, Ents.toList]) (Reach.nil _)
    · have : comps (splitAll cexPat).2 = [lit ['l', 'i', 'n', 'k'], lit ['x']] := by decide
      rw [this]
      exact AllMatch.cons (by decide) (AllMatch.cons (by decide) AllMatch.nil)
  have hc := (hacc.2.2 t hm).1
  have := (hc [] (lit ['l', 'i', 'n', 'k'], .link (.dir inner)) [(lit ['x'], .file (lit ['h', 'i']))] rfl).2.2 (by simp)
  simp [Node.isDir] at this

/-- **Partial (current code)**: on a tree without symbolic links that lead to directories the current
    `ResolvePatterns` and the repaired one are the same function — so all four theorems above hold
    for the code as it stands on such trees.  What is missing in general is `CheckPath`'s test that
    the directories on the way to a match are real directories. -/
theorem resolve_current_partial (root : Node) (hroot : root.noDirLinks = true) (pats : List Str) :
    resolve ⟨false⟩ root pats = resolve ⟨true⟩ root pats := by
  unfold resolve
  rw [resolveLoop_cfg_eq root hroot]

/-- the hypothesis is satisfiable by a non-trivial tree (hidden file, nested module, link to a file, fifo) -/
example : (Node.dir (.cons (lit ['.', 'h']) (.file [1])
            (.cons (lit ['d']) (.dir (.cons sGoMod (.file []) .nil))
            (.cons (lit ['l']) (.link (.file [2]))
            (.cons (lit ['p']) .irregular .nil))))).noDirLinks = true := by decide

/-- the repaired variant rejects the counterexample, like cmd/go -/
example : resolveLoop ⟨true⟩ cexTree [] [cexPat] = .error .nonDir := by decide

/-! ## directive arguments: `SplitArgs` + `strconv.Unquote` -/

/-- **Round trip of written arguments**: arguments written double-quoted (any bytes, `"` and `\`
    escaped), back-quoted (no back quote inside) or bare (no blank, not starting with a quote),
    separated by single spaces, are split into exactly the written pieces. -/
theorem splitArgs_quote (l : List QArg) (h : ∀ x ∈ l, x.ok = true) :
    splitArgs (joinSp (l.map QArg.render)) = .ok (l.map QArg.render) := by
  unfold splitArgs
  simpa using splitRun_join [] l h

/-- … and unquoting the pieces gives the patterns back (for the part of `strconv.Unquote` that is
    modelled: ASCII without newline in double quotes, no carriage return in back quotes, bare
    arguments that do not start with a single quote). -/
theorem parseFields_quote (l : List QArg) (h : ∀ x ∈ l, x.ok = true ∧ x.uqOk = true) :
    unquoteFields (l.map QArg.render) = .pats (l.map QArg.value) :=
  unquoteFields_render l h

example : ∀ x ∈ [QArg.dq (lit ['a', ' ', '"', '\\', 'b']), QArg.bq (lit ['c', ' ', 'd']), QArg.plain (lit ['*', '.', 't', 'x', 't'])],
    x.ok = true ∧ x.uqOk = true := by decide

/-! ## `BuildFSEntries`: the table handed to `embed.FS` -/

/-- **Closed under parents**: if the table holds the entry with elements `cs` (as a file `a/b/c` or as a
    directory `a/b/c/`), it holds every ancestor directory `a/`, `a/b/`. -/
theorem buildFSEntries_closed (files : Seen)
    (hclean : ∀ f ∈ files, ∃ fs, CleanElems fs ∧ f.1 = joinSlash fs)
    (cs : List Str) (hcs : CleanElems cs)
    (hin : joinSlash cs ∈ (buildFSEntries files).map (·.1) ∨ joinSlash cs ++ [47] ∈ (buildFSEntries files).map (·.1))
    (k : Nat) (hk0 : 0 < k) (hk : k < cs.length) :
    joinSlash (cs.take k) ++ [47] ∈ (buildFSEntries files).map (·.1) :=
  buildFS_closed_aux files hclean cs hcs hin k hk0 hk

example : CleanElems [lit ['a', ' ', 'b'], lit ['.', 'c'], lit ['d', '.', 't', 'x', 't']] := by
  refine ⟨by simp, ?_⟩
  decide

/-- the hypotheses of `buildFSEntries_closed` are satisfiable: the table for the single file `a/b/c` holds `a/b/c` -/
example : joinSlash [lit ['a'], lit ['b'], lit ['c']] ∈
    (buildFSEntries [(joinSlash [lit ['a'], lit ['b'], lit ['c']], [1])]).map (·.1) :=
  (keys_buildFSEntries _ _).2 ⟨(joinSlash [lit ['a'], lit ['b'], lit ['c']], [1]), List.mem_singleton.2 rfl, Or.inl rfl⟩

/-- **Nothing else**: every entry is an input file or an ancestor directory of one; every input file is there. -/
theorem buildFSEntries_exact (files : Seen) (x : Str) :
    x ∈ (buildFSEntries files).map (·.1) ↔ ∃ f ∈ files, x = f.1 ∨ x ∈ parentDirs f.1 :=
  keys_buildFSEntries files x

/-- **Once**: no name occurs twice. -/
theorem buildFSEntries_nodup (files : Seen) : ((buildFSEntries files).map (·.1)).Nodup :=
  nodup_buildFSEntries files

/-- **`embed.FS` order** (sorted by directory, then element; non-strict form): no entry is followed by a
    smaller one. -/
theorem buildFSEntries_sorted (files : Seen) :
    (buildFSEntries files).Pairwise (fun a b => entryLt b.1 a.1 = false) :=
  buildFSEntries_pairwise files

/-- the full statement: strictly increasing whenever the input are the distinct clean names of a real
    tree (where a name cannot be both a file and a directory) -/
def BuildFSEntriesStrict : Prop :=
  ∀ files : Seen, (∀ f ∈ files, ∃ fs, CleanElems fs ∧ f.1 = joinSlash fs) →
    (∀ f ∈ files, ∀ g ∈ files, f.1 ++ [47] ∉ parentDirs g.1) →
    (buildFSEntries files).Pairwise (fun a b => entryLt a.1 b.1 = true)

/-- **Partial**: strictly increasing when no two entries have the same `(dir, elem)` split — a decidable
    condition on the output.  Missing: deriving that condition from "no file name is a directory of
    another" (needs `embedSplit` to be injective on clean names, not proved). -/
theorem buildFSEntries_strict_partial (files : Seen)
    (hinj : ∀ a ∈ (buildFSEntries files).map (·.1), ∀ b ∈ (buildFSEntries files).map (·.1),
      embedSplit a = embedSplit b → a = b) :
    (buildFSEntries files).Pairwise (fun a b => entryLt a.1 b.1 = true) := by
  have h1 := buildFSEntries_pairwise files
  have h2 : (buildFSEntries files).Pairwise (fun a b => a.1 ≠ b.1) := by
    have := nodup_buildFSEntries files
    unfold keys at this
    rw [List.Nodup, List.pairwise_map] at this
    exact this
  have h3 : (buildFSEntries files).Pairwise (fun a b => a ∈ buildFSEntries files ∧ b ∈ buildFSEntries files) := by
    rw [List.pairwise_iff_forall_sublist]
    intro a b hs
    have := hs.subset
    exact ⟨this (by simp), this (by simp)⟩
  exact ((h1.and h2).and h3).imp (by
    intro a b ⟨⟨hle, hne⟩, ha, hb⟩
    rw [entryLt_eq] at hle ⊢
    cases hlt : pairLt (embedSplit a.1) (embedSplit b.1) with
    | true => rfl
    | false =>
      exfalso
      apply hne
      exact hinj a.1 (List.mem_map.2 ⟨a, ha, rfl⟩) b.1 (List.mem_map.2 ⟨b, hb, rfl⟩) (pairLt_trichotomy _ _ hlt hle))

end LlgoVerif.Embed
