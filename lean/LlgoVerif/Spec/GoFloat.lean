import LlgoVerif.Model.SoftFloat
/-!
Go's float operators and conversions (spec: "Arithmetic operators", "Comparison operators", "Conversions between numeric
types") on bit patterns: each is ONE correctly rounded IEEE-754 operation in the operand's own type; comparisons follow
IEEE-754 (NaN is unordered, `-0 == +0`); `float(int)` rounds the exact integer once; `int(float)` discards the fraction
(truncation toward zero) and is specified only when the truncated value fits the result type ("if the value cannot be
represented by the type the result is implementation-dependent"): `toInt` is `none` there.
-/
namespace LlgoVerif.GoFloat
open LlgoVerif.SoftFloat

abbrev fmt (w : Nat) : Fmt := Fmt.ofWidth w

def add (x y : BitVec w) : BitVec w := BitVec.ofNat w (SoftFloat.add (fmt w) x.toNat y.toNat)
def sub (x y : BitVec w) : BitVec w := BitVec.ofNat w (SoftFloat.sub (fmt w) x.toNat y.toNat)
def mul (x y : BitVec w) : BitVec w := BitVec.ofNat w (SoftFloat.mul (fmt w) x.toNat y.toNat)
def quo (x y : BitVec w) : BitVec w := BitVec.ofNat w (SoftFloat.div (fmt w) x.toNat y.toNat)
def neg (x : BitVec w) : BitVec w := BitVec.ofNat w (SoftFloat.neg (fmt w) x.toNat)

def cmp (x y : BitVec w) : Cmp := SoftFloat.cmp (fmt w) x.toNat y.toNat
def eq (x y : BitVec w) : Bool := cmp x y == .eq
def ne (x y : BitVec w) : Bool := !(eq x y)
def lt (x y : BitVec w) : Bool := cmp x y == .lt
def le (x y : BitVec w) : Bool := cmp x y == .lt || cmp x y == .eq
def gt (x y : BitVec w) : Bool := cmp x y == .gt
def ge (x y : BitVec w) : Bool := cmp x y == .gt || cmp x y == .eq

/-- `floatW(x)` for an integer `x` of signedness `s` -/
def ofInt (s : Bool) (fw : Nat) (x : BitVec w) : BitVec fw :=
  BitVec.ofNat fw (SoftFloat.ofInt (fmt fw) (if s then x.toInt else (x.toNat : Int)))

abbrev inRange (s : Bool) (n : Nat) (t : Int) : Bool := fitsInt s n t

/-- `intN(x)` for a float `x`; `none` = implementation-dependent (value not representable) -/
def toInt (s : Bool) (n : Nat) (x : BitVec w) : Option (BitVec n) :=
  match SoftFloat.toInt (fmt w) x.toNat with
  | none => none
  | some t => if inRange s n t then some (BitVec.ofInt n t) else none

def conv (fw : Nat) (x : BitVec w) : BitVec fw := BitVec.ofNat fw (SoftFloat.convert (fmt w) (fmt fw) x.toNat)

end LlgoVerif.GoFloat
