/-!
# What every `sync/atomic` entry point must lower to

The vocabulary of the regenerated table `LlgoVerif/Gen/C11Atomics.lean` (written by `./check C11` from the LLVM IR that
the llgo built from the working tree emits for a generated package calling every entry point) and the fixed
expectation it is checked against.  Go's memory model makes all `sync/atomic` operations sequentially consistent;
in LLVM terms: each entry point is ONE atomic instruction of the right kind, operation and width, ordering `seq_cst`
(for `cmpxchg`: both orderings, and not `weak` — a Go CAS may not fail spuriously), in the default (cross-thread)
synchronisation scope, naturally aligned, and the function touches memory in no other way.
Indivisibility of that instruction and the single total order of `seq_cst` operations are LLVM's and the hardware's
(trusted, not proved here).
-/
namespace LlgoVerif.Atomics

/-- the `sync/atomic` function entry points (39) -/
inductive Fn where
  | AddInt32 | AddInt64 | AddUint32 | AddUint64 | AddUintptr
  | AndInt32 | AndInt64 | AndUint32 | AndUint64 | AndUintptr
  | OrInt32 | OrInt64 | OrUint32 | OrUint64 | OrUintptr
  | LoadInt32 | LoadInt64 | LoadUint32 | LoadUint64 | LoadUintptr | LoadPointer
  | StoreInt32 | StoreInt64 | StoreUint32 | StoreUint64 | StoreUintptr | StorePointer
  | SwapInt32 | SwapInt64 | SwapUint32 | SwapUint64 | SwapUintptr | SwapPointer
  | CompareAndSwapInt32 | CompareAndSwapInt64 | CompareAndSwapUint32 | CompareAndSwapUint64
  | CompareAndSwapUintptr | CompareAndSwapPointer
  deriving DecidableEq, Repr

def Fn.all : List Fn :=
  [.AddInt32, .AddInt64, .AddUint32, .AddUint64, .AddUintptr,
   .AndInt32, .AndInt64, .AndUint32, .AndUint64, .AndUintptr,
   .OrInt32, .OrInt64, .OrUint32, .OrUint64, .OrUintptr,
   .LoadInt32, .LoadInt64, .LoadUint32, .LoadUint64, .LoadUintptr, .LoadPointer,
   .StoreInt32, .StoreInt64, .StoreUint32, .StoreUint64, .StoreUintptr, .StorePointer,
   .SwapInt32, .SwapInt64, .SwapUint32, .SwapUint64, .SwapUintptr, .SwapPointer,
   .CompareAndSwapInt32, .CompareAndSwapInt64, .CompareAndSwapUint32, .CompareAndSwapUint64,
   .CompareAndSwapUintptr, .CompareAndSwapPointer]

inductive Kind where
  | rmw | cmpxchg | load | store
  deriving DecidableEq, Repr

/-- the operation of an `atomicrmw` (`none` for the other kinds) -/
inductive RmwOp where
  | none | xchg | add | sub | and | nand | or | xor | max | min | umax | umin | other
  deriving DecidableEq, Repr

/-- the type of the value operated on (amd64: `uintptr` is `i64`) -/
inductive Ty where
  | i8 | i16 | i32 | i64 | ptr | other
  deriving DecidableEq, Repr

inductive Ord where
  | none | unordered | monotonic | acquire | release | acq_rel | seq_cst
  deriving DecidableEq, Repr

/-- one atomic instruction as printed in the IR -/
structure Instr where
  kind : Kind
  op : RmwOp
  ty : Ty
  ord : Ord
  /-- failure ordering of `cmpxchg`, `none` otherwise -/
  ord2 : Ord
  weak : Bool
  volatile : Bool
  /-- a `syncscope("…")` other than the default system scope -/
  scopedSync : Bool
  /-- `align` operand in bytes (0 = not printed) -/
  align : Nat
  deriving DecidableEq, Repr

/-- one wrapper function `func F_X(args) = atomic.X(args)` of the generated package -/
structure Entry where
  fn : Fn
  /-- every atomic instruction in the function body -/
  atomics : List Instr
  /-- every other instruction that touches memory or leaves the function: plain load/store, call, invoke, fence -/
  otherMem : Nat
  deriving DecidableEq, Repr

def Ty.bytes : Ty → Nat
  | .i8 => 1 | .i16 => 2 | .i32 => 4 | .i64 => 8 | .ptr => 8 | .other => 0

/-- the expectation, from the entry point's name: (instruction kind, rmw operation, value type) -/
def expected : Fn → Kind × RmwOp × Ty
  | .AddInt32 | .AddUint32 => (.rmw, .add, .i32)
  | .AddInt64 | .AddUint64 | .AddUintptr => (.rmw, .add, .i64)
  | .AndInt32 | .AndUint32 => (.rmw, .and, .i32)
  | .AndInt64 | .AndUint64 | .AndUintptr => (.rmw, .and, .i64)
  | .OrInt32 | .OrUint32 => (.rmw, .or, .i32)
  | .OrInt64 | .OrUint64 | .OrUintptr => (.rmw, .or, .i64)
  | .LoadInt32 | .LoadUint32 => (.load, .none, .i32)
  | .LoadInt64 | .LoadUint64 | .LoadUintptr => (.load, .none, .i64)
  | .LoadPointer => (.load, .none, .ptr)
  | .StoreInt32 | .StoreUint32 => (.store, .none, .i32)
  | .StoreInt64 | .StoreUint64 | .StoreUintptr => (.store, .none, .i64)
  | .StorePointer => (.store, .none, .ptr)
  | .SwapInt32 | .SwapUint32 => (.rmw, .xchg, .i32)
  | .SwapInt64 | .SwapUint64 | .SwapUintptr => (.rmw, .xchg, .i64)
  | .SwapPointer => (.rmw, .xchg, .ptr)
  | .CompareAndSwapInt32 | .CompareAndSwapUint32 => (.cmpxchg, .none, .i32)
  | .CompareAndSwapInt64 | .CompareAndSwapUint64 | .CompareAndSwapUintptr => (.cmpxchg, .none, .i64)
  | .CompareAndSwapPointer => (.cmpxchg, .none, .ptr)

/-- the instruction is the expected one, sequentially consistent, strong, system-scoped, naturally aligned -/
def Instr.ok (f : Fn) (i : Instr) : Bool :=
  let (k, op, ty) := expected f
  i.kind == k && i.op == op && i.ty == ty &&
  i.ord == .seq_cst && (if k == .cmpxchg then i.ord2 == .seq_cst else i.ord2 == .none) &&
  !i.weak && !i.scopedSync && (i.align == 0 || i.align ≥ ty.bytes)

/-- the wrapper is a single atomic instruction of the right shape and nothing else touches memory -/
def Entry.ok (e : Entry) : Bool :=
  match e.atomics with
  | [i] => i.ok e.fn && e.otherMem == 0
  | _ => false

end LlgoVerif.Atomics
