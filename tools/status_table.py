#!/usr/bin/env python3
"""Regenerates the per-property status table of DESIGN.md (<!-- STATUS:BEGIN/END -->) from evidence/*.json (as written by the
last run of each check against /repo), KNOWN_FINDINGS.jsonl, checks/manifest/*.json and seeded/*/meta.json."""
import glob, json, os, re
V = os.path.dirname(os.path.dirname(os.path.abspath(__file__)))
kf = [json.loads(l) for l in open(os.path.join(V, "KNOWN_FINDINGS.jsonl")) if l.strip()]
rows = []
for i in range(1, 21):
    p = "C%02d" % i
    ev = json.load(open(os.path.join(V, "evidence", p + ".json")))
    cov = ev.get("coverage", {})
    th = cov.get("theorems", [])
    fixed_th = [t for t in th if ".Gen." not in t]
    gen_th = [t for t in th if ".Gen." in t]
    known = sum(1 for e in kf if e["property"] == p and e["status"] == "known")
    fixed = sum(1 for e in kf if e["property"] == p and e["status"] == "fixed")
    sd = [json.load(open(f)) for f in glob.glob(os.path.join(V, "seeded", p + "-*", "meta.json"))]
    caught = sum(1 for m in sd if m.get("detected_by_check"))
    leanlines = 0
    for f in glob.glob(os.path.join(V, "lean", "LlgoVerif", "*", "*.lean")):
        if re.search(r"/(Model|Spec|Lemmas|Props)/", f) and re.search(p, open(f).read(4000)) or os.path.basename(f).startswith(p):
            pass
    rows.append("| %s | %s | %d fixed + %d regenerated | %s | %s | %d / %d | %d / %d |" % (
        p, ev.get("level", "?"), len(fixed_th), len(gen_th), cov.get("evaluations", "?"), cov.get("distinct_nontrivial", "?"),
        known, fixed, caught, len(sd)))
tab = ["| property | level | theorems audited (`#print axioms`) | evaluations (quick) | non-trivial | findings known / fixed | seeded caught / kept |",
       "|---|---|---|---|---|---|---|"] + rows
path = os.path.join(V, "DESIGN.md")
s = open(path).read()
s = re.sub(r"(<!-- STATUS:BEGIN -->\n).*?(<!-- STATUS:END -->)", lambda m: m.group(1) + "\n".join(tab) + "\n" + m.group(2), s, flags=re.S)
open(path, "w").write(s)
print("\n".join(tab))
