"""C20 — SDK archive extraction stays inside its destination and preserves contents.

Lean: Model/Path.lean, Model/Extract.lean, Model/ExtractLock.lean, Spec/Extract.lean, Props/C20.lean.
Tie: hand-written model + correspondence.  The REAL `extractTarGz`, `extractZip`, `extractTarXz`,
`checkDownloadAndExtractLib`, `acquireLock`/`releaseLock` of internal/crosscompile (harness/c20, built from
the working tree with an overlay accessor file) unpack generated archives into `<scratch>/…/root/a/b/dest`;
the whole scratch case directory is listed afterwards and compared with `modeld_c20`; independently the
listing is judged against the specification (confinement + preservation), computed here in Python.
"""
import json
import shutil

from vlib.common import *

DEST = [b"g1", b"g2", b"g3", b"root", b"a", b"b", b"dest"]
MAX_UP = 6
MAX_NEW = 8
OVERLAY = {"internal/crosscompile/zz_verif_export.go": "overlay/zz_crosscompile_export.go.txt"}
LEAN_FILES = ["LlgoVerif/Model/Path.lean", "LlgoVerif/Model/Extract.lean", "LlgoVerif/Model/ExtractLock.lean",
              "LlgoVerif/Spec/Extract.lean", "LlgoVerif/Lemmas/Path.lean", "LlgoVerif/Lemmas/Extract.lean",
              "LlgoVerif/Lemmas/ExtractPreserve.lean", "LlgoVerif/Lemmas/ExtractLock.lean", "Driver/C20.lean"]

# flag order of the model's Cfg: tarAcceptRoot tarTrunc zipGuard zipAcceptRoot zipMkParents
FLAG_NAMES = ["tarAcceptRoot", "tarTrunc", "zipGuard", "zipAcceptRoot", "zipMkParents"]
# known defect classes: flag index that repairs it in the model -> finding key
DEFECT_OF_FLAG = {0: "tar:root-entry-rejected", 1: "tar:duplicate-no-truncate", 2: "zip:zip-slip", 4: "zip:missing-parent-dir"}


# ------------------------------------------------------------------------------------------------ encoding
def hx(b):
    return b.hex() if b else "-"


def enc_entries(es):
    return ",".join("%s:%s:%s:%s" % (k, hx(n), hx(d), hx(l)) for (k, n, d, l) in es) if es else "."


def parse_listing(tokens):
    """tokens after the status word -> {path bytes: ('d',)|('f',bytes)|('l',bytes)|('o',)}"""
    out = {}
    for t in tokens:
        if t == ".":
            continue
        p, v = t.split("=", 1)
        p = unhexs(p)
        if v == "d":
            out[p] = ("d",)
        elif v.startswith("f:"):
            out[p] = ("f", unhexs(v[2:]))
        elif v.startswith("l:"):
            out[p] = ("l", unhexs(v[2:]))
        else:
            out[p] = ("o",)
    return out


def parse_x(line):
    """'ok LISTING' -> (status, tree) ; 'skip' -> ('skip', None)"""
    f = line.split(" ")
    if f[0] not in ("ok", "err"):
        return f[0], None
    return f[0], parse_listing(f[1:])


# ------------------------------------------------------------------------------------------------ specification (Python, independent of the model)
def target_of(name):
    """lexical resolution of dest/name from the case root -> component list"""
    st = list(DEST)
    for c in name.split(b"/"):
        if c in (b"", b"."):
            continue
        if c == b"..":
            if st:
                st.pop()
        else:
            st.append(c)
    return st


def would_escape(name):
    t = target_of(name)
    return t[:len(DEST)] != DEST


def rel_comps(name):
    """(components relative to the destination, climbed?) of the name alone"""
    st, up = [], 0
    for c in name.split(b"/"):
        if c in (b"", b"."):
            continue
        if c == b"..":
            if st:
                st.pop()
            else:
                up += 1
        else:
            st.append(c)
    return st, up


def spec_tree(fmt, entries):
    """The archived tree, or None when the archive is not well formed (for the purpose of `preserve`).
    Well formed: relative names that never climb, a file has a name, directories and regular files only
    (tar.gz additionally may carry links/devices: they denote nothing), no file-vs-directory clash."""
    tree = {}

    def mkdirs(k):
        for i in range(1, len(k) + 1):
            p = tuple(k[:i])
            if p in tree:
                if tree[p][0] != "d":
                    return False
            else:
                tree[p] = ("d",)
        return True

    for (kind, name, data, link) in entries:
        if name.startswith(b"/"):
            return None
        k, up = rel_comps(name)
        if up:
            return None
        if fmt == "txz":
            # GNU tar (not llgo code) has its own policy: it refuses every member name containing `..`, cannot create a
            # regular file called `a/.` or `a/`, …  For tar.xz only canonical names are judged: [./]elem(/elem)*[/]
            body = name[2:] if name.startswith(b"./") else name
            if kind == "d" and body.endswith(b"/"):
                body = body[:-1]
            elems = body.split(b"/") if body else []
            if any(c in (b"", b".", b"..") for c in elems) or (kind == "f" and not elems):
                return None
        if kind == "d":
            if not mkdirs(k):
                return None
        elif kind == "f":
            if not k:
                return None
            if fmt == "zip" and name.endswith(b"/"):
                return None
            if not mkdirs(k[:-1]):
                return None
            if tuple(k) in tree and tree[tuple(k)][0] == "d":
                return None
            tree[tuple(k)] = ("f", data)
        else:
            if fmt != "tgz":
                return None          # zip writes link entries as files, GNU tar creates them: not part of the claim
            # tar.gz: links/devices are skipped, but the guard still looks at their names
    return tree


def subtree(tree, root):
    """entries of a listing strictly below `root` (component list), re-keyed relative to it"""
    out = {}
    for p, v in tree.items():
        c = p.split(b"/")
        if len(c) > len(root) and c[:len(root)] == root:
            out[tuple(c[len(root):])] = v
    return out


def outside(tree):
    """paths of a listing that are neither the destination, an ancestor of it, nor below it"""
    bad = []
    for p in tree:
        c = p.split(b"/")
        if c[:len(DEST)] == DEST or DEST[:len(c)] == c:
            continue
        bad.append(p)
    return bad


class Attribution:
    """A specification failure on the real code is attributed to a KNOWN defect class only through the model:
    the real output equals the model variant's output, the fully repaired model meets the specification on this
    input, and repairing exactly that defect changes the model's answer.  Anything else is reported under a key
    that contains the input itself (= a new violation)."""

    def __init__(self, ctx, flags, model):
        self.ctx, self.flags, self.model = ctx, flags, model
        self.jobs = []

    def add(self, fails, agree, mk_line, base_out, spec_ok, replay, unknown_key):
        """mk_line(cfg string) -> model protocol line; spec_ok(model answer) -> bool"""
        self.jobs.append((fails, agree, mk_line, base_out, spec_ok, replay, unknown_key))

    def resolve(self):
        lines, idx = [], []
        for j, (fails, agree, mk_line, base_out, spec_ok, replay, key) in enumerate(self.jobs):
            if not agree or mk_line is None:
                continue
            for fl in range(5):
                if self.flags[fl] == 0:
                    c2 = list(self.flags)
                    c2[fl] = 1
                    if fl == 2:
                        c2[3] = 1      # the proposed zip guard accepts the destination itself (C20-1)
                    lines.append(mk_line("".join(map(str, c2))))
                    idx.append((j, fl))
            lines.append(mk_line("11111"))
            idx.append((j, "all"))
        outs = dict(zip(idx, self.model(lines))) if lines else {}
        for j, (fails, agree, mk_line, base_out, spec_ok, replay, key) in enumerate(self.jobs):
            done = False
            if (j, "all") in outs and spec_ok(outs[(j, "all")]):
                involved = [fl for fl in range(5) if (j, fl) in outs and outs[(j, fl)] != base_out]
                if involved and all(fl in DEFECT_OF_FLAG for fl in involved):
                    done = True
                    for fl in involved:
                        self.ctx.report(DEFECT_OF_FLAG[fl], "; ".join(fails), replay)
            if not done:
                # a new class: the key carries the input; at most MAX_NEW replay files per run, the rest is counted
                if len(self.ctx.violations) < MAX_NEW:
                    self.ctx.report(key, "; ".join(fails), replay)
                else:
                    self.ctx.coverage["further_unattributed_failures"] = self.ctx.coverage.get("further_unattributed_failures", 0) + 1


# ------------------------------------------------------------------------------------------------ generators
PLAIN = [b"a", b"b", b"c", b"d1", b"x.txt", b"y", b"lib", b"include", b"de", b"k"]
HOSTILE = PLAIN + [b"..", b"..", b"..", b".", b"", b"dest", b"destx", b"root", b"...", b"..a", b"a..", b"\xff\xfe", b"sp ace",
                   b"n" * 60, b"g3"]


def rdata(rng):
    n = rng.choice([0, 1, 2, 5, 5, 12, 40, 40, 200, 3000 if rng.random() < 0.1 else 7])
    return bytes(rng.randrange(256) for _ in range(n))


def hostile_name(rng):
    while True:
        segs = [rng.choice(HOSTILE) for _ in range(rng.choice([1, 1, 2, 2, 3, 4, 6]))]
        s = b"/".join(segs)
        r = rng.random()
        if r < 0.12:
            s = b"/" + s
        elif r < 0.22:
            s = b"./" + s
        if rng.random() < 0.15:
            s += b"/"
        if s.split(b"/").count(b"..") <= MAX_UP:
            return s


def gen_hostile(rng, fmt):
    es = []
    for _ in range(rng.choice([1, 1, 2, 3, 4, 6])):
        r = rng.random()
        if es and r < 0.15:                       # duplicate
            name = rng.choice(es)[1]
        elif es and r < 0.25:                     # child of an earlier entry (dir-vs-file clash when that was a file)
            name = rng.choice(es)[1].rstrip(b"/") + b"/" + rng.choice(PLAIN)
        elif es and r < 0.30:                     # parent of an earlier entry as a file
            name = rng.choice(es)[1].rstrip(b"/").rsplit(b"/", 1)[0]
        else:
            name = hostile_name(rng)
        kinds = "dfffs" if fmt == "zip" else "dfffshо".replace("о", "o")
        kind = rng.choice(kinds)
        link = b""
        if kind in "sh":
            link = b"/".join(rng.choice([b"..", b"..", b"a", b"x.txt", b"dest"]) for _ in range(rng.randint(1, 4)))
        if kind == "d" and rng.random() < 0.8 and not name.endswith(b"/"):
            name += b"/"
        data = rdata(rng) if kind == "f" else b""
        if name.split(b"/").count(b"..") > MAX_UP:
            name = b"a"
        es.append((kind, name, data, link))
    return es


def gen_wellformed(rng, fmt):
    """a random tree, emitted as an archive the way real tools do: with or without directory entries,
    with or without a leading `./`, with a root entry, with repeated members"""
    files, dirs = {}, set()
    for _ in range(rng.choice([1, 2, 3, 5, 8])):
        depth = rng.choice([1, 1, 2, 3, 4])
        k = tuple(rng.choice(PLAIN) for _ in range(depth))
        if any(k[:i] in files for i in range(1, len(k) + 1)) or k in dirs or any(f[:len(k)] == k for f in files):
            continue
        if rng.random() < 0.75:
            files[k] = rdata(rng)
            for i in range(1, len(k)):
                dirs.add(k[:i])
        else:
            for i in range(1, len(k) + 1):
                dirs.add(k[:i])
    prefix = rng.choice([b"", b"", b"./"])
    with_dirs = rng.random() < 0.6
    es = []
    if rng.random() < 0.2:
        es.append(("d", b"./", b"", b""))
    items = [("d", k) for k in sorted(dirs)] if with_dirs else [("d", k) for k in sorted(dirs) if rng.random() < 0.2]
    items += [("f", k) for k in sorted(files)]
    items.sort(key=lambda it: (it[1][:-1] if it[0] == "f" else it[1], it[0] == "f"))   # parents first
    for kind, k in items:
        name = prefix + b"/".join(k)
        if kind == "d":
            es.append(("d", name + b"/", b"", b""))
        else:
            if rng.random() < 0.15:               # an older version of the same member first
                old = rdata(rng) + (b"tail" if rng.random() < 0.6 else b"")
                es.append(("f", name, old, b""))
            es.append(("f", name, files[k], b""))
    if fmt == "tgz" and rng.random() < 0.15:
        es.insert(rng.randint(0, len(es)), ("s", prefix + b"lnk", b"", b"a/x.txt"))
    return es


def gen_path(rng):
    segs = [rng.choice(HOSTILE + [b"..", b".", b""]) for _ in range(rng.choice([0, 1, 2, 3, 4, 6, 9]))]
    s = b"/".join(segs)
    if rng.random() < 0.4:
        s = b"/" + s
    if rng.random() < 0.2:
        s += b"/"
    return s


# ------------------------------------------------------------------------------------------------ the check
def replay_file(ctx, path):
    """./check C20 --replay <file>: run the stored protocol line on the real code (built from the working tree) and
    on the model, print both; exit 1 when the specification still fails on the real output."""
    obj = json.load(open(path))
    line = obj.get("replay", {}).get("line")
    if not line:
        print("no protocol line in", path)
        return 2
    modeld = build_driver(ctx, "modeld_c20")
    harness = build_go_harness(ctx, "c20", overlay=OVERLAY)
    hs = os.path.join(ctx.scratch, "hs")
    os.makedirs(hs, exist_ok=True)
    out, rc, err = run_lines([harness], [line], env=dict(os.environ, C20_SCRATCH=hs))
    print("input:", line)
    print("real :", out[0] if out else err)
    f = line.split(" ")
    bad = False
    if f[0] == "x":
        es = []
        if f[2] != ".":
            for e in f[2].split(","):
                k, n, d, l = e.split(":")
                es.append((k, unhexs(n), unhexs(d), unhexs(l)))
        for c in ("00010", "11111"):
            if f[1] != "txz":
                mo, _, _ = run_lines([modeld], ["x %s %s %s" % (c, f[1], f[2])])
                print("model %s: %s" % (c, mo[0]))
        status, tree = parse_x(out[0])
        exp = spec_tree(f[1], es)
        if tree is not None:
            if outside(tree):
                print("SPEC: created outside the destination:", outside(tree))
                bad = True
            if status == "ok" and any(would_escape(e[1]) for e in es):
                print("SPEC: an escaping entry was accepted")
                bad = True
            if exp is not None and (status != "ok" or subtree(tree, DEST) != exp):
                print("SPEC: well-formed archive not reproduced")
                bad = True
    elif f[0] == "lockrace":
        bad = out and out[0] == "holders=2"
    else:
        print("(whole-call line: compare with `lib` of the model)")
        if f[0] in ("lib", "conc"):
            a = f[2:] if f[0] == "lib" else f[4:]
            mo, _, _ = run_lines([modeld], ["lib 00010 " + " ".join(a)])
            print("model 00010:", mo[0])
    print("verdict:", "specification fails" if bad else "specification holds / not judged")
    return 1 if bad else 0


def run(ctx, args):
    if getattr(args, "replay", None):
        return replay_file(ctx, args.replay)
    rng = ctx.rng
    quick = ctx.tier == "quick"
    n_x = 800 if quick else 25000
    n_xz = 80 if quick else 1000
    n_path = 2000 if quick else 100000
    n_lib = 40 if quick else 600
    n_conc = 10 if quick else 120
    have_xz = shutil.which("xz") is not None and shutil.which("tar") is not None

    st = lean_check(ctx, ["LlgoVerif.Props.C20"], ["LlgoVerif/Props/C20.lean"], extra_files=LEAN_FILES,
                    leanchecker=(ctx.tier == "thorough"))
    modeld = build_driver(ctx, "modeld_c20")
    harness = build_go_harness(ctx, "c20", overlay=OVERLAY)
    hs = os.path.join(ctx.scratch, "hs")
    os.makedirs(hs, exist_ok=True)
    henv = dict(os.environ, C20_SCRATCH=hs)

    def real1(lines, timeout=3600):
        out, rc, err = run_lines([harness], lines, env=henv, timeout=timeout)
        if len(out) != len(lines):
            raise RuntimeError("harness died: %d/%d answers\n%s" % (len(out), len(lines), err[-2000:]))
        return out

    def real(lines, timeout=3600, workers=1):
        """the cases are independent (own scratch directory each): several harness processes share the stream"""
        if workers <= 1 or len(lines) < 4 * workers:
            return real1(lines, timeout)
        from concurrent.futures import ThreadPoolExecutor
        size = (len(lines) + workers - 1) // workers
        chunks = [lines[i:i + size] for i in range(0, len(lines), size)]
        with ThreadPoolExecutor(max_workers=workers) as ex:
            parts = list(ex.map(lambda c: real1(c, timeout), chunks))
        return [o for part in parts for o in part]

    def model(lines):
        out, rc, err = run_lines([modeld], lines)
        if len(out) != len(lines):
            raise RuntimeError("modeld_c20 died: %d/%d answers\n%s" % (len(out), len(lines), err[-2000:]))
        return out

    # ---- 1. witnesses of the counterexample theorems, replayed on the real code; they also tell which
    #         code variant (Cfg) the working tree implements
    corpus = json.load(open(os.path.join(VERIF, "corpus", "C20", "witnesses.json")))

    def to_entries(raw):
        return [(k, n.encode("latin1"), d.encode("latin1"), l.encode("latin1")) for (k, n, d, l) in raw]

    wit = {w["id"]: w for w in corpus["witnesses"]}
    wl = [w for w in corpus["witnesses"]]
    wout = real(["x %s %s" % (w["fmt"], enc_entries(to_entries(w["entries"]))) for w in wl] + ["lockrace"])
    wres = {w["id"]: parse_x(o) for w, o in zip(wl, wout)}
    flags = [1, 1, 1, 1, 1]
    s_, t_ = wres["tar-root-entry"]
    flags[0] = 0 if s_ == "err" else 1
    s_, t_ = wres["tar-duplicate-shorter"]
    got = subtree(t_, DEST).get((b"x",))
    flags[1] = 0 if got == ("f", b"cb") else 1
    s_, t_ = wres["zip-slip"]
    flags[2] = 0 if outside(t_) else 1
    s_, t_ = wres["zip-root-entry"]
    flags[3] = 0 if s_ == "err" else 1
    s_, t_ = wres["zip-no-dir-entries"]
    flags[4] = 0 if s_ == "err" else 1
    cfg = "".join(str(b) for b in flags)
    ctx.log("code variant detected from the witnesses: " + ", ".join("%s=%d" % (n, b) for n, b in zip(FLAG_NAMES, flags)))
    lockrace = wout[-1]

    # ---- 2. cases: witnesses + boundary corpus first, then the generated streams
    cases = []      # (origin, fmt, entries)
    for w in wl:
        cases.append(("witness:" + w["id"], w["fmt"], to_entries(w["entries"])))
    for b in corpus["boundary"]:
        cases.append(("boundary", b["fmt"], to_entries(b["entries"])))
    for i in range(n_x):
        fmt = "tgz" if i % 2 == 0 else "zip"
        if i % 5 < 2:
            cases.append(("wellformed", fmt, gen_wellformed(rng, fmt)))
        else:
            cases.append(("hostile", fmt, gen_hostile(rng, fmt)))
    if have_xz:
        for i in range(n_xz):
            cases.append(("wellformed", "txz", gen_wellformed(rng, "txz")) if i % 3 == 0 else ("hostile", "txz", gen_hostile(rng, "txz")))
    else:
        cases = [c for c in cases if c[1] != "txz"]
        ctx.assumptions.append("tar/xz not installed: extractTarXz not exercised")

    rlines = ["x %s %s" % (fmt, enc_entries(es)) for (_, fmt, es) in cases]
    routs = real(rlines, workers=6)
    ctx.log("%d archives extracted by the real code" % len(rlines))
    midx = [i for i, c in enumerate(cases) if c[1] != "txz"]
    mouts_l = model(["x %s %s %s" % (cfg, cases[i][1], enc_entries(cases[i][2])) for i in midx])
    mouts = dict(zip(midx, mouts_l))

    stats = {"tgz": 0, "zip": 0, "txz": 0, "wellformed_judged": 0, "hostile": 0, "real_err": 0, "real_ok": 0, "skipped": 0,
             "escaping_entries": 0, "spec_failures": 0}
    mismatches = []
    need_class = []    # (case index, what failed) -> attribution through the model
    nontrivial = set()
    for i, (origin, fmt, es) in enumerate(cases):
        status, tree = parse_x(routs[i])
        stats[fmt] += 1
        if status == "skip":
            stats["skipped"] += 1
            continue
        if status not in ("ok", "err"):
            raise RuntimeError("harness answered %r to %r" % (routs[i], rlines[i]))
        stats["real_" + status] += 1
        if len(es) >= 2 or any(b".." in e[1] for e in es):
            nontrivial.add(rlines[i])
        # (a) correspondence with the model variant
        agree = True
        if i in mouts:
            ms, mt = parse_x(mouts[i])
            agree = (ms == status and mt == tree)
            if not agree:
                mismatches.append((i, rlines[i], routs[i][:300], mouts[i][:300]))
        # (b) specification, judged on the REAL listing
        fails = []
        out = outside(tree)
        if out:
            fails.append("escape: created outside the destination: " + ", ".join(repr(p) for p in out[:3]))
        esc = [e for e in es if would_escape(e[1])]
        if esc:
            stats["escaping_entries"] += 1
            # every entry is looked at in order; an escaping one must make the call fail unless an earlier
            # entry already failed (then the call failed anyway)
            if status == "ok":
                fails.append("escaping entry accepted without error: " + repr(esc[0][1]))
        exp = spec_tree(fmt, es)
        if exp is not None:
            stats["wellformed_judged"] += 1
            gotsub = subtree(tree, DEST)
            if status != "ok":
                fails.append("well-formed archive rejected")
            elif gotsub != exp:
                diff = [k for k in set(gotsub) | set(exp) if gotsub.get(k) != exp.get(k)]
                fails.append("extracted tree differs from the archived tree at " + repr(b"/".join(sorted(diff)[0])))
        else:
            stats["hostile"] += 1
        if fails:
            stats["spec_failures"] += 1
            need_class.append((i, fails, agree))

    # ---- 3. attribute every specification failure: known defect class (through the model) or new
    def x_spec_ok(fmt, es):
        def ok(ans):
            fs_, ft_ = parse_x(ans)
            if ft_ is None or outside(ft_) or (fs_ == "ok" and any(would_escape(e[1]) for e in es)):
                return False
            exp = spec_tree(fmt, es)
            return exp is None or (fs_ == "ok" and subtree(ft_, DEST) == exp)
        return ok

    attr = Attribution(ctx, flags, model)
    for (i, fails, agree) in need_class:
        origin, fmt, es = cases[i]
        replay = {"line": rlines[i], "format": fmt, "entries": [[k, n.decode("latin1"), d.hex(), l.decode("latin1")] for (k, n, d, l) in es],
                  "real": routs[i][:2000], "failed": fails}
        mk = None if fmt == "txz" else (lambda c, fmt=fmt, es=es: "x %s %s %s" % (c, fmt, enc_entries(es)))
        attr.add(fails, agree, mk, mouts.get(i), x_spec_ok(fmt, es), replay, "%s:%s" % (fmt, rlines[i][:200]))
    attr.resolve()

    # ---- 4. path functions: Model/Path.lean against Go's filepath (validation of the transcription)
    plines = []
    for _ in range(n_path):
        r = rng.random()
        if r < 0.4:
            plines.append("clean " + hx(gen_path(rng)))
        elif r < 0.8:
            plines.append("join %s %s" % (hx(gen_path(rng)), hx(gen_path(rng))))
        else:
            plines.append("dir " + hx(gen_path(rng)))
    pr, pm = real(plines), model(plines)
    path_mismatch = [(l, a, b) for l, a, b in zip(plines, pr, pm) if a != b]
    if path_mismatch:
        ctx.log("Model/Path.lean disagrees with path/filepath on %d lines, e.g. %s" % (len(path_mismatch), path_mismatch[0]))
        ctx.broken.append("Model/Path.lean vs Go filepath.Clean/Join/Dir")
    # idempotence and normal form of the REAL Clean (clean_spec judged on the real function)
    cleaned = [a for l, a in zip(plines, pr) if l.startswith("clean ")]
    pr2 = real(["clean " + a.split(" ")[1] for a in cleaned])
    for a, b in zip(cleaned, pr2):
        s = unhexs(a.split(" ")[1])
        comps = s.split(b"/")
        body = comps[1:] if s.startswith(b"/") else comps
        lead = 0
        while lead < len(body) and body[lead] == b"..":
            lead += 1
        nf = (s == b"." or s == b"/" or (all(c not in (b"", b".", b"..") for c in body[lead:]) and not (s.startswith(b"/") and lead)))
        if a != b or not nf:
            ctx.report("filepath.Clean:" + a, "filepath.Clean result is not a fixed point / not in normal form", {"cleaned": a, "again": b})

    # ---- 5. whole call (single caller) and concurrent callers
    def lib_case(i):
        fmt = rng.choice(["tgz", "zip"] + (["txz"] if have_xz and rng.random() < 0.3 else []))
        sub = rng.choice([b"", b"", b"pkg", b"pkg/src"])
        fname = b"lib-1.0" + {"tgz": rng.choice([b".tar.gz", b".tgz"]), "zip": b".zip", "txz": b".tar.xz"}[fmt]
        if rng.random() < 0.08:
            fname = b"lib-1.0.tar.bz2"
        inner = gen_wellformed(rng, fmt) if rng.random() < 0.8 else gen_hostile(rng, fmt)
        if sub:
            pre = sub + b"/"
            es = [("d", pre, b"", b"")] if rng.random() < 0.7 else []
            if sub == b"pkg/src" and rng.random() < 0.5:
                es = [("d", b"pkg/", b"", b"")] + es
            for (k, n, d, l) in inner:
                if n.startswith(b"./"):
                    n = n[2:]
                if n and not n.startswith(b"/") and rel_comps(n)[1] == 0:
                    n = pre + n
                es.append((k, n, d, l))
            if rng.random() < 0.5:
                es.append(("f", b"README", b"top level", b""))
        else:
            es = inner
        es = [e for e in es if e[1].split(b"/").count(b"..") <= 3]
        return fmt, sub, fname, es

    libs = [lib_case(i) for i in range(n_lib)]
    llines = ["lib %s %s %s %s" % (f, hx(s), hx(n), enc_entries(es)) for (f, s, n, es) in libs]
    concs = []
    for i in range(n_conc):
        f, s, n, es = lib_case(i)
        if i % 4 != 3:
            es = gen_wellformed(rng, f)
            s = b""
            if i % 2 == 0:
                s = b"pkg"
                es = [("d", b"pkg/", b"", b"")] + [(k, b"pkg/" + (nm[2:] if nm.startswith(b"./") else nm), d, l) for (k, nm, d, l) in es if rel_comps(nm)[0]]
        concs.append((rng.choice(["go", "proc"]), rng.randint(2, 4), f, s, n, es))
    clines = ["conc %s %d %s %s %s %s" % (m, k, f, hx(s), hx(n), enc_entries(es)) for (m, k, f, s, n, es) in concs]
    ctx.log("path functions compared (%d lines)" % len(plines))
    louts = real(llines + clines, timeout=1800)
    ctx.log("%d single-caller and %d concurrent runs done" % (len(llines), len(clines)))
    lmod = model(["lib %s %s %s %s" % (cfg, hx(s), hx(n), enc_entries(es)) for (f, s, n, es) in libs] +
                 ["lib %s %s %s %s" % (cfg, hx(s), hx(n), enc_entries(es)) for (m, k, f, s, n, es) in concs])
    lib_stats = {"lib_ok": 0, "lib_err": 0, "conc_ok": 0, "conc_err": 0, "lib_nomodel": 0}
    alljobs = [("lib", 1, f, s, n, es) for (f, s, n, es) in libs] + [("conc-" + m, k, f, s, n, es) for (m, k, f, s, n, es) in concs]
    lines_all = llines + clines

    def lib_fails(status, nerr, dl, tree, f, s, n, es):
        """specification for the whole call: one complete copy and nothing else, or an error and nothing at all"""
        fails = []
        left = [p for p in tree if not (p == b"cache" or p == b"cache/lib" or p.startswith(b"cache/lib/"))]
        if left:
            fails.append("left behind: " + ", ".join(repr(p) for p in left[:4]))
        if status == "ok":
            if dl != 1 or nerr != 0:
                fails.append("success with %d downloads / %d failing callers" % (dl, nerr))
            full = spec_tree(f, es)
            if b"cache/lib" not in tree:
                fails.append("success reported but no destination directory")
            elif full is not None:
                root = tuple(rel_comps(s)[0])
                exp = {p[len(root):]: v for p, v in full.items() if len(p) > len(root) and p[:len(root)] == root}
                got = subtree(tree, [b"cache", b"lib"])
                if not s:
                    got.pop((n,), None)       # the downloaded archive itself stays in the directory (not an archive member)
                if got != exp:
                    fails.append("the published copy differs from the archived tree")
        elif b"cache/lib" in tree:
            fails.append("error returned but a destination directory was published")
        return fails

    attr = Attribution(ctx, flags, model)
    for j, (what, k, f, s, n, es) in enumerate(alljobs):
        fr = louts[j].split(" ")
        status = fr[0]
        if status not in ("ok", "err"):
            raise RuntimeError("harness answered %r to %r" % (louts[j], lines_all[j]))
        nerr, dl = int(fr[1].split("=")[1]), int(fr[2].split("=")[1])
        tree = parse_listing(fr[3:])
        lib_stats[("lib_" if what == "lib" else "conc_") + status] += 1
        mask = lambda t: {p: (("f", b"<archive>") if p == b"cache/lib/" + n and v[0] == "f" else v) for p, v in t.items()}
        replay = {"line": lines_all[j], "real": louts[j][:2000], "model": lmod[j][:2000]}
        agree = True
        if lmod[j] == "nomodel":
            lib_stats["lib_nomodel"] += 1
        else:
            # correspondence: status and the whole listing as the single-caller model predicts; by lock_quiescent /
            # lock_one_download one download and no failing caller if it succeeds, k downloads and k errors if it fails
            mf = lmod[j].split(" ")
            mtree = parse_listing(mf[1:])
            exp_dl = 1 if mf[0] == "ok" else k
            exp_nerr = 0 if mf[0] == "ok" else k
            if (mf[0], mask(mtree)) != (status, mask(tree)) or (nerr, dl) != (exp_nerr, exp_dl):
                agree = False
                mismatches.append((j, lines_all[j], louts[j][:300], lmod[j][:300]))
        fails = lib_fails(status, nerr, dl, tree, f, s, n, es)
        if fails:
            stats["spec_failures"] += 1
            mk = None if lmod[j] == "nomodel" else (lambda c, s=s, n=n, es=es: "lib %s %s %s %s" % (c, hx(s), hx(n), enc_entries(es)))

            def ok(ans, k=k, f=f, s=s, n=n, es=es):
                mf = ans.split(" ")
                return not lib_fails(mf[0], 0 if mf[0] == "ok" else k, 1 if mf[0] == "ok" else k, parse_listing(mf[1:]), f, s, n, es)
            attr.add(fails, agree, mk, lmod[j], ok, replay, "%s:%s" % (what.split("-")[0], lines_all[j][:200]))
    attr.resolve()

    # ---- 6. lock protocol: the counterexample schedule on the real acquireLock/releaseLock, and the model's witnesses
    lm = model(["lock 1 3 0,0,0,0,0,1,1,0!,0,1,1,0,2,2,2,2",
                "lock 2 3 0,0,0,0,0,1,1,0!,0,1,1,0,2,2,2,2,1,1,2,1,1,1,1"])
    if "maxext=2" not in lm[0] or "dst=broken" not in lm[1]:
        ctx.broken.append("driver does not reproduce the race schedules of Props/C20.lean: %s" % lm)
    if lockrace == "holders=2":
        ctx.report("lock:unlink-after-unlock-race", "acquireLock/releaseLock: two callers hold 'the' lock at once", {"line": "lockrace", "real": lockrace,
                   "schedule": "A locks; B opens the lock file and blocks; A unlocks+removes; B gets the old inode; C creates and locks a new file"})
    elif lockrace != "holders=1":
        ctx.report("lock:choreography:" + lockrace, "lock choreography did not complete", {"line": "lockrace", "real": lockrace})
    # random schedules of the failure-free model never show two extractors (sanity of the driver against lock_one_extractor_partial)
    sl = []
    for _ in range(200 if quick else 5000):
        npr = rng.randint(2, 4)
        sl.append("lock %d %d %s" % (rng.randint(0, 3), npr, ",".join(str(rng.randrange(npr)) for _ in range(rng.randint(5, 80)))))
    so = model(sl)
    bad = [(l, o) for l, o in zip(sl, so) if o.startswith("ok") and "maxext=2" in o]
    if bad:
        ctx.broken.append("failure-free schedule with two extractors in the model: %s" % (bad[0],))

    if ctx.tier == "thorough":
        trace_validation(ctx, harness, modeld, henv)

    # ---- 7. verdict
    if mismatches:
        ctx.log("correspondence mismatches: %d, first: %s" % (len(mismatches), mismatches[0]))
        ctx.broken.append("correspondence real vs Lean model variant %s (%d cases differ), e.g. %s" % (cfg, len(mismatches), mismatches[0][1][:300]))
        if not ctx.violations:
            ctx.report_broken("correspondence C20 real-vs-model", {"variant": cfg, "first": mismatches[:5]})
    if path_mismatch and not ctx.violations:
        ctx.report_broken("Model/Path.lean vs filepath", {"first": path_mismatch[:5]})
    for name, s in st.items():
        if s != "ok":
            ctx.log("theorem", name, s)
    if any(s != "ok" for s in st.values()) and not ctx.violations:
        ctx.report_broken("Props/C20: " + ", ".join(n for n, s in st.items() if s != "ok"), st)
    other_broken = [b for b in ctx.broken if b.startswith(("driver does not", "failure-free schedule"))]
    if other_broken and not ctx.violations:
        ctx.report_broken("lock model driver", other_broken)

    ctx.coverage["samples"] = [rlines[0], {"real": routs[0][:400], "model": mouts.get(0, "")[:400]}, rlines[len(rlines) // 2][:400],
                               lines_all[0][:300], {"real": louts[0][:300]}, clines[0][:300] if clines else "", "lockrace -> " + lockrace]
    ctx.coverage["code_variant"] = dict(zip(FLAG_NAMES, flags))
    ctx.coverage["trusted_base"] += [
        "hand-written Lean models of filepath.Clean/Join/Dir, extractTarGz, extractZip, checkDownloadAndExtractLib, tied by differential runs "
        "(real Go functions built from the working tree vs compiled Lean model, variant chosen by replaying the counterexample witnesses)",
        "the archive writers of harness/c20/main.go (raw GNU tar headers, archive/zip.Writer, gzip, external xz), Go's archive/tar, archive/zip, "
        "compress/gzip readers, net/http(test); the kernel's flock/rename/unlink semantics (modelled in Model/ExtractLock.lean, not verified); "
        "GNU tar for .tar.xz (not modelled: judged against the specification only)",
        "the specification evaluator in checks/c20.py (lexical resolution, archived tree) and Spec/Extract.lean",
    ]
    ctx.assumptions += ["destination path contains no symbolic links (the extractors never create any)",
                        "file modes, times and ownership are not part of the claim",
                        "archive member names contain no NUL byte; at most %d '..' elements per generated name (deeper climbs would leave the scratch area)" % MAX_UP]
    return ctx.finish("proof", {
        "evaluations": len(rlines) + len(plines) + len(pr2) + len(lines_all) + len(sl) + 3,
        "distinct_nontrivial": len(nontrivial) + len(set(lines_all)),
        "rule": "one archive (or one path-function call, or one concurrent run) per evaluation; non-trivial archive = at least two entries or a '..' element; distinct by protocol line",
        "input_distribution": dict(stats, **lib_stats, path_lines=len(plines), lock_schedules=len(sl),
                                   origins={o: sum(1 for c in cases if c[0].split(":")[0] == o) for o in ("witness", "boundary", "wellformed", "hostile")}),
        "spec_failures_on_real_code": stats["spec_failures"],
        "correspondence_mismatches": len(mismatches) + len(path_mismatch),
    })


# ------------------------------------------------------------------------------------------------ thorough tier: system-call traces against the protocol model
def trace_validation(ctx, harness, modeld, henv):
    """N processes run checkDownloadAndExtractLib, each under its own `strace -f -ttt -T`.  Every protocol-relevant
    system call becomes an event with the interval [entry, exit] in which it took effect.  The trace is accepted if
    some linearisation that respects the intervals (a before b whenever a's exit precedes b's entry) and each
    process's own order is a run of the lock-protocol model in which every step performs exactly the observed event
    (`eventOf`); the linearisation is searched here and then CHECKED by `modeld_c20 lock 0 N p:evt,…`."""
    if shutil.which("strace") is None:
        ctx.assumptions.append("strace not installed: no trace validation")
        return
    td = os.path.join(ctx.scratch, "strace")
    os.makedirs(td, exist_ok=True)
    env = dict(henv, C20_STRACE_DIR=td)
    es = [("d", b"pkg/", b"", b""), ("f", b"pkg/x", b"hello", b"")]
    lines = ["conc proc %d %s %s %s %s" % (2 + i % 3, "tgz" if i % 2 else "zip", hx(b"pkg"), hx(b"lib-1.0.tar.gz" if i % 2 else b"lib-1.0.zip"), enc_entries(es))
             for i in range(12)]
    out, rc, err = run_lines([harness], lines, env=env, timeout=1800)
    accepted, rejected = 0, []
    for ci, (line, ans) in enumerate(zip(lines, out), 1):
        files = sorted(f for f in os.listdir(td) if f.startswith("c%d-p" % ci))
        if not ans.startswith("ok") or not files:
            ctx.log("trace run %d not usable: %s" % (ci, ans[:100]))
            continue
        procs = [strace_events(open(os.path.join(td, f)).read()) for f in files]
        sched = linearise(procs)
        if sched is None:
            rejected.append({"run": line, "events": [[(e, round(a, 6), round(b, 6)) for (e, a, b) in p] for p in procs]})
            continue
        mo, _, _ = run_lines([modeld], ["lock 0 %d %s" % (len(procs), ",".join(sched))])
        if mo and mo[0].startswith("ok") and "dst=complete" in mo[0] and "maxext=1" in mo[0]:
            accepted += 1
        else:
            rejected.append({"run": line, "schedule": sched, "model": mo})
    ctx.coverage["trace_validation"] = {"runs": len(lines), "accepted": accepted, "rejected": len(rejected)}
    ctx.log("trace validation: %d of %d runs accepted by the protocol model" % (accepted, len(lines)))
    if rejected:
        ctx.broken.append("system-call trace not accepted by the lock-protocol model")
        ctx.report_broken("lock protocol trace validation", rejected[:3])


def strace_events(text):
    """strace -f -ttt -T output of ONE caller -> [(event, entry time, exit time)] in program order"""
    import re
    pending = {}
    calls = []      # (entry, exit, text with result)
    for ln in text.split("\n"):
        m = re.match(r"^(\d+)\s+(\d+\.\d+)\s+(.*)$", ln)
        if not m:
            continue
        tid, t, rest = int(m.group(1)), float(m.group(2)), m.group(3)
        if rest.endswith("<unfinished ...>"):
            pending[tid] = (t, rest[:-len("<unfinished ...>")])
            continue
        m2 = re.match(r"^<\.\.\. \w+ resumed>(.*)$", rest)
        if m2:
            t0, head = pending.pop(tid, (t, ""))
            rest, t = head + m2.group(1), t0
        d = re.search(r"<(\d+\.\d+)>\s*$", rest)
        dur = float(d.group(1)) if d else 0.0
        calls.append((t, t + dur, rest))
    calls.sort(key=lambda c: c[0])
    ev = []
    for (a, b, c) in calls:
        ok = re.search(r"\)\s+= 0", c) is not None
        if c.startswith("newfstatat(") and '/cache/lib", ' in c and "AT_SYMLINK_NOFOLLOW" not in c:
            ev.append(("stat-present" if ok else "stat-absent", a, b))
        elif c.startswith("openat(") and '/cache/lib.lock"' in c and "O_CREAT" in c:
            ev.append(("open", a, b))
        elif c.startswith("flock(") and "LOCK_EX" in c and ok:
            ev.append(("flock", a, b))
        elif c.startswith("flock(") and "LOCK_UN" in c:
            ev.append(("unlock", a, b))
        elif c.startswith("mkdirat(") and '/cache/lib.extract.temp"' in c and ok:
            ev.append(("mktmp", a, b))
        elif c.startswith("renameat") and '/cache/lib.extract.temp"' in c and ok:
            ev.append(("written", a, a))
            ev.append(("rentmp", a, b))
        elif c.startswith("renameat") and c.rstrip().split('"')[-2].endswith("/cache/lib") and ok:
            ev.append(("rendst", a, b))
        elif c.startswith("unlinkat(") and '/cache/lib.lock"' in c and "AT_REMOVEDIR" not in c:
            ev.append(("unlink", a, b))
    return ev


def linearise(procs):
    """search an interleaving of the per-process event lists that respects the intervals and is a run of the
    protocol (Python mirror of Model/ExtractLock.lean `step`/`eventOf`, K = 0, no failures) -> ['p:evt', …] or None"""
    n = len(procs)
    import sys
    sys.setrecursionlimit(10000)
    seen = set()

    def event_of(st, p):
        pc = st["pc"][p]
        k = pc[0]
        if k in ("stat1", "stat2"):
            return "stat-present" if st["dst"] else "stat-absent"
        return {"openLock": "open", "flock": "flock", "mkTmp": "mktmp", "write": "written", "renTmp": "rentmp", "renDst": "rendst",
                "unlock": "unlock", "unlink": "unlink", "done": "none"}[k]

    def step(st, p):
        st = {"pc": list(st["pc"]), "locks": dict(st["locks"]), "lockFile": st["lockFile"], "next": st["next"], "dst": st["dst"], "ext": st["ext"], "tmp": st["tmp"]}
        k = st["pc"][p]
        if k[0] == "stat1":
            st["pc"][p] = ("done",) if st["dst"] else ("openLock",)
        elif k[0] == "openLock":
            if st["lockFile"] is None:
                st["lockFile"] = st["next"]
                st["next"] += 1
            st["pc"][p] = ("flock", st["lockFile"])
        elif k[0] == "flock":
            if st["locks"].get(k[1]) is not None:
                return None
            st["locks"][k[1]] = p
            st["pc"][p] = ("stat2", k[1])
        elif k[0] == "stat2":
            st["pc"][p] = ("unlock", k[1]) if st["dst"] else ("mkTmp", k[1])
        elif k[0] == "mkTmp":
            st["tmp"] = True
            st["pc"][p] = ("write", k[1])
        elif k[0] == "write":
            st["pc"][p] = ("renTmp", k[1])
        elif k[0] == "renTmp":
            if not st["tmp"] or st["ext"]:
                return None
            st["tmp"], st["ext"] = False, True
            st["pc"][p] = ("renDst", k[1])
        elif k[0] == "renDst":
            if not st["ext"] or st["dst"]:
                return None
            st["ext"], st["dst"] = False, True
            st["pc"][p] = ("unlock", k[1])
        elif k[0] == "unlock":
            st["locks"][k[1]] = None
            st["pc"][p] = ("unlink",)
        elif k[0] == "unlink":
            st["lockFile"] = None
            st["pc"][p] = ("done",)
        else:
            return None
        return st

    def go(st, idx, acc):
        if all(idx[p] == len(procs[p]) for p in range(n)):
            return acc
        key = (tuple(idx), tuple(st["pc"]), st["lockFile"], st["dst"], st["ext"], st["tmp"], tuple(sorted((k, v) for k, v in st["locks"].items() if v is not None)))
        if key in seen:
            return None
        seen.add(key)
        for p in range(n):
            if idx[p] == len(procs[p]):
                continue
            e, a, b = procs[p][idx[p]]
            if any(q != p and idx[q] < len(procs[q]) and procs[q][idx[q]][2] < a for q in range(n)):
                continue            # some other pending event finished before this one started
            if event_of(st, p) != e:
                continue
            st2 = step(st, p)
            if st2 is None:
                continue
            idx2 = list(idx)
            idx2[p] += 1
            r = go(st2, idx2, acc + ["%d:%s" % (p, e)])
            if r is not None:
                return r
        return None

    st0 = {"pc": [("stat1",)] * n, "locks": {}, "lockFile": None, "next": 0, "dst": False, "ext": False, "tmp": False}
    return go(st0, [0] * n, [])
