// Package ctime: stand-in for clite/time.
package ctime

type TimeT = int64

func Time(*TimeT) TimeT { return 0 }
