import LlgoVerif.Lemmas.ChanHist
/-! C10, select-free programs, fixed variant: the channel history (`sentBy`, `recvBy`) agrees with what the threads
    report — per sender, per receiver, in order; a served receiver that has not returned yet holds its value. -/
namespace LlgoVerif.Chan

/-- contribution of one result to `sentVals` / `okVals` -/
def sentOf (c : Cid) : Res → List Val
  | .sent c' v => if c' = c then [v] else []
  | _ => []

def okOf (c : Cid) : Res → List Val
  | .recv c' v true => if c' = c then [v] else []
  | _ => []

theorem sentVals_res {th th' : Thread} {r : Res} (h : th'.res = th.res ++ [r]) (c : Cid) :
    sentVals th' c = sentVals th c ++ sentOf c r := by
  unfold sentVals
  rw [h, List.filterMap_append]
  congr 1
  cases r with
  | sent c' v => by_cases hc : c' = c <;> simp [hc, sentOf]
  | _ => simp [sentOf]

theorem okVals_res {th th' : Thread} {r : Res} (h : th'.res = th.res ++ [r]) (c : Cid) :
    okVals th' c = okVals th c ++ okOf c r := by
  unfold okVals
  rw [h, List.filterMap_append]
  congr 1
  cases r with
  | recv c' v ok => cases ok <;> (by_cases hc : c' = c <;> simp [hc, okOf])
  | _ => simp [okOf]

theorem sentVals_same {th th' : Thread} (h : th'.res = th.res) (c : Cid) : sentVals th' c = sentVals th c := by
  unfold sentVals; rw [h]

theorem okVals_same {th th' : Thread} (h : th'.res = th.res) (c : Cid) : okVals th' c = okVals th c := by
  unfold okVals; rw [h]

theorem sentFrom_snoc {ch ch' : Chan} {u : Tid} {v : Val} (h : ch'.sentBy = ch.sentBy ++ [(u, v)]) (t : Tid) :
    sentFrom ch' t = sentFrom ch t ++ (if u = t then [v] else []) := by
  unfold sentFrom
  rw [h, List.filter_append, List.map_append]
  congr 1
  by_cases hu : u = t <;> simp [hu]

theorem handedTo_snoc {ch ch' : Chan} {u : Tid} {v : Val} (h : ch'.recvBy = ch.recvBy ++ [(u, v)]) (t : Tid) :
    handedTo ch' t = handedTo ch t ++ (if u = t then [v] else []) := by
  unfold handedTo
  rw [h, List.filter_append, List.map_append]
  congr 1
  by_cases hu : u = t <;> simp [hu]

theorem sentFrom_same {ch ch' : Chan} (h : ch'.sentBy = ch.sentBy) (t : Tid) : sentFrom ch' t = sentFrom ch t := by
  unfold sentFrom; rw [h]

theorem handedTo_same {ch ch' : Chan} (h : ch'.recvBy = ch.recvBy) (t : Tid) : handedTo ch' t = handedTo ch t := by
  unfold handedTo; rw [h]

structure HistInv (s : State) : Prop where
  /-- a thread inside an operation has its receive variable -/
  rvlen : ∀ t p, (s.thread t).pc = .at p → 0 < (s.thread t).rv.length
  /-- per sender: the history's values of sender `t` on `c` = the sends `t` completed on `c`, in order -/
  sentL : ∀ t c, c < s.chans.length → sentFrom (s.chan c) t = sentVals (s.thread t) c
  /-- per receiver: the values the history handed to `t` on `c` = the values `t` returned with `ok = true` on `c`, in
      order, plus (at most) the one value in the variable of a served second-phase receive that has not returned -/
  recvL : ∀ t c, c < s.chans.length →
    handedTo (s.chan c) t =
      okVals (s.thread t) c ++ inflightOf (s.thread t).pc (s.thread t).rv c (s.chan c).recvseq

theorem rvAfter_length (d : Option (Target × Val)) (t : Tid) (rv : List Val) : (rvAfter d t rv).length = rv.length := by
  unfold rvAfter
  split
  · split <;> simp
  · rfl

/-- the `Memcpy` of one plain critical section: none, into the acting receiver's own variable (buffered receive), or
    into the variable of the armed receiver (hand-off) -/
theorem deliver_cases {s : State} {t : Tid} {p : Point} (ha : ArmInv s) (hpl : p.plain = true)
    (hpc : (s.thread t).pc = .at p) :
    (body p t (s.chan p.chan)).deliver = none ∨
    (∃ v, (body p t (s.chan p.chan)).deliver = some (⟨t, 0⟩, v)) ∨
    (∃ u b v, (body p t (s.chan p.chan)).deliver = some (⟨u, 0⟩, v) ∧ u ≠ t ∧
      atRecv2 (s.thread u).pc p.chan b (s.chan p.chan).recvseq) := by
  cases hout : (body p t (s.chan p.chan)).out with
  | notify k =>
    cases k with
    | finish bc n =>
      cases n with
      | ret r =>
        cases r with
        | sent c' v' =>
          by_cases hcap : (s.chan p.chan).cap = 0
          · obtain ⟨_, _, hcl, hg, _⟩ := body_hist_sentBy p t _ bc c' v' hpl hout
            have hc0 : p.chan < s.chans.length := by
              apply Classical.byContradiction
              intro hn
              have hle : s.chans.length ≤ p.chan := Nat.le_of_not_lt hn
              have hd : s.chan p.chan = dfltChan := by simp [State.chan, List.getD, List.getElem?_eq_none hle]
              have := hg hcap
              rw [hd] at this
              simp [dfltChan, newChan, hasRecv] at this
            obtain ⟨u, b, hsl, hat⟩ := ha.armed p.chan hc0 hcap (hg hcap) hcl
            obtain ⟨_, _, _, _, _, hd, _⟩ := body_hist_hand p t _ bc c' v' ⟨u, 0⟩ hpl hcap hsl hout
            right; right
            refine ⟨u, b, v', hd, ?_, hat⟩
            intro e; rw [e, hpc] at hat
            have h2 := (body_hist_sentBy p t _ bc c' v' hpl hout).2.2.2.2
            rcases hat with e' | e' <;> (have e2 := PC.at.inj e'; rw [e2] at h2; simp [Point.secondPhase2] at h2)
          · left; exact (body_hist_push p t _ bc c' v' hpl hcap hout).2.2.2.1
        | recv c' ok =>
          right; left
          obtain ⟨_, _, _, _, hd, _⟩ := body_hist_pop p t _ bc c' ok hpl hout
          exact ⟨_, hd⟩
        | closed => left; exact (body_hist_same p t _ hpl (by rw [hout]; rfl)).2.2.1
        | trySend ok => left; exact (body_hist_same p t _ hpl (by rw [hout]; rfl)).2.2.1
        | tryRecv a b => left; exact (body_hist_same p t _ hpl (by rw [hout]; rfl)).2.2.1
        | prep => left; exact (body_hist_same p t _ hpl (by rw [hout]; rfl)).2.2.1
        | ended => left; exact (body_hist_same p t _ hpl (by rw [hout]; rfl)).2.2.1
      | recv2 b seq => left; exact (body_hist_same p t _ hpl (by rw [hout]; rfl)).2.2.1
    | wait q => left; exact (body_hist_same p t _ hpl (by rw [hout]; rfl)).2.2.1
  | wait q => left; exact (body_hist_same p t _ hpl (by rw [hout]; rfl)).2.2.1
  | unlock r => left; exact (body_hist_same p t _ hpl (by rw [hout]; rfl)).2.2.1
  | panic => left; exact (body_hist_same p t _ hpl (by rw [hout]; rfl)).2.2.1

/-! ### `inflightOf` arithmetic -/

theorem inflightOf_armed_before {pc : PC} {c : Cid} {b : Bool} {rs : Nat} (h : atRecv2 pc c b rs) (rv : List Val) :
    inflightOf pc rv c rs = [] := by
  rcases h with e | e <;> (rw [e]; simp [inflightOf])

theorem inflightOf_armed_after {pc : PC} {c : Cid} {b : Bool} {rs : Nat} (h : atRecv2 pc c b rs) (rv : List Val) :
    inflightOf pc rv c (rs + 1) = [rv.getD 0 0] := by
  rcases h with e | e <;> (rw [e]; simp [inflightOf])

theorem inflightOf_succ_ne (pc : PC) (rv : List Val) (c : Cid) (rs : Nat)
    (h : ∀ b, ¬ atRecv2 pc c b rs) : inflightOf pc rv c (rs + 1) = inflightOf pc rv c rs := by
  cases pc with
  | «at» p =>
    cases p <;> simp only [inflightOf]
    case recv2Lock c' b seq =>
      by_cases hc : c' = c
      · subst hc
        have : seq ≠ rs := fun e => h b (Or.inl (by rw [e]))
        have h1 : (seq < rs + 1) = (seq < rs) := by apply propext; omega
        simp [h1]
      · simp [hc]
    case recv2Wait c' b seq =>
      by_cases hc : c' = c
      · subst hc
        have : seq ≠ rs := fun e => h b (Or.inr (by rw [e]))
        have h1 : (seq < rs + 1) = (seq < rs) := by apply propext; omega
        simp [h1]
      · simp [hc]
  | _ => rfl

theorem inflightOf_self2 (p : Point) (seq : Nat) (rv : List Val) (rs : Nat) (h : p.secondPhase2 = some seq) :
    inflightOf (.at p) rv p.chan rs = if seq < rs then [rv.getD 0 0] else [] := by
  cases p <;> simp_all [Point.secondPhase2, inflightOf, Point.chan]

theorem getD_set_zero (rv : List Val) (v : Val) (h : 0 < rv.length) : (rv.set 0 v).getD 0 0 = v := by
  cases rv with
  | nil => simp at h
  | cons a l => simp [List.getD]

/-- what the acting thread reports / holds, as far as another channel `c ≠ p.chan` is concerned: nothing new -/
theorem self_other_chan {s : State} {t : Tid} {p : Point} (hpl : p.plain = true) (c : Cid) (hc : c ≠ p.chan)
    (th' : Thread) (rv1 : List Val)
    (hself : SelfAfter (s.thread t) th' p.chan rv1 (body p t (s.chan p.chan)).out) (rs : Nat) :
    sentVals th' c = sentVals (s.thread t) c ∧ okVals th' c = okVals (s.thread t) c ∧
    inflightOf th'.pc th'.rv c rs = [] := by
  have hres : ∀ (r : Ret), (body p t (s.chan p.chan)).out = .unlock r ∨
      (∃ bc, (body p t (s.chan p.chan)).out = .notify (.finish bc (.ret r))) →
      sentOf c (resOf { s.thread t with rv := rv1 } r) = [] ∧ okOf c (resOf { s.thread t with rv := rv1 } r) = [] := by
    intro r hr
    cases r with
    | sent c' v' =>
      rcases hr with hr | ⟨bc, hr⟩
      · have := (body_unlock_ret p t _ _ hpl hr).2.2.1; simp [Ret.isRecvOn] at this
      · have := (body_hist_sentBy p t _ bc c' v' hpl hr).1
        simp [resOf, sentOf, okOf, this, Ne.symm hc]
    | recv c' ok =>
      have hc' : c' = p.chan := by
        rcases hr with hr | ⟨bc, hr⟩
        · have := (body_unlock_ret p t _ _ hpl hr).2.2.1; simpa [Ret.isRecvOn] using this
        · exact (body_hist_pop p t _ bc c' ok hpl hr).1
      cases ok <;> simp [resOf, sentOf, okOf, hc', Ne.symm hc]
    | closed => simp [resOf, sentOf, okOf]
    | trySend ok => simp [resOf, sentOf, okOf]
    | tryRecv a b => simp [resOf, sentOf, okOf]
    | prep => simp [resOf, sentOf, okOf]
    | ended => simp [resOf, sentOf, okOf]
  cases hout : (body p t (s.chan p.chan)).out with
  | wait q =>
    rw [hout] at hself
    obtain ⟨e1, _, e3, _⟩ := hself
    refine ⟨sentVals_same e3 c, okVals_same e3 c, ?_⟩
    rw [e1]; exact inflightOf_other_chan q _ c rs (by rw [(body_wait p q t _ hout).1]; exact Ne.symm hc)
  | notify k =>
    rw [hout] at hself
    cases k with
    | wait q =>
      obtain ⟨e1, _, e3, _⟩ := hself
      refine ⟨sentVals_same e3 c, okVals_same e3 c, ?_⟩
      rw [e1]; exact inflightOf_other_chan q _ c rs (by rw [(body_notify_wait p q t _ hout).1]; exact Ne.symm hc)
    | finish bc n =>
      cases n with
      | ret r =>
        obtain ⟨e1, e2, _⟩ := hself
        obtain ⟨a1, a2⟩ := hres r (Or.inr ⟨bc, hout⟩)
        refine ⟨by rw [sentVals_res e1 c, a1, List.append_nil], by rw [okVals_res e1 c, a2, List.append_nil],
          inflightOf_entry e2 _ c rs⟩
      | recv2 b seq =>
        obtain ⟨e1, e3, _⟩ := hself
        refine ⟨sentVals_same e3 c, okVals_same e3 c, ?_⟩
        rw [e1]; exact inflightOf_other_chan _ _ c rs (Ne.symm hc)
  | unlock r =>
    rw [hout] at hself
    obtain ⟨e1, e2, _⟩ := hself
    obtain ⟨a1, a2⟩ := hres r (Or.inl hout)
    exact ⟨by rw [sentVals_res e1 c, a1, List.append_nil], by rw [okVals_res e1 c, a2, List.append_nil],
      inflightOf_entry e2 _ c rs⟩
  | panic =>
    rw [hout] at hself
    obtain ⟨e1, e2, _⟩ := hself
    refine ⟨by rw [sentVals_res e2 c]; simp [sentOf], by rw [okVals_res e2 c]; simp [okOf], ?_⟩
    rw [e1]; rfl

/-- the acting thread and its own channel -/
theorem self_same_chan {s : State} {t : Tid} {p : Point} (hi : HistInv s) (ha : ArmInv s) (hpl : p.plain = true)
    (hc0 : p.chan < s.chans.length) (hfix : (s.chan p.chan).fixed = true) (hpc : (s.thread t).pc = .at p)
    (th' : Thread)
    (hself : SelfAfter (s.thread t) th' p.chan
      (rvAfter (body p t (s.chan p.chan)).deliver t (s.thread t).rv) (body p t (s.chan p.chan)).out) :
    sentFrom (body p t (s.chan p.chan)).ch t = sentVals th' p.chan ∧
    handedTo (body p t (s.chan p.chan)).ch t =
      okVals th' p.chan ++ inflightOf th'.pc th'.rv p.chan (body p t (s.chan p.chan)).ch.recvseq := by
  have ihS := hi.sentL t p.chan hc0
  have ihR := hi.recvL t p.chan hc0
  rw [hpc] at ihR
  have hrv := hi.rvlen t p hpc
  -- no commit: history, counter, variables untouched
  have hquiet : (body p t (s.chan p.chan)).out.commits = false →
      sentFrom (body p t (s.chan p.chan)).ch t = sentFrom (s.chan p.chan) t ∧
      handedTo (body p t (s.chan p.chan)).ch t = handedTo (s.chan p.chan) t ∧
      (body p t (s.chan p.chan)).ch.recvseq = (s.chan p.chan).recvseq ∧
      rvAfter (body p t (s.chan p.chan)).deliver t (s.thread t).rv = (s.thread t).rv := by
    intro hcm
    obtain ⟨a, b, c, d⟩ := body_hist_same p t _ hpl hcm
    exact ⟨sentFrom_same a t, handedTo_same b t, d, by rw [c]; rfl⟩
  cases hout : (body p t (s.chan p.chan)).out with
  | wait q =>
    obtain ⟨q1, q2, q3, q4⟩ := hquiet (by rw [hout]; rfl)
    rw [hout] at hself
    obtain ⟨e1, _, e3, e4, _⟩ := hself
    rw [q1, q2, q3, sentVals_same e3, okVals_same e3, e1, e4, q4,
      body_wait_inflight p q t _ _ _ _ hpl (Or.inl hout)]
    exact ⟨ihS, ihR⟩
  | panic =>
    obtain ⟨q1, q2, q3, _⟩ := hquiet (by rw [hout]; rfl)
    rw [hout] at hself
    obtain ⟨e1, e2, _⟩ := hself
    have hn2 := body_notrecv2 p t _ hpl (by rw [hout]; rfl)
    rw [inflightOf_not2 p _ _ _ hn2, List.append_nil] at ihR
    rw [q1, q2, sentVals_res e2, okVals_res e2, e1]
    simp [sentOf, okOf, inflightOf, ihS, ihR]
  | unlock r =>
    obtain ⟨q1, q2, q3, q4⟩ := hquiet (by rw [hout]; rfl)
    rw [hout] at hself
    obtain ⟨e1, e2, _⟩ := hself
    obtain ⟨_, _, hron, hkind⟩ := body_unlock_ret p t _ r hpl hout
    rw [q1, q2, sentVals_res e1, okVals_res e1, inflightOf_entry e2, q4, List.append_nil]
    cases hsp : p.secondPhase2 with
    | none =>
      rw [hsp] at hkind
      rw [inflightOf_not2 p _ _ _ hsp, List.append_nil] at ihR
      rw [hkind]
      simp [resOf, sentOf, okOf, ihS, ihR]
    | some seq =>
      rw [hsp] at hkind
      have hk := hkind hfix
      rw [inflightOf_self2 p seq _ _ hsp] at ihR
      have hle : seq ≤ (s.chan p.chan).recvseq := by
        have hat : atRecv2 (s.thread t).pc p.chan false seq := by
          rw [hpc]
          cases p <;> simp_all [Point.secondPhase2, Point.plain, atRecv2, Point.chan]
        exact (ha.arm t p.chan false seq hc0 hat).2.1
      rw [hk]
      by_cases hs : (s.chan p.chan).recvseq = seq
      · have hlt : ¬ seq < (s.chan p.chan).recvseq := by omega
        have hb : ((s.chan p.chan).recvseq != seq) = false := by simp [hs]
        simp [hlt] at ihR
        simp [resOf, sentOf, okOf, hb, ihS, ihR]
      · have hlt : seq < (s.chan p.chan).recvseq := by omega
        have hb : ((s.chan p.chan).recvseq != seq) = true := by simp [bne_iff_ne, hs]
        simp [hlt] at ihR
        simp [resOf, sentOf, okOf, hb, ihS, ihR]
  | notify k =>
    cases k with
    | wait q =>
      obtain ⟨q1, q2, q3, q4⟩ := hquiet (by rw [hout]; rfl)
      rw [hout] at hself
      obtain ⟨e1, _, e3, e4, _⟩ := hself
      rw [q1, q2, q3, sentVals_same e3, okVals_same e3, e1, e4, q4,
        body_wait_inflight p q t _ _ _ _ hpl (Or.inr hout)]
      exact ⟨ihS, ihR⟩
    | finish bc n =>
      cases n with
      | recv2 b seq =>
        obtain ⟨q1, q2, q3, q4⟩ := hquiet (by rw [hout]; rfl)
        have hn2 := body_notrecv2 p t _ hpl (by rw [hout]; rfl)
        rw [inflightOf_not2 p _ _ _ hn2, List.append_nil] at ihR
        obtain ⟨_, hseq, _⟩ := body_arm p t _ bc b seq hpl hout
        rw [hout] at hself
        obtain ⟨e1, e3, _⟩ := hself
        rw [q1, q2, q3, sentVals_same e3, okVals_same e3, e1]
        simp [inflightOf, hseq, ihS, ihR]
      | ret r =>
        rw [hout] at hself
        obtain ⟨e1, e2, _⟩ := hself
        rw [sentVals_res e1, okVals_res e1, inflightOf_entry e2, List.append_nil]
        cases r with
        | sent c' v' =>
          obtain ⟨hcc, hsb, hcl, hg, hn2⟩ := body_hist_sentBy p t _ bc c' v' hpl hout
          rw [inflightOf_not2 p _ _ _ hn2, List.append_nil] at ihR
          have hsf : sentFrom (body p t (s.chan p.chan)).ch t = sentFrom (s.chan p.chan) t ++ [v'] := by
            rw [sentFrom_snoc hsb]; simp
          have hht : handedTo (body p t (s.chan p.chan)).ch t = handedTo (s.chan p.chan) t := by
            by_cases hcap : (s.chan p.chan).cap = 0
            · obtain ⟨u, b, hsl, hat⟩ := ha.armed p.chan hc0 hcap (hg hcap) hcl
              obtain ⟨_, _, _, _, hrb, _⟩ := body_hist_hand p t _ bc c' v' ⟨u, 0⟩ hpl hcap hsl hout
              have hut : u ≠ t := by
                intro e; rw [e, hpc] at hat
                rcases hat with e' | e' <;> (have e2 := PC.at.inj e'; rw [e2] at hn2; simp [Point.secondPhase2] at hn2)
              rw [handedTo_snoc hrb]; simp [hut]
            · exact handedTo_same (body_hist_push p t _ bc c' v' hpl hcap hout).2.2.1 t
          rw [hsf, hht]
          simp [resOf, sentOf, okOf, hcc, ihS, ihR]
        | recv c' ok =>
          obtain ⟨hcc, hok, _, hrb, hd, hsb, _, hn2⟩ := body_hist_pop p t _ bc c' ok hpl hout
          rw [inflightOf_not2 p _ _ _ hn2, List.append_nil] at ihR
          have hrv1 : rvAfter (some (({ tid := t, slot := 0 } : Target), (s.chan p.chan).front)) t (s.thread t).rv =
              (s.thread t).rv.set 0 (s.chan p.chan).front := by simp [rvAfter]
          rw [sentFrom_same hsb, handedTo_snoc hrb, hd, hrv1, hcc, hok]
          have hres : resOf { s.thread t with rv := (s.thread t).rv.set 0 (s.chan p.chan).front } (.recv p.chan true) =
              .recv p.chan (s.chan p.chan).front true := by
            simp only [resOf]; rw [getD_set_zero _ _ hrv]
          rw [hres]
          simp [sentOf, okOf, ihS, ihR]
        | closed =>
          obtain ⟨q1, q2, _, _⟩ := hquiet (by rw [hout]; rfl)
          have hn2 := body_notrecv2 p t _ hpl (by rw [hout]; rfl)
          rw [inflightOf_not2 p _ _ _ hn2, List.append_nil] at ihR
          rw [q1, q2]; simp [resOf, sentOf, okOf, ihS, ihR]
        | trySend ok =>
          obtain ⟨q1, q2, _, _⟩ := hquiet (by rw [hout]; rfl)
          have hn2 := body_notrecv2 p t _ hpl (by rw [hout]; rfl)
          rw [inflightOf_not2 p _ _ _ hn2, List.append_nil] at ihR
          rw [q1, q2]; simp [resOf, sentOf, okOf, ihS, ihR]
        | tryRecv a b =>
          obtain ⟨q1, q2, _, _⟩ := hquiet (by rw [hout]; rfl)
          have hn2 := body_notrecv2 p t _ hpl (by rw [hout]; rfl)
          rw [inflightOf_not2 p _ _ _ hn2, List.append_nil] at ihR
          rw [q1, q2]; simp [resOf, sentOf, okOf, ihS, ihR]
        | prep =>
          obtain ⟨q1, q2, _, _⟩ := hquiet (by rw [hout]; rfl)
          have hn2 := body_notrecv2 p t _ hpl (by rw [hout]; rfl)
          rw [inflightOf_not2 p _ _ _ hn2, List.append_nil] at ihR
          rw [q1, q2]; simp [resOf, sentOf, okOf, ihS, ihR]
        | ended =>
          obtain ⟨q1, q2, _, _⟩ := hquiet (by rw [hout]; rfl)
          have hn2 := body_notrecv2 p t _ hpl (by rw [hout]; rfl)
          rw [inflightOf_not2 p _ _ _ hn2, List.append_nil] at ihR
          rw [q1, q2]; simp [resOf, sentOf, okOf, ihS, ihR]

/-- every other thread, on a channel the step does not touch -/
theorem others_other_chan {s : State} {t t' : Tid} {p : Point} (hi : HistInv s) (ha : ArmInv s) (hpl : p.plain = true)
    (hpc : (s.thread t).pc = .at p) (hne : t' ≠ t) (th'' : Thread)
    (hoth : SameBut th'' { s.thread t' with rv := rvAfter (body p t (s.chan p.chan)).deliver t' (s.thread t').rv })
    (c : Cid) (hc : c < s.chans.length) (hcc : c ≠ p.chan) :
    sentFrom (s.chan c) t' = sentVals th'' c ∧
    handedTo (s.chan c) t' = okVals th'' c ++ inflightOf th''.pc th''.rv c (s.chan c).recvseq := by
  have ihS := hi.sentL t' c hc
  have ihR := hi.recvL t' c hc
  rw [sentVals_same hoth.res, okVals_same hoth.res, hoth.pc, hoth.rv]
  show sentFrom (s.chan c) t' = sentVals (s.thread t') c ∧ handedTo (s.chan c) t' = okVals (s.thread t') c ++
    inflightOf (s.thread t').pc (rvAfter (body p t (s.chan p.chan)).deliver t' (s.thread t').rv) c (s.chan c).recvseq
  refine ⟨ihS, ?_⟩
  rcases deliver_cases ha hpl hpc with hd | ⟨v, hd⟩ | ⟨u, b, v, hd, _, hat⟩
  · rw [hd]; exact ihR
  · rw [hd]; simp only [rvAfter, Ne.symm hne, if_false]; exact ihR
  · rw [hd]
    by_cases hu : u = t'
    · subst hu
      have h1 : ∀ rv, inflightOf (s.thread u).pc rv c (s.chan c).recvseq = [] := by
        intro rv
        rcases hat with e' | e' <;> (rw [e']; exact inflightOf_other_chan _ _ _ _ (Ne.symm hcc))
      rw [h1]; rw [h1] at ihR; exact ihR
    · simp only [rvAfter, hu, if_false]; exact ihR

/-- every other thread, on the channel of the step -/
theorem others_same_chan {s : State} {t t' : Tid} {p : Point} (hi : HistInv s) (ha : ArmInv s) (hpl : p.plain = true)
    (hc0 : p.chan < s.chans.length) (hfix : (s.chan p.chan).fixed = true)
    (hpc : (s.thread t).pc = .at p) (hne : t' ≠ t) (th'' : Thread)
    (hoth : SameBut th'' { s.thread t' with rv := rvAfter (body p t (s.chan p.chan)).deliver t' (s.thread t').rv }) :
    sentFrom (body p t (s.chan p.chan)).ch t' = sentVals th'' p.chan ∧
    handedTo (body p t (s.chan p.chan)).ch t' =
      okVals th'' p.chan ++ inflightOf th''.pc th''.rv p.chan (body p t (s.chan p.chan)).ch.recvseq := by
  have ihS := hi.sentL t' p.chan hc0
  have ihR := hi.recvL t' p.chan hc0
  rw [sentVals_same hoth.res, okVals_same hoth.res, hoth.pc, hoth.rv]
  show sentFrom (body p t (s.chan p.chan)).ch t' = sentVals (s.thread t') p.chan ∧
    handedTo (body p t (s.chan p.chan)).ch t' = okVals (s.thread t') p.chan ++
      inflightOf (s.thread t').pc (rvAfter (body p t (s.chan p.chan)).deliver t' (s.thread t').rv) p.chan
        (body p t (s.chan p.chan)).ch.recvseq
  have hquiet : (body p t (s.chan p.chan)).out.commits = false →
      sentFrom (body p t (s.chan p.chan)).ch t' = sentVals (s.thread t') p.chan ∧
      handedTo (body p t (s.chan p.chan)).ch t' = okVals (s.thread t') p.chan ++
        inflightOf (s.thread t').pc (rvAfter (body p t (s.chan p.chan)).deliver t' (s.thread t').rv) p.chan
          (body p t (s.chan p.chan)).ch.recvseq := by
    intro hcm
    obtain ⟨a, b, c, d⟩ := body_hist_same p t _ hpl hcm
    rw [sentFrom_same a, handedTo_same b, c, d]
    exact ⟨ihS, ihR⟩
  cases hout : (body p t (s.chan p.chan)).out with
  | wait q => exact hquiet (by rw [hout]; rfl)
  | unlock r => exact hquiet (by rw [hout]; rfl)
  | panic => exact hquiet (by rw [hout]; rfl)
  | notify k =>
    cases k with
    | wait q => exact hquiet (by rw [hout]; rfl)
    | finish bc n =>
      cases n with
      | recv2 b seq => exact hquiet (by rw [hout]; rfl)
      | ret r =>
        cases r with
        | closed => exact hquiet (by rw [hout]; rfl)
        | trySend ok => exact hquiet (by rw [hout]; rfl)
        | tryRecv a b => exact hquiet (by rw [hout]; rfl)
        | prep => exact hquiet (by rw [hout]; rfl)
        | ended => exact hquiet (by rw [hout]; rfl)
        | recv c' ok =>
          obtain ⟨_, _, _, hrb, hd, hsb, hrs, _⟩ := body_hist_pop p t _ bc c' ok hpl hout
          rw [sentFrom_same hsb, handedTo_snoc hrb, hd, hrs]
          simp only [rvAfter, Ne.symm hne, if_false, List.append_nil]
          exact ⟨ihS, ihR⟩
        | sent c' v' =>
          obtain ⟨_, hsb, hcl, hg, _⟩ := body_hist_sentBy p t _ bc c' v' hpl hout
          have hsf : sentFrom (body p t (s.chan p.chan)).ch t' = sentFrom (s.chan p.chan) t' := by
            rw [sentFrom_snoc hsb]; simp [Ne.symm hne]
          rw [hsf]
          refine ⟨ihS, ?_⟩
          by_cases hcap : (s.chan p.chan).cap = 0
          · obtain ⟨u, b, hsl, hat⟩ := ha.armed p.chan hc0 hcap (hg hcap) hcl
            obtain ⟨_, _, _, _, hrb, hd, hbump, _⟩ := body_hist_hand p t _ bc c' v' ⟨u, 0⟩ hpl hcap hsl hout
            rw [handedTo_snoc hrb, hd, hbump hfix]
            by_cases hu : u = t'
            · subst hu
              have hrvl : 0 < (s.thread u).rv.length := by
                rcases hat with e | e <;> exact hi.rvlen u _ e
              rw [inflightOf_armed_before hat, List.append_nil] at ihR
              rw [inflightOf_armed_after hat]
              simp only [rvAfter, if_true]
              rw [getD_set_zero _ _ hrvl, ihR]
            · simp only [rvAfter, hu, if_false, List.append_nil]
              rw [inflightOf_succ_ne]
              · exact ihR
              · intro b' hat'
                have := (ha.arm t' p.chan b' _ hc0 hat').2.2 rfl
                rw [hsl] at this
                have h2 := Option.some.inj this.2
                exact hu (congrArg Target.tid h2)
          · obtain ⟨_, _, hrb, hd, hrs, _⟩ := body_hist_push p t _ bc c' v' hpl hcap hout
            rw [handedTo_same hrb, hd, hrs]
            exact ihR

theorem exec_histInv {s : State} {t : Tid} (hi : HistInv s) (ha : ArmInv s) (hpi : PlainInv s) (hfx : FixInv true s)
    (hr : runnable s t = true) : HistInv (exec s t) := by
  have ht := runnable_lt hr
  rcases plain_pc_cases hpi hr with hpc | ⟨p0, hpc, hpl⟩
  · rw [exec_start s t hpc]
    obtain ⟨h1, h2, _, _, _, h6⟩ := startOps_plain (s.thread t) (s.thread t).ops (hpi.th t).ops
    have hthr : ∀ t', t' ≠ t → (s.setThread t (startOps (s.thread t) (s.thread t).ops)).thread t' = s.thread t' :=
      fun t' hne => thread_setThread_ne _ _ _ _ (Ne.symm hne)
    constructor
    · intro t' p hp
      by_cases htt : t' = t
      · rw [htt, thread_setThread_self _ _ _ ht] at hp ⊢
        rw [h6 p hp]; simp
      · rw [hthr t' htt] at hp ⊢; exact hi.rvlen t' p hp
    · intro t' c hc
      show sentFrom (s.chan c) t' = _
      by_cases htt : t' = t
      · rw [htt, thread_setThread_self _ _ _ ht, sentVals_same h1]; exact hi.sentL t c hc
      · rw [hthr t' htt]; exact hi.sentL t' c hc
    · intro t' c hc
      show handedTo (s.chan c) t' = _ ++ inflightOf _ _ c (s.chan c).recvseq
      by_cases htt : t' = t
      · rw [htt, thread_setThread_self _ _ _ ht, okVals_same h1, inflightOf_entry h2]
        have := hi.recvL t c hc
        rw [hpc] at this
        simpa [inflightOf] using this
      · rw [hthr t' htt]; exact hi.recvL t' c hc
  · have hso : (body p0 t (s.chan p0.chan)).ch.sops = [] := by rw [body_sops p0 t _ hpl]; exact hpi.sops _
    obtain ⟨hoth, hself, _⟩ := plain_exec s t p0 ht hpc (hpi.th t).sel (hpi.th t).ops hso
    obtain ⟨hch, _, _, _⟩ := exec_at_detail s t p0 ht hpc
    have hlen : (exec s t).chans.length = s.chans.length := by rw [hch]; simp
    have hchan : ∀ c, c < s.chans.length →
        (c ≠ p0.chan ∧ (exec s t).chan c = s.chan c) ∨ (c = p0.chan ∧ (exec s t).chan c = (body p0 t (s.chan p0.chan)).ch) := by
      intro c hc
      by_cases hcc : c = p0.chan
      · right
        refine ⟨hcc, ?_⟩
        rw [hcc]; unfold State.chan; rw [hch]; exact getD_set_self _ _ _ _ (hcc ▸ hc)
      · left
        refine ⟨hcc, ?_⟩
        unfold State.chan; rw [hch]; exact getD_set_other _ _ _ _ _ (Ne.symm hcc)
    constructor
    · -- receive variables keep their length
      intro t' p hp
      by_cases htt : t' = t
      · rw [htt] at hp ⊢
        have h0 := hi.rvlen t p0 hpc
        cases hout : (body p0 t (s.chan p0.chan)).out with
        | wait q => rw [hout] at hself; rw [hself.2.2.2.1, rvAfter_length]; exact h0
        | unlock r => rw [hout] at hself; rw [hself.2.2.2.2 p hp]; simp
        | panic => rw [hout] at hself; rw [hself.1] at hp; cases hp
        | notify k =>
          rw [hout] at hself
          cases k with
          | wait q => rw [hself.2.2.2.1, rvAfter_length]; exact h0
          | finish bc n =>
            cases n with
            | ret r => rw [hself.2.2.2.2 p hp]; simp
            | recv2 b seq => rw [hself.2.2.1, rvAfter_length]; exact h0
      · have := hoth t' htt
        rw [this.pc] at hp
        rw [this.rv]
        show 0 < (rvAfter _ t' (s.thread t').rv).length
        rw [rvAfter_length]; exact hi.rvlen t' p hp
    · intro t' c hc
      rw [hlen] at hc
      by_cases htt : t' = t
      · rw [htt]
        rcases hchan c hc with ⟨hcc, e⟩ | ⟨hcc, e⟩
        · rw [e, (self_other_chan hpl c hcc _ _ hself 0).1]; exact hi.sentL t c hc
        · rw [e, hcc]
          exact (self_same_chan hi ha hpl (hcc ▸ hc) (hfx p0.chan (hcc ▸ hc)) hpc _ hself).1
      · rcases hchan c hc with ⟨hcc, e⟩ | ⟨hcc, e⟩
        · rw [e]; exact (others_other_chan hi ha hpl hpc htt _ (hoth t' htt) c hc hcc).1
        · rw [e, hcc]
          exact (others_same_chan hi ha hpl (hcc ▸ hc) (hfx p0.chan (hcc ▸ hc)) hpc htt _ (hoth t' htt)).1
    · intro t' c hc
      rw [hlen] at hc
      by_cases htt : t' = t
      · rw [htt]
        rcases hchan c hc with ⟨hcc, e⟩ | ⟨hcc, e⟩
        · obtain ⟨_, a2, a3⟩ := self_other_chan hpl c hcc _ _ hself (s.chan c).recvseq
          rw [e, a2, a3, List.append_nil]
          have := hi.recvL t c hc
          rw [hpc, inflightOf_other_chan p0 _ c _ (Ne.symm hcc), List.append_nil] at this
          exact this
        · rw [e, hcc]
          exact (self_same_chan hi ha hpl (hcc ▸ hc) (hfx p0.chan (hcc ▸ hc)) hpc _ hself).2
      · rcases hchan c hc with ⟨hcc, e⟩ | ⟨hcc, e⟩
        · rw [e]; exact (others_other_chan hi ha hpl hpc htt _ (hoth t' htt) c hc hcc).2
        · rw [e, hcc]
          exact (others_same_chan hi ha hpl (hcc ▸ hc) (hfx p0.chan (hcc ▸ hc)) hpc htt _ (hoth t' htt)).2

theorem wake_histInv {s : State} (h : HistInv s) (t : Tid) :
    HistInv (s.setThread t { s.thread t with waiting := false }) := by
  have hsb : ∀ t', SameBut ((s.setThread t { s.thread t with waiting := false }).thread t') (s.thread t') := by
    intro t'
    rcases thread_setThread_cases s t t' { s.thread t with waiting := false } with e | e
    · by_cases htt : t = t'
      · rw [e, ← htt]; exact ⟨rfl, rfl, rfl, rfl, rfl⟩
      · rw [thread_setThread_ne _ _ _ _ htt]; exact SameBut.refl _
    · rw [e]; exact SameBut.refl _
  constructor
  · intro t' p hp
    rw [(hsb t').pc] at hp; rw [(hsb t').rv]; exact h.rvlen t' p hp
  · intro t' c hc
    show sentFrom (s.chan c) t' = _
    rw [sentVals_same (hsb t').res]; exact h.sentL t' c hc
  · intro t' c hc
    show handedTo (s.chan c) t' = _ ++ inflightOf _ _ c (s.chan c).recvseq
    rw [okVals_same (hsb t').res, (hsb t').pc, (hsb t').rv]; exact h.recvL t' c hc

theorem init_histInv (cfg : Cfg) (caps : List Nat) (progs : List (List Op)) : HistInv (init cfg caps progs) := by
  have hth : ∀ t, ((init cfg caps progs).thread t).res = [] ∧
      (((init cfg caps progs).thread t).pc = .start ∨ ((init cfg caps progs).thread t).pc = .done) := by
    intro t
    simp only [State.thread, init, List.getD, List.getElem?_map]
    cases progs[t]? <;> simp [dfltThread]
  have hch : ∀ c, ((init cfg caps progs).chan c).sentBy = [] ∧ ((init cfg caps progs).chan c).recvBy = [] := by
    intro c
    simp only [State.chan, init, List.getD, List.getElem?_map]
    cases caps[c]? <;> simp [newChan, dfltChan]
  constructor
  · intro t p hp
    rcases (hth t).2 with e | e <;> (rw [e] at hp; cases hp)
  · intro t c _
    simp [sentFrom, sentVals, (hch c).1, (hth t).1]
  · intro t c _
    have : inflightOf ((init cfg caps progs).thread t).pc ((init cfg caps progs).thread t).rv c
        ((init cfg caps progs).chan c).recvseq = [] := by
      rcases (hth t).2 with e | e <;> (rw [e]; rfl)
    simp [handedTo, okVals, (hch c).2, (hth t).1, this]

/-- all invariants of the select-free fixed world, for every reachable state -/
theorem reachable_plain_fixed {caps : List Nat} {progs : List (List Op)} {s : State} (hns : noSelect progs = true)
    (h : Reachable (init .fixed caps progs) s) : PlainInv s ∧ ArmInv s ∧ HistInv s ∧ SleepU s := by
  have hfix : ∀ s', Reachable (init .fixed caps progs) s' → FixInv true s' := fun s' h' => reachable_fixInv h'
  induction h with
  | init => exact ⟨init_plainInv _ _ _ hns, init_armInv _ _ _, init_histInv _ _ _, init_sleepU _ _ _⟩
  | next ch hprev hs ih =>
    obtain ⟨i1, i2, i3, i4⟩ := ih
    have hfx := hfix _ hprev
    cases ch with
    | step t =>
      simp only [apply, step] at hs
      split at hs
      · rename_i hr; cases hs
        exact ⟨exec_plainInv i1 hr, exec_armInv i2 i1 hfx hr, exec_histInv i3 i2 i1 hfx hr, exec_sleepU i4 i1 hr⟩
      · cases hs
    | wake t =>
      simp only [apply, wake] at hs
      split at hs
      · cases hs
        exact ⟨wake_plainInv i1 t, wake_armInv i2 t, wake_histInv i3 t, wake_sleepU i4 t⟩
      · cases hs

/-! ### order per (sender, receiver) pair on an unbuffered channel -/

theorem zip_vals_eq {α β γ : Type} (f : α → γ) (g : β → γ) :
    ∀ (a : List α) (b : List β), a.map f = b.map g → ∀ x ∈ a.zip b, f x.1 = g x.2 := by
  intro a
  induction a with
  | nil => intro b _ x hx; simp at hx
  | cons a0 a ih =>
    intro b hm x hx
    cases b with
    | nil => simp at hx
    | cons b0 b =>
      simp only [List.map_cons, List.cons.injEq] at hm
      simp only [List.zip_cons_cons, List.mem_cons] at hx
      rcases hx with e | hx
      · rw [e]; exact hm.1
      · exact ih b hm.2 x hx

/-- the values that went from sender `S` to receiver `R` on this channel, in hand-off order (the k-th hand-off pairs
    `sentBy[k]` with `recvBy[k]`) -/
def pairVals (ch : Chan) (S R : Tid) : List Val :=
  ((ch.sentBy.zip ch.recvBy).filter fun x => x.1.1 == S && x.2.1 == R).map (·.1.2)

theorem pairVals_sublist (ch : Chan) (S R : Tid) (hv : ch.sentBy.map (·.2) = ch.recvBy.map (·.2)) :
    (pairVals ch S R).Sublist (sentFrom ch S) ∧ (pairVals ch S R).Sublist (handedTo ch R) := by
  have hl : ch.sentBy.length = ch.recvBy.length := by simpa using congrArg List.length hv
  have e1 : ch.sentBy = (ch.sentBy.zip ch.recvBy).map Prod.fst := (List.map_fst_zip (by omega)).symm
  have e2 : ch.recvBy = (ch.sentBy.zip ch.recvBy).map Prod.snd := (List.map_snd_zip (by omega)).symm
  constructor
  · unfold pairVals sentFrom
    conv => rhs; rw [e1]
    rw [List.filter_map, List.map_map]
    apply List.Sublist.map
    have : (fun x : (Tid × Val) × (Tid × Val) => x.1.1 == S && x.2.1 == R) =
        (fun x => (fun y : (Tid × Val) × (Tid × Val) => y.2.1 == R) x && ((fun y : Tid × Val => y.1 == S) ∘ Prod.fst) x) := by
      funext x; simp [Bool.and_comm]
    rw [this, ← List.filter_filter]
    exact List.filter_sublist
  · unfold pairVals handedTo
    conv => rhs; rw [e2]
    rw [List.filter_map, List.map_map]
    have hmap : ((ch.sentBy.zip ch.recvBy).filter fun x => x.1.1 == S && x.2.1 == R).map (·.1.2) =
        ((ch.sentBy.zip ch.recvBy).filter fun x => x.1.1 == S && x.2.1 == R).map ((fun y : Tid × Val => y.2) ∘ Prod.snd) := by
      apply List.map_congr_left
      intro x hx
      have hx' := (List.mem_filter.mp hx).1
      exact zip_vals_eq (·.2) (·.2) _ _ hv x hx'
    rw [hmap]
    apply List.Sublist.map
    have : (fun x : (Tid × Val) × (Tid × Val) => x.1.1 == S && x.2.1 == R) =
        (fun x => (fun y : (Tid × Val) × (Tid × Val) => y.1.1 == S) x && ((fun y : Tid × Val => y.1 == R) ∘ Prod.snd) x) := by
      funext x; simp
    rw [this, ← List.filter_filter]
    exact List.filter_sublist

end LlgoVerif.Chan
