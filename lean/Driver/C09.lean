/-! placeholder driver (property C09 not built yet) -/
def main : IO Unit := IO.println "bad-op"
