/-! placeholder driver (property C03 not built yet) -/
def main : IO Unit := IO.println "bad-op"
