// Package clite is the /verif stand-in for github.com/goplus/llgo/runtime/internal/clite when llgo's
// runtime sources are compiled natively with the ordinary Go toolchain (DESIGN.md §2.2 B-N).
package clite

import (
	"reflect"
	"unsafe"
)

type (
	Char    = int8
	Int     = int32
	Uint    = uint32
	Long    = int64
	Ulong   = uint64
	Pointer = unsafe.Pointer
)

// MemcpyOverlaps counts Memcpy calls whose ranges overlap (undefined behaviour in C).
var MemcpyOverlaps int

type integer interface {
	~int | ~int8 | ~int16 | ~int32 | ~int64 | ~uint | ~uint8 | ~uint16 | ~uint32 | ~uint64 | ~uintptr
}

// Advance mirrors llgo.advance: byte steps for unsafe.Pointer, element steps for *T.
func Advance[PtrT any, I integer](ptr PtrT, offset I) PtrT {
	if v, ok := any(ptr).(unsafe.Pointer); ok {
		return any(unsafe.Pointer(uintptr(v) + uintptr(offset))).(PtrT)
	}
	rv := reflect.ValueOf(ptr)
	et := rv.Type().Elem()
	np := unsafe.Pointer(rv.Pointer() + uintptr(offset)*et.Size())
	return reflect.NewAt(et, np).Interface().(PtrT)
}

func bytesOf(p unsafe.Pointer, n uintptr) []byte {
	if n == 0 || p == nil {
		return nil
	}
	return unsafe.Slice((*byte)(p), n)
}

func Memmove(dst, src unsafe.Pointer, n uintptr) unsafe.Pointer {
	copy(bytesOf(dst, n), bytesOf(src, n))
	return dst
}

// Memcpy copies like memmove (what glibc happens to do) but records overlapping calls.
func Memcpy(dst, src unsafe.Pointer, n uintptr) unsafe.Pointer {
	if n > 0 && dst != src {
		d, s := uintptr(dst), uintptr(src)
		if (d < s && d+n > s) || (s < d && s+n > d) {
			MemcpyOverlaps++
		}
	}
	copy(bytesOf(dst, n), bytesOf(src, n))
	return dst
}

func Memset(p unsafe.Pointer, c Int, n uintptr) unsafe.Pointer {
	b := bytesOf(p, n)
	for i := range b {
		b[i] = byte(c)
	}
	return p
}

func Strlen(s *Char) uintptr {
	n := uintptr(0)
	for *(*byte)(unsafe.Pointer(uintptr(unsafe.Pointer(s)) + n)) != 0 {
		n++
	}
	return n
}

var keep [][]byte

func Malloc(n uintptr) unsafe.Pointer {
	b := make([]byte, n+1)
	keep = append(keep, b)
	return unsafe.Pointer(&b[0])
}

func Free(unsafe.Pointer) {}

// AllocaNew: heap stand-in for the stack allocation intrinsic.
func AllocaNew[T any](n Int) *T {
	s := make([]T, n)
	return &s[0]
}

// ---- <string.h> comparison / search functions with libc semantics: bytes compare as unsigned char; the str*
// functions stop at the first NUL byte (so they are NOT a substitute for comparing Go strings, which may contain NUL).

func byteAt(p unsafe.Pointer, i uintptr) byte { return *(*byte)(unsafe.Pointer(uintptr(p) + i)) }

func Memcmp(s1, s2 unsafe.Pointer, n uintptr) Int {
	for i := uintptr(0); i < n; i++ {
		a, b := byteAt(s1, i), byteAt(s2, i)
		if a != b {
			return Int(a) - Int(b)
		}
	}
	return 0
}

func Memchr(s unsafe.Pointer, c Int, n uintptr) unsafe.Pointer {
	for i := uintptr(0); i < n; i++ {
		if byteAt(s, i) == byte(c) {
			return unsafe.Pointer(uintptr(s) + i)
		}
	}
	return nil
}

func Strcmp(s1, s2 *Char) Int {
	p, q := unsafe.Pointer(s1), unsafe.Pointer(s2)
	for i := uintptr(0); ; i++ {
		a, b := byteAt(p, i), byteAt(q, i)
		if a != b {
			return Int(a) - Int(b)
		}
		if a == 0 {
			return 0
		}
	}
}

func Strncmp(s1, s2 *Char, n uintptr) Int {
	p, q := unsafe.Pointer(s1), unsafe.Pointer(s2)
	for i := uintptr(0); i < n; i++ {
		a, b := byteAt(p, i), byteAt(q, i)
		if a != b {
			return Int(a) - Int(b)
		}
		if a == 0 {
			return 0
		}
	}
	return 0
}

func Strchr(s *Char, c Int) *Char {
	p := unsafe.Pointer(s)
	for i := uintptr(0); ; i++ {
		b := byteAt(p, i)
		if b == byte(c) {
			return (*Char)(unsafe.Pointer(uintptr(p) + i))
		}
		if b == 0 {
			return nil
		}
	}
}

func Strrchr(s *Char, c Int) *Char {
	p := unsafe.Pointer(s)
	var found *Char
	for i := uintptr(0); ; i++ {
		b := byteAt(p, i)
		if b == byte(c) {
			found = (*Char)(unsafe.Pointer(uintptr(p) + i))
		}
		if b == 0 {
			return found
		}
	}
}

func Strstr(s1, s2 *Char) *Char {
	n, m := Strlen(s1), Strlen(s2)
	if m == 0 {
		return s1
	}
	p, q := unsafe.Pointer(s1), unsafe.Pointer(s2)
	for i := uintptr(0); i+m <= n; i++ {
		if Memcmp(unsafe.Pointer(uintptr(p)+i), q, m) == 0 {
			return (*Char)(unsafe.Pointer(uintptr(p) + i))
		}
	}
	return nil
}

func Strcpy(dst, src *Char) *Char {
	Memmove(unsafe.Pointer(dst), unsafe.Pointer(src), Strlen(src)+1)
	return dst
}

func Strncpy(dst, src *Char, n uintptr) *Char {
	l := Strlen(src)
	if l >= n {
		Memmove(unsafe.Pointer(dst), unsafe.Pointer(src), n)
	} else {
		Memmove(unsafe.Pointer(dst), unsafe.Pointer(src), l)
		Memset(unsafe.Pointer(uintptr(unsafe.Pointer(dst))+l), 0, n-l)
	}
	return dst
}

func Strcat(dst, src *Char) *Char {
	Strcpy((*Char)(unsafe.Pointer(uintptr(unsafe.Pointer(dst))+Strlen(dst))), src)
	return dst
}

func Strncat(dst, src *Char, n uintptr) *Char {
	l := Strlen(src)
	if l > n {
		l = n
	}
	d := uintptr(unsafe.Pointer(dst)) + Strlen(dst)
	Memmove(unsafe.Pointer(d), unsafe.Pointer(src), l)
	*(*byte)(unsafe.Pointer(d + l)) = 0
	return dst
}

func Strndup(s *Char, n uintptr) *Char {
	l := Strlen(s)
	if l > n {
		l = n
	}
	p := Malloc(l + 1)
	Memmove(p, unsafe.Pointer(s), l)
	*(*byte)(unsafe.Pointer(uintptr(p) + l)) = 0
	return (*Char)(p)
}

func Strdup(s *Char) *Char { return Strndup(s, Strlen(s)) }
