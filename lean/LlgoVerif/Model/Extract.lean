import LlgoVerif.Model.Path
/-!
# Archive extraction of `internal/crosscompile/fetch.go` over a lexical file system

* file system = finite map from absolute, cleaned paths (as component lists) to `dir | file bytes`
  (the extractors never create symbolic links: `extractTarGz` skips every entry that is not a directory or a
  regular file, `extractZip` writes a symlink entry as a regular file holding the link text — so paths
  below a link-free destination resolve lexically);
* `mkdirAll` = `os.MkdirAll`, `openWrite` = `os.OpenFile(O_CREATE|O_RDWR)` / `os.Create` followed by `io.Copy`;
* `tarStep` / `zipStep` = the loop bodies of `extractTarGz` / `extractZip`, branch by branch;
* `extract` = the loops (first error aborts; what was written before stays);
* `libResult` = `checkDownloadAndExtractLib` → `downloadAndExtractArchive` for one caller (temp dir that also
  holds the downloaded archive file, dispatch on the file-name suffix, two renames, sub-directory selection).

`Cfg` selects between the code as it is (`Cfg.current`) and the repaired variants proposed in
`/verif/fixes/C20-*.diff`; the check determines which variant the working tree implements by replaying the
counterexample witnesses, then compares the generated stream against that variant.
-/
namespace LlgoVerif.Extract
open LlgoVerif.Path

abbrev Bytes := List UInt8
abbrev Key := List Comp

inductive Node where
  | dir
  | file (data : Bytes)
  deriving DecidableEq, Repr

inductive Err where
  | illegalPath      -- the extractor's own "illegal file path"
  | notDir           -- ENOTDIR
  | isDir            -- EISDIR
  | noEnt            -- ENOENT
  | unsupported      -- "unsupported archive format"
  | rename           -- a rename failed
  | read             -- the archive reader (gzip / tar / zip layer) reported an error
  deriving DecidableEq, Repr

/-- association list, first binding wins; the root `[]` is a directory and is never stored -/
abbrev FS := List (Key × Node)

def lookup : FS → Key → Option Node
  | [], _ => none
  | (k, n) :: fs, q => if q = k then some n else lookup fs q

def isDir (fs : FS) (k : Key) : Bool := k = [] || lookup fs k = some .dir

/-- `os.MkdirAll(pre ++ cs)` given that `pre` is a directory: walk down, create what is missing -/
def mkdirFrom (fs : FS) (pre : Key) : List Comp → Except Err FS
  | [] => .ok fs
  | c :: rest =>
    match lookup fs (pre ++ [c]) with
    | some .dir => mkdirFrom fs (pre ++ [c]) rest
    | some (.file _) => .error .notDir
    | none => mkdirFrom ((pre ++ [c], .dir) :: fs) (pre ++ [c]) rest

def mkdirAll (fs : FS) (k : Key) : Except Err FS := mkdirFrom fs [] k

/-- open for writing (creating if absent) and copy `data` to offset 0; `trunc` = `O_TRUNC` -/
def openWrite (trunc : Bool) (fs : FS) (k : Key) (data : Bytes) : Except Err FS :=
  if k = [] then .error .isDir
  else if !isDir fs k.dropLast then
    (match lookup fs k.dropLast with
     | some (.file _) => .error .notDir
     | _ => .error .noEnt)
  else match lookup fs k with
    | some .dir => .error .isDir
    | some (.file old) => .ok ((k, .file (if trunc then data else data ++ old.drop data.length)) :: fs)
    | none => .ok ((k, .file data) :: fs)

/-- what an archive entry is, as far as the extractors look: tar type flag `5` / `0` / `2` / anything else;
    zip: directory bit of the mode / regular / symlink bit -/
inductive Kind where
  | dir | reg | sym | other
  deriving DecidableEq, Repr

structure Entry where
  kind : Kind
  name : Str
  data : Bytes
  link : Bytes
  deriving DecidableEq, Repr

structure Cfg where
  /-- tar guard accepts `target == Clean(dest)` (archives written by `tar -C dir .` start with `./`) -/
  tarAcceptRoot : Bool
  /-- regular files are opened with `O_TRUNC` -/
  tarTrunc : Bool
  /-- `extractZip` applies the destination-prefix guard -/
  zipGuard : Bool
  /-- that guard accepts `path == Clean(dest)` -/
  zipAcceptRoot : Bool
  /-- `extractZip` creates the parent directories of a file entry -/
  zipMkParents : Bool
  deriving DecidableEq, Repr

/-- the code of the pinned tree -/
def Cfg.current : Cfg := ⟨false, false, false, false, false⟩
/-- after `/verif/fixes/C20-1.diff` (guards, parents) and `C20-2.diff` (truncate) -/
def Cfg.fixed : Cfg := ⟨true, true, true, true, true⟩

/-- loop body of `extractTarGz` -/
def tarStep (cfg : Cfg) (dest : Str) (fs : FS) (e : Entry) : Except Err FS :=
  let target := join dest e.name
  if !guardOK cfg.tarAcceptRoot dest target then .error .illegalPath
  else match e.kind with
    | .dir => mkdirAll fs (comps target)
    | .reg =>
      match mkdirAll fs (comps (dirOf target)) with
      | .error err => .error err
      | .ok fs1 => openWrite cfg.tarTrunc fs1 (comps target) e.data
    | _ => .ok fs

/-- `file.FileInfo().IsDir()`: directory bit of the recorded mode, or a name ending in `/` -/
def zipIsDir (e : Entry) : Bool := e.kind == .dir || e.name.getLast? == some '/'

/-- the bytes `file.Open()` delivers: a symlink entry stores its target as content -/
def zipData (e : Entry) : Bytes := if e.kind = .sym then e.link else e.data

/-- the closure `decompress` of `extractZip` -/
def zipStep (cfg : Cfg) (dest : Str) (fs : FS) (e : Entry) : Except Err FS :=
  let path := join dest e.name
  if cfg.zipGuard && !guardOK cfg.zipAcceptRoot dest path then .error .illegalPath
  else if zipIsDir e then mkdirAll fs (comps path)
  else
    match (if cfg.zipMkParents then mkdirAll fs (comps (dirOf path)) else .ok fs) with
    | .error err => .error err
    | .ok fs1 => openWrite true fs1 (comps path) (zipData e)

/-- the extraction loops: stop at the first error, keep what was written -/
def runSteps (step : FS → Entry → Except Err FS) : FS → List Entry → FS × Option Err
  | fs, [] => (fs, none)
  | fs, e :: es =>
    match step fs e with
    | .ok fs' => runSteps step fs' es
    | .error err => (fs, some err)

inductive Format where
  | tgz | zip
  deriving DecidableEq, Repr

def step (cfg : Cfg) (fmt : Format) (dest : Str) : FS → Entry → Except Err FS :=
  match fmt with
  | .tgz => tarStep cfg dest
  | .zip => zipStep cfg dest

def extract (cfg : Cfg) (fmt : Format) (dest : Str) (fs : FS) (ar : List Entry) : FS × Option Err :=
  runSteps (step cfg fmt dest) fs ar

/-! ## Whole-call model for one caller: `checkDownloadAndExtractLib(url, dst, sub)` -/

/-- the entries below `k`, re-rooted at `k'` (what `os.Rename(k, k')` moves) -/
def moveTree (fs : FS) (k k' : Key) : FS :=
  fs.filterMap fun (q, n) => if k.isPrefixOf q then some (k' ++ q.drop k.length, n) else none

/-- keep the first binding of every key, drop everything else (`os.RemoveAll` of the rest is implicit) -/
def dedup : FS → List Key → FS
  | [], _ => []
  | (k, n) :: fs, seen => if k ∈ seen then dedup fs seen else (k, n) :: dedup fs (k :: seen)

/-- `strings.HasSuffix` -/
def hasSuffix (s suf : Str) : Bool := suf.reverse.isPrefixOf s.reverse

/-- the dispatch of `downloadAndExtractArchive` on the last `/`-element of the URL -/
inductive Dispatch where
  | tgz | txz | zip | unsupported
  deriving DecidableEq, Repr

def dispatch (filename : Str) : Dispatch :=
  if hasSuffix filename ".tar.gz".toList || hasSuffix filename ".tgz".toList then .tgz
  else if hasSuffix filename ".tar.xz".toList then .txz
  else if hasSuffix filename ".zip".toList then .zip
  else .unsupported

/-- the non-empty proper prefixes of a key together with the key itself -/
def withAncestors : Key → List Key
  | [] => []
  | c :: cs => [c] :: (withAncestors cs).map (c :: ·)

/-- what is not at or below `k` -/
def outsideOf (fs : FS) (k : Key) : FS := fs.filter fun (q, _) => !k.isPrefixOf q

/-- `checkDownloadAndExtractLib` for a single caller that finds `dst` absent.
    `arFile` is the downloaded archive (file name, bytes), which `downloadAndExtractArchive` stores *inside*
    the directory it extracts into.  Result: did the call succeed, and everything that exists afterwards
    (the tree at `dst` on success; whatever an unconfined entry created outside the temporary directory in
    either case — the deferred `os.RemoveAll`s only remove the temporary directories).  `none` for `.tar.xz`,
    which is handed to the external `tar` program (a parameter of the model, not modelled). -/
def libResult (cfg : Cfg) (dst : Str) (sub : Str) (arFile : Comp × Bytes)
    (ar : List Entry) : Option (Bool × FS) :=
  let tmp := dst ++ ".extract.temp".toList
  let ext := dst ++ ".extract".toList
  -- acquireLock: os.MkdirAll(parent); os.RemoveAll(tempDir); os.MkdirAll(tempDir); downloadFile(url, tempDir/filename)
  let base : FS := (withAncestors (comps tmp)).map fun k => (k, Node.dir)
  let fs0 : FS := (comps tmp ++ [arFile.1], .file arFile.2) :: base
  let parents : FS := outsideOf base (comps tmp)
  let go (f : Format) : Bool × FS :=
    match extract cfg f tmp fs0 ar with
    | (fs1, some _) => (false, outsideOf (dedup fs1 []) (comps tmp))
    | (fs1, none) =>
      -- os.Rename(tempDir, destDir); srcDir = filepath.Join(tempExtractDir, sub); os.Rename(srcDir, dstDir)
      let all := dedup fs1 []
      let fs2 := moveTree all (comps tmp) (comps ext)
      let src := if sub = [] then ext else join ext sub
      match lookup fs2 (comps src) with
      | none => (false, outsideOf all (comps tmp))
      | some _ => (true, moveTree fs2 (comps src) (comps dst) ++ outsideOf all (comps tmp))
  match dispatch arFile.1 with
  | .unsupported => some (false, parents)
  | .txz => none
  | .tgz => some (go .tgz)
  | .zip => some (go .zip)

end LlgoVerif.Extract
