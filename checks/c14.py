"""C14 — link names are unique per entity and consistent across packages.

Lean: LlgoVerif/Model/LinkName.lean (model of PathOf/FullName/FuncName/TypeArgs/typeArgString/scopeIndices, cl.funcName,
(*context).funcName, varName, stub / routine names), Lemmas/LinkName.lean, Props/C14.lean.

Tie (hand-written model + correspondence, both built from /repo's working tree):
  I  in-process (harness/c14, -tags llvm14,verif + overlay accessors): (1) go/types objects CONSTRUCTED from random
     terms -> abi.TypeArgs / ssa.FuncName / ssa.FullName / cl.typesFuncName; (2) generated multi-package source trees,
     type-checked and built with go/ssa -> (*context).funcName / varName for every function, literal, instance,
     wrapper and global, as seen from every package of the tree; both compared with modeld_c14.
  E  end to end: the same trees compiled with `llgo build -O0 -gen-llfiles`; the symbol tables of all per-package IR
     modules are judged against the PROPERTY (independently of the model): (a) one name never covers two source
     entities, every entity has its name, (b) a name defined in several modules is mergeable everywhere and the
     bodies agree, (c) every referenced symbol of a generated package is defined by the package owning the entity;
     program output == reference toolchain output; linkname/export bind the declared C symbol.
"""
import glob
import os
import re
import sys
import threading

from vlib.common import *
from vlib.common import run as sh
from vlib.e2e import *

sys.path.insert(0, os.path.join(VERIF, "harness", "c14"))
import progs  # noqa: E402

K_DOT = "linkname:dot-in-last-path-element"
K_WRAP = "linkname:bound-thunk-receiver-package-dropped"
K_ROUTINE = "linkname:routine-name-vs-user-closure"
K_STUB = "linkname:stub-prefix-vs-package-path"
K_LOCAL = "linkname:local-type-wrapper-scope-dropped"
K_IFACEPKG = "descriptor:iface-pkgpath-of-compiling-package"
K_SF1 = "descriptor:local-type-of-generic-used-in-closure"
K_SF2 = "wrapper:unnamed-struct-embedding-generic-instance-panics"
K_SF3 = "linkage:promoted-wrapper-discardable-but-referenced-elsewhere"
K_SF4 = "linkname:unexported-promoted-method-vs-own-method"
K_SF5 = "descriptor:local-type-argument-scope-lost"
PATCH = "github.com/goplus/llgo/runtime/internal/lib/"
SYNTH = ("bound", "thunk", "wrapper", "local-bound", "local-thunk", "local-wrapper")
MERGEABLE = {"linkonce", "linkonce_odr", "weak", "weak_odr", "common"}


def hx(s):
    return s.encode().hex() if s else "-"


def uh(h):
    return "" if h == "-" else bytes.fromhex(h).decode("utf-8", "replace")


# ------------------------------------------------------------------------------------------- random terms
ARITY = {"T": 0, "L": 0, "U": 0, "Box": 1, "Pair": 2, "X1": 0, "类型": 0, "_p": 0, "B": 0, "G3": 3}
PKGS = ["m/a", "m/b", "m/a.B", "github.com/x/y", PATCH + "os", "os", "main", "m/v1.2/c", "a-b/c_d", "ünï/cödé", "m/x/a",
        "m.n/o.p", "__llgo_stub", "m/a/b"]
BASICS = ["int", "string", "bool", "uint8", "float64", "byte", "rune", "error", "any", "unsafe.Pointer", "uintptr", "complex128", "comparable"]
OTHERS = ["func()", "struct{}", "func(int) string", "struct{X int}", "interface{M()}", "func(...int)", "struct{A int; B string}"]
IDENTS = ["M", "P", "C", "Get", "init", "main", "Val", "f", "_", "X_1", "方法", "String"]


# terms are trees: ("B", name) ("N", pkg, name, [targs], [scope]) ("P", t) ("S", t) ("A", n, t) ("M", k, v) ("C", dir, t) ("O", text)
def gen_ty_tree(rng, depth=0):
    r = rng.random()
    if depth >= 4 or r < 0.25:
        return ("B", rng.choice(BASICS))
    if r < 0.55:
        name = rng.choice(list(ARITY))
        sc = [] if rng.random() < 0.6 else [rng.randint(0, 3) for _ in range(rng.randint(1, 3))]
        return ("N", rng.choice(PKGS), name, [gen_ty_tree(rng, depth + 1) for _ in range(ARITY[name])], sc)
    if r < 0.65:
        return ("P", gen_ty_tree(rng, depth + 1))
    if r < 0.73:
        return ("S", gen_ty_tree(rng, depth + 1))
    if r < 0.80:
        return ("A", rng.choice([0, 1, 3, 10, 255, 1024]), gen_ty_tree(rng, depth + 1))
    if r < 0.88:
        return ("M", gen_ty_tree(rng, depth + 1), gen_ty_tree(rng, depth + 1))
    if r < 0.94:
        return ("C", rng.randint(0, 2), gen_ty_tree(rng, depth + 1))
    return ("O", rng.choice(OTHERS))


def ty_str(t):
    k = t[0]
    if k == "B":
        return "B " + hx(t[1])
    if k == "N":
        return "N %s %s %d%s %d%s" % (hx(t[1]), hx(t[2]), len(t[3]), "".join(" " + ty_str(x) for x in t[3]), len(t[4]), "".join(" %d" % i for i in t[4]))
    if k in ("P", "S"):
        return k + " " + ty_str(t[1])
    if k == "A":
        return "A %d %s" % (t[1], ty_str(t[2]))
    if k == "M":
        return "M %s %s" % (ty_str(t[1]), ty_str(t[2]))
    if k == "C":
        return "C %d %s" % (t[1], ty_str(t[2]))
    return "O " + hx(t[1])


def other_of(rng, pool, x):
    return rng.choice([y for y in pool if y != x])


def scope_sibling(rng, sc):
    sc = list(sc)
    r = rng.random()
    if not sc or r < 0.3:
        return sc + [rng.randint(0, 3)]
    if r < 0.5:
        return sc[:-1]
    i = rng.randrange(len(sc))
    sc[i] = sc[i] + 1 + rng.randint(0, 2)
    return sc


def ty_sibling(rng, t):
    """a DIFFERENT type term that differs from t in one place (possibly deep inside)"""
    k = t[0]
    if k == "B":
        return ("B", other_of(rng, BASICS, t[1]))
    if k == "N":
        r = rng.random()
        if t[3] and r < 0.5:
            i = rng.randrange(len(t[3]))
            return ("N", t[1], t[2], t[3][:i] + [ty_sibling(rng, t[3][i])] + t[3][i + 1:], t[4])
        if r < 0.7:
            return ("N", t[1], t[2], t[3], scope_sibling(rng, t[4]))
        if r < 0.85:
            return ("N", other_of(rng, PKGS, t[1]), t[2], t[3], t[4])
        return ("N", t[1], other_of(rng, [n for n in ARITY if ARITY[n] == len(t[3])] + [t[2] + "x"], t[2]), t[3], t[4])
    if k in ("P", "S"):
        return (k, ty_sibling(rng, t[1])) if rng.random() < 0.7 else ("S" if k == "P" else "P", t[1])
    if k == "A":
        return ("A", t[1], ty_sibling(rng, t[2])) if rng.random() < 0.5 else ("A", t[1] + 1, t[2])
    if k == "M":
        return ("M", ty_sibling(rng, t[1]), t[2]) if rng.random() < 0.5 else ("M", t[1], ty_sibling(rng, t[2]))
    if k == "C":
        return ("C", t[1], ty_sibling(rng, t[2])) if rng.random() < 0.5 else ("C", (t[1] + 1) % 3, t[2])
    return ("O", other_of(rng, OTHERS, t[1]))


# fn: ("F", pkg, name) | ("M", pkg, recv, [targs], ptr, name)
def gen_fn_tree(rng):
    pkg = rng.choice(PKGS)
    if rng.random() < 0.35:
        return ("F", pkg, rng.choice(IDENTS + list(ARITY)))
    recv = rng.choice(list(ARITY))
    return ("M", pkg, recv, [gen_ty_tree(rng, 2) for _ in range(ARITY[recv])], rng.randint(0, 1), rng.choice(IDENTS))


def fn_str(f):
    if f[0] == "F":
        return "F %s %s" % (hx(f[1]), hx(f[2]))
    return "M %s %s %d%s %d %s" % (hx(f[1]), hx(f[2]), len(f[3]), "".join(" " + ty_str(x) for x in f[3]), f[4], hx(f[5]))


def fn_sibling(rng, f):
    if f[0] == "F":
        return ("F", other_of(rng, PKGS, f[1]), f[2]) if rng.random() < 0.5 else ("F", f[1], other_of(rng, IDENTS, f[2]))
    r = rng.random()
    if f[3] and r < 0.4:
        i = rng.randrange(len(f[3]))
        return ("M", f[1], f[2], f[3][:i] + [ty_sibling(rng, f[3][i])] + f[3][i + 1:], f[4], f[5])
    if r < 0.55:
        return ("M", other_of(rng, PKGS, f[1]), f[2], f[3], f[4], f[5])
    if r < 0.7:
        return ("M", f[1], f[2], f[3], 1 - f[4], f[5])
    if r < 0.85:
        return ("M", f[1], f[2], f[3], f[4], other_of(rng, IDENTS, f[5]))
    return ("M", f[1], other_of(rng, [n for n in ARITY if ARITY[n] == len(f[3])] + [f[2] + "x"], f[2]), f[3], f[4], f[5])


# wn: (cur, name, pkg, recv, [targs], [scope], ptr): receiver of a synthetic function - any package (also another one
# than the compiled package), maybe function-local
def gen_wn_tree(rng):
    recv = rng.choice(list(ARITY))
    pkg = rng.choice(PKGS)
    cur = pkg if rng.random() < 0.4 else rng.choice(PKGS)
    sc = [] if rng.random() < 0.6 else [rng.randint(0, 3) for _ in range(rng.randint(1, 3))]
    return (cur, rng.choice(IDENTS) + rng.choice(["", "$bound", "$thunk"]), pkg, recv, [gen_ty_tree(rng, 2) for _ in range(ARITY[recv])], sc, rng.randint(0, 1))


def wn_str(w):
    return "%s %s %s %s %d%s %d%s %d" % (hx(w[0]), hx(w[1]), hx(w[2]), hx(w[3]), len(w[4]), "".join(" " + ty_str(x) for x in w[4]), len(w[5]), "".join(" %d" % i for i in w[5]), w[6])


def wn_sibling(rng, w):
    """same compiled package, a different (receiver type, method)"""
    r = rng.random()
    if r < 0.3:
        return (w[0], w[1], other_of(rng, PKGS, w[2]), w[3], w[4], w[5], w[6])
    if r < 0.55:
        return (w[0], w[1], w[2], w[3], w[4], scope_sibling(rng, w[5]), w[6])
    if r < 0.7:
        return (w[0], w[1], w[2], w[3], w[4], w[5], 1 - w[6])
    if w[4] and r < 0.9:
        i = rng.randrange(len(w[4]))
        return (w[0], w[1], w[2], w[3], w[4][:i] + [ty_sibling(rng, w[4][i])] + w[4][i + 1:], w[5], w[6])
    return (w[0], other_of(rng, IDENTS, w[1].split("$")[0]) + ("$" + w[1].split("$")[1] if "$" in w[1] else ""), w[2], w[3], w[4], w[5], w[6])


CANON = [(hx("byte"), hx("uint8")), (hx("rune"), hx("int32")), (PATCH.encode().hex(), "")]


def canon(term):
    """identify what Go / llgo identify on purpose: byte = uint8, rune = int32, a patched package IS the package it patches"""
    for a, b in CANON:
        term = re.sub(r"(?<![0-9a-f])" + a + r"(?![0-9a-f])", b, term) if b else term.replace(a, b)
    return term


WITNESS_WN = "%s %s %s %s 0 0 0" % ("m".encode().hex(), "M$bound".encode().hex(), "m/a".encode().hex(), "T".encode().hex())


def dec(term):
    """readable form of a term (hex fields decoded); scope paths of local types are the numbers after the type arguments"""
    return " ".join(uh(x) if re.fullmatch(r"([0-9a-f]{2}){2,}", x) else x for x in term.split(" "))


def term_paths(term):
    """package paths mentioned in a term (hex fields following F/M/G/N tags)"""
    t = term.split(" ")
    out = [uh(t[i + 1]) for i, x in enumerate(t[:-1]) if x in ("F", "M", "G", "N") and re.fullmatch(r"-|([0-9a-f]{2})+", t[i + 1])]
    if t[0] == "L":
        out.insert(0, uh(t[2]))
    return out


def dotted_last(p):
    return "." in p.split("/")[-1]


# ------------------------------------------------------------------------------------------- IR symbol tables
NAME_RE = r'@("(?:[^"\\]|\\.)*"|[-a-zA-Z$._0-9]+)'
LINKAGES = ["private", "internal", "available_externally", "linkonce_odr", "linkonce", "weak_odr", "weak", "common", "appending", "extern_weak", "external"]


def unq(n):
    if n.startswith('"'):
        n = n[1:-1]
        n = re.sub(r"\\([0-9a-fA-F]{2})", lambda m: chr(int(m.group(1), 16)), n)
    return n


def linkage_of(words):
    for w in words.split():
        if w in LINKAGES:
            return w
    return "external"


class Module:
    def __init__(self, path, text):
        self.file = path
        m = re.search(r"^; ModuleID = '(.*)'", text, re.M)
        self.id = m.group(1) if m else "?"
        self.defs = {}      # name -> (linkage, body text)
        self.decls = set()  # declared functions
        self.gdefs = {}     # global name -> (linkage, rest of line)
        self.gdecls = set()
        self.anon = {}      # @N private constants
        self.attrs = {}
        lines = text.split("\n")
        i = 0
        while i < len(lines):
            l = lines[i]
            if l.startswith("define "):
                m = re.match(r"define ([^@]*)" + NAME_RE + r"\(", l)
                j = i
                while lines[j] != "}":
                    j += 1
                if m:
                    self.defs[unq(m.group(2))] = (linkage_of(m.group(1)), "\n".join(lines[i:j + 1]))
                i = j
            elif l.startswith("declare "):
                m = re.match(r"declare ([^@]*)" + NAME_RE + r"\(", l)
                if m:
                    self.decls.add(unq(m.group(2)))
            elif l.startswith("@"):
                m = re.match(NAME_RE + r" = (.*)$", l)
                if m:
                    name, rest = unq(m.group(1)), m.group(2)
                    if re.fullmatch(r"\d+", name):
                        self.anon[name] = rest
                    elif re.match(r"(external|extern_weak) ", rest):
                        self.gdecls.add(name)
                    else:
                        self.gdefs[name] = (linkage_of(rest.split(" global ")[0].split(" constant ")[0].split(" alias ")[0]), rest)
            elif l.startswith("attributes #"):
                m = re.match(r"attributes (#\d+) = (.*)$", l)
                if m:
                    self.attrs[m.group(1)] = m.group(2)
            i += 1

    def normalise(self, body):
        """value numbering, per-module constant numbering and attribute-group numbering removed"""
        body = re.sub(r"@(\d+)\b", lambda m: "@{" + self.anon.get(m.group(1), "?") + "}", body)
        body = re.sub(r"(#\d+)\b", lambda m: "#{" + self.attrs.get(m.group(1), "?") + "}", body)
        ren = {}

        def r(m):
            k = m.group(0)
            if k not in ren:
                ren[k] = "%v" + str(len(ren))
            return ren[k]
        body = re.sub(r"%\d+\b", r, body)
        return re.sub(r"^(\d+):", lambda m: "L" + m.group(1) + ":", body, flags=re.M)


def ids_in(body):
    return sorted(set(int(x) for x in re.findall(r"\bi64 (7\d{6})\b", body)))


def find_modules(ctx, paths):
    """IR modules (`-gen-llfiles` leaves <export file>.ll in the build cache) of the generated packages `paths`;
    every generated program has its own module root, so the ModuleID identifies the program's package"""
    mods = []
    for f in glob.glob(os.path.join(ctx.llgo_dir, "xdg", "go-build", "*", "*.ll")):
        head = open(f).read(400)
        m = re.search(r"^; ModuleID = '(.*)'", head, re.M)
        if m and m.group(1) in paths:
            mods.append(Module(f, open(f).read()))
    return mods


# ------------------------------------------------------------------------------------------- in-process source route
def load_tree(ctx, harness, d):
    p = sh([harness, "-load", d], timeout=600)
    if p.returncode != 0:
        raise HarnessBuildError("harness -load failed (the generated tree does not type-check or go/ssa changed):\n" + (p.stdout + p.stderr)[-3000:])
    rows, unmod = [], []
    for l in p.stdout.split("\n"):
        f = l.split("\t")
        if f[0] == "U":
            unmod.append((uh(f[1]), uh(f[2])))
        elif f[0] == "E":
            cols = []
            for c in f[4].split(","):
                cur, name, ft = c.split("=")
                cols.append((uh(cur), None if name == "panic" else uh(name), ft))
            rows.append({"kind": f[1], "term": f[2], "str": uh(f[3]), "cols": cols, "id": int(f[5])})
    return rows, unmod


def directives(files, order):
    """//go:linkname table of a generated tree as (key, target), key = <pkgpath>.<local> (plain functions only)"""
    t = []
    for p in order:
        for fn in p["files"]:
            src = files[(p["dir"] + "/" if p["dir"] != "." else "") + fn]
            for m in re.finditer(r"^//go:linkname (\S+) (\S+)$", src, re.M):
                t.append((p["path"] + "." + m.group(1), m.group(2)))
    return t


# ------------------------------------------------------------------------------------------- the check
def run(ctx, args):  # noqa: C901
    quick = ctx.tier == "quick"
    rng = ctx.rng
    # the two Go builds (harness, llgo) run in the background while lake builds the Lean modules
    bg = {}

    def spawn(name, fn):
        def w():
            try:
                bg[name] = (True, fn())
            except BaseException as e:  # noqa
                bg[name] = (False, e)
        t = threading.Thread(target=w)
        t.start()
        return t

    def joined(t, name):
        t.join()
        ok, v = bg[name]
        if not ok:
            raise v
        return v
    th = spawn("harness", lambda: build_go_harness(ctx, "c14", overlay={"cl/zz_verif_export.go": "overlay/zz_cl_verif_export.go.txt",
                                                                         "ssa/zz_verif_opaque.go": "overlay/zz_verif_opaque.go.txt"}, tags="llvm14,verif"))
    tl = spawn("llgo", lambda: build_llgo(ctx))
    st = lean_check(ctx, ["LlgoVerif.Props.C14"], ["LlgoVerif/Props/C14.lean"],
                    extra_files=["LlgoVerif/Model/LinkName.lean", "LlgoVerif/Lemmas/LinkName.lean"],
                    leanchecker=(ctx.tier == "thorough"))
    ctx.log("lean: %s" % sorted(set(st.values())))
    modeld = build_driver(ctx, "modeld_c14")
    harness = joined(th, "harness")
    stats = {}
    mismatches = []       # (request, real, model)
    spec_failures = []
    samples = []
    n_eval = 0
    nontrivial = set()

    caps = {}

    def report_capped(cls, key, what, obj):
        """unknown failing inputs of one class: the first three get a replay file, the rest is counted"""
        caps[cls] = caps.get(cls, 0) + 1
        if caps[cls] <= 3:
            ctx.report(key, what, obj)

    def model(lines):
        out, rc, err = run_lines([modeld], lines)
        if len(out) != len(lines):
            raise RuntimeError("modeld_c14 died: %d/%d\n%s" % (len(out), len(lines), err[-1000:]))
        return out

    def hyp(terms):
        """[(covered, synthetic)] from the model's decidable predicates"""
        out = model(["hyp " + t for t in terms])
        return [tuple(x == "1" for x in o.split(" ")[1:3]) if o.startswith("ok ") else (False, False) for o in out]

    # ---------------------------------------------------------------- which naming variant is live?
    # (replayed end to end below: the witness program of harness/c14/progs.py must behave accordingly)
    rw, _, errw = run_lines([harness], ["wn " + WITNESS_WN])
    mw = model(["wn 0 " + WITNESS_WN, "wn 1 " + WITNESS_WN])
    if len(rw) != 1:
        raise HarnessBuildError("harness died on the witness request:\n" + errw[-2000:])
    if rw[0] == mw[0]:
        cfg = 0
    elif rw[0] == mw[1]:
        cfg = 1
    else:
        cfg = 0
        mismatches.append(("wn " + WITNESS_WN, rw[0], mw))
    ctx.log("live naming of synthetic functions: %s (%s)" % (["as pinned (receiver without package / scope)", "with fixes/C14-1.diff (qualified receiver)"][cfg], uh(rw[0][3:]) if rw[0].startswith("ok ") else rw[0]))
    stats["variant"] = ["legacy", "fixed"][cfg]

    # ---------------------------------------------------------------- I.1 constructed go/types objects
    n = 3000 if quick else 60000
    reqs = []
    corpus = ["fn F %s %s" % (hx("m/a.B"), hx("C")), "fn M %s %s 0 0 %s" % (hx("m/a"), hx("B"), hx("C")),
              "fn M %s %s 0 1 %s" % (hx("m/a"), hx("B"), hx("C")), "fn F %s %s" % (hx(PATCH + "os"), hx("Open")), "fn F %s %s" % (hx("os"), hx("Open")),
              "ty C 0 C 2 B " + hx("int"), "ty N %s %s 1 N %s %s 0 2 1 0 0" % (hx("m/a"), hx("Box"), hx("m/b"), hx("L")),
              "gl G %s %s" % (hx("m/a.B"), hx("C")), "ty M B %s P N %s %s 0 0" % (hx("string"), hx("m/b"), hx("L"))]
    reqs += corpus
    sibling_of = {}        # index of a request -> index of its sibling request (a different entity by construction)
    for i in range(n):
        k = i % 10
        if k < 5:
            t = gen_ty_tree(rng)
            pair = ("ty " + ty_str(t), "ty " + ty_str(ty_sibling(rng, t)))
        elif k < 7:
            t = gen_fn_tree(rng)
            pair = ("fn " + fn_str(t), "fn " + fn_str(fn_sibling(rng, t)))
        elif k < 9:
            t = gen_wn_tree(rng)
            pair = ("wn " + wn_str(t), "wn " + wn_str(wn_sibling(rng, t)))
        else:
            pair = ("gl G %s %s" % (hx(rng.choice(PKGS)), hx(rng.choice(IDENTS))), None)
        reqs.append(pair[0])
        if pair[1] is not None and (i % 2 == 0 or not quick):
            sibling_of[len(reqs) - 1] = len(reqs)
            reqs.append(pair[1])
    real, rc, err = run_lines([harness], reqs)
    if len(real) != len(reqs):
        raise HarnessBuildError("harness died on the constructed route: %d/%d answers\n%s" % (len(real), len(reqs), err[-2000:]))
    mod = model([("wn %d %s" % (cfg, q[3:])) if q.startswith("wn ") else q for q in reqs])
    byname = {}
    for q, r, m in zip(reqs, real, mod):
        n_eval += 1
        op = q.split(" ")[0]
        stats["constructed-" + op] = stats.get("constructed-" + op, 0) + 1
        if len(q) > 30:
            nontrivial.add(q)
        if r != m:
            mismatches.append((q, r, m))
        if r.startswith("ok ") and op != "wn":
            byname.setdefault((op, r.split(" ")[1]), set()).add(q[3:])
        elif r.startswith("ok "):
            # synthetic functions: (compiled package, name) must determine receiver type and method
            byname.setdefault((op, q.split(" ")[1] + ":" + r.split(" ")[1]), set()).add(q[3:])
    samples.append({"request": reqs[len(corpus) + 1], "real": real[len(corpus) + 1], "decoded": [uh(x) for x in real[len(corpus) + 1].split(" ")[1:]]})
    # spec on the real answers, independent of the model: two different terms never share a rendered name.
    # (1) every request against its sibling - a term that differs in ONE place (a nested scope index, a package path, the
    # pointer marker, one type argument ...): the failing input is the pair; (2) all requests grouped by rendered name.
    def judge_pair(op, terms, name):
        terms = sorted(set(canon(t) for t in terms))
        if len(terms) < 2:
            return
        paths = [p for t in terms for p in term_paths(t)]
        if op == "wn":
            paths = [uh(x) for t in terms for x in t.split(" ")[0:3:2]]
        what = "%s: %d different terms are rendered as %r by the real code: %s" % (op, len(terms), uh(name), terms[:3])
        spec_failures.append(what)
        if op == "wn" and cfg == 0:
            # naming as pinned before fixes/C14-1.diff: the receiver's package and scope are not in the name
            ctx.report(K_LOCAL if len(set(t.split(" ")[2] for t in terms)) == 1 else K_WRAP, what, {"terms": terms, "name": uh(name)})
        elif any(dotted_last(p) for p in paths):
            ctx.report(K_DOT, what, {"terms": terms, "name": uh(name)})
        else:
            report_capped("constructed", "linkname:collision:" + uh(name), what, {"terms": terms, "name": uh(name), "decoded": [" ".join(uh(x) if re.fullmatch(r"([0-9a-f]{2}){2,}", x) else x for x in t.split(" ")) for t in terms]})

    npairs = 0
    for i, j in sibling_of.items():
        if real[i].startswith("ok ") and real[j].startswith("ok "):
            npairs += 1
            same_cur = not reqs[i].startswith("wn ") or reqs[i].split(" ")[1] == reqs[j].split(" ")[1]
            if same_cur and real[i].split(" ")[1] == real[j].split(" ")[1]:
                judge_pair(reqs[i].split(" ")[0], [reqs[i][3:], reqs[j][3:]], real[i].split(" ")[1])
    stats["constructed-sibling-pairs"] = npairs
    for (op, name), terms in sorted(byname.items()):
        if op == "wn":
            name = name.split(":")[1]
        judge_pair(op, terms, name)

    # descriptor names of unnamed structs with an embedded unexported field: one type per package, so one name per package
    sn_pk = ["m/a", "m/b", "m/ab", "main", "github.com/x/y"]
    sn_req = ["sn %s %s" % (hx(pk), hx(kd)) for kd in ("int", "error", "alias") for pk in sn_pk]
    sn_out, _, _ = run_lines([harness], sn_req + sn_req[:3])
    n_eval += len(sn_out)
    stats["constructed-sn"] = len(sn_out)
    if len(sn_out) != len(sn_req) + 3 or not all(o.startswith("ok ") for o in sn_out):
        mismatches.append(("sn requests", sn_out[:3], None))
    else:
        for kd_i, kd in enumerate(("int", "error", "alias")):
            names = sn_out[kd_i * len(sn_pk):(kd_i + 1) * len(sn_pk)]
            for i in range(len(sn_pk)):
                for j in range(i + 1, len(sn_pk)):
                    if names[i] == names[j]:
                        what = "struct{ %s } of package %s and of package %s (two distinct types: the embedded field is unexported) share the descriptor name %r" % (
                            kd if kd != "alias" else "al /* = int32 */", sn_pk[i], sn_pk[j], uh(names[i][3:]))
                        spec_failures.append(what)
                        report_capped("sn", "descriptor:unnamed-struct-shared-across-packages:" + kd, what, {"kind": kd, "packages": [sn_pk[i], sn_pk[j]], "name": uh(names[i][3:])})
        if sn_out[:3] != sn_out[len(sn_req):]:
            mismatches.append(("sn is not a function of (package, type)", sn_out[:3], sn_out[len(sn_req):]))
    ctx.log("constructed route: %d requests, %d mismatches" % (len(reqs), len(mismatches)))
    # ---------------------------------------------------------------- programs
    joined(tl, "llgo")
    ctx.log("llgo built")
    env = llgo_env(ctx)
    trees = []
    f1, ids1, order1 = progs.gen_main_program(rng)
    trees.append(("main", f1, ids1, order1, "m"))
    f2, ids2, order2 = progs.dotted_path_program()
    trees.append(("dotted", f2, ids2, order2, "m"))
    f3, ids3, order3, exp3 = progs.wrapper_collision_program()
    trees.append(("wrapper", f3, ids3, order3, "m"))
    f4, exp4, binds4, order4 = progs.linkname_program()
    trees.append(("linkname", f4, None, order4, "m"))
    f5, order5, exp5 = progs.side_findings_program()
    trees.append(("side", f5, None, order5, "s"))
    f6, exp6 = progs.unnamed_embedding_program()
    write_module(os.path.join(ctx.scratch, "t-unnamed"), f6)
    extra = 2 if quick else 12
    for i in range(extra):      # more trees for the in-process route only
        fx, idx, ox = progs.gen_main_program(rng, npk=rng.choice([2, 3, 4]))
        trees.append(("inproc-%d" % i, fx, idx, ox, "m"))

    inproc = {}
    for (tname, files, ids, order, modname) in trees:
        d = os.path.join(ctx.scratch, "t-" + tname)
        write_module(d, files)
        rows, unmod = load_tree(ctx, harness, d)
        inproc[tname] = rows
        stats["inproc-unmodelled"] = stats.get("inproc-unmodelled", 0) + len(unmod)
        table = directives(files, order)
        tenc = "%d%s" % (len(table), "".join(" %s %s" % (hx(k), hx(v)) for k, v in table))
        req, meta = [], []
        for r in rows:
            for (cur, name, ft) in r["cols"]:
                req.append("sym %d %s %s %s" % (cfg, hx(cur), tenc, r["term"]))
                meta.append((r, cur, name))
        out = model(req)
        for q, (r, cur, name), m in zip(req, meta, out):
            n_eval += 1
            stats["inproc-" + r["kind"]] = stats.get("inproc-" + r["kind"], 0) + 1
            nontrivial.add(r["term"] + "@" + cur)
            if name is None or m != "ok " + hx(name):
                mismatches.append((q, name, uh(m[3:]) if m.startswith("ok ") else m))
        # property, judged on the real names: (1) all referring packages agree; (2) different entities, different names
        hy = hyp([r["term"] if not r["term"].startswith("L ") else "RT - 0" for r in rows])
        seen = {}
        for r, (cov, syn) in zip(rows, hy):
            names = set(nm for (_, nm, _) in r["cols"])
            if len(names) > 1:
                stats["context-dependent-" + r["kind"]] = stats.get("context-dependent-" + r["kind"], 0) + 1
                inst_wrapper = r["kind"] == "wrapper" and r["term"].split(" ")[4] != "0"
                # (wrappers for methods of an INSTANTIATED generic type are referenced by the method table of every
                #  package under one name, like declared functions; $bound/$thunk and other wrappers are per package)
                if r["kind"] not in SYNTH or inst_wrapper:
                    spec_failures.append("referring packages disagree on the name of %s: %s" % (r["str"], sorted(names)))
                    report_capped("ctx", "linkname:context-dependent:" + r["str"], "referring packages disagree on a name", {"entity": r["str"], "names": sorted(map(str, names)), "files": files})
            owner = (term_paths(r["term"]) or [None])[0]
            for (cur, nm, ft) in r["cols"]:
                if r["kind"] in ("wrapper", "local-wrapper") and cur != owner:
                    continue      # method wrappers are only ever compiled by the package that declares the receiver type
                key = (cur, nm) if r["kind"] in SYNTH and r["kind"] not in ("wrapper", "local-wrapper") else ("*", nm)
                seen.setdefault(key, {})[r["term"]] = (r, cov)
        for (cur, nm), ents in sorted(seen.items(), key=lambda kv: str(kv[0])):
            ents = {t: v for t, v in ents.items() if all(ft.split(".")[0] == "1" for (_, _, ft) in v[0]["cols"])}
            if len(ents) < 2:     # (entities bound to a C / python symbol by a directive share that symbol on purpose)
                continue
            rs = [v[0] for v in ents.values()]
            kinds = set(r["kind"] for r in rs)
            strs = sorted(r["str"] + "  {" + dec(r["term"]) + "}" for r in rs)
            what = "%s: %d different entities share the link name %r (compiling %s): %s" % (tname, len(rs), nm, cur, strs)
            spec_failures.append(what)
            paths = [p for r in rs for p in term_paths(r["term"])]
            if all(v[1] for v in ents.values()):
                # both satisfy the hypotheses of linkName_injective_partial: the theorem says this cannot happen for the model
                report_capped("covered", "linkname:collision-of-covered-entities:" + str(nm), what, {"entities": strs, "name": nm, "files": files})
            elif any(dotted_last(p) for p in paths) and not kinds & {"bound", "thunk"}:
                ctx.report(K_DOT, what, {"entities": strs, "name": nm, "files": files})
            elif kinds == {"method", "wrapper"} and nm.rsplit(".", 1)[-1][:1].islower():
                # a declared unexported method and the wrapper of a promoted unexported method of ANOTHER package's type
                ctx.report(K_SF4, what, {"entities": strs, "name": nm, "files": files})
            elif kinds <= {"bound", "thunk"}:
                ctx.report(K_WRAP, what, {"entities": strs, "name": nm, "files": files})
            elif kinds <= {"local-bound", "local-thunk", "local-wrapper"}:
                ctx.report(K_LOCAL, what, {"entities": strs, "name": nm, "files": files})
            else:
                report_capped("inproc", "linkname:collision:%s" % nm, what, {"entities": strs, "name": nm, "files": files})
    samples.append({"tree": "main", "entity": inproc["main"][len(inproc["main"]) // 2]["str"], "names": inproc["main"][len(inproc["main"]) // 2]["cols"][:2]})

    # ---------------------------------------------------------------- E: compile, read symbol tables, run
    def compile_tree(tname, order, want_ref=True):
        d = os.path.join(ctx.scratch, "t-" + tname)
        p = sh([ctx.llgo, "build", "-tags", "nogc", "-O0", "-gen-llfiles", "-o", os.path.join(d, "prog"), "."], cwd=d, env=env, timeout=1800)
        mods = find_modules(ctx, [o["path"] for o in order])
        ref = None
        if want_ref:
            pr = go_run_reference(ctx, d, os.path.join(d, "ref"))
            if pr.returncode == 0:
                ref = run_prog(os.path.join(d, "ref"))
            else:
                ctx.log("reference toolchain could not build", tname, pr.stderr[-300:])
        out = run_prog(os.path.join(d, "prog")) if p.returncode == 0 else None
        return p, mods, out, ref

    ctx.log("in-process source route: %d trees, %d mismatches so far" % (len(trees), len(mismatches)))
    def judge_linkage(tag, mods, genpaths, files, idinfo, known_class):
        """(b), (c) and the discardable-definition rule on the symbol tables of one compiled program.
        known_class(cls, symbol) -> key of a listed known finding, or None (then the report is a VIOLATION)"""
        def rep(cls, nm, what, obj):
            k = known_class(cls, nm)
            if k:
                ctx.report(k, what, obj)
            else:
                report_capped(cls, "linkname:%s:%s" % (cls, nm), what, obj)
        defs, gdefs = {}, {}
        for m in mods:
            for nm, (lk, body) in m.defs.items():
                defs.setdefault(nm, []).append((m, lk, body))
            for nm, (lk, rest) in m.gdefs.items():
                gdefs.setdefault(nm, []).append((m, lk, rest))
        # (b) same name in several modules: mergeable everywhere, equivalent bodies
        multi = 0
        for nm, lst in sorted(list(defs.items()) + list(gdefs.items())):
            if len(lst) < 2:
                continue
            multi += 1
            lks = set(lk for (_, lk, _) in lst)
            if not lks <= MERGEABLE:
                what = "symbol %r is defined in %d modules (%s) with linkage %s" % (nm, len(lst), [m.id for (m, _, _) in lst], sorted(lks))
                spec_failures.append(what)
                rep("e2e-duplicate-strong", nm, what, {"symbol": nm, "files": files})
                continue
            bodies = set(m.normalise(b) for (m, _, b) in lst)
            if len(bodies) > 1 and all('abi.InterfaceType" {' in x for x in bodies):
                # descriptor of a package-less interface type (unnamed, or the universe's `error`): equal up to the PkgPath_
                # string = the module that emitted it?
                mods_re = "|".join(re.escape(x) for x in sorted(genpaths, key=len, reverse=True))
                b2 = set(re.sub(r'\[\d+ x i8\] c"(%s)", align 1\}, i64 \d+' % mods_re, "<pkgpath of the emitting module>", x) for x in bodies)
                if len(b2) == 1:
                    what = "mergeable interface descriptor %r differs between modules %s only in its PkgPath_ field (each module writes its own path)" % (nm, [m.id for (m, _, _) in lst])
                    spec_failures.append(what)
                    ctx.report(K_IFACEPKG, what, {"symbol": nm, "bodies": sorted(bodies)[:2]})
                    continue
            if len(bodies) > 1:
                bl = sorted(bodies)
                what = "mergeable symbol %r has %d different bodies in modules %s" % (nm, len(bodies), [m.id for (m, _, _) in lst])
                spec_failures.append(what)
                rep("e2e-mergeable-differs", nm, what, {"symbol": nm, "bodies": bl[:2], "files": files})
        stats["e2e-names-defined-in-several-modules:" + tag] = multi
        # (c) referenced symbols of generated packages are defined, by the owner
        alldef = set(defs) | set(gdefs)
        refs = 0
        for m in mods:
            for nm in sorted(m.decls | m.gdecls):
                owner = max((g for g in genpaths if nm.startswith(g + ".") or nm.startswith("__llgo_stub." + g + ".")), key=len, default=None)
                if owner is None:
                    continue          # runtime, libc, llvm intrinsics, type descriptors
                refs += 1
                if nm not in alldef:
                    what = "module %s references %r, which no generated module defines" % (m.id, nm)
                    spec_failures.append(what)
                    rep("e2e-undefined", nm, what, {"symbol": nm, "module": m.id, "files": files})
                    continue
                lst = defs.get(nm) or gdefs.get(nm)
                strong = [(dm, lk) for (dm, lk, _) in lst if lk not in MERGEABLE]
                for (dm, lk) in strong:
                    bid = ids_in(defs[nm][0][2]) if nm in defs else []
                    own = idinfo[bid[0]]["pkg"] if bid and bid[0] in idinfo else owner
                    if own is not None and dm.id != own:
                        what = "symbol %r of package %s is defined by module %s" % (nm, own, dm.id)
                        spec_failures.append(what)
                        rep("e2e-wrong-owner", nm, what, {"symbol": nm, "files": files})
        stats["e2e-cross-package-references:" + tag] = refs
        # (d) a definition that the optimiser may discard (linkonce: "unreferenced linkonce globals may be dropped") must not
        #     be the only definition of a symbol that ANOTHER module references
        for m in mods:
            for nm in sorted(m.decls | m.gdecls):
                lst = defs.get(nm) or gdefs.get(nm)
                if lst and all(lk in ("linkonce", "linkonce_odr") for (_, lk, _) in lst):
                    what = "module %s references %r, whose only definitions are discardable (linkonce) ones in %s" % (m.id, nm, [dm.id for (dm, _, _) in lst])
                    spec_failures.append(what)
                    rep("e2e-discardable-definition", nm, what, {"symbol": nm, "module": m.id, "files": files})

    # --- main program
    p, mods, out, ref = compile_tree("main", order1)
    ctx.log("main program compiled: rc=%s, %d IR modules" % (p.returncode, len(mods)))
    genpaths = [o["path"] for o in order1]
    # the three small programs compile concurrently (the runtime packages are in llgo's cache now)
    ts = [spawn("dotted", lambda: compile_tree("dotted", order2)), spawn("wrapper", lambda: compile_tree("wrapper", order3)),
          spawn("linkname", lambda: compile_tree("linkname", order4, want_ref=False)),
          spawn("side", lambda: compile_tree("side", order5)), spawn("unnamed", lambda: compile_tree("unnamed", [], want_ref=False))]
    stats["e2e-modules"] = len(mods)
    # the symbol tables are judged whenever every package was compiled to IR - also when the LINK failed (an undefined
    # or doubly defined symbol is then reported as the concrete pair of modules / entities, not as "build failed")
    build_msg = (p.stdout + p.stderr)[-3000:] if p.returncode != 0 else None
    reports_before = len(ctx.violations) + len(ctx.known_hits)
    if len(mods) != len(order1):
        if build_msg is None:
            ctx.broken.append("e2e: IR modules of the generated packages not found (-gen-llfiles)")
            ctx.report_broken("e2e symbol tables", "found %d IR modules for %d generated packages under %s" % (len(mods), len(order1), os.path.join(ctx.llgo_dir, "xdg", "go-build")))
    else:
        defs = {}      # name -> [(module, linkage, body)]
        for m in mods:
            for nm, (lk, body) in m.defs.items():
                defs.setdefault(nm, []).append((m, lk, body))
        gdefs = {}
        for m in mods:
            for nm, (lk, rest) in m.gdefs.items():
                gdefs.setdefault(nm, []).append((m, lk, rest))
        n_eval += len(defs) + len(gdefs)
        stats["e2e-defined-functions"] = len(defs)
        stats["e2e-defined-globals"] = len(gdefs)
        id2names = {}
        # (a) a name covers one source entity only
        for nm, lst in sorted(defs.items()):
            allids = set()
            for (m, lk, body) in lst:
                allids.update(ids_in(body))
            for i in allids:
                id2names.setdefault(i, set()).add(nm)
            if len(allids) > 1:
                what = "symbol %r is the definition of %d different source entities: %s" % (nm, len(allids), [ids1.info.get(i) for i in sorted(allids)])
                spec_failures.append(what)
                report_capped("e2e-shared-name", "linkname:e2e-shared-name:" + nm, what, {"symbol": nm, "ids": sorted(allids), "files": f1})
        missing = [i for i in ids1.info if i not in id2names]
        for i in missing:
            what = "source entity %s (id %d) has no definition in any module: its body was dropped or merged into another symbol" % (ids1.info[i], i)
            spec_failures.append(what)
            report_capped("e2e-missing-entity", "linkname:e2e-missing-entity:%s.%s" % (ids1.info[i]["pkg"], ids1.info[i]["desc"]), what, {"id": i, "entity": ids1.info[i], "files": f1})
        for i, nms in sorted(id2names.items()):
            inf = ids1.info.get(i)
            if inf and inf["kind"] in ("func", "method") and len(nms) != 1:
                what = "non-generic entity %s has %d link names: %s" % (inf, len(nms), sorted(nms))
                spec_failures.append(what)
                report_capped("e2e-several-names", "linkname:e2e-several-names:%s.%s" % (inf["pkg"], inf["desc"]), what, {"names": sorted(nms), "files": f1})
        judge_linkage("main", mods, genpaths, f1, ids1.info, lambda cls, nm: None)
        # the compiled names are the names the in-process route (and hence the model) gives, entity by entity
        exp = {}
        for r in inproc["main"]:
            if r["id"]:
                for (cur, nm, ft) in r["cols"]:
                    exp.setdefault(r["id"], set()).add(nm)
        e2e_vs = 0
        for i, nms in sorted(id2names.items()):
            for nm in nms:
                e2e_vs += 1
                if nm not in exp.get(i, set()):
                    mismatches.append(("e2e symbol of entity %s" % (ids1.info.get(i),), nm, sorted(map(str, exp.get(i, [])))[:4]))
        stats["e2e-names-compared-with-inproc"] = e2e_vs
        n_eval += e2e_vs
        # output
        if build_msg is not None:
            pass
        elif ref is None or out is None or out[1] != ref[1] or out[2] != ref[2]:
            a = out[1].split("\n") if out else []
            b = ref[1].split("\n") if ref else []
            k = next((j for j in range(min(len(a), len(b))) if a[j] != b[j]), min(len(a), len(b)))
            what = "generated program prints %r where the reference toolchain prints %r (line %d)" % (a[k:k + 1], b[k:k + 1], k)
            spec_failures.append(what)
            ctx.report("linkname:main-program-output:line-%d" % k, what, {"files": f1, "llgo": a[max(0, k - 3):k + 3], "go": b[max(0, k - 3):k + 3]})
        else:
            stats["e2e-output-lines-equal"] = len(out[1].split("\n"))
        samples.append({"symbol": sorted(id2names.get(progs.ID0 + 4, ["?"]))[0], "entity": ids1.info.get(progs.ID0 + 4)})

    if build_msg is not None and len(ctx.violations) + len(ctx.known_hits) == reports_before:
        mm = re.search(r"multiple definition of '([^']*)'|duplicate symbol[: ]+'?([^'\n]*)|undefined (?:reference to|symbol:?) [`']?([^'\n]*)", build_msg)
        what = "llgo could not build the generated multi-package program: " + (mm.group(0) if mm else build_msg[-400:])
        spec_failures.append(what)
        ctx.report("linkname:main-program-build:" + (mm.group(0) if mm else "failed"), what, {"files": f1, "output": build_msg})
    ctx.log("main program judged")
    # --- dotted last path element (known finding): duplicate symbol at link time
    p, mods, out, ref = joined(ts[0], "dotted")
    ctx.log("dotted-path program: rc=%s" % p.returncode)
    msg = p.stdout + p.stderr
    n_eval += 1
    if p.returncode != 0:
        mm = re.search(r"multiple definition of '([^']*)'", msg)
        sym = mm.group(1) if mm else None
        what = "package d/a.B func C and package d/a method (B).C: " + (("duplicate symbol %r at link time" % sym) if sym else "build failed: " + msg[-300:])
        spec_failures.append(what)
        ctx.report(K_DOT if sym == "d/a.B.C" else "linkname:dotted-program:" + str(sym or msg[-200:]), what, {"files": f2, "output": msg[-1500:]})
    elif ref is not None and out[1] != ref[1]:
        what = "dotted-path program prints %r, reference %r" % (out[1], ref[1])
        spec_failures.append(what)
        ctx.report(K_DOT, what, {"files": f2})
    else:
        stats["dotted-program-ok"] = 1

    # --- witness program of the receiver-rendering defects: same-named receiver types of different packages used as
    #     method values / method expressions (lines 1, 2), promoted methods of same-named function-local types (line 3)
    p, mods, out, ref = joined(ts[1], "wrapper")
    ctx.log("wrapper program: rc=%s" % p.returncode)
    n_eval += 3
    refl = [l for l in ref[1].split("\n") if l and not l.startswith("7")] if ref else None
    if refl is not None and refl != exp3:
        mismatches.append(("reference toolchain on the witness program", refl, exp3))
    if p.returncode != 0:
        what = "witness program (method values of same-named types, same-named local types) does not build: " + (p.stdout + p.stderr)[-400:]
        spec_failures.append(what)
        ctx.report("linkname:wrapper-program-build", what, {"files": f3, "output": (p.stdout + p.stderr)[-2000:]})
    else:
        got = [l for l in out[1].split("\n") if l and not l.startswith("7")]
        mods_m = [m for m in mods if m.id == "w"]
        wr = sorted(nm for m in mods_m for nm in m.defs if "$bound" in nm or "$thunk" in nm)
        lw = sorted(nm for m in mods_m for nm in m.defs if re.search(r"\bL[.)]", nm))
        if len(got) != 3:
            got = (got + ["?", "?", "?"])[:3]
        if got[0] != exp3[0] or got[1] != exp3[1]:
            what = "method values / method expressions a.T.M, T.M, b.T.M taken in one package: llgo prints %r and %r, Go specifies %r (wrappers defined: %s)" % (got[0], got[1], exp3[0], wr)
            spec_failures.append(what)
            ctx.report(K_WRAP if wr == ["w.T.M$bound", "w.T.M$thunk"] else "linkname:wrapper-program:" + ",".join(wr), what, {"files": f3, "wrappers": wr})
        if got[2] != exp3[2]:
            what = "promoted methods of two function-local types named L (f: struct{A}, g: struct{B}): llgo prints %r, Go specifies %r (method symbols: %s)" % (got[2], exp3[2], lw)
            spec_failures.append(what)
            ctx.report(K_LOCAL if lw == ["w.(*L).M", "w.L.M"] else "linkname:local-type-program:" + ",".join(lw), what, {"files": f3, "symbols": lw})
        ok_e2e = got == exp3
        stats["witness-program"] = "correct" if ok_e2e else "wrong: " + " | ".join(got)
        if (cfg == 1) != ok_e2e:
            # the in-process variant detection and the compiled witness must tell the same story
            mismatches.append(("variant detected in-process: %s; witness program output %r" % (["legacy", "fixed"][cfg], got), None, None))

    # --- //go:linkname and //export bind exactly the declared symbol
    p, mods, out, ref = joined(ts[2], "linkname")
    ctx.log("linkname program: rc=%s" % p.returncode)
    n_eval += len(binds4) + 1
    if p.returncode != 0:
        what = "program with //go:linkname to C symbols and //export does not build: " + (p.stdout + p.stderr)[-400:]
        spec_failures.append(what)
        ctx.report("linkname:directive-program-build", what, {"files": f4, "output": (p.stdout + p.stderr)[-2000:]})
    else:
        bym = {m.id: m for m in mods}
        for (mid, goname, sym, kind) in binds4:
            m = bym.get(mid)
            if m is None:
                mismatches.append(("IR of module %s not found" % mid, None, None))
                continue
            stats["directive-" + kind] = stats.get("directive-" + kind, 0) + 1
            present = (sym in m.decls) if kind == "declare" else (sym in m.defs and m.defs[sym][0] == "external")
            leaked = goname in m.decls or goname in m.defs
            if not present or leaked:
                what = "%s: directive binds %s to %r, but the module %s" % (mid, goname, sym, "still has a symbol named after the Go function" if leaked else "does not %s %r" % (kind, sym))
                spec_failures.append(what)
                ctx.report("linkname:directive:%s" % goname, what, {"files": f4})
        ndef = sum(1 for m in mods if "Twice" in m.defs)
        if ndef != 1:
            ctx.report("linkname:directive:export-defined-%d-times" % ndef, "exported symbol Twice defined %d times" % ndef, {"files": f4})
        got = [l for l in out[1].split("\n") if l]
        if got != exp4:
            what = "linkname/export program prints %r, expected %r" % (got, exp4)
            spec_failures.append(what)
            ctx.report("linkname:directive-output", what, {"files": f4})

    # --- shapes of the defects the seeding agent met on the unmodified tree (/verif/seeded/side-findings/C14): each is a
    #     listed known finding; anything else that goes wrong in these programs is a VIOLATION
    p, mods, out, ref = joined(ts[3], "side")
    ctx.log("side-findings program: rc=%s" % p.returncode)
    n_eval += len(exp5)
    if ref is not None and [l for l in ref[1].split("\n") if l] != exp5:
        mismatches.append(("reference toolchain on the side-findings program", ref[1], exp5))
    if p.returncode != 0 or len(mods) != len(order5):
        what = "side-findings program does not build: " + (p.stdout + p.stderr)[-400:]
        spec_failures.append(what)
        ctx.report("linkname:side-program-build", what, {"files": f5, "output": (p.stdout + p.stderr)[-2000:]})
    else:
        judge_linkage("side", mods, [o["path"] for o in order5], f5, {},
                      lambda cls, nm: K_SF3 if cls == "e2e-discardable-definition" and nm in ("s/a.W.Get", "s/a.(*W).Get") else
                      K_SF1 if cls == "e2e-mergeable-differs" and re.match(r"\*?_llgo_s/g\.W\.p\d+(\$fields)?$", nm) else None)
        got = ([l for l in out[1].split("\n") if l] + ["?"] * 6)[:6]
        line_key = [K_SF1, K_SF1, K_SF1, K_SF4, K_SF5, None]
        line_what = ["a local type of a generic function used in the body and in a closure of it is two types",
                     "a local type of a generic function used in the body and in a closure of it is two types",
                     "a local type of a generic function used in the body and in a closure of it is two types",
                     "type T struct{ b.U } with its own unexported m and the promoted unexported b.U.m: both are symbol s/a.T.m",
                     "Wrap5[L] with two function-local types L of different functions share one local type W[L]", "promoted Get of struct{ g.Box[int] }"]
        for k in range(6):
            if got[k] != exp5[k]:
                what = "%s: llgo prints %r, Go specifies %r" % (line_what[k], got[k], exp5[k])
                spec_failures.append(what)
                ctx.report(line_key[k] or "linkname:side-program-output:line-%d" % k, what, {"files": f5, "line": k, "llgo": got, "go": exp5})
    p, mods, out, ref = joined(ts[4], "unnamed")
    n_eval += 1
    msg = p.stdout + p.stderr
    if p.returncode != 0:
        what = "struct{ g.Box[int] } converted to an interface: llgo fails to compile" + (" (panic: invalid recv type, cl/import.go recvNamed)" if "invalid recv type" in msg else ": " + msg[-300:])
        spec_failures.append(what)
        ctx.report(K_SF2 if "invalid recv type" in msg else "linkname:unnamed-embedding-program-build", what, {"files": f6, "output": msg[:1500]})
    elif [l for l in out[1].split("\n") if l] != exp6:
        what = "struct{ g.Box[int] } converted to an interface: prints %r, expected %r" % (out[1], exp6)
        spec_failures.append(what)
        ctx.report("linkname:unnamed-embedding-program-output", what, {"files": f6})

    # --- thorough: reserved-name probes
    if not quick:
        d = os.path.join(ctx.scratch, "t-routine")
        write_module(d, progs.routine_program())
        p = sh([ctx.llgo, "build", "-tags", "nogc", "-O0", "-o", os.path.join(d, "prog"), "."], cwd=d, env=env, timeout=1800)
        pr = go_run_reference(ctx, d, os.path.join(d, "ref"))
        refo = run_prog(os.path.join(d, "ref")) if pr.returncode == 0 else None
        o = run_prog(os.path.join(d, "prog")) if p.returncode == 0 else None
        n_eval += 1
        if o is None or refo is None or o[1] != refo[1]:
            what = "user function _llgo_routine with a function literal in a package that has a go statement: " + ("llgo fails to compile (panic in ssa/goroutine.go)" if o is None else "prints %r, reference %r" % (o[1], refo[1]))
            spec_failures.append(what)
            ctx.report(K_ROUTINE, what, {"files": progs.routine_program(), "output": (p.stdout + p.stderr)[:1500]})

        d = os.path.join(ctx.scratch, "t-stub")
        write_module(d, progs.stub_prefix_program())
        p = sh([ctx.llgo, "build", "-tags", "nogc", "-O0", "-o", os.path.join(d, "prog"), "."], cwd=d, env=env, timeout=1800)
        o = run_prog(os.path.join(d, "prog")) if p.returncode == 0 else None
        n_eval += 1
        if o is None or o[1] != "3 77 77\n":
            what = "module path __llgo_stub with func abs, and C.abs used as a function value: prints %r, expected '3 77 77'" % (o[1] if o else (p.stdout + p.stderr)[-300:])
            spec_failures.append(what)
            ctx.report(K_STUB, what, {"files": progs.stub_prefix_program()})

    # ---------------------------------------------------------------- verdict
    if mismatches:
        ctx.log("correspondence mismatches: %d, first: %s" % (len(mismatches), mismatches[0]))
        ctx.broken.append("correspondence real vs Lean model (%d differ), e.g. %s" % (len(mismatches), str(mismatches[0])[:300]))
        if not ctx.violations:
            ctx.report_broken("correspondence C14 real-vs-model", {"first": [(str(a)[:400], str(b)[:200], str(c)[:200]) for (a, b, c) in mismatches[:8]], "count": len(mismatches)})
    for name, s in st.items():
        if s != "ok":
            ctx.log("theorem", name, s)
    if any(s != "ok" for s in st.values()) and not ctx.violations:
        ctx.report_broken("Props/C14: " + ", ".join(n for n, s in st.items() if s != "ok"), st)
    ctx.coverage["samples"] = samples
    ctx.coverage["trusted_base"] += [
        "hand-written Lean model of llgo's naming functions tied by differential runs: constructed go/types objects (%d lines) and go/ssa functions of %d generated source trees, real functions built from the working tree with -tags llvm14,verif + overlay accessors" % (len(reqs), len(trees)),
        "harness/c14/main.go derives the structural entity term of a go/ssa function (receiver, nesting index, type arguments, scope path) from go/types + go/ssa data only",
        "harness/c14/progs.py generators; entity identity in compiled code = the unique constant each generated function prints; IR symbol tables read by regular expressions (checks/c14.py Module)",
        "uniqueness is proved for the covered constructors only (func, method, literal, instance, global; type arguments basic/named/pointer/slice/array/map); stubs, goroutine routines, chan/func/struct type arguments are correspondence + e2e only",
        "type-descriptor names (C07) are not part of the model; their mergeable definitions are compared textually across modules (b)",
    ]
    ctx.assumptions += ["the linker resolves equal names to one definition and keeps any one of several mergeable definitions",
                        "go/ssa (golang.org/x/tools, pinned by /repo/go.mod) numbers function literals and names wrappers as modelled"]
    return ctx.finish("proof", {
        "evaluations": n_eval, "distinct_nontrivial": len(nontrivial),
        "rule": "one evaluation = one naming request answered by the real code and the model (constructed term, or (entity, compiled package) pair of a generated tree), or one symbol of a compiled module judged against the property; non-trivial = constructed request longer than 30 chars or a distinct (entity term, package) pair",
        "input_distribution": stats, "spec_failures_on_real_code": len(spec_failures), "spec_failure_list": spec_failures[:20],
        "correspondence_mismatches": len(mismatches)})

