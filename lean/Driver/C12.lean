/-! placeholder driver (property C12 not built yet) -/
def main : IO Unit := IO.println "bad-op"
