import Std.Data.HashMap
import LlgoVerif.Util
import LlgoVerif.Model.HMap
/-! Line-protocol driver for C06 (`modeld_c06`): the bucket-level map model driven with the real hashes.

    kind <reflexive> <needKeyUpdate> <hashMightPanic>      (0/1 each; resets everything)
    hashkey <a>           hashkey[0] of the real runtime (memhash of the non-NaN part of a NaN-holding complex key)
    rand v v …            append to the fastrand script
    mk <hint> | nil | clr | len
    set <K> <v> | get <K> | get1 <K> | del <K>
    itn <slot> (NewMapIter + first MapIterNext) | itx <slot>
  <K> = cls,repr,refl,unhashable,nanspec,hash(hex)   (eq a b := a.refl ∧ b.refl ∧ a.cls = b.cls)
  nanspec = `-` | `<4|8>[A]:<part>/<part>…`, part = n (NaN) | z (±0) | v<hex bits> | u<hex> / w<hex> (4/8-byte memhash'ed field); `A` = boxed in an interface
  answer: `<result> | st=count,flags,B,noverflow,nevacuate,growing,hash0 fr=<fastrand calls> th=<throws>` -/
open LlgoVerif LlgoVerif.Util LlgoVerif.HMap

structure DK where
  cls : Nat := 0
  repr : Nat := 0
  refl : Bool := true
  unh : Bool := false
  /-- float components of a `k != k` key, in hashing order: (0 zero | 1 NaN | 2 other, bits) -/
  parts : List (Nat × UInt64) := []
  width : Nat := 8
  boxed : Bool := false
  hash : UInt64 := 0
deriving Inhabited

def c0 : UInt64 := 33054211828000289
def c1 : UInt64 := 23344194077549503

def m1 : UInt64 := 0xa0761d6478bd642f
def m2 : UInt64 := 0xe7037ed1a0b428db
def m5 : UInt64 := 0x1d8e4e27c47d124f

/-- hash64.go `mix` -/
def mix (a b : UInt64) : UInt64 :=
  let p := a.toNat * b.toNat
  UInt64.ofNat (p / 2 ^ 64) ^^^ UInt64.ofNat (p % 2 ^ 64)

/-- hash64.go `memhash(p, seed, s)` for s = 4 or 8 (`a = b = r4/r8(p)`) -/
def memhashW (hk0 : UInt64) (bits seed : UInt64) (w : Nat) : UInt64 :=
  mix (m5 ^^^ UInt64.ofNat w) (mix (bits ^^^ m2) (bits ^^^ (seed ^^^ hk0 ^^^ m1)))

/-- alg.go `f32hash`/`f64hash` chained over the components (`c64hash`/`c128hash`; one component = a float key),
    `nilinterhash` around it when the key is boxed: `c1 * typehash(t, p, h ^ c0)` -/
def nanHash (hk0 : UInt64) (seed : UInt32) (k : DK) (xs : List UInt32) : UInt64 :=
  let h0 := if k.boxed then seed.toUInt64 ^^^ c0 else seed.toUInt64
  let (h, _) := k.parts.foldl (fun (acc : UInt64 × List UInt32) p =>
    let (h, xs) := acc
    if p.1 == 0 then (c1 * (c0 ^^^ h), xs)
    else if p.1 == 1 then (c1 * (c0 ^^^ h ^^^ (xs.headD 0).toUInt64), xs.tail)
    else if p.1 == 3 then (memhashW hk0 p.2 h 4, xs)
    else if p.1 == 4 then (memhashW hk0 p.2 h 8, xs)
    else (memhashW hk0 p.2 h k.width, xs)) (h0, xs)
  if k.boxed then c1 * h else h

/-- the hashes printed by the real code so far, per (seed, key class); a key never hashed under a seed is not in
    the map under that seed, so the fallback value is never decisive -/
abbrev HashTab := Std.HashMap (UInt32 × Nat) UInt64

def mkOps (tab : HashTab) (hk0 : UInt64) (refl upd mp : Bool) : Ops DK :=
  { hash := fun seed k => tab.getD (seed, k.cls) k.hash, nanHash := nanHash hk0,
    nanCount := fun k => (k.parts.filter (·.1 == 1)).length, eq := fun a b => a.refl && b.refl && a.cls == b.cls,
    unhashable := fun k => k.unh, reflexiveKey := refl, needKeyUpdate := upd, hashMightPanic := mp }

structure St where
  tab : HashTab := {}
  flags : Bool × Bool × Bool := (true, false, false)
  hk0 : UInt64 := 1
  m : MapRef DK Nat := .nil {}
  its : List (String × Iter DK Nat) := []

def parseHex (s : String) : Option UInt64 :=
  s.toList.foldlM (fun (acc : Nat) c => (hexVal c).map (fun d => acc * 16 + d)) 0 |>.map UInt64.ofNat

def parsePart (p : String) : Option (Nat × UInt64) :=
  if p == "n" then some (1, 0) else if p == "z" then some (0, 0)
  else if p.startsWith "v" then (parseHex (p.drop 1).toString).map (fun b => (2, b))
  else if p.startsWith "u" then (parseHex (p.drop 1).toString).map (fun b => (3, b))      -- 4-byte regular field
  else if p.startsWith "w" then (parseHex (p.drop 1).toString).map (fun b => (4, b))      -- 8-byte regular field
  else none

def parseKey (s : String) : Option DK :=
  match s.splitOn "," with
  | [a, b, c, d, e, f] => do
    let h ← parseHex f
    let k : DK := { cls := ← a.toNat?, repr := ← b.toNat?, refl := c == "1", unh := d == "1", hash := h }
    if e == "-" then pure k
    else match e.splitOn ":" with
      | [w, ps] => do
        let parts ← (ps.splitOn "/").mapM parsePart
        pure { k with parts := parts, width := if w.startsWith "4" then 4 else 8, boxed := w.endsWith "A" }
      | _ => none
  | _ => none

def errStr : Err → String
  | .nilMap => "panic:nilmap"
  | .unhashable => "panic:unhashable"
  | .loop => "model-fuel"

def stStr (m : MapRef DK Nat) : String :=
  match m with
  | .nil r => s!"st=0,0,0,0,0,0,0 fr={r.calls} th=0"
  | .ref h =>
    let flags := (if h.iterFlag then 1 else 0) + (if h.oldIterFlag then 2 else 0) + (if h.sameSizeGrow then 8 else 0)
    s!"st={h.count},{flags},{h.B},{h.noverflow},{h.nevacuate},{if h.growing then 1 else 0},{h.hash0.toNat} fr={h.rand.calls} th={h.throws}"

def addRand (m : MapRef DK Nat) (vs : List UInt32) : MapRef DK Nat :=
  match m with
  | .nil r => .nil { r with script := r.script ++ vs }
  | .ref h => .ref { h with rand := { h.rand with script := h.rand.script ++ vs } }

def pruneSt (s : St) : St :=
  match s.m with
  | .ref h =>
    let keep := s.its.flatMap fun (_, it) => it.gen :: (match it.bptr with | some b => [b.gen] | none => [])
    { s with m := .ref (h.prune keep) }
  | _ => s

def St.ops (s : St) : Ops DK := mkOps s.tab s.hk0 s.flags.1 s.flags.2.1 s.flags.2.2

def St.seed (s : St) : UInt32 := match s.m with | .ref h => h.hash0 | .nil _ => 0

def St.learn (s : St) (k : DK) : St :=
  if k.refl && !k.unh then { s with tab := s.tab.insert (s.seed, k.cls) k.hash } else s

def step (s : St) (line : String) : St × String :=
  let fin (s : St) (ans : String) : St × String :=
    let s := pruneSt s
    (s, ans ++ " | " ++ stStr s.m)
  match fields line with
  | ["kind", a, b, c] => fin { flags := (a == "1", b == "1", c == "1") } "ok"
  | ["hashkey", a] =>
    match a.toNat? with
    | some n => fin { s with hk0 := UInt64.ofNat n ||| 1 } "ok"
    | none => (s, "bad-op")
  | "rand" :: vs =>
    match vs.mapM (fun v => v.toNat?.map UInt32.ofNat) with
    | some l => fin { s with m := addRand s.m l } "ok"
    | none => (s, "bad-op")
  | ["mk", hint] =>
    match hint.toNat? with
    | some n => fin { s with m := makeMap s.m n, its := [] } "ok"
    | none => (s, "bad-op")
  | ["nil"] => fin { s with m := .nil s.m.rand, its := [] } "ok"
  | ["set", k, v] =>
    match parseKey k, v.toNat? with
    | some k, some v =>
      let s := s.learn k
      match mapAssign s.ops s.m k v with
      | .ok m => fin { s with m := m } "ok"
      | .error e => fin s (errStr e)
    | _, _ => (s, "bad-op")
  | [op, k] =>
    if op == "get" || op == "get1" then
      match parseKey k with
      | some k =>
        let s := s.learn k
        match mapAccess s.ops s.m k with
        | .ok (r, m) =>
          let v := match r with | some v => toString v | none => "0"
          fin { s with m := m } (if op == "get" then s!"v={v} ok={if r.isSome then 1 else 0}" else s!"v={v}")
        | .error e => fin s (errStr e)
      | none => (s, "bad-op")
    else if op == "del" then
      match parseKey k with
      | some k =>
        let s := s.learn k
        match mapDelete s.ops s.m k with
        | .ok m => fin { s with m := m } "ok"
        | .error e => fin s (errStr e)
      | none => (s, "bad-op")
    else if op == "itn" then
      -- NewMapIter immediately followed by the first MapIterNext (as `for range` does)
      match newMapIter s.ops s.m with
      | .ok (it, m) =>
        match mapIterNext s.ops m it with
        | .ok (r, it) =>
          let s := { s with m := m, its := (k, it) :: s.its.filter (·.1 != k) }
          match r with
          | some (key, v) => fin s s!"k={key.repr} v={v}"
          | none => fin s "end"
        | .error e => fin s (errStr e)
      | .error e => fin s (errStr e)
    else if op == "itx" then
      match s.its.find? (·.1 == k) with
      | some (_, it) =>
        match mapIterNext s.ops s.m it with
        | .ok (r, it) =>
          let s := { s with its := (k, it) :: s.its.filter (·.1 != k) }
          match r with
          | some (key, v) => fin s s!"k={key.repr} v={v}"
          | none => fin s "end"
        | .error e => fin s (errStr e)
      | none => (s, "bad-op")
    else (s, "bad-op")
  | ["clr"] => fin { s with m := mapClear s.m } "ok"
  | ["len"] => fin s s!"n={mapLen s.m}"
  | _ => (s, "bad-op")

def main : IO Unit := lineLoopSt ({} : St) step
