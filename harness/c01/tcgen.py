"""C01 part D: generator of Go TYPE DECLARATIONS for the tie of the Go-type -> raw-type lowering (ssa/type_cvt.go).

One call of `source(rng)` gives the text of a Go file (package tc) that declares 5-10 named types (structs with plain,
tagged, blank and EMBEDDED fields - embedded by value and by pointer -, func types, slices / arrays / maps / pointers /
channels of them, interfaces whose methods take and return funcs), methods with value and pointer receivers on them, and a
few package-level variables of unnamed composite types.  Func types occur at every nesting depth (directly, inside slices,
arrays, maps, pointers, channels, inline structs, parameters and results of other funcs), so that every rebuilding branch of
cvtType is taken, and - the class the seeded change C01-4 lives in - as components of EMBEDDED fields.

Validity rules obeyed (the file must type-check): by-value references (field, array element, embedded T) only to types
declared earlier; later types only behind pointer / slice / map / chan / func; embedded fields are named struct types (T or
*T) or named interface types; field names are unique per struct and disjoint from the method names; map keys are comparable
basic types or pointers."""

BASICS = ['int', 'string', 'bool', 'uint8', 'int32', 'float64', 'uintptr', 'unsafe.Pointer', 'complex128']
KEYS = ['int', 'string', 'uint8', 'bool']
MNAMES = ['Ma', 'Mb', 'Mc', 'Md']
TAGS = ['json:"a"', 'x:"1" y:"2"', 'k', 'json:"-"']


class TG:
    def __init__(self, rng):
        self.r = rng
        self.n = rng.randint(5, 10)
        self.kinds = []          # kind of each named type: 'struct' | 'iface' | 'func' | 'other'
        self.has_func = []       # does the type (transitively, by value) contain a func type?

    def sig(self, i, depth):
        r = self.r
        ps = [self.ty(i, depth + 1, False) for _ in range(r.randint(0, 2))]
        rs = [self.ty(i, depth + 1, False) for _ in range(r.randint(0, 2))]
        variadic = bool(ps) and r.random() < 0.2
        if variadic:
            ps[-1] = '...' + ps[-1]
        res = '' if not rs else (' ' + rs[0] if len(rs) == 1 else ' (' + ', '.join(rs) + ')')
        return 'func(' + ', '.join(ps) + ')' + res

    def named_ref(self, i, byvalue):
        """a reference to a named type that is legal at this position of declaration i"""
        r = self.r
        hi = i if byvalue else self.n
        if hi <= 0:
            return None
        return 'T%d' % r.randrange(hi)

    def ty(self, i, depth, byvalue):
        """a type expression inside declaration i; byvalue = the position stores the value inline"""
        r = self.r
        c = r.random()
        if depth >= 3 or c < 0.22:
            return r.choice(BASICS)
        if c < 0.42:
            return self.sig(i, depth)
        if c < 0.52:
            return '[]' + self.ty(i, depth + 1, False)
        if c < 0.58:
            return '[%d]' % r.randint(0, 3) + self.ty(i, depth + 1, byvalue)
        if c < 0.66:
            return 'map[%s]' % r.choice(KEYS) + self.ty(i, depth + 1, False)
        if c < 0.74:
            return '*' + self.ty(i, depth + 1, False)
        if c < 0.79:
            return r.choice(['chan ', '<-chan ', 'chan<- ']) + self.ty(i, depth + 1, False)
        if c < 0.86:
            return self.struct(i, depth + 1, byvalue, inline=True)
        if c < 0.90:
            return 'interface{ %s }' % '; '.join('%s%s' % (m, self.sig(i, depth + 1)[4:]) for m in r.sample(MNAMES, r.randint(0, 2)))
        t = self.named_ref(i, byvalue)
        return t if t else r.choice(BASICS)

    def struct(self, i, depth, byvalue, inline=False):
        r = self.r
        fields, used = [], set()
        nf = r.randint(1, 4 if inline else 5)
        for k in range(nf):
            tag = (' `%s`' % r.choice(TAGS)) if r.random() < 0.3 else ''
            c = r.random()
            if c < 0.35:
                # an embedded field: a named struct type by value (declared earlier) or by pointer (any), or a named interface
                cands = []
                for j in range(self.n):
                    if ('T%d' % j) in used:
                        continue
                    kind = self.plan[j]
                    if kind == 'struct':
                        if j < i:
                            cands.append('T%d' % j)        # by value: declared earlier only
                        cands.append('*T%d' % j)           # by pointer: any struct type, itself included
                    elif kind == 'iface' and j < i:
                        cands.append('T%d' % j)
                # prefer carriers of func types: the lowering rebuilds exactly those fields
                pref = [x for x in cands if self.plan_func.get(int(x.lstrip('*')[1:]), False)]
                if pref and r.random() < 0.7:
                    cands = pref
                if cands:
                    e = r.choice(cands)
                    used.add(e.lstrip('*'))
                    fields.append(e + tag)
                    continue
            name = '_' if r.random() < 0.08 else 'F%d' % k
            fields.append('%s %s%s' % (name, self.ty(i, depth + 1, byvalue), tag))
        return 'struct { ' + '; '.join(fields) + ' }'

    def source(self):
        r = self.r
        # plan the kinds first: embedded fields may point forward (by pointer)
        self.plan = [r.choice(['struct', 'struct', 'struct', 'iface', 'func', 'other', 'other']) for _ in range(self.n)]
        self.plan[0] = 'struct'
        self.plan_func = {}
        out = ['package tc', '', 'import "unsafe"', '', 'var _ unsafe.Pointer', '']
        for i in range(self.n):
            kind = self.plan[i]
            if kind == 'struct':
                body = self.struct(i, 0, True)
                if i == 0 or r.random() < 0.5:
                    # make sure func-carrying embedded candidates exist
                    body = body[:-2] + '; Fn%d %s }' % (i, r.choice([self.sig(i, 1), '[]' + self.sig(i, 2), '[2]' + self.sig(i, 2), 'map[string]' + self.sig(i, 2),
                                                                   'struct { G ' + self.sig(i, 2) + ' }']))
            elif kind == 'iface':
                ms = r.sample(MNAMES, r.randint(1, 3))
                body = 'interface { %s }' % '; '.join('%s%s' % (m, self.sig(i, 1)[4:]) for m in ms)
            elif kind == 'func':
                body = self.sig(i, 0)
            else:
                body = self.ty(i, 0, True)
                if body in BASICS and r.random() < 0.5:
                    body = '[]' + self.sig(i, 1)
            self.kinds.append(kind)
            self.plan_func[i] = 'func(' in body
            out.append('type T%d %s' % (i, body))
            if kind != 'iface' and not body.startswith('*') and not body.startswith('interface') and not body.startswith('T') and body != 'unsafe.Pointer':
                for m in r.sample(MNAMES, r.randint(0, 3)):
                    recv = '*T%d' % i if r.random() < 0.5 else 'T%d' % i
                    out.append('func (r %s) %s() {}' % (recv, m))
            out.append('')
        for k in range(r.randint(2, 4)):
            out.append('var V%d %s' % (k, self.ty(self.n, 0, True)))
        # unnamed struct types that embed func carriers: their promoted methods live in descriptors of unnamed types
        structs = [j for j in range(self.n) if self.kinds[j] == 'struct']
        for k, j in enumerate(r.sample(structs, min(2, len(structs)))):
            out.append('var W%d struct { %sT%d; X int `w:"%d"` }' % (k, r.choice(['', '*']), j, k))
        return '\n'.join(out) + '\n'


def source(rng):
    return TG(rng).source()


if __name__ == '__main__':
    import random
    import sys
    print(source(random.Random(int(sys.argv[1]) if len(sys.argv) > 1 else 1)))
