"""C20 — generators for the CONTAINER layer of SDK archives (bytes of the file, below the list of entries).

A case is the byte string of an archive file plus what it is meant to say:

    {"fmt": "tgz"|"zip", "bytes": b"...", "entries": [(kind, name, data, link), ...] | None,
     "wf_container": bool, "why": "..."}

`entries` is the INTENDED meaning (the members in the order the extractor is to see them) when the container is
well formed (`wf_container`): whatever way the tar stream is written (USTAR prefix, GNU long names, PAX records,
base-256 sizes, old-style type flags, end marker + padding + anything behind it) and however it is cut into
gzip members (cuts on and off entry boundaries, empty members, stored / compressed / flushed DEFLATE blocks,
optional header fields), the meaning is the same list.  The intention is checked against CPython's `gzip`,
`tarfile` and `zipfile` readers by `oracle_entries` — an independent reading of the same bytes.

Malformed containers (`wf_container` false: truncations, damaged check sums, garbage between or behind members,
broken PAX records ...) have no meaning; they are compared real-vs-model only, and judged for confinement.

All randomness comes from the `rng` handed in.
"""
import io
import struct
import zlib

# ------------------------------------------------------------------------------------------------ tar

KIND_FLAG = {"d": b"5", "f": b"0", "s": b"2", "h": b"1", "o": b"6"}


def _octal(n, width, rng):
    """an octal field of `width` bytes in one of the spellings writers use"""
    digits = b"%o" % n
    style = rng.choice(["std", "std", "space-nul", "nul-only", "lead-space"])
    if style == "std" or len(digits) > width - 2:
        if len(digits) > width - 1:
            raise ValueError("octal overflow")
        return digits.rjust(width - 1, b"0") + b"\0"
    if style == "space-nul":
        return digits.rjust(width - 2, b"0") + b" \0"
    if style == "nul-only":
        return digits + b"\0" * (width - len(digits))
    return digits.rjust(width - 1, b" ") + b"\0"


def _size_field(n, rng):
    if n >= 8 ** 11 or rng.random() < 0.08:
        return b"\x80" + n.to_bytes(11, "big")
    return _octal(n, 12, rng)


def tar_header(name, typeflag, size, fmt, rng, prefix=b"", link=b"", mode=0o644, chk_style=None):
    """one 512-byte header block; fmt in v7 | ustar | gnu | star"""
    assert len(name) <= 100 and len(link) <= 100 and len(typeflag) == 1
    h = bytearray(512)
    h[0:len(name)] = name
    h[100:108] = _octal(mode, 8, rng)
    h[108:116] = _octal(rng.choice([0, 0, 1000, 501]), 8, rng)
    h[116:124] = _octal(rng.choice([0, 0, 1000, 20]), 8, rng)
    h[124:136] = _size_field(size, rng)
    h[136:148] = _octal(rng.choice([0, 1700000000, 1]), 12, rng)
    h[156:157] = typeflag
    h[157:157 + len(link)] = link
    if fmt in ("ustar", "star"):
        h[257:263] = b"ustar\0"
        h[263:265] = b"00"
        h[265:265 + 4] = b"root"
        h[297:297 + 5] = b"wheel"
        if rng.random() < 0.7:
            h[329:337] = _octal(0, 8, rng)
            h[337:345] = _octal(0, 8, rng)
        h[345:345 + len(prefix)] = prefix
        if fmt == "star":
            assert len(prefix) <= 130
            h[476:488] = _octal(1700000000, 12, rng)
            h[488:500] = _octal(1700000001, 12, rng)
            h[508:512] = b"tar\0"
    elif fmt == "gnu":
        assert not prefix
        h[257:265] = b"ustar  \0"
        if rng.random() < 0.5:
            h[265:265 + 4] = b"root"
        if rng.random() < 0.01:
            h[345:357] = _octal(1700000000, 12, rng)     # atime of `tar --incremental` (CPython takes it for a prefix)
    else:
        assert not prefix
    h[148:156] = b" " * 8
    s = sum(h)
    style = chk_style or rng.choice(["std", "std", "seven"])
    h[148:156] = (b"%06o\0 " % s) if style == "std" else (b"%07o " % s)
    return bytes(h)


def _pad(n):
    return b"\0" * ((512 - n % 512) % 512)


def pax_record(k, v):
    body = b" " + k + b"=" + v + b"\n"
    n = len(body) + 1
    while len(b"%d" % n) + len(body) != n:
        n = len(b"%d" % n) + len(body)
    return (b"%d" % n) + body


def _split_ustar(name):
    """a split prefix / name at a '/', as the USTAR format allows, or None"""
    cands = [i for i, c in enumerate(name) if c == 0x2F and 0 < i <= 155 and 0 < len(name) - i - 1 <= 100]
    return cands


def tar_member(e, rng, allow_rega=True):
    """(bytes of one member including its meta members, description)"""
    kind, name, data, link = e
    flag = KIND_FLAG[kind]
    body = data if kind == "f" else b""
    size = len(body)
    how = []
    long_name, long_link = len(name) > 100, len(link) > 100
    cands = _split_ustar(name)
    # how the member is spelt: plain header | GNU long name/link members | PAX extended header | USTAR prefix
    if long_link:
        scheme = rng.choice(["gnu", "pax"])
    elif long_name:
        scheme = rng.choice(["gnu", "pax"] + (["prefix", "prefix"] if cands else []))
    elif len(name) > 20 and rng.random() < 0.25:
        scheme = rng.choice(["gnu", "pax"] + (["prefix", "prefix"] if cands else []))
    else:
        scheme = "plain"
    meta = b""
    hname, hlink, prefix, paxrecs = name, link, b"", []
    if scheme == "plain":
        fmt = rng.choice(["gnu", "gnu", "ustar", "ustar", "v7", "star"])
    elif scheme == "gnu":
        fmt = "gnu"
        if long_link or (link and rng.random() < 0.2):
            meta += tar_header(b"././@LongLink", b"K", len(link) + 1, "gnu", rng) + link + b"\0" + _pad(len(link) + 1)
            hlink = link[:100]
        if long_name or not long_link or rng.random() < 0.5:
            meta += tar_header(b"././@LongLink", b"L", len(name) + 1, "gnu", rng) + name + b"\0" + _pad(len(name) + 1)
            hname = name[:100]
        how.append("gnu-long")
    elif scheme == "pax":
        fmt = "ustar"
        if long_link or (link and rng.random() < 0.2):
            paxrecs.append((b"linkpath", link))
            hlink = link[:100]
        if long_name or not long_link or rng.random() < 0.5:
            paxrecs.append((b"path", name))
            hname = name[:100] if rng.random() < 0.7 else b"placeholder"
        how.append("pax-path")
    else:
        i = rng.choice(cands)
        fmt = "star" if (i <= 130 and rng.random() < 0.2) else "ustar"
        prefix, hname = name[:i], name[i + 1:]
        how.append("prefix")
    hsize = size
    # PAX records writers add on their own
    if fmt == "ustar" and (paxrecs or rng.random() < 0.12):
        if rng.random() < 0.5:
            paxrecs.append((b"mtime", b"1700000000.123456789"))
        if rng.random() < 0.2:
            paxrecs.append((b"comment", b"written by the C20 generator"))
        if rng.random() < 0.2:
            paxrecs.append((b"uname", b""))
        if kind == "f" and rng.random() < 0.25:
            paxrecs.append((b"size", b"%d" % size))
            how.append("pax-size")
            hsize = 0 if rng.random() < 0.5 else size
    if paxrecs:
        rng.shuffle(paxrecs)
        recs = b"".join(pax_record(k, v) for k, v in paxrecs)
        meta += tar_header(b"PaxHeaders.0/" + hname[:60].replace(b"/", b"_"), b"x", len(recs), "ustar", rng) + recs + _pad(len(recs))
        how.append("pax")
    # type flag spellings
    if kind == "f" and allow_rega and not name.endswith(b"/") and rng.random() < 0.15:
        flag = b"\0"
        how.append("rega")
    if kind == "d" and name.endswith(b"/") and rng.random() < 0.1:
        flag = b"\0"
        how.append("rega-dir")
    if kind == "d" and rng.random() < 0.1:
        hsize = rng.choice([1, 512, 4096])      # header-only type: the size field means nothing
        how.append("dir-size")
    out = meta + tar_header(hname, flag, hsize, fmt, rng, prefix=prefix, link=hlink, mode=0o755 if kind == "d" else 0o644)
    out += body + _pad(len(body))
    how.append(fmt)
    return out, "+".join(how)


def tar_stream(entries, rng):
    """-> (stream bytes, offsets of member boundaries, description, entries as the Go loop sees them)

    The stream ends in one of the ways archives in the wild end."""
    out = b""
    bounds = [0]
    hows = []
    seen = []
    if rng.random() < 0.12:
        # what `git archive` writes first: a global PAX header (a member of its own for archive/tar)
        recs = pax_record(b"comment", b"0123456789abcdef0123456789abcdef01234567")
        out += tar_header(b"pax_global_header", b"g", len(recs), "ustar", rng) + recs + _pad(len(recs))
        bounds.append(len(out))
        hows.append("g")
        seen.append(("o", b"pax_global_header", b"", b""))
    for e in entries:
        b, how = tar_member(e, rng)
        out += b
        bounds.append(len(out))
        hows.append(how)
        seen.append(e)
    end = rng.choice(["marker", "marker", "marker", "record", "record", "junk", "second-archive", "one-zero-block", "none"])
    if end == "marker":
        out += b"\0" * 1024
    elif end == "record":
        out += b"\0" * 1024
        out += b"\0" * ((10240 - len(out) % 10240) % 10240)
    elif end == "junk":
        out += b"\0" * 1024 + bytes(rng.randrange(256) for _ in range(rng.choice([1, 7, 512, 700])))
    elif end == "second-archive":
        # `cat a.tar b.tar`: what follows the first end marker is not part of the archive
        extra, _ = tar_member(("f", b"after-end-marker", b"not part of the archive", b""), rng)
        out += b"\0" * 1024 + extra + b"\0" * 1024
    elif end == "one-zero-block":
        out += b"\0" * 512
    hows.append("end:" + end)
    return out, bounds, " ".join(hows), seen


# ------------------------------------------------------------------------------------------------ gzip

def deflate_member_body(data, rng):
    """a raw DEFLATE stream for `data` in one of several shapes"""
    shape = rng.choice(["stored", "stored-split", "z1", "z6", "z9", "flushed", "fixed"])
    if shape == "stored-split":
        # hand-written stored blocks of random sizes, some empty
        out = b""
        pos = 0
        while True:
            n = min(len(data) - pos, rng.choice([0, 1, 5, 100, 511, 512, 513, 4000, 65535]))
            last = pos + n >= len(data) and rng.random() < 0.7
            out += bytes([1 if last else 0]) + struct.pack("<HH", n, n ^ 0xFFFF) + data[pos:pos + n]
            pos += n
            if last:
                return out, shape
    level = {"stored": 0, "z1": 1, "z6": 6, "z9": 9, "flushed": 6, "fixed": 6}[shape]
    strategy = zlib.Z_FIXED if shape == "fixed" else zlib.Z_DEFAULT_STRATEGY
    co = zlib.compressobj(level, zlib.DEFLATED, -15, 8, strategy)
    if shape == "flushed" and data:
        out = b""
        pos = 0
        while pos < len(data):
            n = rng.choice([1, 100, 512, 3000])
            out += co.compress(data[pos:pos + n])
            out += co.flush(rng.choice([zlib.Z_SYNC_FLUSH, zlib.Z_FULL_FLUSH, zlib.Z_NO_FLUSH]))
            pos += n
        return out + co.flush(), shape
    return co.compress(data) + co.flush(), shape


def gzip_member(data, rng):
    flg = 0
    extra = b""
    opt = b""
    if rng.random() < 0.15:
        flg |= 4
        x = bytes(rng.randrange(256) for _ in range(rng.choice([0, 4, 20])))
        opt += struct.pack("<H", len(x)) + x
    if rng.random() < 0.3:
        flg |= 8
        opt += rng.choice([b"sdk.tar", b"wasi-sdk-25.0-x86_64-linux.tar", b"\xe9t\xe9.tar", b""]) + b"\0"
    if rng.random() < 0.1:
        flg |= 16
        opt += b"a comment" + b"\0"
    if rng.random() < 0.1:
        flg |= 1
    hdr = b"\x1f\x8b\x08" + bytes([flg | (2 if rng.random() < 0.15 else 0)]) + struct.pack("<I", rng.choice([0, 1700000000])) + \
        bytes([rng.choice([0, 2, 4]), rng.choice([3, 0, 255])]) + opt
    if hdr[3] & 2:
        hdr += struct.pack("<H", zlib.crc32(hdr) & 0xFFFF)
    body, shape = deflate_member_body(data, rng)
    return hdr + body + struct.pack("<II", zlib.crc32(data) & 0xFFFFFFFF, len(data) & 0xFFFFFFFF), shape


def cut_points(stream, bounds, rng):
    """where to cut the tar stream into gzip members"""
    k = rng.choice([1, 2, 2, 2, 3, 3, 4, 6])
    cuts = []
    for _ in range(k - 1):
        r = rng.random()
        if r < 0.4 and len(bounds) > 1:
            cuts.append(rng.choice(bounds))                       # on a member boundary
        elif r < 0.55:
            cuts.append(512 * rng.randrange(len(stream) // 512 + 1))   # on a block boundary
        elif r < 0.65 and len(bounds) > 1:
            cuts.append(min(len(stream), rng.choice(bounds[:-1]) + rng.choice([1, 100, 511])))   # inside a header
        else:
            cuts.append(rng.randrange(len(stream) + 1))           # anywhere
    return sorted(cuts)


def gzip_file(stream, cuts, rng):
    out = b""
    shapes = []
    prev = 0
    for c in list(cuts) + [len(stream)]:
        m, shape = gzip_member(stream[prev:c], rng)
        out += m
        shapes.append(shape)
        prev = c
    return out, shapes


def tgz_case(entries, rng):
    stream, bounds, how, seen = tar_stream(entries, rng)
    cuts = cut_points(stream, bounds, rng)
    data, shapes = gzip_file(stream, cuts, rng)
    on = sum(1 for c in cuts if c in bounds)
    return {"fmt": "tgz", "bytes": data, "entries": seen, "wf_container": True,
            "why": "members=%d cuts-on-boundary=%d/%d [%s] tar: %s" % (len(cuts) + 1, on, len(cuts), ",".join(shapes), how),
            "members": len(cuts) + 1}


def damage_tgz(case, rng):
    """a malformed container derived from a well-formed one"""
    data = case["bytes"]
    kind = rng.choice(["truncate-file", "truncate-stream", "trailing-garbage", "trailing-zeros", "flip-trailer", "garbage-between",
                       "bad-checksum", "bad-numeric", "bad-pax", "neg-size", "flip-any", "empty-file", "zero-then-data"])
    stream = b""
    d = data
    try:
        while d:
            o = zlib.decompressobj(31)
            stream += o.decompress(d)
            d = o.unused_data
    except zlib.error:
        pass
    if kind == "truncate-file":
        data = data[:rng.randrange(len(data) + 1)]
    elif kind == "truncate-stream":
        s = stream[:rng.choice([rng.randrange(len(stream) + 1), 512 * rng.randrange(len(stream) // 512 + 1)])]
        data, _ = gzip_file(s, cut_points(s, [0], rng) if rng.random() < 0.5 else [], rng)
    elif kind == "trailing-garbage":
        data = data + bytes(rng.randrange(256) for _ in range(rng.choice([1, 4, 30])))
    elif kind == "trailing-zeros":
        data = data + b"\0" * rng.choice([1, 8, 512])
    elif kind == "flip-trailer":
        i = len(data) - 1 - rng.randrange(8)
        data = data[:i] + bytes([data[i] ^ (1 << rng.randrange(8))]) + data[i + 1:]
    elif kind == "garbage-between":
        a, _ = gzip_member(stream[:len(stream) // 2], rng)
        b, _ = gzip_member(stream[len(stream) // 2:], rng)
        data = a + rng.choice([b"\0", b"\0" * 10, b"junk", b"\x1f\x8b\x07\0\0\0\0\0\0\0", b"\x1f\x8b"]) + b
    elif kind in ("bad-checksum", "bad-numeric", "neg-size", "zero-then-data") and len(stream) >= 512:
        k = 512 * rng.randrange(max(1, len(stream) // 512))
        s = bytearray(stream)
        if kind == "bad-checksum":
            s[k + rng.randrange(512)] ^= 1 << rng.randrange(8)
        elif kind == "zero-then-data":
            s[k:k + 512] = b"\0" * 512
        else:
            blk = bytearray(s[k:k + 512])
            if kind == "bad-numeric":
                off, ln = rng.choice([(100, 8), (108, 8), (116, 8), (124, 12), (136, 12), (329, 8), (337, 8)])
                blk[off:off + ln] = rng.choice([b"8", b"12x", b"-1", b"\xff", b" 9 "]).ljust(ln, b"\0")[:ln]
            else:
                blk[124:136] = b"\xff" * 11 + bytes([rng.randrange(256)])
            blk[148:156] = b" " * 8
            blk[148:156] = b"%06o\0 " % sum(blk)
            s[k:k + 512] = blk
        data, _ = gzip_file(bytes(s), [], rng)
    elif kind == "bad-pax":
        recs = rng.choice([b"12 path=ab\n", b"9 path=a\n\n", b"5 a=\n\n", b"8 pathab\n", b"0 a=b\n", b"99 a=b\n", b"7 =ab\n", b"13 size=-4\n\n",
                           b"12 size=1x\n", b"11 uid=zz\n", b"14 mtime=.5\n\n", b"13 path=a\0b\n", b"+9 a=bcd\n"])
        s = tar_header(b"PaxHeaders/x", b"x", len(recs), "ustar", rng) + recs + _pad(len(recs)) + stream
        data, _ = gzip_file(s, [], rng)
    elif kind == "flip-any":
        i = rng.randrange(len(data))
        data = data[:i] + bytes([data[i] ^ (1 << rng.randrange(8))]) + data[i + 1:]
    elif kind == "empty-file":
        data = rng.choice([b"", b"\x1f", b"\x1f\x8b\x08\0\0\0\0\0\0", b"\x1f\x8b\x08\0\0\0\0\0\0\x03"])
    return {"fmt": "tgz", "bytes": data, "entries": None, "wf_container": False, "why": "damaged:" + kind, "members": 0}


# ------------------------------------------------------------------------------------------------ zip

S_IFDIR, S_IFREG, S_IFLNK = 0o040000, 0o100000, 0o120000
# (name, creator system, how a directory is marked, how a regular file's attributes look)
ZIP_TOOLS = [
    ("infozip-unix", 3), ("python-zipfile", 3), ("go-archive-zip", 3), ("macos-ditto", 19),
    ("windows-fat", 0), ("java-jar", 0), ("7zip-ntfs", 11), ("vfat", 14), ("os2-hpfs", 6),
]


def _deflate_raw(data, rng):
    co = zlib.compressobj(rng.choice([1, 6, 9]), zlib.DEFLATED, -15)
    return co.compress(data) + co.flush()


def _zip_extra(rng, central):
    r = rng.random()
    if r < 0.5:
        return b""
    if r < 0.75:      # extended timestamp: 5 bytes in the central directory, 9 or 13 in the local header
        body = b"\x03" + struct.pack("<I", 1700000000) + (b"" if central else struct.pack("<I", 1700000001))
        return struct.pack("<HH", 0x5455, len(body)) + body
    if r < 0.9:       # Info-ZIP new Unix extra
        body = b"\x01\x04" + struct.pack("<I", 1000) + b"\x04" + struct.pack("<I", 1000)
        return struct.pack("<HH", 0x7875, len(body)) + body
    return struct.pack("<HH", 0xCAFE, 0) + (b"" if central else struct.pack("<HH", 0x000A, 4) + b"\0\0\0\0")


def zip_file(entries, rng, damage=None):
    """-> (bytes, description, members in central-directory order)

    entries: [(kind, name, data, link)], kind d | f | s.  The file is written the way one of several tools would,
    the local records in one order and the central directory in another."""
    tool, system = rng.choice(ZIP_TOOLS)
    hows = [tool]
    recs = []          # per entry: dict with local record bytes and central fields
    for idx, (kind, name, data, link) in enumerate(entries):
        body = link if kind == "s" else (data if kind == "f" else b"")
        nm = name
        attr_dir_only = False
        if kind == "d":
            if nm.endswith(b"/") and nm.rstrip(b"/") and system in (0, 11, 14, 3, 19) and tool != "java-jar" and rng.random() < 0.25:
                # Windows tools and old Info-ZIP: the directory is marked by its attributes, the name carries no slash
                nm = nm.rstrip(b"/")
                name = nm
                attr_dir_only = True
            elif not nm.endswith(b"/"):
                # a directory without the trailing slash: marked by the attributes only (Windows tools; old Info-ZIP)
                if system in (0, 11, 14, 3, 19) and nm and rng.random() < 0.6:
                    attr_dir_only = True
                else:
                    nm = nm + b"/"
        if system in (3, 19):
            mode = (S_IFDIR | 0o755) if kind == "d" else (S_IFLNK | 0o777) if kind == "s" else (S_IFREG | 0o644)
            ext = (mode << 16) | (0x10 if kind == "d" else 0)
            if tool == "go-archive-zip" and kind == "f" and rng.random() < 0.3:
                ext = 0                       # zip.Writer.Create without SetMode
        elif system in (0, 11, 14):
            ext = 0x10 if kind == "d" else 0x20
            if tool == "java-jar":
                ext = 0
                if attr_dir_only:
                    attr_dir_only = False
                    nm = nm + b"/"
        else:
            ext = 0x10 if kind == "d" else 0     # a creator whose attributes archive/zip does not interpret
            if attr_dir_only:
                attr_dir_only = False
                nm = nm + b"/"
        if kind == "s" and system not in (3, 19):
            pass                              # no way to say "symlink": it is a regular file holding the target
        method = 0 if (kind == "d" or not body or rng.random() < 0.4) else 8
        comp = body if method == 0 else _deflate_raw(body, rng)
        crc = zlib.crc32(body) & 0xFFFFFFFF
        flags = 0
        try:
            nm.decode("utf-8")
            if any(c >= 0x80 for c in nm) or rng.random() < 0.2:
                flags |= 0x800
        except UnicodeDecodeError:
            pass
        streamed = kind != "d" and rng.random() < 0.25
        lextra, cextra = _zip_extra(rng, False), _zip_extra(rng, True)
        if streamed:
            flags |= 8
            lcrc, lcs, lus = 0, 0, 0
            dd = (b"PK\x07\x08" if rng.random() < 0.7 else b"") + struct.pack("<III", crc, len(comp), len(body))
        else:
            lcrc, lcs, lus = crc, len(comp), len(body)
            dd = b""
        ver = 20
        lfh = struct.pack("<4sHHHHHIIIHH", b"PK\x03\x04", ver, flags, method, 0x6000, 0x5821, lcrc, lcs, lus, len(nm), len(lextra))
        local = lfh + nm + lextra + comp + dd
        recs.append({"local": local, "name": nm, "flags": flags, "method": method, "crc": crc, "csize": len(comp), "usize": len(body),
                     "ext": ext, "cextra": cextra, "creator": (system << 8) | rng.choice([20, 30, 63]),
                     "comment": b"" if rng.random() < 0.85 else b"entry comment", "entry": (kind, name if not attr_dir_only else name, data, link),
                     "kind": kind})
    # local records: in some order, possibly with orphans (no central header) and gaps
    order = list(range(len(recs)))
    if rng.random() < 0.3:
        rng.shuffle(order)
        hows.append("locals-shuffled")
    prefix = b""
    if rng.random() < 0.2:
        prefix = rng.choice([b"#!/bin/sh\nexec unzip \"$0\"\n", b"MZ" + b"\x90" * 300, b"\0" * 17])
        hows.append("prepended")
    absolute = rng.random() < 0.5          # do the recorded offsets count the prepended bytes?
    out = prefix
    offs = {}
    for i in order:
        if rng.random() < 0.1:
            # an orphan: a local record nobody points to (an older version of a member left behind by `zip -u`)
            orphan = struct.pack("<4sHHHHHIIIHH", b"PK\x03\x04", 20, 0, 0, 0, 0, zlib.crc32(b"old") & 0xFFFFFFFF, 3, 3, 6, 0) + b"orphan" + b"old"
            out += orphan
            hows.append("orphan")
        if rng.random() < 0.05:
            out += b"\0" * rng.choice([1, 4])
            hows.append("gap")
        offs[i] = len(out) - (0 if absolute else len(prefix))
        out += recs[i]["local"]
    # central directory: its own order; possibly the same local record twice
    cd_order = list(range(len(recs)))
    r = rng.random()
    if r < 0.2:
        cd_order.reverse()
        hows.append("cd-reversed")
    elif r < 0.4:
        rng.shuffle(cd_order)
        hows.append("cd-shuffled")
    if cd_order and rng.random() < 0.08:
        cd_order.append(rng.choice(cd_order))
        hows.append("cd-duplicate")
    cd = b""
    for i in cd_order:
        rc = recs[i]
        cd += struct.pack("<4sHHHHHHIIIHHHHHII", b"PK\x01\x02", rc["creator"], 20, rc["flags"], rc["method"], 0x6000, 0x5821, rc["crc"],
                          rc["csize"], rc["usize"], len(rc["name"]), len(rc["cextra"]), len(rc["comment"]), 0, 0, rc["ext"], offs[i])
        cd += rc["name"] + rc["cextra"] + rc["comment"]
    cd_off = len(out) - (0 if absolute else len(prefix))
    comment = b"" if rng.random() < 0.7 else rng.choice([b"made by the C20 generator", b"x" * 300, b"PK"])
    if len(comment) > 30:
        hows.append("long-comment")
    eocd = struct.pack("<4sHHHHIIH", b"PK\x05\x06", 0, 0, len(cd_order), len(cd_order), len(cd), cd_off, len(comment)) + comment
    if prefix and not absolute:
        hows.append("relative-offsets")
    data = out + cd + eocd
    seen = [recs[i]["entry"] for i in cd_order]
    return data, " ".join(hows), seen


def zip_case(entries, rng):
    data, how, seen = zip_file(entries, rng)
    return {"fmt": "zip", "bytes": data, "entries": seen, "wf_container": True, "why": "zip: " + how, "members": 0}


def damage_zip(case, rng):
    data = bytearray(case["bytes"])
    kind = rng.choice(["truncate", "flip-any", "flip-any", "bad-crc", "bad-usize", "bad-csize", "bad-offset", "bad-count", "bad-method",
                       "comment-len", "trailing", "second-eocd", "bad-local-sig", "empty"])
    cds = [i for i in range(len(data) - 4) if data[i:i + 4] == b"PK\x01\x02"]
    eo = data.rfind(b"PK\x05\x06")

    def put(off, fmt, v):
        data[off:off + struct.calcsize(fmt)] = struct.pack(fmt, v)
    if kind == "truncate":
        data = data[:rng.randrange(len(data) + 1)]
    elif kind == "flip-any":
        i = rng.randrange(len(data))
        data[i] ^= 1 << rng.randrange(8)
    elif kind == "empty":
        data = bytearray(rng.choice([b"", b"PK\x05\x06", b"PK\x05\x06" + b"\0" * 18, b"PK\x05\x06" + b"\0" * 17]))
    elif kind == "trailing":
        data += bytes(rng.randrange(256) for _ in range(rng.choice([1, 21, 22, 100])))
    elif kind == "second-eocd":
        data += b"PK\x05\x06" + b"\0" * 16 + struct.pack("<H", rng.choice([0, 5]))
    elif kind == "comment-len" and eo >= 0:
        put(eo + 20, "<H", rng.choice([1, 65535, len(data)]) & 0xFFFF)
    elif kind == "bad-count" and eo >= 0:
        put(eo + 10, "<H", (struct.unpack("<H", data[eo + 10:eo + 12])[0] + rng.choice([1, 65535])) & 0xFFFF)
    elif cds:
        c = rng.choice(cds)
        if kind == "bad-crc":
            put(c + 16, "<I", rng.choice([0, 1, 0xFFFFFFFE]))
        elif kind == "bad-usize":
            u = struct.unpack("<I", data[c + 24:c + 28])[0]
            put(c + 24, "<I", max(0, u + rng.choice([-1, 1, 5, -5])))
        elif kind == "bad-csize":
            u = struct.unpack("<I", data[c + 20:c + 24])[0]
            put(c + 20, "<I", max(0, u + rng.choice([-1, 1, 5, 100000])))
        elif kind == "bad-offset":
            put(c + 42, "<I", rng.choice([len(data), len(data) - 3, 1, 0x7FFFFFFF]))
        elif kind == "bad-method":
            put(c + 10, "<H", rng.choice([1, 9, 12, 99]))
        elif kind == "bad-local-sig":
            o = struct.unpack("<I", data[c + 42:c + 46])[0]
            if o + 4 <= len(data):
                data[o + 3] ^= 1
    return {"fmt": "zip", "bytes": bytes(data), "entries": None, "wf_container": False, "why": "damaged-zip:" + kind, "members": 0}


# ------------------------------------------------------------------------------------------------ CPython as the independent reader

def oracle_entries(fmt, data):
    """the members of the archive as CPython's readers see them: [(kind, name, data)] with kind in d f s h o,
    or None when CPython rejects the file"""
    import gzip as _gzip
    import tarfile
    import zipfile
    try:
        if fmt == "tgz":
            raw = _gzip.decompress(data)
            out = []
            with tarfile.open(fileobj=io.BytesIO(raw), mode="r:", encoding="utf-8", errors="surrogateescape") as tf:
                for ti in tf:
                    nm = ti.name.encode("utf-8", "surrogateescape")
                    if ti.isdir():
                        out.append(("d", nm, b""))
                    elif ti.isreg():
                        out.append(("f", nm, tf.extractfile(ti).read()))
                    elif ti.issym():
                        out.append(("s", nm, b""))
                    elif ti.islnk():
                        out.append(("h", nm, b""))
                    else:
                        out.append(("o", nm, b""))
            return out
        if fmt == "zip":
            out = []
            with zipfile.ZipFile(io.BytesIO(data)) as zf:
                for zi in zf.infolist():
                    nm = zi.orig_filename.encode("utf-8" if zi.flag_bits & 0x800 else "cp437")
                    out.append(("d" if zi.is_dir() else "f", nm, b"" if zi.is_dir() else zf.read(zi)))
            return out
    except Exception:
        return None
    return None


def same_meaning_zip(entries, seen):
    """zip: CPython confirms the order of the central directory, the names and the contents; whether a member without
    a trailing '/' is a directory is a matter of the creator's attribute convention, which CPython 3.11 does not read"""
    if len(entries) != len(seen):
        return False
    for (k, n, d, l), (k2, n2, d2) in zip(entries, seen):
        body = l if k == "s" else (d if k == "f" else b"")
        if k == "d":
            if n.rstrip(b"/") != n2.rstrip(b"/") or d2 != b"":
                return False
        elif n.endswith(b"/"):
            # a non-directory member whose name ends in '/': every reader takes it for a directory (not a well-formed
            # archive for the purpose of `preserve`; Spec/Extract.lean says so too)
            if n != n2 or k2 != "d":
                return False
        elif n != n2 or body != d2 or k2 == "d":
            return False
    return True


def same_meaning(entries, seen):
    """intended members vs what CPython read (names of directories modulo trailing '/'; global PAX headers are
    members only for archive/tar)"""
    a = [(k if k in "dfsh" else "o", n.rstrip(b"/") if k != "f" else n, d if k == "f" else b"") for (k, n, d, l) in entries
         if not (k == "o" and n == b"pax_global_header")]
    b = [(k, n.rstrip(b"/") if k != "f" else n, d) for (k, n, d) in seen]
    return a == b
