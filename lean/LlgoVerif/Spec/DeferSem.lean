import LlgoVerif.Model.Defer
/-!
# Specification: Go's defer / panic / recover rules as a stack machine (C04)

Go spec, "Defer statements", "Handling panics", "Run-time panics":

* each **executed** `defer` statement pushes the call — function value and arguments evaluated at the
  statement — on the function's stack of deferred calls;
* when the function returns, panics, (or its goroutine exits,) the deferred calls are popped and run,
  last in first out, until the stack is empty — also when one of them panics;
* a panic raised while deferred calls run replaces the current one;
* `recover()` returns the current panic value and stops the panicking sequence only when it is called
  **directly by a deferred function** that is being run **because of that panic**; in every other
  situation it returns nil; after a recovery the function returns normally to its caller, with the
  current values of its named results;
* deferred closures read and write the variables (and named results) of the function that created them.

Two layers, mirroring `Model/Defer.lean`: `Spec.unwind` (one function's stack, generic in how a call is
executed) and `Spec.execFn` (whole programs).  The program layer has no global panic state at all: the
panic being handled is passed down to the deferred call (`cur`) and "recovered" is passed up.

The spec is validated on every run of the check against the reference toolchain (`go build` of the same
generated program).
-/
namespace LlgoVerif.Defer

namespace Spec

section frame
variable {α σ ε : Type}

/-- the call a deferred-stack entry stands for (`node` only says whether the call carries a payload) -/
def callOf (ss : List Stmt) (e : Nat × α) : Call α :=
  match ss[e.1]? with
  | some s => if s.pushes then ⟨e.1, some ⟨e.1, e.2⟩⟩ else ⟨e.1, none⟩
  | none => ⟨e.1, none⟩

/-- Pop and run until the stack is empty (`stack`: most recent first). A panic of a deferred call
    (`landed`) does not stop the remaining calls. -/
def unwind (ss : List Stmt) (exec : Call α → σ → Out ε × σ) :
    List (Nat × α) → σ → List (Call α) → σ × List (Call α) × Option ε
  | [], st, log => (st, log.reverse, none)
  | e :: rest, st, log =>
    let c := callOf ss e
    match exec c st with
    | (.escaped x, st') => (st', (c :: log).reverse, some x)
    | (_, st') => unwind ss exec rest st' (c :: log)

/-- What the property demands of a frame: the executed defer statements `hist` (oldest first), run in
    reverse order. -/
def unwindView (ss : List Stmt) (exec : Call α → σ → Out ε × σ) (hist : List (Nat × α)) (st : σ) :
    σ × List (Call α) × Option ε :=
  unwind ss exec hist.reverse st []

end frame

/-! ## Programs -/

inductive SRes
  | ret (v : Int) (recovered : Bool)      -- returned normally; `recovered`: it consumed the panic it was run for
  | panic (v : Int) (recovered : Bool)    -- panicking with `v`
  | stuck
  deriving DecidableEq, Repr

structure SSt where
  out : List Line
  store : List Loc
  /-- scratch register of the unwinding in progress: the panic value it is unwinding for -/
  mode : Option Int
  /-- ghost: number of enclosing unwindings that are panicking -/
  depth : Nat
  flags : List Flag
  deriving Repr

def SSt.init : SSt := ⟨[], [], none, 0, []⟩
def SSt.emit (st : SSt) (l : Line) : SSt := { st with out := l :: st.out }
def SSt.flag (st : SSt) (f : Flag) : SSt := if st.flags.contains f then st else { st with flags := f :: st.flags }
def SSt.loc (st : SSt) (a : Nat) : Loc := st.store.getD a default
def SSt.setLoc (st : SSt) (a : Nat) (l : Loc) : SSt := { st with store := st.store.set a l }

abbrev CallFn := (g : Nat) → (args : List Int) → (up : Option Nat) → (cur : Option Int) → SSt → SSt × SRes

/-- activation state -/
structure Act where
  id : Nat
  stack : List (Nat × Pay)      -- deferred calls, most recent first
  recd : Bool                   -- this activation recovered the panic it was run for

inductive BodyEnd
  | normal
  | panic (v : Int)
  | stuck

def target (up : Bool) (upId : Option Nat) (a : Act) : Nat := if up then upId.getD a.id else a.id

def runBody (callFn : CallFn) (f : Fn) (upId : Option Nat) (cur : Option Int) :
    List Ev → Act → SSt → Act × SSt × BodyEnd
  | [], a, st => (a, st, .normal)
  | ev :: rest, a, st =>
    let l := st.loc a.id
    match ev with
    | .defer k args =>
      let s := f.stmts.getD k default
      let pay : Pay := ⟨s.fn, a.id, args.map (evalArg l)⟩
      runBody callFn f upId cur rest { a with stack := (k, pay) :: a.stack } st
    | .call g args =>
      match callFn g (args.map (evalArg l)) none none st with
      | (st', .ret v _) => runBody callFn f upId cur rest a (st'.emit ⟨.T, [g, v]⟩)
      | (st', .panic v _) => (a, st', .panic v)
      | (st', .stuck) => (a, st', .stuck)
    | .mark m => runBody callFn f upId cur rest a (st.emit ⟨.M, [m]⟩)
    | .panic arg => (a, st, .panic (evalArg l arg))
    | .fault => (a, st, .panic rtVal)
    | .recover =>
      match cur, a.recd with
      | some v, false => runBody callFn f upId cur rest { a with recd := true } (st.emit ⟨.R, [v]⟩)
      | _, _ =>
        let st := if st.depth > 0 then st.flag .recoverIndirect else st
        runBody callFn f upId cur rest a (st.emit ⟨.Rnil, []⟩)
    | .ret => (a, st, .normal)
    | .entryEnd => runBody callFn f upId cur rest a st      -- where the compiler sets up its frame: no meaning in Go
    | .set up v arg =>
      let t := target up upId a
      runBody callFn f upId cur rest a (st.setLoc t ((st.loc t).put v (evalArg l arg)))
    | .add up v arg =>
      let t := target up upId a
      runBody callFn f upId cur rest a (st.setLoc t ((st.loc t).put v ((st.loc t).get v + evalArg l arg)))
    | .show up v =>
      let t := target up upId a
      runBody callFn f upId cur rest a (st.emit ⟨.V, [varCode v, (st.loc t).get v]⟩)

/-- run one deferred call; the current panic (if any) is in `st.mode` -/
def execCall (callFn : CallFn) (f : Fn) (outerDepth : Nat) (c : Call Pay) (st : SSt) : Out Unit × SSt :=
  match f.stmts[c.stmt]? with
  | none => (.escaped (), st)
  | some s =>
    let m := st.mode
    let st := { st with depth := outerDepth + (if m.isSome then 1 else 0) }
    let r := match c.node with
      | none => callFn s.fn [] none m st
      | some nd => if s.clo then callFn nd.val.cfn nd.val.args (some nd.val.ctx) m st else callFn s.fn nd.val.args none m st
    match r with
    | (st', .ret _ rec) =>
      if m.isSome && rec then
        -- recovered: the panicking sequence stops; the remaining deferred calls run normally
        let st' := if outerDepth > 0 then st'.flag .nestedRecover else st'
        (.ok, { st' with mode := none, depth := outerDepth })
      else (.ok, { st' with mode := m, depth := outerDepth })
    | (st', .panic v _) => (.landed, { st' with mode := some v, depth := outerDepth })   -- replaces the current panic
    | (st', .stuck) => (.escaped (), st')

def execFn (p : Prog) : Nat → Nat → List Int → Option Nat → Option Int → SSt → SSt × SRes
  | 0, _, _, _, _, st => (st, .stuck)
  | fuel + 1, g, args, up, cur, st =>
    match p.fns[g]? with
    | none => (st, .stuck)
    | some f =>
      let id := st.store.length
      let st := { st with store := st.store ++ [(⟨0, 0, args⟩ : Loc)] }
      let st := st.emit ⟨.F, (g : Int) :: args⟩
      let outerDepth := st.depth
      let (a, st, be) := runBody (execFn p fuel) f up cur f.body ⟨id, [], false⟩ st
      match be with
      | .stuck => (st, .stuck)
      | be =>
        let m : Option Int := match be with | .panic v => some v | _ => none
        let (st, _, esc) := unwind f.stmts (execCall (execFn p fuel) f outerDepth) a.stack { st with mode := m } []
        match esc with
        | some _ => (st, .stuck)
        | none =>
          match st.mode with
          | none => ({ st with depth := outerDepth }, .ret (st.loc id).r a.recd)
          | some v => ({ st with mode := none, depth := outerDepth }, .panic v a.recd)

def run (p : Prog) (fuel : Nat) : SSt × SRes :=
  match execFn p fuel 0 [] none none SSt.init with
  | (st, .ret v r) => (st.emit ⟨.T, [0, v]⟩, .ret v r)
  | r => r

end Spec

end LlgoVerif.Defer
