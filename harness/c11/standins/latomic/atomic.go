// Package atomic: stand-in for github.com/goplus/llgo/runtime/internal/lib/sync/atomic (whose functions are
// body-less llgo intrinsics) for the native-copy route of C11.  Every operation is ONE scheduling point of the
// psync scheduler followed by the indivisible effect: the thread parks *before* the access, the driver decides
// who runs next, and the access itself then happens without interruption (only one psync thread runs at a time).
// Indivisibility of the real instruction is the subject of tie (A) (regenerated atomics table), not of this file.
package atomic

import (
	"unsafe"

	"github.com/goplus/llgo/runtime/internal/vn/psync"
)

// YieldAfter adds a second scheduling point AFTER every access ("fine" mode of the harness).  The code under test keeps
// its non-atomic shared fields (st.waiters) under a mutex, so the coarse mode (park before the access only) already
// shows every interleaving of the code as it is; the fine mode also separates an atomic access from the plain code that
// follows it, which is what exposes a change that moves such a field out of the lock.  It is used for the search of
// failing schedules judged against the specification (no model comparison).
var YieldAfter bool

// Observe32 (harness observation point, nil by default) sees every AddInt32 / CompareAndSwapInt32 at the moment of its
// indivisible effect: kind "add" (old value, new value, true) or "cas" (expected value, new value, whether it succeeded).
var Observe32 func(kind string, addr *int32, old, new int32, ok bool)

func after(what string) {
	if YieldAfter {
		psync.Yield(what + "+")
	}
}

func LoadUint32(addr *uint32) uint32    { psync.Yield("ld"); r := *addr; after("ld"); return r }
func LoadInt32(addr *int32) int32       { psync.Yield("ld"); r := *addr; after("ld"); return r }
func LoadUint64(addr *uint64) uint64    { psync.Yield("ld"); r := *addr; after("ld"); return r }
func LoadInt64(addr *int64) int64       { psync.Yield("ld"); r := *addr; after("ld"); return r }
func LoadUintptr(addr *uintptr) uintptr { psync.Yield("ld"); r := *addr; after("ld"); return r }
func LoadPointer(addr *unsafe.Pointer) unsafe.Pointer {
	psync.Yield("ld")
	r := *addr
	after("ld")
	return r
}

func StoreUint32(addr *uint32, v uint32)                  { psync.Yield("st"); *addr = v; after("st") }
func StoreInt32(addr *int32, v int32)                     { psync.Yield("st"); *addr = v; after("st") }
func StoreUint64(addr *uint64, v uint64)                  { psync.Yield("st"); *addr = v; after("st") }
func StoreInt64(addr *int64, v int64)                     { psync.Yield("st"); *addr = v; after("st") }
func StoreUintptr(addr *uintptr, v uintptr)               { psync.Yield("st"); *addr = v; after("st") }
func StorePointer(addr *unsafe.Pointer, v unsafe.Pointer) { psync.Yield("st"); *addr = v; after("st") }

func AddUint32(addr *uint32, d uint32) uint32 {
	psync.Yield("add")
	*addr += d
	r := *addr
	after("add")
	return r
}
func AddInt32(addr *int32, d int32) int32 {
	psync.Yield("add")
	*addr += d
	r := *addr
	if Observe32 != nil {
		Observe32("add", addr, r-d, r, true)
	}
	after("add")
	return r
}
func AddUint64(addr *uint64, d uint64) uint64 {
	psync.Yield("add")
	*addr += d
	r := *addr
	after("add")
	return r
}
func AddInt64(addr *int64, d int64) int64 {
	psync.Yield("add")
	*addr += d
	r := *addr
	after("add")
	return r
}
func AddUintptr(addr *uintptr, d uintptr) uintptr {
	psync.Yield("add")
	*addr += d
	r := *addr
	after("add")
	return r
}

func SwapUint32(addr *uint32, v uint32) uint32 {
	psync.Yield("swap")
	o := *addr
	*addr = v
	r := o
	after("swap")
	return r
}
func SwapInt32(addr *int32, v int32) int32 {
	psync.Yield("swap")
	o := *addr
	*addr = v
	r := o
	after("swap")
	return r
}
func SwapUint64(addr *uint64, v uint64) uint64 {
	psync.Yield("swap")
	o := *addr
	*addr = v
	r := o
	after("swap")
	return r
}
func SwapInt64(addr *int64, v int64) int64 {
	psync.Yield("swap")
	o := *addr
	*addr = v
	r := o
	after("swap")
	return r
}
func SwapUintptr(addr *uintptr, v uintptr) uintptr {
	psync.Yield("swap")
	o := *addr
	*addr = v
	r := o
	after("swap")
	return r
}
func SwapPointer(addr *unsafe.Pointer, v unsafe.Pointer) unsafe.Pointer {
	psync.Yield("swap")
	o := *addr
	*addr = v
	after("swap")
	return o
}

func CompareAndSwapUint32(addr *uint32, old, new uint32) bool {
	psync.Yield("cas")
	if *addr == old {
		*addr = new
		after("cas")
		return true
	}
	after("cas")
	return false
}
func CompareAndSwapInt32(addr *int32, old, new int32) bool {
	psync.Yield("cas")
	if Observe32 != nil {
		Observe32("cas", addr, old, new, *addr == old)
	}
	if *addr == old {
		*addr = new
		after("cas")
		return true
	}
	after("cas")
	return false
}
func CompareAndSwapUint64(addr *uint64, old, new uint64) bool {
	psync.Yield("cas")
	if *addr == old {
		*addr = new
		after("cas")
		return true
	}
	after("cas")
	return false
}
func CompareAndSwapInt64(addr *int64, old, new int64) bool {
	psync.Yield("cas")
	if *addr == old {
		*addr = new
		after("cas")
		return true
	}
	after("cas")
	return false
}
func CompareAndSwapUintptr(addr *uintptr, old, new uintptr) bool {
	psync.Yield("cas")
	if *addr == old {
		*addr = new
		after("cas")
		return true
	}
	after("cas")
	return false
}
func CompareAndSwapPointer(addr *unsafe.Pointer, old, new unsafe.Pointer) bool {
	psync.Yield("cas")
	if *addr == old {
		*addr = new
		after("cas")
		return true
	}
	after("cas")
	return false
}

// ---- typed atomics (used by Go's own sync sources in the layered harness); same discipline: yield, then act.

type Int32 struct{ v int32 }

func (x *Int32) Load() int32                    { return LoadInt32(&x.v) }
func (x *Int32) Store(v int32)                  { StoreInt32(&x.v, v) }
func (x *Int32) Swap(v int32) int32             { return SwapInt32(&x.v, v) }
func (x *Int32) CompareAndSwap(o, n int32) bool { return CompareAndSwapInt32(&x.v, o, n) }
func (x *Int32) Add(d int32) int32              { return AddInt32(&x.v, d) }

type Uint32 struct{ v uint32 }

func (x *Uint32) Load() uint32                    { return LoadUint32(&x.v) }
func (x *Uint32) Store(v uint32)                  { StoreUint32(&x.v, v) }
func (x *Uint32) Swap(v uint32) uint32            { return SwapUint32(&x.v, v) }
func (x *Uint32) CompareAndSwap(o, n uint32) bool { return CompareAndSwapUint32(&x.v, o, n) }
func (x *Uint32) Add(d uint32) uint32             { return AddUint32(&x.v, d) }

type Int64 struct{ v int64 }

func (x *Int64) Load() int64                    { return LoadInt64(&x.v) }
func (x *Int64) Store(v int64)                  { StoreInt64(&x.v, v) }
func (x *Int64) Swap(v int64) int64             { return SwapInt64(&x.v, v) }
func (x *Int64) CompareAndSwap(o, n int64) bool { return CompareAndSwapInt64(&x.v, o, n) }
func (x *Int64) Add(d int64) int64              { return AddInt64(&x.v, d) }

type Uint64 struct{ v uint64 }

func (x *Uint64) Load() uint64                    { return LoadUint64(&x.v) }
func (x *Uint64) Store(v uint64)                  { StoreUint64(&x.v, v) }
func (x *Uint64) Swap(v uint64) uint64            { return SwapUint64(&x.v, v) }
func (x *Uint64) CompareAndSwap(o, n uint64) bool { return CompareAndSwapUint64(&x.v, o, n) }
func (x *Uint64) Add(d uint64) uint64             { return AddUint64(&x.v, d) }

type Uintptr struct{ v uintptr }

func (x *Uintptr) Load() uintptr                    { return LoadUintptr(&x.v) }
func (x *Uintptr) Store(v uintptr)                  { StoreUintptr(&x.v, v) }
func (x *Uintptr) CompareAndSwap(o, n uintptr) bool { return CompareAndSwapUintptr(&x.v, o, n) }
func (x *Uintptr) Add(d uintptr) uintptr            { return AddUintptr(&x.v, d) }

type Bool struct{ v uint32 }

func (x *Bool) Load() bool { return LoadUint32(&x.v) != 0 }
func (x *Bool) Store(b bool) {
	if b {
		StoreUint32(&x.v, 1)
	} else {
		StoreUint32(&x.v, 0)
	}
}
