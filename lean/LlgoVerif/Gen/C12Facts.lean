import LlgoVerif.Spec.InitShape
/-! REGENERATED on every run of ./check C12 from the IR llgo emits for generated module trees
    (harness/c12/treegen.py, harness/c12/irfacts.py). Do not edit. -/
namespace LlgoVerif.Gen.C12
open LlgoVerif.Init

/-- number of facts about patched std packages at the head of `facts` -/
def nStd : Nat := 2

def facts : List InitFact := [
  -- sync/atomic.init (replacement, chained=True)
  { id := 0, hasPatchFn := false, chained := true,
    toks := [.loadGuard, .brGuard .ret .body, .storeGuard, .callHasPatch, .brRet],
    imports := [], goList := [] },
  -- sync/atomic.init$hasPatch (original)
  { id := 0, hasPatchFn := true, chained := true,
    toks := [.loadGuard, .brGuard .body .ret, .storeGuard, .brRet],
    imports := [], goList := [] },
  -- c12f/t0/tr.init
  { id := 0, hasPatchFn := false, chained := false,
    toks := [.loadGuard, .brGuard .ret .body, .storeGuard, .act, .brRet],
    imports := [], goList := [] },
  -- c12f/t0/sierra.init
  { id := 1, hasPatchFn := false, chained := false,
    toks := [.loadGuard, .brGuard .ret .body, .storeGuard, .callInit 0, .act, .brRet],
    imports := [0], goList := [0] },
  -- c12f/t0/omega.init
  { id := 2, hasPatchFn := false, chained := false,
    toks := [.loadGuard, .brGuard .ret .body, .storeGuard, .callInit 0, .act, .brRet],
    imports := [0], goList := [0] },
  -- c12f/t0/deep/mid.init
  { id := 3, hasPatchFn := false, chained := false,
    toks := [.loadGuard, .brGuard .ret .body, .storeGuard, .callInit 0, .callInit 1, .callInit 2, .act, .brRet],
    imports := [0, 1, 2], goList := [0, 1, 2] },
  -- c12f/t0/able.init
  { id := 4, hasPatchFn := false, chained := false,
    toks := [.loadGuard, .brGuard .ret .body, .storeGuard, .callInit 0, .callInit 3, .act, .brRet],
    imports := [0, 3], goList := [0, 3] },
  -- c12f/t0/deep/bravo.init
  { id := 5, hasPatchFn := false, chained := false,
    toks := [.loadGuard, .brGuard .ret .body, .storeGuard, .callInit 0, .callInit 4, .callInit 2, .act, .brRet],
    imports := [0, 4, 2], goList := [0, 2, 4] },
  -- c12f/t0.init
  { id := 7, hasPatchFn := false, chained := false,
    toks := [.loadGuard, .brGuard .ret .body, .storeGuard, .callInit 4, .callInit 5, .callInit 0, .act, .brRet],
    imports := [4, 5, 0], goList := [0, 4, 5] },
  -- c12f/t1/tr.init
  { id := 0, hasPatchFn := false, chained := false,
    toks := [.loadGuard, .brGuard .ret .body, .storeGuard, .act, .brRet],
    imports := [], goList := [] },
  -- c12f/t1/echo.init
  { id := 1, hasPatchFn := false, chained := false,
    toks := [.loadGuard, .brGuard .ret .body, .storeGuard, .callInit 0, .act, .brRet],
    imports := [0], goList := [0] },
  -- c12f/t1/bravo.init
  { id := 2, hasPatchFn := false, chained := false,
    toks := [.loadGuard, .brGuard .ret .body, .storeGuard, .callInit 0, .callInit 1, .act, .brRet],
    imports := [0, 1], goList := [0, 1] },
  -- c12f/t1.init
  { id := 3, hasPatchFn := false, chained := false,
    toks := [.loadGuard, .brGuard .ret .body, .storeGuard, .callInit 0, .callInit 2, .act, .brRet],
    imports := [0, 2], goList := [0, 2] }]

def entries : List EntryFact := [
  -- c12f/t0
  { calls := [.rtInit, .runtimeInit, .mainInit, .mainMain] },
  -- c12f/t1
  { calls := [.rtInit, .runtimeInit, .mainInit, .mainMain] }]

end LlgoVerif.Gen.C12
