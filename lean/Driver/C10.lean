import Std.Data.HashMap
import LlgoVerif.Util
import LlgoVerif.Model.Chan
/-! Line-protocol driver for C10 (channels under a controllable scheduler).

    reset | variant current|fixed | chan <cap> | thread <op>…      configuration (answers `ok`); the variant
                                           (which z_chan.go the model mirrors, see `Cfg`) survives `reset`
      op:  s<c>:<v>  r<c>  c<c>  S:b:<cases>  S:n:<cases>     cases: `-` or `,`-separated  s<c>=<v> | r<c>   (<c> = N: nil channel)
    step <t> | wake <t>                    one scheduler choice; answers the observable state or `bad-step`
    prio <t>,<t>,… | auto                  `auto` steps the first runnable thread of the priority list
    state | dump                           observable state | full model state (diagnostics)
    explore <maxStates> <wakes 0|1>        breadth-first exploration of the model's state graph from the
                                           current state; answers schedules that cover every transition -/
open LlgoVerif LlgoVerif.Util LlgoVerif.Chan

instance : Inhabited Choice := ⟨.step 0⟩
instance : Inhabited State := ⟨init .current [] []⟩

structure D where
  caps : List Nat := []
  progs : List (List Op) := []
  cur : State := init .current [] []
  cfg : Cfg := .current
  prio : List Nat := []

def parseCase (s : String) : Option Case :=
  match s.toList with
  | 's' :: rest =>
    match (String.ofList rest).splitOn "=" with
    | [c, v] =>
      if c == "N" then do pure { c := 0, send := true, v := (← v.toNat?), isNil := true }
      else do pure { c := (← c.toNat?), send := true, v := (← v.toNat?), isNil := false }
    | _ => none
  | 'r' :: rest =>
    if String.ofList rest == "N" then some { c := 0, send := false, v := 0, isNil := true }
    else do pure { c := (← (String.ofList rest).toNat?), send := false, v := 0, isNil := false }
  | _ => none

def parseOp (s : String) : Option Op :=
  match s.splitOn ":" with
  | ["S", b, cs] =>
    let blocking := b == "b"
    if cs == "-" then some (.select [] blocking)
    else do
      let cases ← (cs.splitOn ",").mapM parseCase
      pure (.select cases blocking)
  | [a, v] =>
    match a.toList with
    | 's' :: rest => do pure (.send (← (String.ofList rest).toNat?) (← v.toNat?))
    | _ => none
  | [a] =>
    match a.toList with
    | 'r' :: rest => do pure (.recv (← (String.ofList rest).toNat?))
    | 'c' :: rest => do pure (.close (← (String.ofList rest).toNat?))
    | _ => none
  | _ => none

def natList (l : List Nat) (sep : String) : String :=
  if l.isEmpty then "-" else sep.intercalate (l.map toString)

def b01 (b : Bool) : String := if b then "1" else "0"

def showStray (st : List (Nat × Val)) : String :=
  String.join (st.map fun (k, v) => s!"!{k}/{v}")

def showRes : Res → String
  | .sent _ _ => "S"
  | .closed => "C"
  | .recv _ v ok => s!"R{v}/{b01 ok}"
  | .sel i v ok st => s!"L{i}/{v}/{b01 ok}{showStray st}"
  | .dflt st => s!"D{showStray st}"
  | .panic => "P"

def showState (s : State) : String :=
  let ids := List.range s.threads.length
  let r := ids.filter (runnable s)
  let w := ids.filter fun t => (s.thread t).waiting && (s.thread t).pc != .done
  let cs := s.chans.map fun ch => s!"{ch.len}:{b01 ch.closed}:{natList ch.contents "."}"
  let ts := s.threads.map fun th =>
    let pend := if th.pc == .done then [] else strays th.rv 0 none
    s!"{b01 (th.pc == .done)}:{if th.res.isEmpty then "-" else ".".intercalate (th.res.map showRes)}:{if pend.isEmpty then "-" else ".".intercalate (pend.map fun (k, v) => s!"{k}/{v}")}"
  s!"R={natList r ","} W={natList w ","} C {" ".intercalate cs} T {" ".intercalate ts}"

def choices (s : State) (wakes : Bool) : List Choice :=
  let ids := List.range s.threads.length
  (ids.filter (runnable s)).map Choice.step ++
    (if wakes then (ids.filter fun t => (s.thread t).waiting && (s.thread t).pc != .done).map Choice.wake else [])

def showChoice : Choice → String
  | .step t => s!"s{t}"
  | .wake t => s!"w{t}"

structure Ex where
  ids : Std.HashMap State Nat := {}
  parent : Array (Nat × Choice) := #[]     -- for state i > 0: (parent id, choice)
  states : Array State := #[]
  out : Array String := #[]
  trans : Nat := 0
  term : Nat := 0

def pathTo (e : Ex) (i : Nat) : List Choice := Id.run do
  let mut acc : List Choice := []
  let mut j := i
  for _ in [0:e.states.size] do
    if j == 0 then break
    let (p, c) := e.parent[j]!
    acc := c :: acc
    j := p
  return acc

def showSched (l : List Choice) : String := if l.isEmpty then "-" else ",".intercalate (l.map showChoice)

def explore (s0 : State) (maxStates : Nat) (wakes : Bool) : String := Id.run do
  let mut e : Ex := { ids := (({} : Std.HashMap State Nat).insert s0 0), parent := #[(0, .step 0)], states := #[s0] }
  let mut i := 0
  let mut trunc := false
  while i < e.states.size do
    let s := e.states[i]!
    let cs := choices s wakes
    if cs.isEmpty then
      e := { e with term := e.term + 1, out := e.out.push (showSched (pathTo e i)) }
    for c in cs do
      match Chan.apply s c with
      | none => pure ()
      | some s' =>
        e := { e with trans := e.trans + 1 }
        match e.ids[s']? with
        | some _ => e := { e with out := e.out.push (showSched (pathTo e i ++ [c])) }
        | none =>
          if e.states.size ≥ maxStates then
            trunc := true
            e := { e with out := e.out.push (showSched (pathTo e i ++ [c])) }
          else
            let id := e.states.size
            e := { e with ids := e.ids.insert s' id, parent := e.parent.push (i, c), states := e.states.push s' }
    i := i + 1
  return s!"explored states={e.states.size} trans={e.trans} term={e.term} trunc={b01 trunc} {";".intercalate e.out.toList}"

def handle (d : D) (line : String) : D × String :=
  match fields line with
  | ["reset"] => ({ cfg := d.cfg }, "ok")
  | ["variant", v] =>
    if v == "current" then ({ d with cfg := .current, cur := init .current d.caps d.progs }, "ok")
    else if v == "fixed" then ({ d with cfg := .fixed, cur := init .fixed d.caps d.progs }, "ok")
    else (d, "bad-op")
  | ["chan", n] =>
    match n.toNat? with
    | some n => let caps := d.caps ++ [n]; ({ d with caps := caps, cur := init d.cfg caps d.progs }, "ok")
    | none => (d, "bad-op")
  | "thread" :: toks =>
    match toks.mapM parseOp with
    | some ops => let progs := d.progs ++ [ops]; ({ d with progs := progs, cur := init d.cfg d.caps progs }, "ok")
    | none => (d, "bad-op")
  | ["step", t] =>
    match t.toNat? with
    | some t => match step d.cur t with
      | some s' => ({ d with cur := s' }, showState s')
      | none => (d, "bad-step")
    | none => (d, "bad-op")
  | ["wake", t] =>
    match t.toNat? with
    | some t => match wake d.cur t with
      | some s' => ({ d with cur := s' }, showState s')
      | none => (d, "bad-step")
    | none => (d, "bad-op")
  | ["prio", l] =>
    match (l.splitOn ",").mapM String.toNat? with
    | some p => ({ d with prio := p }, "ok")
    | none => (d, "bad-op")
  | ["auto"] =>
    match d.prio.find? (runnable d.cur) with
    | some t => match step d.cur t with
      | some s' => ({ d with cur := s' }, s!"t{t} " ++ showState s')
      | none => (d, "bad-step")
    | none => (d, "stuck " ++ showState d.cur)
  | ["state"] => (d, showState d.cur)
  | ["dump"] => (d, (toString (repr d.cur)).replace "\n" " ")
  | ["explore", m, w] =>
    match m.toNat? with
    | some m => (d, explore d.cur m (w == "1"))
    | none => (d, "bad-op")
  | _ => (d, "bad-op")

def main : IO Unit := lineLoopSt ({} : D) handle
