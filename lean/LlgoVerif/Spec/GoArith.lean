/-!
The Go specification of integer arithmetic, shifts, comparisons and conversions, stated on the
mathematical value (`Int`) of a `w`-bit operand: `val signed x`.  Results wrap modulo `2^w`
(`BitVec.ofInt`).  Division truncates toward zero (`Int.tdiv`, `Int.tmod`); division by zero and
negative shift counts are run-time panics.
-/
namespace LlgoVerif.GoArith

inductive Panic where
  | divZero | negShift
deriving DecidableEq, Repr

/-- the mathematical value of an operand of a signed / unsigned `w`-bit type -/
def val (signed : Bool) (x : BitVec w) : Int := if signed then x.toInt else (x.toNat : Int)

def add (s : Bool) (x y : BitVec w) : BitVec w := BitVec.ofInt w (val s x + val s y)
def sub (s : Bool) (x y : BitVec w) : BitVec w := BitVec.ofInt w (val s x - val s y)
def mul (s : Bool) (x y : BitVec w) : BitVec w := BitVec.ofInt w (val s x * val s y)
def neg (s : Bool) (x : BitVec w) : BitVec w := BitVec.ofInt w (- val s x)

/-- `x / y`: truncated toward zero; panics iff `y = 0`; `minInt / -1 = minInt` follows from wrap-around -/
def quo (s : Bool) (x y : BitVec w) : Except Panic (BitVec w) :=
  if val s y = 0 then .error .divZero else .ok (BitVec.ofInt w ((val s x).tdiv (val s y)))
/-- `x % y`: sign of the dividend; panics iff `y = 0`; `minInt % -1 = 0` -/
def rem (s : Bool) (x y : BitVec w) : Except Panic (BitVec w) :=
  if val s y = 0 then .error .divZero else .ok (BitVec.ofInt w ((val s x).tmod (val s y)))

/-- `x << n` for a count `n ≥ 0`: `x * 2^n` wrapped. (Mathematical form; `shlE` is the evaluation-safe form.) -/
def shlMath (s : Bool) (x : BitVec w) (n : Nat) : BitVec w := BitVec.ofInt w (val s x * 2 ^ n)
/-- `x >> n`: floor division by `2^n` (sign fill for signed operands) -/
def shrMath (s : Bool) (x : BitVec w) (n : Nat) : BitVec w := BitVec.ofInt w (val s x / 2 ^ n)

/-- evaluation-safe forms used by the drivers and by the lowering lemmas -/
def shlE (x : BitVec w) (n : Nat) : BitVec w := if w ≤ n then 0#w else x <<< n
def shrE (s : Bool) (x : BitVec w) (n : Nat) : BitVec w :=
  if s then x.sshiftRight (if w ≤ n then w - 1 else n) else (if w ≤ n then 0#w else x >>> n)

/-- a shift with a count of signed/unsigned type of width `u`: panics iff the count is negative -/
def shl (sx sy : Bool) (x : BitVec w) (y : BitVec u) : Except Panic (BitVec w) :=
  if val sy y < 0 then .error .negShift else .ok (shlMath sx x (val sy y).toNat)
def shr (sx sy : Bool) (x : BitVec w) (y : BitVec u) : Except Panic (BitVec w) :=
  if val sy y < 0 then .error .negShift else .ok (shrMath sx x (val sy y).toNat)

def lt (s : Bool) (x y : BitVec w) : Bool := decide (val s x < val s y)
def le (s : Bool) (x y : BitVec w) : Bool := decide (val s x ≤ val s y)
def eq (s : Bool) (x y : BitVec w) : Bool := decide (val s x = val s y)

/-- `T(x)` between integer types: the value of `x` (sign- or zero-extended according to the SOURCE type) modulo `2^w'` -/
def conv (s : Bool) (w' : Nat) (x : BitVec w) : BitVec w' := BitVec.ofInt w' (val s x)

end LlgoVerif.GoArith
