"""C11 — goroutines, sync primitives and atomics keep their guarantees under contention.

Lean: Model/Sema.lean (semaAcquire/semaRelease + notify list of runtime/internal/lib/runtime/sema_llgo.go as a transition
system over any number of threads), Lemmas/Sema.lean, Spec/Atomics.lean, Props/C11.lean, Driver/C11.lean.

Ties, all from the working tree, on every run:
  (A)   Gen/C11Atomics.lean is deleted and regenerated from the LLVM IR the freshly built llgo emits for a generated package
        with one wrapper per sync/atomic entry point (harness/c11/atomgen.py); `atomics_lowering`/`atomics_complete` are
        `decide` over the whole table.
  (B-N) sema_llgo.go is copied VERBATIM (vlib/native.py, imports redirected to the psync scheduler and to yielding atomics)
        and driven by 2-4 scheduler threads under exhaustive (small configurations) and random schedules with spurious
        wake-ups and chosen Signal targets; every step is compared with modeld_c11; the real traces are judged against the
        specification independently of the model.
  (B-N') stretch: Go's own sync.Mutex/RWMutex/WaitGroup/Once/Cond sources (toolchain in use) layered on the copied file
        under the same scheduler, judged against their contracts (see layered()).
  (B-E) one llgo-compiled stress program per optimisation level (goroutines, channels, sync/atomic only) with exact
        expected counters, the `go` statement's evaluation rules and a store-buffering litmus test."""
import concurrent.futures
import glob
import json
import os
import re
import shutil
import sys
import time

from vlib.common import *
from vlib import native
from vlib.e2e import build_llgo, llgo_env, write_module, run_prog

H = os.path.join(VERIF, "harness", "c11")
sys.path.insert(0, H)
import atomgen  # noqa: E402

_run = run      # vlib.common.run (this module's own `run` is the check's entry point)

GEN_REL = "LlgoVerif/Gen/C11Atomics.lean"
LAT = ('"github.com/goplus/llgo/runtime/internal/lib/sync/atomic"', '"%s/latomic"' % native.VN, "atomic")
SEMA_SRC = "runtime/internal/lib/runtime/sema_llgo.go"
VALUE_SRC = "runtime/internal/lib/sync/atomic/value.go"

MAX_UNCLASSIFIED = 8      # replay files written per run for failing inputs of a class that is not a known finding
K_TICKET = "notifylist:wait-returns-with-notify-below-ticket"
K_CAS = "sema:sleeps-after-failed-cas-with-positive-count"


# ------------------------------------------------------------------------------------------------ e2e + tie (A)
def setup_ir_shims(ctx):
    """llvm-config/llc stand-ins that keep a copy of every module `llgo build -check-llfiles` hands to llc"""
    sh = os.path.join(H, "shims")
    d = os.path.join(ctx.scratch, "c11shims")
    bind, ird = os.path.join(d, "bin"), os.path.join(d, "ir")
    os.makedirs(bind)
    os.makedirs(ird)
    real_cfg = os.environ.get("LLVM_CONFIG") or shutil.which("llvm-config", path=go_env()["PATH"])
    if not real_cfg:
        raise HarnessBuildError("llvm-config not found")
    real_bin = _run([real_cfg, "--bindir"]).stdout.strip()
    for f in os.listdir(real_bin):
        if f != "llc":
            os.symlink(os.path.join(real_bin, f), os.path.join(bind, f))
    shutil.copy(os.path.join(sh, "llc.sh"), os.path.join(bind, "llc"))
    os.chmod(os.path.join(bind, "llc"), 0o755)
    s = open(os.path.join(sh, "llvm-config.sh")).read().replace("@BINDIR@", bind).replace("@REAL_LLVM_CONFIG@", real_cfg)
    p = os.path.join(d, "llvm-config")
    open(p, "w").write(s)
    os.chmod(p, 0o755)
    return {"LLVM_CONFIG": p, "VERIF_C11_IRDIR": ird}, ird


def e2e_expected(N, K, S):
    nk = N * K
    bits = 0xffffffff if N >= 32 else (1 << N) - 1
    T = nk * (nk + 1) // 2
    return {
        "add.i32": nk, "add.i32.results-not-unique": 0, "add.i64": K * N * (N + 1) // 2 - nk,
        "add.u32": (N * sum(k & 3 for k in range(K))) & 0xffffffff, "add.u64.hi": nk, "add.uintptr": 2 * nk,
        "cas.i32": nk, "cas.i64": 3 * nk, "cas.u32": nk, "cas.u64.hi": nk, "cas.uintptr": nk, "cas.pointer.cells": nk,
        "cas.stale-succeeded": 0, "swap.taken-plus-left": 5 * T, "swap.pointer.taken-plus-left": T,
        "or.u32": bits, "or.i64": bits, "and.u32": 0xffffffff ^ bits, "and.u64.hi": 0xffffffff ^ bits, "or.uintptr": bits,
        "and.i32": 0xffffffff ^ bits, "or.bits-lost": 0, "load.torn": 0, "store-load.stale-data": 0, "litmus.sb.both-zero": 0,
        "store-load.pointer-roundtrip": 1, "go.arg-value-at-go": 1, "go.args-in-order": 123, "go.args-before-next-stmt": 4,
        "go.func-value-at-go": 1, "go.value-receiver-at-go": 1, "go.pointer-shared": 6, "go.iface-receiver-at-go": 7,
        "go.closure-shares-variable": 11, "go.not-exactly-once": 0, "go.nested-sum": 6 * N, "value.inconsistent-load": 0,
        "value.last": K, "value.swap-old": K, "value.first-store.rounds": min(S, 200000), "value.first-store.incomplete": 0, "typed.int64": 2 * nk, "typed.uint32": nk, "typed.bool": 1, "end": 1,
    }


def e2e_pipeline(ctx, N, K, S, ir_ready, res):
    """build llgo, compile the stress program at -O0 (capturing the IR) and -O2, run both. Runs in a worker thread;
    touches ctx only through build_llgo; fills `res` (the -O0 IR is there once `ir_ready` is set)."""
    try:
        t0 = time.time()
        build_llgo(ctx)
        res["t"]["build_llgo"] = round(time.time() - t0, 1)
        extra, ird = setup_ir_shims(ctx)
        d = os.path.join(ctx.scratch, "stress")
        main = open(os.path.join(H, "e2e_main.go.txt")).read().replace("@N@", str(N)).replace("@K@", str(K)).replace("@S@", str(S)).replace("@R@", str(min(S, 200000)))
        write_module(d, {"main.go": main, "atom/atom.go": atomgen.wrapper_source()})
        for opt in ("-O0", "-O2"):
            t0 = time.time()
            for f in glob.glob(os.path.join(ird, "*.ll")):
                os.remove(f)
            out = os.path.join(d, "prog" + opt)
            p = _run([ctx.llgo, "build", "-tags", "nogc", opt, "-check-llfiles", "-o", out, "."], cwd=d,
                    env=llgo_env(ctx, extra), timeout=1500)
            res["t"]["compile" + opt] = round(time.time() - t0, 1)
            if p.returncode != 0:
                res["runs"][opt] = {"build_error": (p.stdout + p.stderr)[-3000:]}
                if opt == "-O0":
                    res["ir_error"] = "llgo could not compile the generated stress/wrapper program:\n" + (p.stdout + p.stderr)[-3000:]
                    ir_ready.set()
                continue
            irs = [f for f in glob.glob(os.path.join(ird, "*.ll")) if "ModuleID = 'verifprog/atom'" in open(f).read(400)]
            if opt == "-O0":
                if irs:
                    res["ir"] = open(irs[0]).read()
                else:
                    res["ir_error"] = "IR of the wrapper package was not captured (llgo build -check-llfiles no longer calls llc?)"
                ir_ready.set()
            else:
                res["ir_O2"] = open(irs[0]).read() if irs else None
            t0 = time.time()
            so, se, rc = run_prog(out, timeout=150, mem_gib=6)
            if rc == "timeout":
                # the program synchronises by spinning; on a heavily oversubscribed machine a run can starve: one more try
                res["t"]["retry" + opt] = True
                so, se, rc = run_prog(out, timeout=300, mem_gib=6)
            res["t"]["run" + opt] = round(time.time() - t0, 1)
            res["runs"][opt] = {"rc": rc, "stderr": se, "stdout": so}
    except HarnessBuildError as e:
        res["ir_error"] = str(e)
    except Exception as e:  # noqa: BLE001
        res["ir_error"] = "e2e pipeline crashed: %r" % (e,)
    finally:
        ir_ready.set()
    return res


def py_entry_ok(e):
    """Python mirror of Spec/Atomics.lean Entry.ok - used only to NAME the offending row in a replay file"""
    name = e["fn"]
    op = next(o for o in atomgen.OPS if name.startswith(o))
    tn = name[len(op):]
    ty = {"Int32": "i32", "Uint32": "i32", "Pointer": "ptr"}.get(tn, "i64")
    kind, rop = {"Add": ("rmw", "add"), "And": ("rmw", "and"), "Or": ("rmw", "or"), "Swap": ("rmw", "xchg"),
                 "Load": ("load", "none"), "Store": ("store", "none"), "CompareAndSwap": ("cmpxchg", "none")}[op]
    if len(e["atomics"]) != 1 or e["otherMem"] != 0:
        return False
    i = e["atomics"][0]
    size = {"i32": 4, "i64": 8, "ptr": 8}[ty]
    return (i["kind"] == kind and i["op"] == rop and i["ty"] == ty and i["ord"] == "seq_cst" and
            i["ord2"] == ("seq_cst" if kind == "cmpxchg" else "none") and not i["weak"] and not i["scoped"] and
            (i["align"] == 0 or i["align"] >= size))


# ------------------------------------------------------------------------------------------------ native harness
def reset_source():
    """lrt/zz_reset.go: ResetState() zeroes every package-level variable the copied sema_llgo.go declares as `var name Type`
    (semaOnce, semaMap / a table, notifyMap ...): the harness does not depend on how the per-address states are stored."""
    src = open(os.path.join(REPO, SEMA_SRC)).read()
    decls = re.findall(r"^var (\w+) ([^=\n]+)$", src, re.M)
    body = "".join("\t{\n\t\tvar z %s\n\t\t%s = z\n\t}\n" % (ty.strip(), name) for name, ty in decls)
    return ("// Code generated by checks/c11.py from the `var` declarations of sema_llgo.go. DO NOT EDIT.\npackage lrt\n\n"
            "import (\n\t\"unsafe\"\n\n\tpsync \"%s/psync\"\n)\n\nvar _ unsafe.Pointer\nvar _ psync.Mutex\n\n"
            "// ResetState: a fresh process (%d package-level variables back to their zero values).\n"
            "func ResetState() {\n%s\tnanoNow = 0\n}\n" % (native.VN, len(decls), body))


def build_native(ctx):
    if LAT not in native.IMPORT_MAP:
        native.IMPORT_MAP.insert(0, LAT)      # sema_llgo.go imports llgo's intrinsic-only sync/atomic: yielding stand-in
    mains = {"main.go": open(os.path.join(H, "main.go.txt")).read(),
             "lrt/zz_access.go": open(os.path.join(H, "lrt_access.go.txt")).read(), "lrt/zz_reset.go": reset_source(),
             "lval/zz_access.go": open(os.path.join(H, "lval_access.go.txt")).read(),
             "latomic/atomic.go": open(os.path.join(H, "standins", "latomic", "atomic.go")).read()}
    return native.make_native(ctx, [], {}, mains, other={SEMA_SRC: ("lrt", "lrt"), VALUE_SRC: ("lval", "lval")}, name="native-c11")


class Step:
    __slots__ = ("act", "tid", "kind", "pick", "events", "sems", "lists", "threads", "vals")


def parse_trace(tr):
    """'<action>;<events>;S..:L..:T..|...' -> [Step]"""
    out = []
    for el in tr.split("|"):
        act, ev, st = el.split(";")
        s = Step()
        s.act = act
        s.kind, s.tid, s.pick = "init", -1, None
        if act != "init":
            s.kind = act[0]
            a = act[1:]
            if ">" in a:
                a, p = a.split(">")
                s.pick = int(p)
            s.tid = int(a)
        s.events = [] if ev == "-" else ev.split(",")
        parts_ = st.split(":")
        S, L, T = parts_[0], parts_[1], parts_[2]
        s.vals = parts_[3][1:].split(",") if len(parts_) > 3 else []
        s.sems = [tuple(int(x) for x in f.split("/")) for f in S[1:].split(",")] if len(S) > 1 else []
        s.lists = [tuple(int(x) for x in f.split("/")) for f in L[1:].split(",")] if len(L) > 1 else []
        s.threads = []
        for f in T[1:].split(","):
            a, b, c = f.split(".")
            s.threads.append((a, b, int(c)))
        out.append(s)
    return out


def parse_progs(progs):
    out = []
    for th in progs.split(";"):
        out.append([] if th in ("", "-") else [(o[0], int(o[1:])) for o in th.split(".")])
    return out


def cur_op(progs, tid, ops_done):
    p = progs[tid]
    return p[ops_done] if ops_done < len(p) else None


def max_matching(adj, nright):
    """adj: list of lists (left -> right candidates). Returns size of a maximum matching (Kuhn)."""
    match = [-1] * nright

    def tryk(u, seen):
        for v in adj[u]:
            if v in seen:
                continue
            seen.add(v)
            if match[v] < 0 or tryk(match[v], seen):
                match[v] = u
                return True
        return False
    n = 0
    for u in range(len(adj)):
        if tryk(u, set()):
            n += 1
    return n


def judge(sems0, progs, steps, end):
    """The specification, judged on the REAL trace only. -> list of (key or None, what, detail)
    key None = class not known: the caller keys the finding by the input itself."""
    fails = []
    nthreads = len(progs)
    nsem = len(sems0)
    acq = [0] * nsem
    rel_done = [0] * nsem
    began = [None] * nthreads        # step index at which the thread's current op took its first step
    notif = []                        # (list, kind 'O'|'B', completion step, thread, first step of the operation)
    cas_sleeps = []                   # (thread, step, count): went to sleep right after a failed CAS with a positive count
    tickets = {}                      # thread -> (list, ticket, step drawn)
    rets = []                         # (list, ticket, notify, thread, drawn step, return step)
    slept_at = {}                     # thread -> (step, parked before, val after) of its last transition into 'c'
    def effect(k, tid, kinds):
        """the step at which the access that decided / performed the event reported at step k was executed: the thread's most
        recent step entered while parked before an access of one of `kinds` (coarse mode: k itself; fine mode: earlier)"""
        j = k
        while j > 1 and not (steps[j].tid == tid and steps[j].kind == "s" and steps[j - 1].threads[tid][1] in kinds):
            j -= 1
        return j if j > 1 or (steps[1].tid == tid and steps[0].threads[tid][1] in kinds) else k

    for k in range(1, len(steps)):
        st, pv = steps[k], steps[k - 1]
        tid = st.tid
        if st.kind == "s":
            before = pv.threads[tid]
            op = cur_op(progs, tid, before[2])
            if began[tid] is None:
                began[tid] = k
            for ev in st.events:
                c, rest = ev[0], ev[1:]
                if c == "A":
                    s_ = int(rest)
                    acq[s_] += 1
                    # the permit is taken by the thread's last CAS: the most recent step it entered parked before a "cas"
                    kc = k
                    while kc > 1 and not (steps[kc].tid == tid and steps[kc].kind == "s" and steps[kc - 1].threads[tid][1] == "cas"):
                        kc -= 1
                    b_, a_ = steps[kc - 1].sems[s_][0], steps[kc].sems[s_][0]
                    if b_ < 1 or a_ != b_ - 1 or b_ >= 1 << 31:
                        fails.append((None, "semaAcquire returned without taking a permit from a positive count (count %d -> %d at its last CAS, step %d)" %
                                      (b_, a_, kc), {"step": k, "sem": s_, "count_before": b_, "count_after": a_}))
                elif c == "R":
                    rel_done[int(rest)] += 1
                elif c == "K":
                    l_, t_ = rest.split(".")
                    tickets[tid] = (int(l_), int(t_), effect(k, tid, ("add",)))
                elif c == "W":
                    l_, t_, n_ = (int(x) for x in rest.split("."))
                    drawn = tickets.get(tid, (l_, t_, 0))[2]
                    rets.append((l_, t_, n_, tid, drawn, effect(k, tid, ("ld",))))
                elif c in "OB":
                    notif.append((int(rest), c, effect(k, tid, ("st",) if c == "B" else ("add", "ld")), tid, began[tid]))
            if st.threads[tid][2] != before[2]:
                began[tid] = None
            if st.threads[tid][0] == "c" and before[0] != "c":
                s_ = op[1] if op and op[0] == "A" else None
                slept_at[tid] = (k, before[1], st.sems[s_][0] if s_ is not None else None)
                if s_ is not None and before[1] in ("cas", "cas+") and st.sems[s_][0] > 0:
                    cas_sleeps.append((tid, k, st.sems[s_][0]))
        # permits conserved: count + completed acquires - initial lies between the completed releases and those plus the
        # releases in progress (the Add of a release in progress may or may not have happened)
        for s_ in range(nsem):
            inprog = sum(1 for t in range(nthreads)
                         if (cur_op(progs, t, st.threads[t][2]) or ("", -1)) == ("R", s_))
            x = st.sems[s_][0] + acq[s_] - sems0[s_]
            # fine mode only: a thread parked right AFTER its CAS may already hold a permit it has not reported yet
            pend = sum(1 for t in range(nthreads) if st.threads[t][1] == "cas+"
                       and (cur_op(progs, t, st.threads[t][2]) or ("", -1)) == ("A", s_))
            if not (rel_done[s_] <= x + pend and x <= rel_done[s_] + inprog):
                fails.append((None, "permits not conserved: count + completed acquires - initial = %d, releases completed %d, in progress %d" %
                              (x, rel_done[s_], inprog), {"step": k, "sem": s_}))
                break
    # Cond.Wait-like: a return needs a notification completed after the ticket was drawn and before the return;
    # a NotifyOne justifies at most one return, a NotifyAll any number
    def unjustified(ws):
        ones = [(nl, e, nt) for (nl, nk, e, nt, _) in notif if nk == "O"]
        adj = [[j for j, (nl, e, nt) in enumerate(ones) if nl == w[0] and w[4] < e < w[5] and nt != w[3]] for w in ws]
        if max_matching(adj, len(ones)) == len(ws):
            return []
        return [w for w, a in zip(ws, adj) if not a] or ws
    need = [w for w in rets
            if not any(nl == w[0] and nk == "B" and w[4] < e < w[5] and nt != w[3] for (nl, nk, e, nt, _) in notif)]
    bad = unjustified(need)
    if bad:
        # attribution: returns that read notify < ticket are the pinned tree's known class; if the others are all
        # justified without them, the violation is theirs
        below = [w for w in need if less32(w[2], w[1])]
        rest = unjustified([w for w in need if not less32(w[2], w[1])])
        if below and not rest:
            bad, key = below, K_TICKET
        else:
            bad, key = rest or bad, None
        for (l_, t_, n_, tid, drawn, r) in bad:
            fails.append((key, "notifyListWait(ticket %d) returned at step %d with notify=%d although no NotifyOne/NotifyAll of another "
                          "thread completed between the drawing of the ticket (step %d) and the return that is not needed for another waiter" %
                          (t_, r, n_, drawn), {"list": l_, "ticket": t_, "notify_at_return": n_, "thread": tid}))
    # liveness, judged in quiescent end states only (no thread can run): nobody sleeps next to an available permit /
    # behind a notification that covers its ticket
    if end == "stuck":
        last = steps[-1]
        for tid in range(nthreads):
            stt, parked, done = last.threads[tid]
            if stt != "c":
                continue
            op = cur_op(progs, tid, done)
            if op and op[0] == "A" and last.sems[op[1]][0] > 0:
                k, parked_before, val_after = slept_at.get(tid, (None, None, None))
                key = K_CAS if cas_sleeps else None
                fails.append((key, "thread %d sleeps in semaAcquire with count %d and no thread left to wake it (it went to sleep at step %s "
                              "right after its %s, count %s then); threads that went to sleep right after a FAILED CAS with a positive count "
                              "in this run (thread, step, count): %s" %
                              (tid, last.sems[op[1]][0], k, {"cas": "failed CAS", "cas+": "failed CAS", "ld": "load", "ld+": "load"}.get(parked_before, parked_before), val_after,
                               cas_sleeps), {"thread": tid, "sem": op[1], "count": last.sems[op[1]][0], "cas_sleeps": cas_sleeps}))
            if op and op[0] == "W" and tid in tickets and tickets[tid][0] == op[1]:
                l_, t_, drawn = tickets[tid]
                covered = any(nl == l_ and nk == "B" and b0 is not None and b0 > drawn for (nl, nk, e, nt, b0) in notif)
                if covered or less32(t_, last.lists[l_][1]):
                    fails.append((None, "thread %d sleeps in notifyListWait(ticket %d) although notify=%d%s and nobody is left to wake it" %
                                  (tid, t_, last.lists[l_][1], " and a NotifyAll began after its ticket was drawn" if covered else ""),
                                  {"thread": tid, "list": l_, "ticket": t_}))
                    continue
                # every NotifyOne that began after this waiter was registered found a waiter and must have made one return
                ones_after = [e for (nl, nk, e, nt, b0) in notif if nl == l_ and nk == "O" and b0 is not None and b0 > drawn]
                rets_after = [r for (rl, rt, rn, rtid, rd, r) in rets if rl == l_ and r > drawn]
                if len(ones_after) > len(rets_after):
                    fails.append((None, "thread %d sleeps in notifyListWait(ticket %d, drawn at step %d) although %d NotifyOne call(s) began after "
                                  "that and only %d waiter(s) returned since (wait=%d notify=%d): a notification was not handed out" %
                                  (tid, t_, drawn, len(ones_after), len(rets_after), last.lists[l_][0], last.lists[l_][1]),
                                  {"thread": tid, "list": l_, "ticket": t_}))
    return fails


def value_ops(progs):
    """[[(kind, idx, a, b)]] of a program string that may contain atomic.Value operations"""
    out = []
    for th in progs.split(";"):
        ops = []
        if th not in ("", "-"):
            for o in th.split("."):
                f = o.split(":")
                ops.append((f[0][0], int(f[0][1:]), f[1] if len(f) > 1 else None, f[2] if len(f) > 2 else None))
        out.append(ops)
    return out


def judge_value(progs, steps, end):
    """atomic.Value, judged on the REAL trace: a Load / the old value of a Swap is nil or a value that some call of the
    programs stored (never a type word with somebody else's or no data word); after a Store/Swap/successful
    CompareAndSwap returned, a Load that starts later is not nil; the stack never panics except for inconsistent types."""
    fails = []
    pp = value_ops(progs)
    offered = {}
    for th in pp:
        for (k, i, a, b) in th:
            v = a if k in "VX" else b if k == "Q" else None
            if v:
                offered.setdefault(i, set()).add(v)
    types = {i: set(v[0] for v in vs) for i, vs in offered.items()}
    stored_at = {}                 # value index -> first step at which a storing call had returned
    began = [None] * len(pp)
    for k in range(1, len(steps)):
        st, pv = steps[k], steps[k - 1]
        tid = st.tid
        if began[tid] is None:
            began[tid] = k
        done_before = pv.threads[tid][2]
        for j, ev in enumerate(st.events):
            op = pp[tid][done_before + j] if done_before + j < len(pp[tid]) else None
            if ev[0] == "!":
                # a panic is legitimate only for an inconsistently typed value (two types offered to this Value)
                i = int(ev[2:])
                if len(types.get(i, ())) < 2 and not (op and op[0] == "Q" and op[2] != "n" and op[2][0] != op[3][0]):
                    fails.append((None, "atomic.Value call %s panicked although all values have one type" % ev, {"step": k}))
                continue
            name, _, res = ev.partition("=")
            i = int(name[1:])
            if name[0] in "GX" and res != "n" and res not in offered.get(i, set()):
                fails.append((None, "atomic.Value %s returned %s at step %d: nobody stored that value (a type word next to a data word "
                              "that does not belong to it); values offered: %s" %
                              ("Load" if name[0] == "G" else "Swap", res, k, sorted(offered.get(i, set()))), {"step": k, "result": res}))
            if name[0] == "G" and res == "n" and j == 0 and i in stored_at and began[tid] is not None and stored_at[i] < began[tid]:
                fails.append((None, "atomic.Value Load returned nil at step %d although a storing call had returned at step %d, before the Load started"
                              % (k, stored_at[i]), {"step": k}))
            if name[0] in "VX" or (name[0] == "Q" and res == "1"):
                stored_at.setdefault(i, k)
        if st.threads[tid][2] != done_before:
            began[tid] = None
    if end.startswith("panic"):
        fails.append((None, "the atomic.Value stack panicked: " + end, {}))
    return fails


def gen_value_progs(rng):
    nth = rng.choice([2, 2, 3, 3, 4])
    two_types = rng.random() < 0.2
    def val():
        return ("b" if two_types and rng.random() < 0.4 else "a") + str(rng.randint(1, 9))
    progs = []
    for t in range(nth):
        ops = []
        for _ in range(rng.choice([1, 1, 2, 3])):
            k = rng.choice("VVGGGXQ") if t else rng.choice("VVXQ")
            if k == "V" or k == "X":
                ops.append("%s0:%s" % (k, val()))
            elif k == "G":
                ops.append("G0")
            else:
                n = val()
                o = rng.choice(["n", n[0] + str(rng.randint(1, 9))]) if rng.random() < 0.9 else val()
                ops.append("Q0:%s:%s" % (o, n))
        progs.append(".".join(ops))
    return ";".join(progs)


VALUE_DFS = [  # (programs, max runs, max steps): one or two Stores against one or two Loads, Swap, CompareAndSwap
    ("V0:a1;G0", 100, 16), ("V0:a1;G0.G0", 200, 16), ("V0:a1;G0;G0", 3000, 16), ("V0:a1.V0:a2;G0.G0", 6000, 18),
    ("V0:a1;V0:a2;G0", 8000, 14), ("V0:a1;V0:a2;G0.G0", 8000, 14), ("V0:a1;V0:b2;G0", 6000, 14), ("V0:a1;X0:a2;G0", 6000, 14),
    ("Q0:n:a1;V0:a2;G0", 6000, 14), ("V0:a1.Q0:a1:a3;G0.Q0:a3:a4", 5000, 20), ("X0:a1;X0:a2;G0.G0", 6000, 14),
]
FINE_DFS = [  # (sems, programs, max runs, max steps): FINE mode (scheduling point also after every atomic access), judged only
    ("0", "A0;R0", 20000, 40), ("1", "A0;A0;R0", 12000, 50), ("0", "A0;A0;R0", 12000, 50), ("0", "A0;R0.R0", 12000, 50),
    ("0", "W0;O0", 6000, 40), ("0", "W0;B0", 6000, 40), ("0,0", "A0;A1;R0.R1", 8000, 70),
]


def sem_values(sems):
    """'1,0' / '0+0' / '0_0' -> [1, 0] ... (the separator only places the semaphores in memory)"""
    return [int(x) for x in re.split("[,_+]", sems)]


def c0_of(nl):
    """'1' -> 0, '1@4294967294' -> 4294967294: the value both ticket counters of every notify list start with"""
    nl = str(nl)
    return int(nl.split("@")[1]) if "@" in nl else 0


def less32(a, b):
    """notifyLess: int32(a-b) < 0 on 32-bit tickets"""
    return ((a - b) & 0xffffffff) >= 0x80000000


def strip_idx(progs):
    return ";".join(".".join(o[0] for o in th.split(".")) if th not in ("", "-") else "-" for th in progs.split(";"))


def single_address(pp):
    return all(o[1] == 0 for th in pp for o in th)


def project(pp, steps, obj):
    """projection of a multi-address run onto one object ('S'|'L', k): (progs for the model, schedule, expected rows)"""
    kinds = "AR" if obj[0] == "S" else "WOB"
    mine = lambda op: op is not None and op[0] in kinds and op[1] == obj[1]
    progs = ";".join(".".join(o[0] for o in th if mine(o)) or "-" for th in pp)
    sched, rows = [], []
    get = (lambda st: "S%d/%d" % st.sems[obj[1]]) if obj[0] == "S" else (lambda st: "L%d/%d" % st.lists[obj[1]])
    rows.append(("init", "-", get(steps[0])))
    for k in range(1, len(steps)):
        st, pv = steps[k], steps[k - 1]
        op = cur_op(pp, st.tid, pv.threads[st.tid][2])
        if not mine(op):
            continue
        sched.append(st.act)
        ev = [e for e in st.events]
        evs = ",".join(e[0] + "0" + (e[2:] if len(e) > 2 else "") for e in ev) if ev else "-"
        rows.append((st.act, evs, get(st)))
    return progs, ",".join(sched) or "-", rows


def model_rows(line, obj):
    tr = line.split(" # ")[0]
    rows = []
    for el in tr.split("|"):
        act, ev, st = el.split(";")
        S, L, _ = st.split(":")
        rows.append((act, ev, S if obj[0] == "S" else L))
    return rows


# ------------------------------------------------------------------------------------------------ generators
def gen_prog_set(rng, multi):
    """-> (sems, notify-list spec, programs)"""
    nth = rng.choice([2, 2, 3, 3, 4])
    nadr = 2 if multi else 1
    flavour = rng.choice(["sem", "sem", "list", "mixed"])
    progs = []
    for _ in range(nth):
        n = rng.choice([1, 1, 2, 2, 3])
        ops = []
        for _ in range(n):
            if flavour == "sem":
                k = rng.choice("AARR")
            elif flavour == "list":
                k = rng.choice("WWOB")
            else:
                k = rng.choice("ARWOB")
            ops.append("%s%d" % (k, rng.randrange(nadr)))
        progs.append(".".join(ops))
    sems = str(rng.choice([0, 0, 1, 1, 2, 3]))
    for _ in range(nadr - 1):
        sems += rng.choice([",", ",", "+", "_"]) + str(rng.choice([0, 0, 1, 1, 2, 3]))
    nl = str(nadr)
    if flavour != "sem" and rng.random() < 0.5:
        nl += "@%d" % rng.choice([0xffffffff, 0xfffffffe, 0xfffffffd, 0xfffffffc])
    return sems, nl, ";".join(progs)


def dfs_cfg(e):
    """(sems, progs, max runs, max steps, spurious budget[, notify-list spec]) -> with the spec defaulted to '1'"""
    return (e[0], e[1], e[2], e[3], e[4], e[5] if len(e) > 5 else "1")


DFS_QUICK = [  # (sems, progs, max runs, max steps, spurious budget[, notify lists '<n>@<start of the ticket counters>'])
    # two semaphores that collide under address hashing ((addr>>3)%251): same 8-byte word / 2008 bytes apart; and 64 bytes apart
    ("0,0", "A0;A1;R0.R1", 3000, 60, 0), ("0+0", "A0;A1;R0.R1", 3000, 60, 0), ("0_0", "A0;A1;R1.R0", 2500, 60, 0),
    ("0,0", "A0;A1;R0;R1", 3000, 60, 0),
    # notify-list histories that start just below the 2^32 wrap of the ticket counters
    ("0", "W0;O0", 2000, 40, 1, "1@4294967295"), ("0", "W0;W0;O0.O0", 3000, 50, 0, "1@4294967294"),
    ("0", "W0;W0;W0;B0", 3000, 50, 0, "1@4294967294"), ("0", "W0;O0;W0;O0", 3000, 50, 0, "1@4294967295"),
    ("0", "W0;W0", 3000, 40, 1), ("0", "W0;O0", 3000, 40, 1), ("0", "W0;B0", 3000, 40, 1), ("0", "W0;W0;O0", 4000, 40, 0),
    ("0", "W0;W0;B0", 4000, 40, 0), ("1", "A0.R0;A0.R0", 3000, 60, 0), ("0", "A0;R0", 3000, 40, 2), ("1", "A0;A0;R0", 4000, 60, 0),
    ("3", "A0;A0;A0", 2000, 60, 0), ("2", "A0;A0;A0", 4000, 60, 1), ("0", "A0;R0.R0;A0", 6000, 60, 0), ("0", "A0.W0;R0.O0", 4000, 60, 0),
    ("0", "W0.A0;O0.R0;B0", 4000, 60, 0),
]
DFS_THOROUGH = [(e[0], e[1], 40000, 80, e[4]) + tuple(e[5:]) for e in DFS_QUICK] + [
    ("1", "A0.R0;A0.R0;A0.R0", 40000, 90, 0), ("0", "W0;W0;O0;O0", 40000, 80, 0), ("0", "W0;W0;W0;B0", 40000, 80, 0),
    ("2", "A0;A0;A0;R0", 40000, 80, 1), ("0", "A0;A0;R0.R0", 40000, 80, 1), ("0", "W0.W0;O0.B0", 40000, 80, 1),
]


# ------------------------------------------------------------------------------------------------ the check
def run(ctx, args):
    rng = ctx.rng
    quick = ctx.tier == "quick"
    gen_path = os.path.join(LEAN, GEN_REL)
    if os.path.exists(gen_path):
        os.remove(gen_path)

    # ---- (0) e2e pipeline in the background: llgo from the working tree, stress program at -O0 (IR captured) and -O2
    N = rng.choice([2, 3, 5, 8, 13, 24, 33, 64])
    K = max(20, (20000 if quick else 400000) // N)
    S = 20000 if quick else 400000
    if args.replay:
        rp0 = json.load(open(args.replay))["replay"]
        if "N" in rp0 and "K" in rp0:
            N, K, S = rp0["N"], rp0["K"], rp0.get("S", S)
    import threading
    ir_ready = threading.Event()
    res = {"ir": None, "ir_error": None, "runs": {}, "t": {}}
    pool = concurrent.futures.ThreadPoolExecutor(max_workers=1)
    fut = pool.submit(e2e_pipeline, ctx, N, K, S, ir_ready, res)

    # ---- (2) native harness from the working tree (meanwhile)
    harness_err = None
    try:
        harness = build_native(ctx)
    except HarnessBuildError as e:
        harness, harness_err = None, e

    if harness_err is not None:
        fut.result()
        raise harness_err

    def real(lines):
        out, rc, err = run_lines([harness], lines, timeout=3000)
        return out, rc, err

    stats = {"runs": 0, "steps": 0, "dfs_configs": 0, "dfs_complete": 0, "random_runs": 0, "multi_address_runs": 0,
             "ends": {}, "spurious_wakeups": 0, "signal_picks": 0, "spec_failures": 0, "projections": 0}
    distinct = set()
    mismatches = []
    samples = []

    # ---- (3a) witnesses: replay the counterexample schedules on the real code; they also tell the code variant
    corpus = json.load(open(os.path.join(VERIF, "corpus", "C11", "witnesses.json")))
    wit = {w["id"]: w for w in corpus["witnesses"]}

    def sched_line(w):
        return "sched %s %s %s %s" % (w["sems"], w["nlists"], w["progs"], w["schedule"])

    def one(w):
        o, rc, err = real([sched_line(w)])
        if len(o) != 1 or o[0] == "bad-op":
            raise RuntimeError("native harness failed on %r: %r %s" % (sched_line(w), o, err[-1000:]))
        sc, tr, end = o[0].split(" # ")
        return sc, parse_trace(tr), end, o[0]

    _, s1, e1, raw1 = one(wit["two-waiters-nobody-signals"])
    ticket_less = not any(ev.startswith("W0.1.") for ev in s1[-1].events)
    _, s2, e2, raw2 = one(wit["cas-lost-race-then-sleep"])
    cas_retry = not (e2 == "stuck" and s2[-1].threads[1][0] == "c")
    one_broadcast = False
    if ticket_less:
        _, s3, e3, raw3 = one(wit["notify-one-picks-higher-ticket"])
        one_broadcast = len(s3) == 14 and s3[-1].threads[0][0] != "c"
    cfg = "%d%d%d" % (ticket_less, one_broadcast, cas_retry)
    ctx.log("code variant detected from the witnesses: ticketLess=%d oneBroadcast=%d casRetry=%d" % (ticket_less, one_broadcast, cas_retry))

    # ---- (3b) the runs: corpus, exhaustive small configurations, random programs x random schedules
    runs = []      # (origin, sems, nlists, progs, raw harness answer)
    rp = json.load(open(args.replay))["replay"] if args.replay else None
    if rp is not None and "schedule" in rp and "vprogs" not in rp and "fine" not in rp:
        o, _, _ = real(["sched %s %s %s %s" % (rp["sems"], rp["nlists"], rp["progs"], rp["schedule"])])
        runs.append(("replay", rp["sems"], rp["nlists"], rp["progs"], o[0]))
    elif rp is not None:
        pass        # a layered request or an e2e value: replayed below / by the stress programs (N, K, S taken from the file)
    else:
        cl = corpus["witnesses"] + corpus["boundary"]
        o, _, err = real([sched_line(w) for w in cl])
        if len(o) != len(cl):
            raise RuntimeError("native harness died on the corpus: %s" % err[-2000:])
        for w, a in zip(cl, o):
            runs.append(("corpus", w["sems"], w["nlists"], w["progs"], a))
        dfs = [dfs_cfg(e) for e in DFS_QUICK]
        o, _, err = real(["dfs %s %s %s %d %d %d" % (s, nls, p, mr, ms, b) for (s, p, mr, ms, b, nls) in dfs])
        ci = 0
        for a in o:
            if a.startswith("run "):
                s, p = dfs[ci][0], dfs[ci][1]
                runs.append(("dfs", s, dfs[ci][5], p, a[4:]))
            elif a.startswith("end "):
                stats["dfs_configs"] += 1
                stats["dfs_complete"] += 1 if a.endswith("true") else 0
                ci += 1
        if ci != len(dfs):
            raise RuntimeError("native harness died during the exhaustive runs (%d/%d configurations): %s" % (ci, len(dfs), err[-2000:]))
        n_rand = 6000
        lines, metas = [], []
        for i in range(n_rand):
            multi = i % 4 == 3
            sems, nadr, progs = gen_prog_set(rng, multi)
            lines.append("rand %s %s %s %d %d %d" % (sems, nadr, progs, rng.getrandbits(40) + 1, 120, rng.choice([0, 0, 30, 100])))
            metas.append((sems, nadr, progs))
        o, _, err = real(lines)
        if len(o) != len(lines):
            raise RuntimeError("native harness died during the random runs: %s" % err[-2000:])
        for (sems, nadr, progs), a in zip(metas, o):
            runs.append(("random", sems, nadr, progs, a))

    # ---- (3c) atomic.Value (verbatim value.go) and FINE-mode semaphore runs
    vruns, fruns = [], []      # (origin, progs, raw) / (origin, sems, progs, raw)
    vstats = {"runs": 0, "steps": 0, "dfs_configs": 0, "dfs_complete": 0, "random_runs": 0, "spec_failures": 0, "loads_nil": 0,
              "loads_value": 0, "panics_inconsistent_type": 0}
    fstats = {"runs": 0, "steps": 0, "dfs_configs": 0, "dfs_complete": 0, "random_runs": 0, "spec_failures": 0, "ends": {}}
    if rp is None:
        o, _, err = real(["dfs 0 1 %s %d %d 0" % (p_, mr, ms) for (p_, mr, ms) in VALUE_DFS])
        ci = 0
        for a in o:
            if a.startswith("run "):
                vruns.append(("dfs", VALUE_DFS[ci][0], a[4:]))
            elif a.startswith("end "):
                vstats["dfs_configs"] += 1
                vstats["dfs_complete"] += 1 if a.endswith("true") else 0
                ci += 1
        if ci != len(VALUE_DFS):
            raise RuntimeError("native harness died during the atomic.Value runs: %s" % err[-2000:])
        lines, metas = [], []
        for i in range(2500 if quick else 60000):
            progs = gen_value_progs(rng)
            lines.append("rand 0 1 %s %d 90 0" % (progs, rng.getrandbits(40) + 1))
            metas.append(progs)
        o, _, err = real(lines)
        if len(o) != len(lines):
            raise RuntimeError("native harness died during the random atomic.Value runs: %s" % err[-2000:])
        vruns += [("random", m, a) for m, a in zip(metas, o)]
        o, _, err = real(["fdfs %s 1 %s %d %d 0" % (s_, p_, mr, ms) for (s_, p_, mr, ms) in FINE_DFS])
        ci = 0
        for a in o:
            if a.startswith("run "):
                fruns.append(("dfs", FINE_DFS[ci][0], FINE_DFS[ci][1], a[4:], "1"))
            elif a.startswith("end "):
                fstats["dfs_configs"] += 1
                fstats["dfs_complete"] += 1 if a.endswith("true") else 0
                ci += 1
        if ci != len(FINE_DFS):
            raise RuntimeError("native harness died during the fine-mode runs: %s" % err[-2000:])
        lines, metas = [], []
        for i in range(2500 if quick else 60000):
            sems, nadr, progs = gen_prog_set(rng, False)
            lines.append("frand %s %s %s %d 200 %d" % (sems, nadr, progs, rng.getrandbits(40) + 1, rng.choice([0, 0, 30])))
            metas.append((sems, progs, nadr))
        o, _, err = real(lines)
        if len(o) != len(lines):
            raise RuntimeError("native harness died during the random fine-mode runs: %s" % err[-2000:])
        fruns += [("random", m[0], m[1], a, m[2]) for m, a in zip(metas, o)]
    elif "vprogs" in rp:
        o, _, _ = real(["sched 0 1 %s %s" % (rp["vprogs"], rp["schedule"])])
        vruns.append(("replay", rp["vprogs"], o[0]))
    elif "fine" in rp:
        o, _, _ = real(["fsched %s %s %s %s" % (rp["fsems"], rp.get("fnl", "1"), rp["fprogs"], rp["schedule"])])
        fruns.append(("replay", rp["fsems"], rp["fprogs"], o[0], rp.get("fnl", "1")))
    # fine-mode traces are judged against the specification right away (no model is involved)
    for (origin, sems, progs, raw, fnl) in fruns:
        sc, tr, end = raw.split(" # ")
        steps = parse_trace(tr)
        fstats["runs"] += 1
        fstats["steps"] += len(steps) - 1
        fstats["random_runs"] += origin == "random"
        fstats["ends"][end.split("@")[0].split(":")[0]] = fstats["ends"].get(end.split("@")[0].split(":")[0], 0) + 1
        for (key, what, detail) in judge(sem_values(sems), parse_progs(progs), steps, end):
            fstats["spec_failures"] += 1
            if key is None:
                stats["unclassified_failures"] = stats.get("unclassified_failures", 0) + 1
                if stats["unclassified_failures"] > MAX_UNCLASSIFIED:
                    continue
            ctx.report(key or ("native-fine:%s:%s:%s" % (sems, progs, sc))[:300],
                       what + "  [fine mode: a scheduling point also AFTER every atomic access]",
                       {"fine": True, "fsems": sems, "fnl": fnl, "fprogs": progs, "schedule": sc, "end": end, "detail": detail, "trace_tail": tr.split("|")[-6:]})
    fruns = None

    # ---- (B-N') Go's own sync primitives layered on the copied semaphore (stretch)
    try:
        layered_stats = layered(ctx, quick, ticket_less, cas_retry, only=(rp or {}).get("request"))
    except HarnessBuildError as e:
        layered_stats = {"skipped": "layered harness does not build: " + str(e)[-300:]}
        ctx.log("layered sync harness not built:", str(e)[-600:])

    # ---- (A) regenerate the atomics table as soon as the -O0 IR is there (the worker goes on with -O2 and the runs)
    ctx.log("real code: %d runs recorded; waiting for the -O0 IR" % len(runs))
    ir_ready.wait()
    ir_text, ir_err = res["ir"], res["ir_error"]
    ctx.log("IR of the wrapper package captured" if ir_text else "IR capture failed")
    entries, problems = [], []
    if ir_text is not None:
        entries, problems = atomgen.table_from_ir(ir_text, "verifprog/atom")
    else:
        problems = [ir_err or "no IR"]
    with open(gen_path, "w") as f:
        f.write(atomgen.lean_file([("-O0", "table", entries)]))
    declared = atomgen.present_in_source(REPO)
    missing_decl = sorted(set(n for n, _, _ in atomgen.entry_points()) - declared)

    # ---- (1) Lean: build + obligations + axiom audit
    st = lean_check(ctx, ["LlgoVerif.Props.C11"], ["LlgoVerif/Props/C11.lean"],
                    extra_files=["LlgoVerif/Model/Sema.lean", "LlgoVerif/Lemmas/Sema.lean", "LlgoVerif/Spec/Atomics.lean",
                                 "LlgoVerif/Model/AtomicValue.lean", "LlgoVerif/Lemmas/AtomicValue.lean",
                                 "LlgoVerif/Model/Mutex.lean", "LlgoVerif/Lemmas/Mutex.lean", GEN_REL, "Driver/C11.lean"],
                    leanchecker=(ctx.tier == "thorough"))
    for name, s in st.items():
        if s != "ok":
            ctx.log("theorem", name, s)
    modeld = build_driver(ctx, "modeld_c11")
    ctx.log("lean modules + driver built")

    def model(lines):
        out, rc, err = run_lines([modeld], lines, timeout=3000)
        if len(out) != len(lines):
            raise RuntimeError("modeld_c11 died: %d/%d answers\n%s" % (len(out), len(lines), err[-2000:]))
        return out


    def process(batch):
        """model + correspondence + specification judge for a batch of recorded real runs"""
        # model: one request per single-address run, one per object for multi-address runs
        mlines, mindex = [], []
        parsed = []
        for (origin, sems, nl, progs, raw) in batch:
            parts = raw.split(" # ")
            if len(parts) != 3:
                raise RuntimeError("harness answered %r" % raw[:300])
            sc, tr, end = parts
            pp = parse_progs(progs)
            steps = parse_trace(tr)
            parsed.append((pp, steps, end))
            sv = sem_values(sems)
            if single_address(pp) and len(sv) == 1:
                mindex.append(("whole", len(mlines)))
                mlines.append("run %s %s@%d %s %s" % (cfg, sems, c0_of(nl), strip_idx(progs), sc))
            else:
                objs = sorted(set((("S" if o[0] in "AR" else "L"), o[1]) for th in pp for o in th))
                ent = []
                for ob in objs:
                    mp, ms, rows = project(pp, steps, ob)
                    v0 = sv[ob[1]] if ob[0] == "S" else 0
                    ent.append((ob, len(mlines), rows))
                    mlines.append("run %s %d@%d %s %s" % (cfg, v0, c0_of(nl), mp, ms))
                mindex.append(("proj", ent))
        mout = model(mlines)

        for ri, ((origin, sems, nl, progs, raw), (pp, steps, end), mi) in enumerate(zip(batch, parsed, mindex)):
            sc, tr, _ = raw.split(" # ")
            stats["runs"] += 1
            stats["steps"] += len(steps) - 1
            stats["ends"][end.split("@")[0].split(":")[0]] = stats["ends"].get(end.split("@")[0].split(":")[0], 0) + 1
            stats["spurious_wakeups"] += sum(1 for s in steps if s.kind == "w")
            stats["signal_picks"] += sum(1 for s in steps if s.pick is not None)
            if origin == "random":
                stats["random_runs"] += 1
            if len(set(s.tid for s in steps[1:])) >= 2:
                distinct.add((sems, progs, sc))
            if end.startswith("panic") or (end.startswith("disabled") and origin != "corpus"):
                mismatches.append((origin, sems, nl, progs, sc, "harness ended with " + end, ""))
            # (a) correspondence
            if mi[0] == "whole":
                if mout[mi[1]] != tr + " # " + end and not (origin == "corpus" and end.startswith("disabled")):
                    mismatches.append((origin, sems, nl, progs, sc, raw[-400:], mout[mi[1]][-400:]))
            else:
                stats["multi_address_runs"] += 1
                for (ob, li, rows) in mi[1]:
                    stats["projections"] += 1
                    ml = mout[li]
                    if ml.split(" # ")[-1].startswith("disabled") or model_rows(ml, ob) != rows:
                        mismatches.append((origin, sems, nl, progs, sc, "object %s%d real %r" % (ob[0], ob[1], rows[-3:]), ml[-300:]))
                        break
            # (b) the specification on the real trace
            sems0 = sem_values(sems)
            for (key, what, detail) in judge(sems0, pp, steps, end):
                stats["spec_failures"] += 1
                rp = {"sems": sems, "nlists": nl, "progs": progs, "schedule": sc, "end": end, "detail": detail,
                      "trace_tail": tr.split("|")[-6:]}
                if key is None:
                    stats["unclassified_failures"] = stats.get("unclassified_failures", 0) + 1
                    if stats["unclassified_failures"] > MAX_UNCLASSIFIED:
                        continue          # counted; the first ones carry the replay
                ctx.report(key or ("native:%s:%s:%s" % (sems, progs, sc))[:300], what, rp)
            if len(samples) < 3 and origin in ("corpus", "dfs", "random") and (ri % 997 == 0 or origin == "corpus" and ri < 2):
                samples.append({"origin": origin, "sems": sems, "progs": progs, "schedule": sc, "end": end, "last_step": tr.split("|")[-1]})

    CH = 4000
    for i in range(0, len(runs), CH):
        process(runs[i:i + CH])
    runs = None

    # atomic.Value: real value.go vs Model/AtomicValue.lean on the same concrete schedules + the specification
    for i in range(0, len(vruns), CH):
        batch = vruns[i:i + CH]
        mreq = []
        for (origin, progs, raw) in batch:
            sc = raw.split(" # ")[0]
            mreq.append("vrun %s %s" % (";".join(".".join(o.replace("0", "", 1) for o in th.split(".")) if th else "-"
                                                 for th in progs.split(";")), sc))
        mo = model(mreq)
        for (origin, progs, raw), ml in zip(batch, mo):
            sc, tr, end = raw.split(" # ")
            steps = parse_trace(tr)
            vstats["runs"] += 1
            vstats["steps"] += len(steps) - 1
            vstats["random_runs"] += origin == "random"
            for st_ in steps:
                for ev in st_.events:
                    vstats["loads_nil"] += ev.startswith("G") and ev.endswith("=n")
                    vstats["loads_value"] += ev.startswith("G") and not ev.endswith("=n")
                    vstats["panics_inconsistent_type"] += ev.startswith("!")
            if len(set(s_.tid for s_ in steps[1:])) >= 2:
                distinct.add(("value", progs, sc))
            if ml != tr.replace(";S0/0:L0/0:T", ";T") + " # " + end:
                mismatches.append((origin, "value", 1, progs, sc, raw[-400:], ml[-400:]))
            for (key, what, detail) in judge_value(progs, steps, end):
                vstats["spec_failures"] += 1
                stats["unclassified_failures"] = stats.get("unclassified_failures", 0) + 1
                if stats["unclassified_failures"] > MAX_UNCLASSIFIED:
                    continue
                ctx.report(("value:%s:%s" % (progs, sc))[:300], what + "  [verbatim value.go under the scheduler]",
                           {"vprogs": progs, "schedule": sc, "end": end, "detail": detail, "trace_tail": tr.split("|")[-6:]})
    vruns = None
    if not quick and not args.replay:
        # thorough tier: more exhaustive configurations and random runs, streamed (real code -> model -> judge per batch)
        for (s_, p_, mr, ms, b_, nls_) in [dfs_cfg(e) for e in DFS_THOROUGH]:
            o, _, err = real(["dfs %s %s %s %d %d %d" % (s_, nls_, p_, mr, ms, b_)])
            if not o or not o[-1].startswith("end "):
                raise RuntimeError("native harness died during the exhaustive runs: %s" % err[-2000:])
            stats["dfs_configs"] += 1
            stats["dfs_complete"] += 1 if o[-1].endswith("true") else 0
            batch = [("dfs", s_, nls_, p_, a_[4:]) for a_ in o if a_.startswith("run ")]
            for i in range(0, len(batch), CH):
                process(batch[i:i + CH])
        for _ in range(30):
            lines, metas = [], []
            for i in range(CH):
                sems, nadr, progs = gen_prog_set(rng, i % 4 == 3)
                lines.append("rand %s %s %s %d %d %d" % (sems, nadr, progs, rng.getrandbits(40) + 1, 160, rng.choice([0, 0, 30, 100])))
                metas.append((sems, nadr, progs))
            o, _, err = real(lines)
            if len(o) != len(lines):
                raise RuntimeError("native harness died during the random runs: %s" % err[-2000:])
            process([("random", m[0], m[1], m[2], a_) for m, a_ in zip(metas, o)])

    # ---- (B-E) results of the compiled stress programs
    fut.result()
    pool.shutdown()
    want = e2e_expected(N, K, S)
    e2e_stats = {"N": N, "K": K, "S": S, "timings_s": res["t"], "levels": {}}
    n_e2e = 0
    e2e_failed = False
    for opt in ("-O0", "-O2"):
        r = res["runs"].get(opt)
        if r is None:
            continue
        if "build_error" in r:
            e2e_stats["levels"][opt] = "build failed"
            if opt == "-O2":
                ctx.report_broken("e2e stress program %s build" % opt, r["build_error"])
            continue
        got = {}
        for ln in r["stderr"].split("\n"):
            f = ln.split(" ")
            if len(f) == 3 and f[0] == "R":
                try:
                    got[f[1]] = int(f[2])
                except ValueError:
                    got[f[1]] = f[2]
        e2e_stats["levels"][opt] = {"rc": r["rc"], "values": len(got)}
        if r["rc"] == "timeout":
            e2e_failed = True
            ctx.report("e2e:%s:timeout" % opt, "the llgo-compiled stress program (N=%d goroutines, K=%d) did not finish within the timeout at %s; "
                       "last value printed: %s" % (N, K, opt, list(got)[-1:] or "none"), {"N": N, "K": K, "S": S, "opt": opt, "printed": got})
            continue
        missing = [n_ for n_ in want if n_ not in got]
        if missing:
            e2e_failed = True
            ctx.report("e2e:%s:incomplete" % opt, "the llgo-compiled stress program at %s ended with status %r after printing %d of %d values "
                       "(first missing: %s; N=%d goroutines, K=%d)" % (opt, r["rc"], len(got), len(want), missing[0], N, K),
                       {"N": N, "K": K, "S": S, "opt": opt, "rc": r["rc"], "missing": missing, "stderr_tail": r["stderr"][-800:]})
        for name, w in want.items():
            if name not in got:
                continue
            n_e2e += 1
            if got[name] != w:
                e2e_failed = True
                ctx.report("e2e:%s:%s" % (name, opt), "stress program at %s: %s = %r, the Go specification fixes %r (N=%d goroutines, K=%d operations each)" %
                           (opt, name, got[name], w, N, K), {"N": N, "K": K, "S": S, "opt": opt, "name": name, "got": got[name], "want": w,
                                                             "rc": r["rc"], "stderr_tail": r["stderr"][-600:]})
    # ---- verdicts
    # tie (A)
    bad_rows = [e for e in entries if not py_entry_ok(e)]
    if problems or bad_rows or missing_decl:
        ctx.log("atomics table: problems %s; rows not of the expected shape: %s; entry points not declared in lib/sync/atomic: %s" %
                (problems[:3], [(e["fn"], e["body"]) for e in bad_rows[:3]], missing_decl))
    thm_bad = sorted(n for n, s in st.items() if s != "ok")
    if (thm_bad or problems) and not ctx.violations:
        ctx.report_broken("Props/C11: " + ", ".join(n.split(".")[-1] for n in thm_bad) if thm_bad else "tie (A): atomics table could not be regenerated",
                          {"theorems": {n: st[n] for n in thm_bad}, "table_problems": problems,
                           "rows_not_of_expected_shape": [{"fn": e["fn"], "ir": e["body"]} for e in bad_rows],
                           "note": "the e2e stress programs were run and showed no wrong value" if not e2e_failed else ""})
    if mismatches:
        ctx.log("correspondence mismatches: %d, first: %s" % (len(mismatches), mismatches[0]))
        ctx.broken.append("correspondence real sema_llgo.go vs Lean model variant %s (%d runs differ)" % (cfg, len(mismatches)))
        if not ctx.violations:
            m0 = mismatches[0]
            ctx.report_broken("correspondence C11 real-vs-model", {"variant": cfg, "first": [
                {"origin": m[0], "sems": m[1], "nlists": m[2], "progs": m[3], "schedule": m[4], "real": m[5], "model": m[6]} for m in mismatches[:5]]})
    ctx.coverage["samples"] = samples + [{"atomics_row": entries[0]["fn"] + ": " + " ; ".join(entries[0]["body"])} if entries else {}]
    ctx.coverage["code_variant"] = {"ticketLess": ticket_less, "oneBroadcast": one_broadcast, "casRetry": cas_retry}
    ctx.coverage["e2e"] = e2e_stats
    layered_stats.pop("_ptraces", None)      # observed access traces of the patched Mutex (kept for a future model replay)
    ctx.coverage["layered_sync"] = layered_stats
    ctx.coverage["atomic_value"] = vstats
    ctx.coverage["fine_mode"] = fstats
    ctx.coverage["atomics_table"] = {"rows": len(entries), "rows_of_expected_shape": len(entries) - len(bad_rows), "problems": problems,
                                     "entry_points_declared_in_lib_sync_atomic": len(declared)}
    ctx.coverage["trusted_base"] += [
        "hand-written Lean model of sema_llgo.go tied by per-step differential runs (real Go source under the psync scheduler vs modeld_c11, "
        "variant chosen by replaying the counterexample witnesses); multi-address runs are compared per object by projection",
        "psync scheduler + yielding atomics stand-ins (harness/native/standins/psync, harness/c11/standins/latomic): assumed to implement "
        "pthread mutex / condition variable semantics incl. spurious wake-ups and arbitrary Signal targets; every atomic access is one scheduling point",
        "tie (A): textual parser of atomicrmw/cmpxchg/load atomic/store atomic in harness/c11/atomgen.py; IR captured through an `llc` stand-in "
        "from `llgo build -check-llfiles` (the module llgo compiles in memory); indivisibility and the total order of seq_cst instructions are "
        "LLVM's and the hardware's (trusted, not proved)",
        "the notify list's ticket counters are modelled as true counts whose 32-bit images drive every decision (histories start at arbitrary "
        "values, e.g. just below the wrap); the semaphore count is a natural number (its wrap after 2^32 releases is not modelled)",
        "specification judge (permits conserved, acquire takes a permit from a positive count, Wait returns only after a notification completed "
        "between its ticket and its return, nobody asleep next to a permit / behind a covering notification in quiescent states) in checks/c11.py",
    ]
    ctx.assumptions += ["LLVM 14 code generation implements the LangRef semantics of seq_cst atomics on x86-64; only amd64 executes",
                        "Go's sync package itself cannot be compiled by llgo in the sandbox: its sources are exercised natively on top of the copied semaphore"]
    return ctx.finish("proof", {
        "evaluations": stats["steps"] + vstats["steps"] + fstats["steps"] + n_e2e, "distinct_nontrivial": len(distinct),
        "rule": "evaluation = one scheduled step of the real sema_llgo.go compared with the model (+ one counter of a compiled stress program); "
                "distinct non-trivial = distinct (initial counts, programs, schedule) triples in which at least two threads take steps",
        "input_distribution": stats, "correspondence_mismatches": len(mismatches),
        "checker_cmd": "cd /verif/lean && lake build LlgoVerif.Props.C11 (Gen/C11Atomics.lean regenerated from llgo's IR) + #print axioms audit",
    })


GOSRC = os.path.join(GO124, "src")
SYNC_FILES = ["mutex.go", "rwmutex.go", "waitgroup.go", "once.go", "cond.go", "runtime2.go"]
SYNC_MAPS = [('"internal/race"', '"%s/race"' % native.VN, "race"), ('"internal/sync"', '"%s/isync"' % native.VN, "isync"),
             ('"sync/atomic"', '"%s/latomic"' % native.VN, "atomic")]


# llgo-OWNED sync sources (everything else of `sync` comes from the Go toolchain and is layered on sema_llgo.go):
#   runtime/_patch/internal/sync/mutex.go        patched into internal/sync for go1.26  -> verbatim copy, scenarios pmutex / pmutex-try
#   runtime/_patch/internal/sync/runtime.go      body-less linkname pulls of the hooks  -> replaced by harness/c11/pisync_runtime.go.txt
#   runtime/_patch/internal/sync/hashtriemap.go  (//llgo:skipall) HashTrieMap for sync.Map -> NOT covered (sync.Map is outside C11's clauses)
#   runtime/internal/lib/sync/atomic/value.go    atomic.Value                           -> Model/AtomicValue.lean + native tie (above)
#   runtime/internal/lib/sync/atomic/{atomic,type}.go  intrinsic declarations / typed wrappers -> tie (A) / end to end
PATCH_SYNC = os.path.join("runtime", "_patch", "internal", "sync")
PATCH_HOOKS = ["runtime_SemacquireMutex", "runtime_Semrelease", "runtime_canSpin", "runtime_doSpin", "runtime_nanotime", "throw", "fatal"]


def patched_mutex_source():
    """runtime/_patch/internal/sync/mutex.go of the working tree, verbatim but for the build-tag line and the import paths"""
    path = os.path.join(REPO, PATCH_SYNC, "mutex.go")
    if not os.path.exists(path):
        raise HarnessBuildError("source missing: " + path)
    src = open(path).read()
    src = re.sub(r'^//go:build [^\n]*\n', "", src, count=1, flags=re.M)
    out, edits = native.rewrite_source(src, package="sync")
    hooks = open(os.path.join(REPO, PATCH_SYNC, "runtime.go")).read()
    declared = sorted(re.findall(r'^func (\w+)\(', hooks, flags=re.M))
    if declared != sorted(PATCH_HOOKS):
        raise HarnessBuildError("runtime/_patch/internal/sync/runtime.go declares hooks %s; the stand-ins supply %s" % (declared, sorted(PATCH_HOOKS)))
    return out


def build_layered(ctx):
    """Go's own sync sources (toolchain in use) + internal/sync/mutex.go on top of the verbatim sema_llgo.go,
    and llgo's own patched Mutex (runtime/_patch/internal/sync/mutex.go) on the same semaphore"""
    for m in [LAT] + SYNC_MAPS:
        if m not in native.IMPORT_MAP:
            native.IMPORT_MAP.insert(0, m)
    rd = lambda *q: open(os.path.join(H, *q)).read()
    mains = {"main.go": rd("syncmain.go.txt"), "lrt/zz_access.go": rd("lrt_access.go.txt"), "lrt/zz_reset.go": reset_source(),
             "latomic/atomic.go": rd("standins", "latomic", "atomic.go"), "race/race.go": rd("standins", "race", "race.go"),
             "isync/zz_runtime.go": rd("isync_runtime.go.txt"), "gsync/zz_runtime.go": rd("gsync_runtime.go.txt"),
             "pisync/zz_runtime.go": rd("pisync_runtime.go.txt")}
    other = {SEMA_SRC: ("lrt", "lrt"), os.path.join(GOSRC, "internal", "sync", "mutex.go"): ("isync", "sync")}
    for f in SYNC_FILES:
        other[os.path.join(GOSRC, "sync", f)] = ("gsync", "sync")
    for q in other:
        if not os.path.exists(os.path.join(REPO, q)):
            raise HarnessBuildError("source missing: " + q)
    mains["pisync/mutex.go"] = patched_mutex_source()
    return native.make_native(ctx, [], {}, mains, other=other, name="native-c11-sync")


def judge_layered(scn, n, end, evs, final):
    """contracts of Go's sync primitives, judged on the event log of the real stack. -> [(key or None, what)]"""
    fails = []
    if end.startswith("panic"):
        if not scn.startswith("pmutex"):
            return [(None, "the sync stack panicked: " + end)]
        fails.append((None, "the Mutex code stopped with " + end))      # after the exclusion verdicts below
    if scn in ("mutex", "pmutex", "pmutex-try"):
        inside = set()
        for (k, t, w) in evs:
            if w == "enter":
                if inside:
                    fails.insert(0, (None, "Mutex: thread %d entered the critical section at step %d while %s is inside" % (t, k, sorted(inside))))
                inside.add(t)
            elif w == "leave":
                inside.discard(t)
        if end == "stuck":
            fails.append((None, "Mutex: no thread can run although not all critical sections were executed (a waiter is never admitted)"))
    elif scn == "rwmutex":
        rd, wr = set(), set()
        for (k, t, w) in evs:
            if w == "wenter":
                if rd or wr:
                    fails.append((None, "RWMutex: writer %d entered at step %d with readers %s / writers %s inside" % (t, k, sorted(rd), sorted(wr))))
                wr.add(t)
            elif w == "renter":
                if wr:
                    fails.append((None, "RWMutex: reader %d entered at step %d while writer %s is inside" % (t, k, sorted(wr))))
                rd.add(t)
            elif w == "wleave":
                wr.discard(t)
            elif w == "rleave":
                rd.discard(t)
        if end == "stuck":
            sems = dict(x.split("=") for x in final.split(","))
            pos = [k_ for k_, v in sems.items() if int(v) > 0]
            fails.append((K_CAS if pos else None,
                          "RWMutex: no thread can run although lock requests are pending (%s%s)" %
                          (final, "; a thread sleeps on a semaphore whose count is positive" if pos else "")))
    elif scn == "waitgroup":
        done = 0
        for (k, t, w) in evs:
            if w == "done":
                done += 1
            elif w == "waitret" and done != n - 1:
                fails.append((None, "WaitGroup: Wait returned at step %d after %d of %d Done calls" % (k, done, n - 1)))
        if end == "stuck":
            fails.append((None, "WaitGroup: no thread can run although the counter reached zero / workers are pending (%s)" % final))
    elif scn == "once":
        begins = [e for e in evs if e[2] == "fbegin"]
        ends = [e for e in evs if e[2] == "fend"]
        if len(begins) > 1:
            fails.append((None, "Once: the function ran %d times" % len(begins)))
        for (k, t, w) in evs:
            if w == "doret" and (not ends or ends[0][0] > k):
                fails.append((None, "Once: Do returned at step %d before the function had completed" % k))
        if end == "stuck":
            fails.append((None, "Once: no thread can run although Do calls are pending"))
    else:
        starts = [(k, t) for (k, t, w) in evs if w == "waitstart"]          # order = ticket order (Wait registers under c.L)
        ticket = {t: i for i, (k, t) in enumerate(starts)}
        startk = {t: k for (k, t) in starts}
        rets, nl, regk = [], {}, {}
        for (k, t, w) in evs:
            if w.startswith("nladd."):           # the moment the waiter is registered (ticket drawn)
                regk[t] = k
            elif w.startswith("nlret."):           # ticket and notify counter when runtime_notifyListWait returned
                nl[t] = (int(w.split(".")[1]), int(w.split(".")[2]))
            elif w == "waitret":
                if t in nl:
                    ticket[t] = nl[t][0]
                rets.append((k, t, nl.get(t, (0, 1 << 40))[1]))
        sig, bc, open_ = [], [], {}
        for (k, t, w) in evs:
            if w in ("sigbegin", "bcbegin"):
                open_[t] = k
            elif w == "sigend":
                sig.append((open_.pop(t), k, t))
            elif w == "bcend":
                bc.append((open_.pop(t), k, t))
        inf = 1 << 60
        for t, k in open_.items():            # still running at the end of the run
            (sig if any(e == (k, t, "sigbegin") for e in evs) else bc).append((k, inf, t))
        need = [(k, t, nn) for (k, t, nn) in rets if not any(e > startk[t] and b < k for (b, e, _) in bc)]
        adj = [[j for j, (b, e, _) in enumerate(sig) if e > startk[t] and b < k] for (k, t, nn) in need]
        if max_matching(adj, len(sig)) < len(need):
            below = [(k, t, nn) for (k, t, nn) in need if nn < ticket[t]]
            rest = [(k, t, nn) for (k, t, nn) in need if not nn < ticket[t]]
            adj2 = [[j for j, (b, e, _) in enumerate(sig) if e > startk[t] and b < k] for (k, t, nn) in rest]
            if below and max_matching(adj2, len(sig)) == len(rest):
                bad, key = below, K_TICKET
            else:
                bad, key = need, None
            for (k, t, nn) in bad:
                fails.append((key, "Cond: Wait of thread %d (registered %d%s) returned at step %d although no Signal/Broadcast issued after it "
                              "started waiting is available for it (notify counter %d then)" %
                              (t, ticket[t] + 1, "st" if ticket[t] == 0 else "nd" if ticket[t] == 1 else "th", k, nn)))
        if end == "stuck":
            asleep = [t for t in regk if not any(rt == t for (_, rt, _) in rets)]
            for t in asleep:
                if any(b > regk[t] for (b, e, _) in bc):
                    fails.append((None, "Cond: thread %d still sleeps in Wait although a Broadcast was issued after it was registered as a waiter" % t))
                elif sum(1 for (b, e, _) in sig if b > regk[t]) > sum(1 for (k, _, _) in rets if k > regk[t]):
                    fails.append((None, "Cond: thread %d still sleeps in Wait although more Signals were issued after it was registered than waiters returned" % t))
    return fails


def layered(ctx, quick, ticket_less, cas_retry, only=None):
    rng = ctx.rng
    binp = build_layered(ctx)
    n_runs = 1600 if quick else 60000
    scns = ["mutex", "rwmutex", "rwmutex", "waitgroup", "once", "cond-signal", "cond-broadcast", "cond-nosignal"]
    lines, metas = [], []
    # llgo's own Mutex source: boundary stream first (clock steps around the 1 ms threshold, strongest bias towards
    # newcomers inside the hand-off window), then the random stream
    n_p = 1200 if quick else 40000
    for i in range(n_p):
        scn = "pmutex-try" if i % 5 == 4 else "pmutex"
        n = rng.choice([3, 3, 4, 4, 5, 6])
        it = rng.choice([2, 3, 4, 5])
        ns = rng.choice([0, 1000, 100000, 250000, 500000, 1000001, 2000000, 2000000]) if i >= 64 else [999999, 1000000, 1000001, 250000][i % 4]
        seed = rng.getrandbits(40) + 1
        if i < 64:
            seed = seed - seed % 8 + 7
        lines.append("sync %s %d %d %d %d %d %d" % (scn, n, it, seed, 6000, rng.choice([0, 0, 20, 60]), ns))
        metas.append((scn, n, it))
    for i in range(n_runs):
        scn = scns[i % len(scns)]
        n = rng.choice([2, 3, 3, 4])
        it = rng.choice([1, 2, 3])
        ns = rng.choice([0, 0, 2000000]) if scn in ("mutex", "rwmutex") else 0
        lines.append("sync %s %d %d %d %d %d %d" % (scn, n, it, rng.getrandbits(40) + 1, 6000, rng.choice([0, 0, 20, 60]), ns))
        metas.append((scn, n, it))
    if only:
        f_ = only.split()
        lines, metas = [only], [(f_[1], int(f_[2]), int(f_[3]))]
    out, rc, err = run_lines([binp], lines, timeout=3000)
    if len(out) != len(lines):
        raise RuntimeError("layered sync harness died: %d/%d answers: %s" % (len(out), len(lines), err[-1500:]))
    st = {"runs": len(lines), "per_scenario": {}, "ends": {}, "events": 0, "contract_failures": 0,
          "go_sources": "GOROOT/src/sync/{%s} + internal/sync/mutex.go of %s" % (",".join(SYNC_FILES), os.path.basename(GO124))}
    ptraces = []
    pcov = {"runs": 0, "starvation_mode_entered": 0, "handoff_windows": 0, "newcomer_cas_inside_handoff_window": 0,
            "newcomer_registered_as_waiter_inside_window": 0}
    for line, (scn, n, it), o in zip(lines, metas, out):
        end, e, final = o.split(" # ")
        evs = []
        if e != "-":
            for x in e.split(","):
                k, t, w = x.split(":")
                evs.append((int(k), int(t), w))
        if scn.startswith("pmutex"):
            ptraces.append((line, n, end, evs))
            pmutex_coverage(evs, pcov)
        st["per_scenario"][scn] = st["per_scenario"].get(scn, 0) + 1
        st["ends"][end.split(":")[0]] = st["ends"].get(end.split(":")[0], 0) + 1
        st["events"] += len(evs)
        verdicts = judge_layered(scn, n, end, evs, final)
        for (key, what) in (verdicts[:1] if scn.startswith("pmutex") else verdicts):      # one replay file per request: the first verdict
            st["contract_failures"] += 1
            if (key == K_CAS and cas_retry) or (key == K_TICKET and ticket_less):
                key = None          # the tree has the repair: this is not the old, known class
            if key is None:
                st["unclassified_failures"] = st.get("unclassified_failures", 0) + 1
                if st["unclassified_failures"] > MAX_UNCLASSIFIED:
                    continue
            ctx.report(key or ("layered:" + line)[:300], what + ("  [llgo's own runtime/_patch/internal/sync/mutex.go (verbatim) on the verbatim sema_llgo.go, "
                       "settable clock, request `%s` = scenario threads iterations seed(schedule) maxsteps spurious-permille ns-per-step]" if scn.startswith("pmutex")
                       else "  [Go's own sync sources on the verbatim sema_llgo.go, request `%s`]") % line,
                       {"request": line, "end": end, "events": e[-1500:], "final": final})
    st["patched_mutex"] = pcov
    st["_ptraces"] = ptraces
    return st


def pmutex_coverage(evs, cov):
    """how often the runs of llgo's own Mutex reach starvation mode and a newcomer inside the hand-off window
    (state word: starving set, locked clear), read off the observed accesses to the state word"""
    cov["runs"] += 1
    word, starv, win, inwin = 0, False, False, False
    hit = reg = False
    for (k, t, w) in evs:
        f = w.split(".")
        if f[0] not in ("cas", "add"):
            continue
        old, new, ok = int(f[1]), int(f[2]), f[3] == "1"
        if inwin and f[0] == "cas" and word & 5 == 4:
            if old == word:
                hit = True
                if ok and new == word + 8:
                    reg = True
        if ok:
            word = new
        if word & 4:
            starv = True
        inwin = word & 5 == 4
        win = win or inwin
    cov["starvation_mode_entered"] += starv
    cov["handoff_windows"] += win
    cov["newcomer_cas_inside_handoff_window"] += hit
    cov["newcomer_registered_as_waiter_inside_window"] += reg

