/-!
# EfaceEq — model of the run-time equality of interface values   (property C01)

`==` / `!=` on two interface values is lowered (ssa/expr.go BinOp) to a call of `runtime.EfaceEqual`
(runtime/internal/runtime/z_face.go); fields and elements of interface type inside structs and arrays are compared by the
`Equal` function of the interface type's descriptor, `nilinterequal` / `interequal` → `efaceeq` / `ifaceeq` (alg.go).
All of them have the same shape, mirrored here branch by branch:

    if v._type == nil || u._type == nil { return v._type == u._type }
    if v._type != u._type { return false }
    equal := v._type.Equal
    if equal == nil { panic("comparing uncomparable type …") }
    if isDirectIface(v._type) { return v.data == u.data }
    return equal(v.data, u.data)

A descriptor is what the routine reads of it: its identity (address), whether it has an `Equal` function, whether its
values are stored directly in the data word (pointer-shaped types).  The `Equal` functions themselves (`f64equal`,
`strequal`, `structequal` …) are a parameter `equal tid p q`; `.error ()` = the call panics.
-/
namespace LlgoVerif.EfaceEq

structure Desc where
  tid : Nat
  hasEqual : Bool
  direct : Bool
deriving Repr, DecidableEq, Inhabited

structure Eface where
  typ : Option Desc
  data : Nat
deriving Repr, DecidableEq, Inhabited

abbrev EqFn := Nat → Nat → Nat → Except Unit Bool

/-- `EfaceEqual` (z_face.go) -/
def efaceEqual (equal : EqFn) (v u : Eface) : Except Unit Bool :=
  match v.typ, u.typ with
  | none, none => .ok true
  | none, some _ => .ok false
  | some _, none => .ok false
  | some tv, some tu =>
    if tv.tid ≠ tu.tid then .ok false
    else if !tv.hasEqual then .error ()
    else if tv.direct then .ok (v.data == u.data)
    else equal tv.tid v.data u.data

/-- `efaceeq(t, x, y)` (alg.go): the two operands are known to have the same descriptor `t` -/
def efaceeq (equal : EqFn) (t : Option Desc) (x y : Nat) : Except Unit Bool :=
  match t with
  | none => .ok true
  | some d =>
    if !d.hasEqual then .error ()
    else if d.direct then .ok (x == y)
    else equal d.tid x y

/-- `nilinterequal(p, q)` (alg.go): `x._type == y._type && efaceeq(x._type, x.data, y.data)` -/
def nilInterEqual (equal : EqFn) (v u : Eface) : Except Unit Bool :=
  if (v.typ.map (·.tid)) = (u.typ.map (·.tid)) then efaceeq equal v.typ v.data u.data else .ok false

/-! ## Specification: Go's rule for comparing interface values

"Two interface values are equal if they have identical dynamic types and equal dynamic values or if both have value
nil"; "a comparison of two interface values with identical dynamic types causes a run-time panic if that type is not
comparable". -/

/-- how the data word of a descriptor denotes a Go value, and Go's `==` on the values of one dynamic type
    (`.error ()` = run-time panic: the type, or the dynamic type of an interface-typed part, is not comparable) -/
structure ValRepr (α : Type) where
  val : Nat → Nat → α
  veq : Nat → α → α → Except Unit Bool

def specEq {α : Type} (R : ValRepr α) (v u : Eface) : Except Unit Bool :=
  match v.typ, u.typ with
  | none, none => .ok true
  | none, some _ => .ok false
  | some _, none => .ok false
  | some tv, some tu =>
    if tv.tid ≠ tu.tid then .ok false
    else R.veq tv.tid (R.val tv.tid v.data) (R.val tv.tid u.data)

/-- what the compiler owes for a descriptor (ssa/abitype.go): no `Equal` function exactly for the types Go cannot
    compare; for a pointer-shaped type the data word IS the value and `==` is word equality; otherwise the `Equal`
    function compares the pointed-to values as Go's `==` does -/
structure DescOK {α : Type} (R : ValRepr α) (equal : EqFn) (d : Desc) : Prop where
  uncomparable : d.hasEqual = false → ∀ x y, R.veq d.tid x y = .error ()
  direct : d.hasEqual = true → d.direct = true → ∀ p q, R.veq d.tid (R.val d.tid p) (R.val d.tid q) = .ok (p == q)
  indirect : d.hasEqual = true → d.direct = false → ∀ p q, equal d.tid p q = R.veq d.tid (R.val d.tid p) (R.val d.tid q)

end LlgoVerif.EfaceEq
