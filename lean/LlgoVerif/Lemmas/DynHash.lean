import LlgoVerif.Lemmas.DynEq
/-!
# Lemmas for DynEq (C07), hashing: `a == b → hash a = hash b`, unhashable values panic
-/
namespace LlgoVerif.DynEq

/-! ## `TFlagRegularMemory` is sound: on a type flagged regular, `Equal` says true only for identical byte images -/

theorem memeq_true_bytes {a c : List UInt8} {n : Nat} (ha : a.length = n) (hc : c.length = n)
    (h : memeq n (.bytes a : Obj Ty) (.bytes c) = .ok true) : a = c := by
  rw [memeq_bytes ha hc] at h
  have : (leNat a == leNat c) = true := by simpa using h
  exact leNat_inj a c (ha.trans hc.symm) (by simpa using this)

/-- first offset of a field list is `c` -/
def startsAt : Fs → Nat → Prop
  | .nil, _ => True
  | .cons _ off _ _, c => off = c

theorem regularTy_struct2 (size : Nat) (n1 o1 : Nat) (t1 : Ty) (n2 o2 : Nat) (t2 : Ty) (r : Fs) :
    regularTy (.struct size (.cons n1 o1 t1 (.cons n2 o2 t2 r))) = regularFields size (.cons n1 o1 t1 (.cons n2 o2 t2 r)) := by
  simp [regularTy]

mutual
theorem regular_flat : ∀ (p : Obj Ty) (ty : Ty) (q : Obj Ty) (f : EqFn),
    regularTy ty = true → layoutOK ty = true → fits ty p = true → fits ty q = true → equalName ty = some f →
    callEq descOf f (descOf ty) p q = .ok true → flat p = flat q
  | .bytes a, ty, q, f, hr, _, hp, hq, hf, he => by
    rw [← regularTy_under] at hr; rw [← equalName_under] at hf
    cases hu : under ty with
    | basic b =>
      rw [hu] at hr hf
      cases q with
      | bytes c =>
        simp only [fits, hu] at hp hq
        simp only [flat]
        cases b <;> simp [regularTy, Basic.regular] at hr <;>
          (simp [equalName, Basic.equalName, Basic.size] at hp hq hf; subst hf; simp only [callEq] at he;
           exact memeq_true_bytes hp hq he)
      | str _ _ => cases b <;> simp [fits, hu] at hp hq
      | enil _ => simp [fits, hu] at hq
      | eface _ _ _ _ => simp [fits, hu] at hq
      | seq _ _ => simp [fits, hu] at hq
    | ptr k tag =>
      rw [hu] at hr hf
      cases q with
      | bytes c =>
        simp only [fits, hu] at hp hq
        simp only [flat]
        cases k <;> simp [regularTy] at hr <;>
          (simp [equalName] at hp hq hf; subst hf; simp only [callEq] at he; exact memeq_true_bytes hp hq he)
      | str _ _ => simp [fits, hu] at hq
      | enil _ => simp [fits, hu] at hq
      | eface _ _ _ _ => simp [fits, hu] at hq
      | seq _ _ => simp [fits, hu] at hq
    | slice tag => rw [hu] at hr; simp [regularTy] at hr
    | iface n tag => simp [fits, hu] at hp
    | array n e => simp [fits, hu] at hp
    | struct size fs => simp [fits, hu] at hp
    | named i u => exact absurd hu (under_not_named ty i u)
  | .str _ _, ty, q, f, hr, _, hp, _, _, _ => by
    rw [← regularTy_under] at hr
    cases hu : under ty with
    | basic b => cases b <;> simp [fits, hu] at hp; simp [hu, regularTy, Basic.regular] at hr
    | ptr k tag => simp [fits, hu] at hp
    | slice tag => simp [fits, hu] at hp
    | iface n tag => simp [fits, hu] at hp
    | array n e => simp [fits, hu] at hp
    | struct size fs => simp [fits, hu] at hp
    | named i u => exact absurd hu (under_not_named ty i u)
  | .enil _, ty, q, f, hr, _, hp, _, _, _ => by
    rw [← regularTy_under] at hr
    cases hu : under ty with
    | iface n tag => simp [hu, regularTy] at hr
    | basic b => cases b <;> simp [fits, hu] at hp
    | ptr k tag => simp [fits, hu] at hp
    | slice tag => simp [fits, hu] at hp
    | array n e => simp [fits, hu] at hp
    | struct size fs => simp [fits, hu] at hp
    | named i u => exact absurd hu (under_not_named ty i u)
  | .eface _ _ _ _, ty, q, f, hr, _, hp, _, _, _ => by
    rw [← regularTy_under] at hr
    cases hu : under ty with
    | iface n tag => simp [hu, regularTy] at hr
    | basic b => cases b <;> simp [fits, hu] at hp
    | ptr k tag => simp [fits, hu] at hp
    | slice tag => simp [fits, hu] at hp
    | array n e => simp [fits, hu] at hp
    | struct size fs => simp [fits, hu] at hp
    | named i u => exact absurd hu (under_not_named ty i u)
  | .seq ps tail, ty, q, f, hr, hl, hp, hq, hf, he => by
    rw [← regularTy_under] at hr; rw [← equalName_under] at hf; rw [← layoutOK_under] at hl
    rw [← descOf_under ty] at he
    cases hu : under ty with
    | array n e =>
      rw [hu] at hr hf hl he
      simp only [layoutOK] at hl
      cases q with
      | seq qs tail' =>
        simp only [fits, hu, Bool.and_eq_true, List.isEmpty_iff] at hp hq
        obtain ⟨ht, hpe⟩ := hp
        obtain ⟨ht', hqe⟩ := hq
        subst ht; subst ht'
        simp only [flat, List.append_nil]
        simp only [equalName] at hf
        cases hee : equalName e with
        | none => simp [hee] at hf
        | some g =>
          simp only [hee] at hf
          by_cases hz : tsize e = 0
          · -- zero-size elements: both images are empty
            have l1 := fitsElems_len ps e n hpe
            have l2 := fitsElems_len qs e n hqe
            rw [hz, Nat.mul_zero] at l1 l2
            rw [List.eq_nil_of_length_eq_zero l1, List.eq_nil_of_length_eq_zero l2]
          · simp only [hz, if_false, Option.some.injEq] at hf
            subst hf
            simp only [descOf, callEq] at he
            simp only [regularTy, Bool.or_eq_true, beq_iff_eq] at hr
            cases hr with
            | inr hn0 =>
              subst hn0
              cases ps with
              | cons _ _ _ => simp [fitsElems] at hpe
              | nil =>
                cases qs with
                | cons _ _ _ => simp [fitsElems] at hqe
                | nil => rfl
            | inl hre =>
              have he' : eqElems descOf (descOf e) n 0 ps qs (0 * tsize e) (0 * tsize e) = .ok true := by simpa using he
              exact regular_flat_elems ps e n 0 qs g hre hl hpe hqe hee he'
      | bytes _ => cases e <;> simp [fits, hu] at hq
      | str _ _ => simp [fits, hu] at hq
      | enil _ => simp [fits, hu] at hq
      | eface _ _ _ _ => simp [fits, hu] at hq
    | struct size fs =>
      rw [hu] at hr hf hl he
      cases q with
      | seq qs tail' =>
        simp only [fits, hu, Bool.and_eq_true, beq_iff_eq] at hp hq
        obtain ⟨hpf, hps⟩ := hp
        obtain ⟨hqf, hqs⟩ := hq
        simp only [flat]
        cases fs with
        | nil =>
          simp only [layoutOK, layoutOKFs, Bool.and_true, beq_iff_eq] at hl
          subst hl
          cases ps with
          | cons _ _ _ => simp [fitsFields] at hpf
          | nil =>
            cases qs with
            | cons _ _ _ => simp [fitsFields] at hqf
            | nil =>
              simp only [flatParts, List.length_nil, Nat.zero_add] at hps hqs
              rw [List.eq_nil_of_length_eq_zero hps, List.eq_nil_of_length_eq_zero hqs]
        | cons n1 o1 t1 r1 =>
          have hall : allEqualNamed (.cons n1 o1 t1 r1) = true := by
            simp only [equalName] at hf
            by_cases ha : allEqualNamed (.cons n1 o1 t1 r1) = true
            · exact ha
            · simp [ha] at hf
          have hfeq : f = .structequal := by
            simp only [equalName, hall, if_true, Option.some.injEq] at hf
            exact hf.symm
          subst hfeq
          simp only [descOf, callEq] at he
          have hreg : regularFields size (.cons n1 o1 t1 r1) = true ∨
              (r1 = .nil ∧ n1 ≠ 0 ∧ regularTy t1 = true) := by
            cases r1 with
            | nil =>
              right
              simp only [regularTy, Bool.and_eq_true, bne_iff_ne, ne_eq] at hr
              exact ⟨rfl, hr.1, hr.2⟩
            | cons n2 o2 t2 r2 =>
              left
              rw [regularTy_struct2] at hr
              exact hr
          have hoff : o1 = 0 := by
            cases r1 with
            | nil => simp only [layoutOK, Bool.and_eq_true, beq_iff_eq] at hl; exact hl.1.1
            | cons _ _ _ _ => simp only [layoutOK, Bool.and_eq_true, beq_iff_eq] at hl; exact hl.1
          have hlf : layoutOKFs (.cons n1 o1 t1 r1) = true := by
            simp only [layoutOK, Bool.and_eq_true] at hl; exact hl.2
          cases hreg with
          | inl hregf =>
            have := regular_flat_fields ps (.cons n1 o1 t1 r1) qs 0 size hregf hlf hpf hqf (by simp [startsAt, hoff]) hall he
            obtain ⟨e1, e2, e3⟩ := this
            simp only [Nat.zero_add, reduceCtorEq, if_false] at e2 e3
            have ht : tail = [] := List.eq_nil_of_length_eq_zero (by omega)
            have ht' : tail' = [] := List.eq_nil_of_length_eq_zero (by omega)
            rw [e1, ht, ht']
          | inr h1 =>
            obtain ⟨hr1, hn1, hrt⟩ := h1
            subst hr1
            simp only [layoutOK, layoutOKFs, Bool.and_eq_true, beq_iff_eq, Bool.and_true] at hl
            obtain ⟨⟨_, hsz⟩, hlt⟩ := hl
            subst hoff
            cases ps with
            | nil => simp [fitsFields] at hpf
            | cons pre o rest =>
              cases qs with
              | nil => simp [fitsFields] at hqf
              | cons pre' o' rest' =>
                simp only [fitsFields, Bool.and_eq_true, beq_iff_eq, Nat.zero_add] at hpf hqf
                obtain ⟨⟨⟨hpre, hfo⟩, hlo⟩, hrr⟩ := hpf
                obtain ⟨⟨⟨hpre', hfo'⟩, hlo'⟩, hrr'⟩ := hqf
                have hpre0 : pre = [] := List.eq_nil_of_length_eq_zero hpre
                have hpre0' : pre' = [] := List.eq_nil_of_length_eq_zero hpre'
                subst hpre0; subst hpre0'
                cases rest with
                | cons _ _ _ => simp [fitsFields] at hrr
                | nil =>
                  cases rest' with
                  | cons _ _ _ => simp [fitsFields] at hrr'
                  | nil =>
                    simp only [flatLen] at hlo hlo'
                    simp only [flatParts, List.nil_append, List.append_nil, hlo, hlo', hsz] at hps hqs
                    have ht : tail = [] := List.eq_nil_of_length_eq_zero (by omega)
                    have ht' : tail' = [] := List.eq_nil_of_length_eq_zero (by omega)
                    subst ht; subst ht'
                    simp only [flatParts, List.nil_append, List.append_nil]
                    simp only [allEqualNamed, Bool.and_true] at hall
                    cases hg : equalName t1 with
                    | none => simp [hg] at hall
                    | some g =>
                      have hname : (n1 == 0) = false := by simpa using hn1
                      simp only [descFields, eqFields, List.length_nil, Nat.add_zero, ne_eq, not_true_eq_false, or_self,
                        if_false, hname, Bool.false_eq_true, descOf_c, commonOf, hg] at he
                      have hce : callEq descOf g (descOf t1) o o' = .ok true := by
                        generalize callEq descOf g (descOf t1) o o' = r at he
                        cases r with
                        | error x => simp at he
                        | ok b => cases b <;> simp at he ⊢
                      exact regular_flat o t1 o' g hrt hlt hfo hfo' hg hce
      | bytes _ => simp [fits, hu] at hq
      | str _ _ => simp [fits, hu] at hq
      | enil _ => simp [fits, hu] at hq
      | eface _ _ _ _ => simp [fits, hu] at hq
    | basic b => cases b <;> simp [fits, hu] at hp
    | ptr k tag => simp [fits, hu] at hp
    | slice tag => simp [fits, hu] at hp
    | iface n tag => simp [fits, hu] at hp
    | named i u => exact absurd hu (under_not_named ty i u)
theorem regular_flat_elems : ∀ (ps : Parts Ty) (e : Ty) (n i : Nat) (qs : Parts Ty) (g : EqFn),
    regularTy e = true → layoutOK e = true → fitsElems e n ps = true → fitsElems e n qs = true → equalName e = some g →
    eqElems descOf (descOf e) n i ps qs (i * tsize e) (i * tsize e) = .ok true → flatParts ps = flatParts qs
  | .nil, e, n, i, qs, g, _, _, hp, hq, _, _ => by
    simp only [fitsElems, beq_iff_eq] at hp
    subst hp
    cases qs with
    | nil => rfl
    | cons _ _ _ => simp [fitsElems] at hq
  | .cons pre o rest, e, n, i, qs, g, hr, hl, hp, hq, hg, he => by
    cases n with
    | zero => simp [fitsElems] at hp
    | succ n =>
      cases qs with
      | nil => simp [fitsElems] at hq
      | cons pre' o' rest' =>
        simp only [fitsElems, Bool.and_eq_true, List.isEmpty_iff, beq_iff_eq] at hp hq
        obtain ⟨⟨⟨hpre, hfo⟩, hlo⟩, hrr⟩ := hp
        obtain ⟨⟨⟨hpre', hfo'⟩, hlo'⟩, hrr'⟩ := hq
        subst hpre; subst hpre'
        simp only [eqElems, descOf_c, commonOf, hg, List.length_nil, Nat.add_zero, ne_eq, not_true_eq_false, or_self,
          if_false, hlo, hlo'] at he
        rw [show i * tsize e + tsize e = (i + 1) * tsize e by rw [Nat.succ_mul]] at he
        generalize hc : callEq descOf g (descOf e) o o' = r at he
        cases r with
        | error x => simp at he
        | ok b =>
          cases b with
          | false => simp at he
          | true =>
            simp only at he
            have h1 := regular_flat o e o' g hr hl hfo hfo' hg hc
            have h2 := regular_flat_elems rest e n (i+1) rest' g hr hl hrr hrr' hg he
            simp [flatParts, h1, h2]
theorem regular_flat_fields : ∀ (ps : Parts Ty) (fs : Fs) (qs : Parts Ty) (c size : Nat),
    regularFields size fs = true → layoutOKFs fs = true → fitsFields fs ps c = true → fitsFields fs qs c = true →
    startsAt fs c → allEqualNamed fs = true →
    eqFields descOf (descFields fs) ps qs c c = .ok true →
    flatParts ps = flatParts qs ∧ c + (flatParts ps).length = (if fs = .nil then c else size) ∧
      c + (flatParts qs).length = (if fs = .nil then c else size)
  | .nil, fs, qs, c, size, _, _, hp, hq, _, _, _ => by
    cases fs with
    | cons _ _ _ _ => simp [fitsFields] at hp
    | nil =>
      cases qs with
      | nil => simp [flatParts]
      | cons _ _ _ => simp [fitsFields] at hq
  | .cons pre o rest, fs, qs, c, size, hr, hl, hp, hq, hs, ha, he => by
    cases fs with
    | nil => simp [fitsFields] at hp
    | cons name off t fr =>
      cases qs with
      | nil => simp [fitsFields] at hq
      | cons pre' o' rest' =>
        simp only [fitsFields, Bool.and_eq_true, beq_iff_eq] at hp hq
        obtain ⟨⟨⟨hpre, hfo⟩, hlo⟩, hrr⟩ := hp
        obtain ⟨⟨⟨hpre', hfo'⟩, hlo'⟩, hrr'⟩ := hq
        simp only [startsAt] at hs
        subst hs
        have hpre0 : pre = [] := List.eq_nil_of_length_eq_zero (by omega)
        have hpre0' : pre' = [] := List.eq_nil_of_length_eq_zero (by omega)
        subst hpre0; subst hpre0'
        simp only [regularFields, Bool.and_eq_true, bne_iff_ne, ne_eq, beq_iff_eq] at hr
        obtain ⟨⟨⟨hname, hrt⟩, hend⟩, hrest⟩ := hr
        simp only [layoutOKFs, Bool.and_eq_true] at hl
        simp only [allEqualNamed, Bool.and_eq_true] at ha
        cases hg : equalName t with
        | none => simp [hg] at ha
        | some g =>
          have hnb : (name == 0) = false := by simpa using hname
          simp only [descFields, eqFields, List.length_nil, Nat.add_zero, ne_eq, not_true_eq_false, or_self, if_false,
            hnb, Bool.false_eq_true, descOf_c, commonOf, hg, hlo, hlo'] at he
          generalize hc : callEq descOf g (descOf t) o o' = r at he
          cases r with
          | error x => simp at he
          | ok b =>
            cases b with
            | false => simp at he
            | true =>
              simp only at he
              have h1 := regular_flat o t o' g hrt hl.1 hfo hfo' hg hc
              have hst : startsAt fr (off + tsize t) := by
                cases fr with
                | nil => trivial
                | cons _ off' _ _ => simp only [startsAt]; simp only at hend; exact hend.symm
              have h2 := regular_flat_fields rest fr rest' (off + tsize t) size hrest hl.2 hrr hrr' hst ha.2 he
              obtain ⟨e1, e2, e3⟩ := h2
              simp only [flatLen] at hlo hlo'
              refine ⟨by simp [flatParts, h1, e1], ?_, ?_⟩
              · simp only [flatParts, List.nil_append, List.length_append, reduceCtorEq, if_false, hlo]
                cases fr with
                | nil => simp only [if_true] at e2; simp only at hend; omega
                | cons _ _ _ _ => simp only [reduceCtorEq, if_false] at e2; omega
              · simp only [flatParts, List.nil_append, List.length_append, reduceCtorEq, if_false, hlo']
                cases fr with
                | nil => simp only [if_true] at e3; simp only at hend; omega
                | cons _ _ _ _ => simp only [reduceCtorEq, if_false] at e3; omega
end

/-! ## hashing -/

section hash
variable (H : Hashers) (rnd : Nat → UInt32)

/-- two images hash alike, without panic and without consuming `fastrand` -/
def SameHash (d : Desc) (a b : Obj Ty) : Prop :=
  ∀ (h : UInt64) (k : Nat), ∃ x, typehash descOf H rnd d a h k = .ok (x, k) ∧ typehash descOf H rnd d b h k = .ok (x, k)

theorem typehash_regular (ty : Ty) (o : Obj Ty) (h : UInt64) (k : Nat) (hr : regularTy ty = true) (hf : fits ty o = true) :
    typehash descOf H rnd (descOf ty) o h k =
      .ok ((if tsize ty = 4 then H.mh32 (flat o) h else if tsize ty = 8 then H.mh64 (flat o) h else H.mh (flat o) h), k) := by
  have hl := flatLen_of_fits ty o hf
  simp only [flatLen] at hl
  have ht : (flat o).take (tsize ty) = flat o := by rw [← hl]; exact List.take_length
  unfold typehash
  simp [descOf_c, commonOf, hr, readBytes, hl, ht]

theorem sameHash_regular (ty : Ty) (a b : Obj Ty) (hr : regularTy ty = true) (ha : fits ty a = true) (hb : fits ty b = true)
    (hfl : flat a = flat b) : SameHash H rnd (descOf ty) a b := by
  intro h k
  rw [typehash_regular H rnd ty a h k hr ha, typehash_regular H rnd ty b h k hr hb, hfl]
  exact ⟨_, rfl, rfl⟩

/-- unfolding of `typehash` on a descriptor that is not flagged regular -/
theorem typehash_array (c : Common) (elem : Desc) (len : Nat) (ps : Parts Ty) (tail : List UInt8) (h : UInt64) (k : Nat)
    (hr : c.regular = false) :
    typehash descOf H rnd (.array c elem len) (.seq ps tail) h k = hashElems descOf H rnd elem len 0 ps 0 h k := by
  unfold typehash
  simp [Desc.c, hr]

theorem typehash_struct (c : Common) (fs : DFields) (ps : Parts Ty) (tail : List UInt8) (h : UInt64) (k : Nat)
    (hr : c.regular = false) :
    typehash descOf H rnd (.struct c fs) (.seq ps tail) h k = hashFields descOf H rnd fs ps 0 h k := by
  unfold typehash
  simp [Desc.c, hr]

theorem hashElems_succ (elem : Desc) (n i : Nat) (pre : List UInt8) (o : Obj Ty) (rest : Parts Ty) (cur : Nat) (h : UInt64) (k : Nat) :
    hashElems descOf H rnd elem (n+1) i (.cons pre o rest) cur h k =
      (if cur + pre.length ≠ i * elem.c.size then .error .wild
       else match typehash descOf H rnd elem o h k with
        | .error e => .error e
        | .ok (h', k') => hashElems descOf H rnd elem n (i+1) rest (i * elem.c.size + flatLen o) h' k') := by
  rw [hashElems]
  generalize typehash descOf H rnd elem o h k = r
  split
  · rfl
  · cases r with
    | error e => rfl
    | ok r => cases r; rfl

theorem hashElems_zero (elem : Desc) (i : Nat) (ps : Parts Ty) (cur : Nat) (h : UInt64) (k : Nat) :
    hashElems descOf H rnd elem 0 i ps cur h k = .ok (h, k) := by
  rw [hashElems]

theorem hashFields_nil (ps : Parts Ty) (cur : Nat) (h : UInt64) (k : Nat) :
    hashFields descOf H rnd .nil ps cur h k = .ok (h, k) := by
  rw [hashFields]

theorem hashFields_cons (blank : Bool) (off : Nat) (t : Desc) (fr : DFields) (pre : List UInt8) (o : Obj Ty) (rest : Parts Ty)
    (cur : Nat) (h : UInt64) (k : Nat) :
    hashFields descOf H rnd (.cons blank off t fr) (.cons pre o rest) cur h k =
      (if cur + pre.length ≠ off then .error .wild
       else if blank = true then hashFields descOf H rnd fr rest (off + flatLen o) h k
       else match typehash descOf H rnd t o h k with
        | .error e => .error e
        | .ok (h', k') => hashFields descOf H rnd fr rest (off + flatLen o) h' k') := by
  rw [hashFields]
  generalize typehash descOf H rnd t o h k = r
  split
  · rfl
  · split
    · rfl
    · cases r with
      | error e => rfl
      | ok r => cases r; rfl

theorem descOf_array (ty : Ty) (n : Nat) (e : Ty) (hu : under ty = .array n e) :
    descOf ty = .array (commonOf (.array n e)) (descOf e) n := by
  rw [← descOf_under, hu, descOf]

theorem descOf_struct (ty : Ty) (size : Nat) (fs : Fs) (hu : under ty = .struct size fs) :
    descOf ty = .struct (commonOf (.struct size fs)) (descFields fs) := by
  rw [← descOf_under, hu, descOf]

/-- a direct-interface type of a comparable kind hashes its data word (or nothing, behind a blank field) -/
theorem direct_hash : ∀ (a : Obj Ty) (t : Ty) (b : Obj Ty), directTy t = true → comparable t = true → layoutOK t = true →
    fits t a = true → fits t b = true → flat a = flat b → SameHash H rnd (descOf t) a b
  | .bytes bs, t, b, hd, hc, _, ha, hb, hfl => by
    have hr : regularTy t = true := by
      rw [← regularTy_under]; rw [← directTy_under] at hd; rw [← comparable_under] at hc
      cases hu : under t with
      | basic k => rw [hu] at hd; cases k <;> simp [directTy] at hd; simp [regularTy, Basic.regular]
      | ptr k tag => rw [hu] at hc; cases k <;> simp [comparable] at hc <;> simp [regularTy]
      | slice tag => simp [hu, directTy] at hd
      | iface n tag => simp [hu, directTy] at hd
      | array n e => simp [fits, hu] at ha
      | struct size fs => simp [fits, hu] at ha
      | named i u => exact absurd hu (under_not_named t i u)
    exact sameHash_regular H rnd t _ b hr ha hb hfl
  | .str _ _, t, b, hd, _, _, ha, _, _ => by
    rw [← directTy_under] at hd
    cases hu : under t with
    | basic k => cases k <;> simp [fits, hu] at ha; simp [hu, directTy] at hd
    | ptr k tag => simp [fits, hu] at ha
    | slice tag => simp [fits, hu] at ha
    | iface n tag => simp [fits, hu] at ha
    | array n e => simp [fits, hu] at ha
    | struct size fs => simp [fits, hu] at ha
    | named i u => exact absurd hu (under_not_named t i u)
  | .enil _, t, b, hd, _, _, ha, _, _ => by
    rw [← directTy_under] at hd
    cases hu : under t with
    | iface n tag => simp [hu, directTy] at hd
    | basic k => cases k <;> simp [fits, hu] at ha
    | ptr k tag => simp [fits, hu] at ha
    | slice tag => simp [fits, hu] at ha
    | array n e => simp [fits, hu] at ha
    | struct size fs => simp [fits, hu] at ha
    | named i u => exact absurd hu (under_not_named t i u)
  | .eface _ _ _ _, t, b, hd, _, _, ha, _, _ => by
    rw [← directTy_under] at hd
    cases hu : under t with
    | iface n tag => simp [hu, directTy] at hd
    | basic k => cases k <;> simp [fits, hu] at ha
    | ptr k tag => simp [fits, hu] at ha
    | slice tag => simp [fits, hu] at ha
    | array n e => simp [fits, hu] at ha
    | struct size fs => simp [fits, hu] at ha
    | named i u => exact absurd hu (under_not_named t i u)
  | .seq ps tail, t, b, hd, hc, hl, ha, hb, hfl => by
    by_cases hr : regularTy t = true
    · exact sameHash_regular H rnd t _ b hr ha hb hfl
    · have hr' : regularTy t = false := by simpa using hr
      rw [← directTy_under] at hd; rw [← comparable_under] at hc; rw [← layoutOK_under] at hl
      rw [← regularTy_under] at hr'
      cases hu : under t with
      | array n e =>
        rw [hu] at hd hc hl hr'
        simp only [directTy, Bool.and_eq_true, beq_iff_eq] at hd
        obtain ⟨hn, hde⟩ := hd
        subst hn
        simp only [comparable] at hc
        simp only [layoutOK] at hl
        simp only [regularTy, Bool.or_eq_false_iff] at hr'
        cases b with
        | seq qs tail' =>
          simp only [fits, hu, Bool.and_eq_true, List.isEmpty_iff] at ha hb
          obtain ⟨hta, hea⟩ := ha
          obtain ⟨htb, heb⟩ := hb
          subst hta; subst htb
          cases ps with
          | nil => simp [fitsElems] at hea
          | cons pre o rest =>
            cases qs with
            | nil => simp [fitsElems] at heb
            | cons pre' o' rest' =>
              simp only [fitsElems, Bool.and_eq_true, List.isEmpty_iff, beq_iff_eq] at hea heb
              obtain ⟨⟨⟨hpre, hfo⟩, _⟩, hrr⟩ := hea
              obtain ⟨⟨⟨hpre', hfo'⟩, _⟩, hrr'⟩ := heb
              subst hpre; subst hpre'
              cases rest with
              | cons _ _ _ => simp [fitsElems] at hrr
              | nil =>
                cases rest' with
                | cons _ _ _ => simp [fitsElems] at hrr'
                | nil =>
                  simp only [flat, flatParts, List.nil_append, List.append_nil] at hfl
                  have ih := direct_hash o e o' hde hc hl hfo hfo' hfl
                  intro h k
                  obtain ⟨x, e1, e2⟩ := ih h k
                  refine ⟨x, ?_, ?_⟩
                  · rw [descOf_array t 1 e hu, typehash_array H rnd _ _ _ _ _ _ _ (by simp [commonOf, regularTy, hr'.1]),
                      hashElems_succ]
                    simp [e1, hashElems_zero]
                  · rw [descOf_array t 1 e hu, typehash_array H rnd _ _ _ _ _ _ _ (by simp [commonOf, regularTy, hr'.1]),
                      hashElems_succ]
                    simp [e2, hashElems_zero]
        | bytes _ => cases e <;> simp [fits, hu] at hb
        | str _ _ => simp [fits, hu] at hb
        | enil _ => simp [fits, hu] at hb
        | eface _ _ _ _ => simp [fits, hu] at hb
      | struct size fs =>
        rw [hu] at hd hc hl hr'
        cases fs with
        | nil => simp [directTy] at hd
        | cons name off ft fr =>
          cases fr with
          | cons _ _ _ _ => simp [directTy] at hd
          | nil =>
            simp only [directTy] at hd
            simp only [comparable, comparable.comparableFs, Bool.and_true] at hc
            simp only [layoutOK, layoutOKFs, Bool.and_eq_true, beq_iff_eq, Bool.and_true] at hl
            obtain ⟨⟨hoff, hsize⟩, hlt⟩ := hl
            subst hoff
            have hcr : (commonOf (.struct size (.cons name 0 ft .nil))).regular = false := by
              simp only [commonOf]; exact hr'
            cases b with
            | seq qs tail' =>
              simp only [fits, hu, Bool.and_eq_true, beq_iff_eq] at ha hb
              obtain ⟨hfa, hsa⟩ := ha
              obtain ⟨hfb, hsb⟩ := hb
              cases ps with
              | nil => simp [fitsFields] at hfa
              | cons pre o rest =>
                cases qs with
                | nil => simp [fitsFields] at hfb
                | cons pre' o' rest' =>
                  simp only [fitsFields, Bool.and_eq_true, beq_iff_eq, Nat.zero_add] at hfa hfb
                  obtain ⟨⟨⟨hpre, hfo⟩, hlo⟩, hrr⟩ := hfa
                  obtain ⟨⟨⟨hpre', hfo'⟩, hlo'⟩, hrr'⟩ := hfb
                  have hpre0 : pre = [] := List.eq_nil_of_length_eq_zero hpre
                  have hpre0' : pre' = [] := List.eq_nil_of_length_eq_zero hpre'
                  subst hpre0; subst hpre0'
                  cases rest with
                  | cons _ _ _ => simp [fitsFields] at hrr
                  | nil =>
                    cases rest' with
                    | cons _ _ _ => simp [fitsFields] at hrr'
                    | nil =>
                      simp only [flatLen] at hlo hlo'
                      simp only [flatParts, List.nil_append, List.append_nil, hlo, hlo', hsize] at hsa hsb
                      have ht : tail = [] := List.eq_nil_of_length_eq_zero (by omega)
                      have ht' : tail' = [] := List.eq_nil_of_length_eq_zero (by omega)
                      subst ht; subst ht'
                      simp only [flat, flatParts, List.nil_append, List.append_nil] at hfl
                      intro h k
                      rw [descOf_struct t size _ hu, typehash_struct H rnd _ _ _ _ _ _ hcr,
                        typehash_struct H rnd _ _ _ _ _ _ hcr]
                      simp only [descFields, hashFields_cons, List.length_nil, Nat.add_zero, ne_eq, not_true_eq_false,
                        if_false, hashFields_nil]
                      by_cases hn : name = 0
                      · subst hn
                        exact ⟨h, by simp, by simp⟩
                      · have ih := direct_hash o ft o' hd hc hlt hfo hfo' hfl
                        obtain ⟨x, e1, e2⟩ := ih h k
                        exact ⟨x, by simp [hn, e1], by simp [hn, e2]⟩
            | bytes _ => simp [fits, hu] at hb
            | str _ _ => simp [fits, hu] at hb
            | enil _ => simp [fits, hu] at hb
            | eface _ _ _ _ => simp [fits, hu] at hb
      | basic k => cases k <;> simp [fits, hu] at ha
      | ptr k tag => simp [fits, hu] at ha
      | slice tag => simp [fits, hu] at ha
      | iface n tag => simp [fits, hu] at ha
      | named i u => exact absurd hu (under_not_named t i u)

mutual
/-- zero-size values all hash alike -/
theorem zero_hash : ∀ (a : Obj Ty) (t : Ty) (b : Obj Ty), comparable t = true → fits t a = true → fits t b = true →
    tsize t = 0 → SameHash H rnd (descOf t) a b
  | .bytes bs, t, b, _, ha, _, hz => by
    rw [← tsize_under] at hz
    cases hu : under t with
    | basic k => rw [hu] at hz; have := Basic.size_pos k; simp [tsize] at hz; omega
    | ptr k tag => rw [hu] at hz; simp [tsize] at hz
    | slice tag => rw [hu] at hz; simp [tsize] at hz
    | iface n tag => simp [fits, hu] at ha
    | array n e => simp [fits, hu] at ha
    | struct size fs => simp [fits, hu] at ha
    | named i u => exact absurd hu (under_not_named t i u)
  | .str _ _, t, b, _, ha, _, hz => by
    have := flatLen_of_fits t _ ha
    simp [flatLen, flat, le64_length, hz] at this
  | .enil _, t, b, _, ha, _, hz => by
    have := flatLen_of_fits t _ ha
    simp [flatLen, flat, le64_length, hz] at this
  | .eface _ _ _ _, t, b, _, ha, _, hz => by
    have := flatLen_of_fits t _ ha
    simp [flatLen, flat, le64_length, hz] at this
  | .seq ps tail, t, b, hc, ha, hb, hz => by
    have la := flatLen_of_fits t _ ha
    have lb := flatLen_of_fits t _ hb
    rw [hz] at la lb
    simp only [flatLen] at la lb
    by_cases hr : regularTy t = true
    · exact sameHash_regular H rnd t _ b hr ha hb
        (by rw [List.eq_nil_of_length_eq_zero la, List.eq_nil_of_length_eq_zero lb])
    · have hr' : regularTy t = false := by simpa using hr
      rw [← tsize_under] at hz; rw [← comparable_under] at hc; rw [← regularTy_under] at hr'
      cases hu : under t with
      | array n e =>
        rw [hu] at hz hc hr'
        simp only [comparable] at hc
        simp only [regularTy, Bool.or_eq_false_iff, beq_eq_false_iff_ne] at hr'
        simp only [tsize, Nat.mul_eq_zero] at hz
        have hze : tsize e = 0 := by cases hz with | inl h => exact absurd h hr'.2 | inr h => exact h
        cases b with
        | seq qs tail' =>
          simp only [fits, hu, Bool.and_eq_true] at ha hb
          intro h k
          rw [descOf_array t n e hu, typehash_array H rnd _ _ _ _ _ _ _ (by simp [commonOf, regularTy, hr'.1, hr'.2]),
            typehash_array H rnd _ _ _ _ _ _ _ (by simp [commonOf, regularTy, hr'.1, hr'.2])]
          exact zero_hash_elems ps e n 0 qs hc ha.2 hb.2 hze h k
        | bytes _ => cases e <;> simp [fits, hu] at hb
        | str _ _ => simp [fits, hu] at hb
        | enil _ => simp [fits, hu] at hb
        | eface _ _ _ _ => simp [fits, hu] at hb
      | struct size fs =>
        rw [hu] at hz hc hr'
        simp only [comparable] at hc
        simp only [tsize] at hz
        subst hz
        have hcr : (commonOf (.struct 0 fs)).regular = false := by simp only [commonOf]; exact hr'
        cases b with
        | seq qs tail' =>
          simp only [fits, hu, Bool.and_eq_true, beq_iff_eq] at ha hb
          intro h k
          rw [descOf_struct t 0 fs hu, typehash_struct H rnd _ _ _ _ _ _ hcr, typehash_struct H rnd _ _ _ _ _ _ hcr]
          exact zero_hash_fields ps fs qs 0 hc ha.1 hb.1 (by omega) (by omega) h k
        | bytes _ => simp [fits, hu] at hb
        | str _ _ => simp [fits, hu] at hb
        | enil _ => simp [fits, hu] at hb
        | eface _ _ _ _ => simp [fits, hu] at hb
      | basic k => cases k <;> simp [fits, hu] at ha
      | ptr k tag => simp [fits, hu] at ha
      | slice tag => simp [fits, hu] at ha
      | iface n tag => simp [fits, hu] at ha
      | named i u => exact absurd hu (under_not_named t i u)
theorem zero_hash_elems : ∀ (ps : Parts Ty) (e : Ty) (n i : Nat) (qs : Parts Ty), comparable e = true →
    fitsElems e n ps = true → fitsElems e n qs = true → tsize e = 0 → ∀ (h : UInt64) (k : Nat),
    ∃ x, hashElems descOf H rnd (descOf e) n i ps 0 h k = .ok (x, k) ∧ hashElems descOf H rnd (descOf e) n i qs 0 h k = .ok (x, k)
  | .nil, e, n, i, qs, _, ha, hb, _, h, k => by
    simp only [fitsElems, beq_iff_eq] at ha
    subst ha
    exact ⟨h, by rw [hashElems_zero], by rw [hashElems_zero]⟩
  | .cons pre o rest, e, n, i, qs, hc, ha, hb, hz, h, k => by
    cases n with
    | zero => simp [fitsElems] at ha
    | succ n =>
      cases qs with
      | nil => simp [fitsElems] at hb
      | cons pre' o' rest' =>
        simp only [fitsElems, Bool.and_eq_true, List.isEmpty_iff, beq_iff_eq] at ha hb
        obtain ⟨⟨⟨hpre, hfo⟩, hlo⟩, hrr⟩ := ha
        obtain ⟨⟨⟨hpre', hfo'⟩, hlo'⟩, hrr'⟩ := hb
        subst hpre; subst hpre'
        obtain ⟨x1, e1, e2⟩ := zero_hash o e o' hc hfo hfo' hz h k
        obtain ⟨x2, f1, f2⟩ := zero_hash_elems rest e n (i+1) rest' hc hrr hrr' hz x1 k
        refine ⟨x2, ?_, ?_⟩
        · rw [hashElems_succ]
          simp [descOf_c, commonOf, hz, e1, hlo, f1]
        · rw [hashElems_succ]
          simp [descOf_c, commonOf, hz, e2, hlo', f2]
theorem zero_hash_fields : ∀ (ps : Parts Ty) (fs : Fs) (qs : Parts Ty) (c : Nat), comparable.comparableFs fs = true →
    fitsFields fs ps c = true → fitsFields fs qs c = true → (flatParts ps).length = 0 → (flatParts qs).length = 0 →
    ∀ (h : UInt64) (k : Nat),
    ∃ x, hashFields descOf H rnd (descFields fs) ps c h k = .ok (x, k) ∧ hashFields descOf H rnd (descFields fs) qs c h k = .ok (x, k)
  | .nil, fs, qs, c, _, ha, hb, _, _, h, k => by
    cases fs with
    | cons _ _ _ _ => simp [fitsFields] at ha
    | nil => exact ⟨h, by simp [descFields, hashFields_nil], by simp [descFields, hashFields_nil]⟩
  | .cons pre o rest, fs, qs, c, hc, ha, hb, hz, hz', h, k => by
    cases fs with
    | nil => simp [fitsFields] at ha
    | cons name off t fr =>
      cases qs with
      | nil => simp [fitsFields] at hb
      | cons pre' o' rest' =>
        simp only [fitsFields, Bool.and_eq_true, beq_iff_eq] at ha hb
        obtain ⟨⟨⟨hpre, hfo⟩, hlo⟩, hrr⟩ := ha
        obtain ⟨⟨⟨hpre', hfo'⟩, hlo'⟩, hrr'⟩ := hb
        simp only [comparable.comparableFs, Bool.and_eq_true] at hc
        simp only [flatParts, List.length_append] at hz hz'
        have hlo2 := hlo
        simp only [flatLen] at hlo2
        have htz : tsize t = 0 := by omega
        by_cases hn : name = 0
        · obtain ⟨x2, f1, f2⟩ := zero_hash_fields rest fr rest' (off + tsize t) hc.2 hrr hrr' (by omega) (by omega) h k
          refine ⟨x2, ?_, ?_⟩
          · simp only [descFields, hashFields_cons]
            simp [hpre, hn, hlo, f1]
          · simp only [descFields, hashFields_cons]
            simp [hpre', hn, hlo', f2]
        · obtain ⟨x1, e1, e2⟩ := zero_hash o t o' hc.1 hfo hfo' htz h k
          obtain ⟨x2, f1, f2⟩ := zero_hash_fields rest fr rest' (off + tsize t) hc.2 hrr hrr' (by omega) (by omega) x1 k
          refine ⟨x2, ?_, ?_⟩
          · simp only [descFields, hashFields_cons]
            simp [hpre, hn, hlo, e1, f1]
          · simp only [descFields, hashFields_cons]
            simp [hpre', hn, hlo', e2, f2]
end

/-- floats that are `==` hash alike (±0 share the constant, NaN never compares equal), without a `fastrand` call -/
theorem floatHash_eq (w : Nat) (a c : List UInt8) (hl : a.length = c.length) (h : UInt64) (k : Nat)
    (he : (if w = 4 then feq32 (leNat a) (leNat c) else feq64 (leNat a) (leNat c)) = true) :
    floatHash H rnd w a h k = floatHash H rnd w c h k ∧ (floatHash H rnd w a h k).2 = k := by
  by_cases hw : w = 4
  · simp only [hw, if_true, feq32, Bool.and_eq_true, Bool.not_eq_true', Bool.or_eq_true, beq_iff_eq] at he
    obtain ⟨⟨hna, hnc⟩, hor⟩ := he
    cases hor with
    | inl heq =>
      have := leNat_inj a c hl heq
      subst this
      simp only [floatHash, hw, if_true, hna, Bool.false_eq_true, if_false, true_and]
      split <;> rfl
    | inr hz => simp [floatHash, hw, hz.1, hz.2]
  · simp only [hw, if_false, feq64, Bool.and_eq_true, Bool.not_eq_true', Bool.or_eq_true, beq_iff_eq] at he
    obtain ⟨⟨hna, hnc⟩, hor⟩ := he
    cases hor with
    | inl heq =>
      have := leNat_inj a c hl heq
      subst this
      simp only [floatHash, hw, if_false, hna, Bool.false_eq_true, true_and]
      split <;> rfl
    | inr hz => simp [floatHash, hw, hz.1, hz.2]

theorem complexHash_eq (w : Nat) (a c : List UInt8) (hl : a.length = c.length) (h : UInt64) (k : Nat)
    (he1 : (if w = 4 then feq32 (leNat (a.take w)) (leNat (c.take w)) else feq64 (leNat (a.take w)) (leNat (c.take w))) = true)
    (he2 : (if w = 4 then feq32 (leNat (a.drop w)) (leNat (c.drop w)) else feq64 (leNat (a.drop w)) (leNat (c.drop w))) = true) :
    complexHash H rnd w a h k = complexHash H rnd w c h k ∧ (complexHash H rnd w a h k).2 = k := by
  have l1 : (a.take w).length = (c.take w).length := by simp [hl]
  have l2 : (a.drop w).length = (c.drop w).length := by simp [hl]
  obtain ⟨e1, k1⟩ := floatHash_eq H rnd w (a.take w) (c.take w) l1 h k he1
  simp only [complexHash]
  rw [← e1]
  obtain ⟨e2, k2⟩ := floatHash_eq H rnd w (a.drop w) (c.drop w) l2 (floatHash H rnd w (a.take w) h k).1 k (by exact he2)
  rw [k1]
  exact ⟨e2, k2⟩

theorem typehash_plain_bytes (c : Common) (kd : PKind) (a : List UInt8) (h : UInt64) (k : Nat) (hr : c.regular = false) :
    typehash descOf H rnd (.plain c kd) (.bytes a : Obj Ty) h k =
      match kd with
      | .float32 => (readBytes (.bytes a : Obj Ty) 4).map fun bs => floatHash H rnd 4 bs h k
      | .float64 => (readBytes (.bytes a : Obj Ty) 8).map fun bs => floatHash H rnd 8 bs h k
      | .complex64 => (readBytes (.bytes a : Obj Ty) 8).map fun bs => complexHash H rnd 4 bs h k
      | .complex128 => (readBytes (.bytes a : Obj Ty) 16).map fun bs => complexHash H rnd 8 bs h k
      | .string => .error .wild
      | .other => .error .unhashable := by
  unfold typehash
  cases kd <;> simp [Desc.c, hr]

theorem typehash_iface (c : Common) (n : Nat) (o : Obj Ty) (h : UInt64) (k : Nat) (hr : c.regular = false) :
    typehash descOf H rnd (.iface c n) o h k = nilinterhash descOf H rnd o h k := by
  unfold typehash nilinterhash
  cases o <;> simp [Desc.c, hr]

theorem sameHash_of_pair {d : Desc} {a b : Obj Ty}
    (hh : ∀ (h : UInt64) (k : Nat), ∃ r : UInt64 × Nat, typehash descOf H rnd d a h k = .ok r ∧
      typehash descOf H rnd d b h k = .ok r ∧ r.2 = k) : SameHash H rnd d a b := by
  intro h k
  obtain ⟨r, e1, e2, e3⟩ := hh h k
  refine ⟨r.1, ?_, ?_⟩
  · rw [e1, ← e3]
  · rw [e2, ← e3]

mutual
/-- **`a == b → hash(a) = hash(b)`** for the `Equal` function and `typehash` of one descriptor -/
theorem hash_eq : ∀ (p : Obj Ty) (ty : Ty) (q : Obj Ty) (f : EqFn), layoutOK ty = true → fits ty p = true → fits ty q = true →
    equalName ty = some f → callEq descOf f (descOf ty) p q = .ok true → SameHash H rnd (descOf ty) p q
  | .bytes a, ty, q, f, hl, hp, hq, hf, he => by
    by_cases hr : regularTy ty = true
    · exact sameHash_regular H rnd ty _ q hr hp hq (regular_flat _ ty q f hr hl hp hq hf he)
    · have hr' : regularTy ty = false := by simpa using hr
      rw [← regularTy_under] at hr'; rw [← equalName_under] at hf
      rw [← descOf_under] at he ⊢
      cases hu : under ty with
      | basic b =>
        rw [hu] at hr' hf he
        have hcr : (commonOf (.basic b)).regular = false := by simp only [commonOf]; exact hr'
        cases q with
        | bytes c =>
          simp only [fits, hu] at hp hq
          simp only [descOf]
          apply sameHash_of_pair
          intro h k
          rw [typehash_plain_bytes H rnd _ _ _ _ _ hcr, typehash_plain_bytes H rnd _ _ _ _ _ hcr]
          cases b <;> simp [regularTy, Basic.regular] at hr'
          case float32 =>
            simp [equalName, Basic.equalName, Basic.size] at hp hq hf; subst hf
            simp only [callEq, floatEq_bytes hp hq, Except.ok.injEq] at he
            obtain ⟨e1, e2⟩ := floatHash_eq H rnd 4 a c (hp.trans hq.symm) h k he
            exact ⟨floatHash H rnd 4 a h k, by simp [Basic.pkind, readBytes_bytes hp, Except.map],
              by simp [Basic.pkind, readBytes_bytes hq, Except.map, e1], e2⟩
          case float64 =>
            simp [equalName, Basic.equalName, Basic.size] at hp hq hf; subst hf
            simp only [callEq, floatEq_bytes hp hq, Except.ok.injEq] at he
            obtain ⟨e1, e2⟩ := floatHash_eq H rnd 8 a c (hp.trans hq.symm) h k he
            exact ⟨floatHash H rnd 8 a h k, by simp [Basic.pkind, readBytes_bytes hp, Except.map],
              by simp [Basic.pkind, readBytes_bytes hq, Except.map, e1], e2⟩
          case complex64 =>
            simp [equalName, Basic.equalName, Basic.size] at hp hq hf; subst hf
            have hp' : a.length = 2 * 4 := hp
            have hq' : c.length = 2 * 4 := hq
            simp only [callEq, complexEq_bytes hp' hq', Except.ok.injEq, if_true, Bool.and_eq_true] at he
            obtain ⟨e1, e2⟩ := complexHash_eq H rnd 4 a c (hp.trans hq.symm) h k (by simpa using he.1) (by simpa using he.2)
            exact ⟨complexHash H rnd 4 a h k, by simp [Basic.pkind, readBytes_bytes hp, Except.map],
              by simp [Basic.pkind, readBytes_bytes hq, Except.map, e1], e2⟩
          case complex128 =>
            simp [equalName, Basic.equalName, Basic.size] at hp hq hf; subst hf
            have hp' : a.length = 2 * 8 := hp
            have hq' : c.length = 2 * 8 := hq
            simp only [callEq, complexEq_bytes hp' hq', Except.ok.injEq, show ¬ (8 : Nat) = 4 by decide, if_false,
              Bool.and_eq_true] at he
            obtain ⟨e1, e2⟩ := complexHash_eq H rnd 8 a c (hp.trans hq.symm) h k (by simpa using he.1) (by simpa using he.2)
            exact ⟨complexHash H rnd 8 a h k, by simp [Basic.pkind, readBytes_bytes hp, Except.map],
              by simp [Basic.pkind, readBytes_bytes hq, Except.map, e1], e2⟩
          case string => simp at hp
        | str _ _ => cases b <;> simp [fits, hu] at hp hq
        | enil _ => simp [fits, hu] at hq
        | eface _ _ _ _ => simp [fits, hu] at hq
        | seq _ _ => simp [fits, hu] at hq
      | ptr k tag => rw [hu] at hr' hf; cases k <;> simp [regularTy] at hr' <;> simp [equalName] at hf
      | slice tag => rw [hu] at hf; simp [equalName] at hf
      | iface n tag => simp [fits, hu] at hp
      | array n e => simp [fits, hu] at hp
      | struct size fs => simp [fits, hu] at hp
      | named i u => exact absurd hu (under_not_named ty i u)
  | .str ptr s, ty, q, f, _, hp, hq, hf, he => by
    rw [← equalName_under] at hf
    rw [← descOf_under] at he ⊢
    cases hu : under ty with
    | basic b =>
      cases b <;> simp [fits, hu] at hp
      rw [hu] at hf he
      simp [equalName, Basic.equalName] at hf; subst hf
      cases q with
      | str ptr' s' =>
        simp only [callEq, Except.ok.injEq, beq_iff_eq] at he
        subst he
        intro h k
        refine ⟨H.mh s h, ?_, ?_⟩ <;>
          (unfold typehash; simp [descOf, Desc.c, commonOf, regularTy, Basic.regular, Basic.pkind])
      | bytes _ => simp [fits, hu] at hq
      | enil _ => simp [fits, hu] at hq
      | eface _ _ _ _ => simp [fits, hu] at hq
      | seq _ _ => simp [fits, hu] at hq
    | ptr k tag => simp [fits, hu] at hp
    | slice tag => simp [fits, hu] at hp
    | iface n tag => simp [fits, hu] at hp
    | array n e => simp [fits, hu] at hp
    | struct size fs => simp [fits, hu] at hp
    | named i u => exact absurd hu (under_not_named ty i u)
  | .enil dw, ty, q, f, _, hp, hq, hf, he => by
    rw [← equalName_under] at hf
    rw [← descOf_under] at he ⊢
    cases hu : under ty with
    | iface n tag =>
      rw [hu] at hf he
      have hff : f = .nilinterequal ∨ f = .interequal := by
        simp only [equalName] at hf
        split at hf <;> simp at hf <;> simp [← hf]
      cases q with
      | enil dw' =>
        intro h k
        refine ⟨h, ?_, ?_⟩ <;>
          (simp only [descOf]; rw [typehash_iface H rnd _ _ _ _ _ (by simp [commonOf, regularTy])]; simp [nilinterhash])
      | eface tw' t' dw' box' => rcases hff with rfl | rfl <;> simp [callEq] at he
      | bytes _ => simp [fits, hu] at hq
      | str _ _ => simp [fits, hu] at hq
      | seq _ _ => simp [fits, hu] at hq
    | basic b => cases b <;> simp [fits, hu] at hp
    | ptr k tag => simp [fits, hu] at hp
    | slice tag => simp [fits, hu] at hp
    | array n e => simp [fits, hu] at hp
    | struct size fs => simp [fits, hu] at hp
    | named i u => exact absurd hu (under_not_named ty i u)
  | .eface tw t dw box, ty, q, f, _, hp, hq, hf, he => by
    rw [← equalName_under] at hf
    rw [← descOf_under] at he ⊢
    cases hu : under ty with
    | iface n tag =>
      rw [hu] at hf he
      have hff : f = .nilinterequal ∨ f = .interequal := by
        simp only [equalName] at hf
        split at hf <;> simp at hf <;> simp [← hf]
      simp only [fits, hu, Bool.and_eq_true, Bool.or_eq_true, Bool.not_eq_true', beq_iff_eq] at hp
      obtain ⟨⟨hfb, hlay⟩, hdir⟩ := hp
      cases q with
      | enil dw' => rcases hff with rfl | rfl <;> simp [callEq] at he
      | eface tw' t' dw' box' =>
        simp only [fits, hu, Bool.and_eq_true, Bool.or_eq_true, Bool.not_eq_true', beq_iff_eq] at hq
        obtain ⟨⟨hfb', _⟩, hdir'⟩ := hq
        have key : (if t ≠ t' then (Except.ok false : Except Err Bool)
            else match (descOf t).c.equal with
              | none => .error .uncomparable
              | some g => if (descOf t).c.direct = true then .ok (dw == dw') else callEq descOf g (descOf t) box box') =
            .ok true := by
          rcases hff with rfl | rfl <;> (simp only [callEq] at he; exact he)
        by_cases htt : t = t'
        · subst htt
          simp only [ne_eq, not_true_eq_false, if_false, descOf_c, commonOf] at key
          cases hg : equalName t with
          | none => simp [hg] at key
          | some g =>
            simp only [hg] at key
            have hc := comparable_of_equalName hg
            have hsame : SameHash H rnd (descOf t) box box' := by
              by_cases hd : directTy t = true
              · simp only [hd, if_true, Except.ok.injEq, beq_iff_eq] at key
                subst key
                have fa : flat box = le64 dw.toNat := by cases hdir with | inl h => simp [hd] at h | inr h => exact h
                have fb : flat box' = le64 dw.toNat := by cases hdir' with | inl h => simp [hd] at h | inr h => exact h
                exact direct_hash H rnd box t box' hd hc hlay hfb hfb' (fa.trans fb.symm)
              · simp only [hd, Bool.false_eq_true, if_false] at key
                exact hash_eq box t box' g hlay hfb hfb' hg key
            intro h k
            obtain ⟨x, e1, e2⟩ := hsame (h ^^^ c0) k
            refine ⟨c1 * x, ?_, ?_⟩ <;>
              (simp only [descOf]; rw [typehash_iface H rnd _ _ _ _ _ (by simp [commonOf, regularTy])])
            · simp [nilinterhash, descOf_c, commonOf, hg, e1]
            · simp [nilinterhash, descOf_c, commonOf, hg, e2]
        · simp [htt] at key
      | bytes _ => simp [fits, hu] at hq
      | str _ _ => simp [fits, hu] at hq
      | seq _ _ => simp [fits, hu] at hq
    | basic b => cases b <;> simp [fits, hu] at hp
    | ptr k tag => simp [fits, hu] at hp
    | slice tag => simp [fits, hu] at hp
    | array n e => simp [fits, hu] at hp
    | struct size fs => simp [fits, hu] at hp
    | named i u => exact absurd hu (under_not_named ty i u)
  | .seq ps tail, ty, q, f, hl, hp, hq, hf, he => by
    by_cases hr : regularTy ty = true
    · exact sameHash_regular H rnd ty _ q hr hp hq (regular_flat _ ty q f hr hl hp hq hf he)
    · have hr' : regularTy ty = false := by simpa using hr
      have hcmp := comparable_of_equalName hf
      rw [← regularTy_under] at hr'; rw [← equalName_under] at hf; rw [← layoutOK_under] at hl
      cases hu : under ty with
      | array n e =>
        rw [hu] at hr' hf hl
        simp only [layoutOK] at hl
        simp only [regularTy, Bool.or_eq_false_iff, beq_eq_false_iff_ne] at hr'
        have hcr : (commonOf (.array n e)).regular = false := by simp [commonOf, regularTy, hr'.1, hr'.2]
        simp only [equalName] at hf
        cases hg : equalName e with
        | none => simp [hg] at hf
        | some g =>
          simp only [hg] at hf
          by_cases hz : tsize e = 0
          · exact zero_hash H rnd _ ty q hcmp hp hq (by rw [← tsize_under, hu, tsize, hz, Nat.mul_zero])
          · simp only [hz, if_false, Option.some.injEq] at hf
            subst hf
            rw [descOf_array ty n e hu] at he ⊢
            cases q with
            | seq qs tail' =>
              simp only [fits, hu, Bool.and_eq_true] at hp hq
              simp only [callEq] at he
              have he' : eqElems descOf (descOf e) n 0 ps qs (0 * tsize e) (0 * tsize e) = .ok true := by simpa using he
              intro h k
              rw [typehash_array H rnd _ _ _ _ _ _ _ hcr, typehash_array H rnd _ _ _ _ _ _ _ hcr]
              have := hash_eq_elems ps e n 0 qs g hl hp.2 hq.2 hg he' h k
              simpa using this
            | bytes _ => cases e <;> simp [fits, hu] at hq
            | str _ _ => simp [fits, hu] at hq
            | enil _ => simp [fits, hu] at hq
            | eface _ _ _ _ => simp [fits, hu] at hq
      | struct size fs =>
        rw [hu] at hr' hf hl
        have hcr : (commonOf (.struct size fs)).regular = false := by simp only [commonOf]; exact hr'
        cases fs with
        | nil => simp [regularTy] at hr'
        | cons n1 o1 t1 r1 =>
          have hall : allEqualNamed (.cons n1 o1 t1 r1) = true := by
            simp only [equalName] at hf
            by_cases ha : allEqualNamed (.cons n1 o1 t1 r1) = true
            · exact ha
            · simp [ha] at hf
          have hfeq : f = .structequal := by
            simp only [equalName, hall, if_true, Option.some.injEq] at hf
            exact hf.symm
          subst hfeq
          have hlf : layoutOKFs (.cons n1 o1 t1 r1) = true := by
            simp only [layoutOK, Bool.and_eq_true] at hl; exact hl.2
          rw [descOf_struct ty size _ hu] at he ⊢
          cases q with
          | seq qs tail' =>
            simp only [fits, hu, Bool.and_eq_true, beq_iff_eq] at hp hq
            simp only [callEq] at he
            intro h k
            rw [typehash_struct H rnd _ _ _ _ _ _ hcr, typehash_struct H rnd _ _ _ _ _ _ hcr]
            exact hash_eq_fields ps _ qs 0 hlf hp.1 hq.1 hall he h k
          | bytes _ => simp [fits, hu] at hq
          | str _ _ => simp [fits, hu] at hq
          | enil _ => simp [fits, hu] at hq
          | eface _ _ _ _ => simp [fits, hu] at hq
      | basic b => cases b <;> simp [fits, hu] at hp
      | ptr k tag => simp [fits, hu] at hp
      | slice tag => simp [fits, hu] at hp
      | iface n tag => simp [fits, hu] at hp
      | named i u => exact absurd hu (under_not_named ty i u)
theorem hash_eq_elems : ∀ (ps : Parts Ty) (e : Ty) (n i : Nat) (qs : Parts Ty) (g : EqFn), layoutOK e = true →
    fitsElems e n ps = true → fitsElems e n qs = true → equalName e = some g →
    eqElems descOf (descOf e) n i ps qs (i * tsize e) (i * tsize e) = .ok true → ∀ (h : UInt64) (k : Nat),
    ∃ x, hashElems descOf H rnd (descOf e) n i ps (i * tsize e) h k = .ok (x, k) ∧
      hashElems descOf H rnd (descOf e) n i qs (i * tsize e) h k = .ok (x, k)
  | .nil, e, n, i, qs, g, _, hp, hq, _, _, h, k => by
    simp only [fitsElems, beq_iff_eq] at hp
    subst hp
    exact ⟨h, by rw [hashElems_zero], by rw [hashElems_zero]⟩
  | .cons pre o rest, e, n, i, qs, g, hl, hp, hq, hg, he, h, k => by
    cases n with
    | zero => simp [fitsElems] at hp
    | succ n =>
      cases qs with
      | nil => simp [fitsElems] at hq
      | cons pre' o' rest' =>
        simp only [fitsElems, Bool.and_eq_true, List.isEmpty_iff, beq_iff_eq] at hp hq
        obtain ⟨⟨⟨hpre, hfo⟩, hlo⟩, hrr⟩ := hp
        obtain ⟨⟨⟨hpre', hfo'⟩, hlo'⟩, hrr'⟩ := hq
        subst hpre; subst hpre'
        simp only [eqElems, descOf_c, commonOf, hg, List.length_nil, Nat.add_zero, ne_eq, not_true_eq_false, or_self,
          if_false, hlo, hlo'] at he
        rw [show i * tsize e + tsize e = (i + 1) * tsize e by rw [Nat.succ_mul]] at he
        generalize hc : callEq descOf g (descOf e) o o' = r at he
        cases r with
        | error x => simp at he
        | ok b =>
          cases b with
          | false => simp at he
          | true =>
            simp only at he
            obtain ⟨x1, e1, e2⟩ := hash_eq o e o' g hl hfo hfo' hg hc h k
            obtain ⟨x2, f1, f2⟩ := hash_eq_elems rest e n (i+1) rest' g hl hrr hrr' hg he x1 k
            refine ⟨x2, ?_, ?_⟩
            · rw [hashElems_succ]
              simp only [descOf_c, commonOf, List.length_nil, Nat.add_zero, ne_eq, not_true_eq_false, if_false, e1, hlo]
              rw [show i * tsize e + tsize e = (i + 1) * tsize e by rw [Nat.succ_mul]]
              exact f1
            · rw [hashElems_succ]
              simp only [descOf_c, commonOf, List.length_nil, Nat.add_zero, ne_eq, not_true_eq_false, if_false, e2, hlo']
              rw [show i * tsize e + tsize e = (i + 1) * tsize e by rw [Nat.succ_mul]]
              exact f2
theorem hash_eq_fields : ∀ (ps : Parts Ty) (fs : Fs) (qs : Parts Ty) (c : Nat), layoutOKFs fs = true →
    fitsFields fs ps c = true → fitsFields fs qs c = true → allEqualNamed fs = true →
    eqFields descOf (descFields fs) ps qs c c = .ok true → ∀ (h : UInt64) (k : Nat),
    ∃ x, hashFields descOf H rnd (descFields fs) ps c h k = .ok (x, k) ∧
      hashFields descOf H rnd (descFields fs) qs c h k = .ok (x, k)
  | .nil, fs, qs, c, _, hp, hq, _, _, h, k => by
    cases fs with
    | cons _ _ _ _ => simp [fitsFields] at hp
    | nil => exact ⟨h, by simp [descFields, hashFields_nil], by simp [descFields, hashFields_nil]⟩
  | .cons pre o rest, fs, qs, c, hl, hp, hq, ha, he, h, k => by
    cases fs with
    | nil => simp [fitsFields] at hp
    | cons name off t fr =>
      cases qs with
      | nil => simp [fitsFields] at hq
      | cons pre' o' rest' =>
        simp only [fitsFields, Bool.and_eq_true, beq_iff_eq] at hp hq
        obtain ⟨⟨⟨hpre, hfo⟩, hlo⟩, hrr⟩ := hp
        obtain ⟨⟨⟨hpre', hfo'⟩, hlo'⟩, hrr'⟩ := hq
        simp only [layoutOKFs, Bool.and_eq_true] at hl
        simp only [allEqualNamed, Bool.and_eq_true] at ha
        simp only [descFields, eqFields, hpre, hpre', ne_eq, not_true_eq_false, or_self, if_false, hlo, hlo'] at he
        by_cases hn : name = 0
        · simp only [hn, beq_self_eq_true, if_true] at he
          obtain ⟨x2, f1, f2⟩ := hash_eq_fields rest fr rest' (off + tsize t) hl.2 hrr hrr' ha.2 he h k
          refine ⟨x2, ?_, ?_⟩
          · simp only [descFields, hashFields_cons]
            simp [hpre, hn, hlo, f1]
          · simp only [descFields, hashFields_cons]
            simp [hpre', hn, hlo', f2]
        · have hnb : (name == 0) = false := by simpa using hn
          cases hg : equalName t with
          | none => simp [hg] at ha
          | some g =>
            simp only [hnb, Bool.false_eq_true, if_false, descOf_c, commonOf, hg] at he
            generalize hc : callEq descOf g (descOf t) o o' = r at he
            cases r with
            | error x => simp at he
            | ok b =>
              cases b with
              | false => simp at he
              | true =>
                simp only at he
                obtain ⟨x1, e1, e2⟩ := hash_eq o t o' g hl.1 hfo hfo' hg hc h k
                obtain ⟨x2, f1, f2⟩ := hash_eq_fields rest fr rest' (off + tsize t) hl.2 hrr hrr' ha.2 he x1 k
                refine ⟨x2, ?_, ?_⟩
                · simp only [descFields, hashFields_cons]
                  simp [hpre, hnb, hlo, e1, f1]
                · simp only [descFields, hashFields_cons]
                  simp [hpre', hnb, hlo', e2, f2]
end

/-! ## which values cannot be hashed -/

mutual
/-- a type flagged regular has no interface part: nothing in it can be unhashable -/
theorem regular_hashable : ∀ (o : Obj Ty) (ty : Ty), regularTy ty = true → fits ty o = true → unhashable ty (valOf ty o) = false
  | .bytes bs, ty, _, _ => by
    simp only [valOf]
    cases under ty with
    | basic b => cases b <;> simp [unhashable]
    | ptr _ _ | slice _ | iface _ _ | array _ _ | struct _ _ | named _ _ => simp [unhashable]
  | .str _ _, ty, _, _ => by
    simp only [valOf]
    cases under ty with
    | basic b => cases b <;> simp [unhashable]
    | ptr _ _ | slice _ | iface _ _ | array _ _ | struct _ _ | named _ _ => simp [unhashable]
  | .enil _, ty, _, _ => by
    simp only [valOf]
    cases under ty <;> simp [unhashable]
  | .eface _ _ _ _, ty, hr, hf => by
    rw [← regularTy_under] at hr
    cases hu : under ty with
    | iface n tag => simp [hu, regularTy] at hr
    | basic b => cases b <;> simp [fits, hu] at hf
    | ptr k tag => simp [fits, hu] at hf
    | slice tag => simp [fits, hu] at hf
    | array n e => simp [fits, hu] at hf
    | struct size fs => simp [fits, hu] at hf
    | named i u => exact absurd hu (under_not_named ty i u)
  | .seq ps tail, ty, hr, hf => by
    rw [← regularTy_under] at hr
    cases hu : under ty with
    | array n e =>
      rw [hu] at hr
      simp only [fits, hu, Bool.and_eq_true] at hf
      simp only [valOf, hu, unhashable]
      simp only [regularTy, Bool.or_eq_true, beq_iff_eq] at hr
      cases hr with
      | inl hre => exact regular_hashable_elems ps e n hre hf.2
      | inr hn =>
        subst hn
        cases ps with
        | nil => simp [valElems, unhashableElems]
        | cons _ _ _ => simp [fitsElems] at hf
    | struct size fs =>
      rw [hu] at hr
      simp only [fits, hu, Bool.and_eq_true] at hf
      simp only [valOf, hu, unhashable]
      cases fs with
      | nil =>
        cases ps with
        | nil => simp [valFields, unhashableFields]
        | cons _ _ _ => simp [fitsFields] at hf
      | cons n1 o1 t1 r1 =>
        cases r1 with
        | nil =>
          simp only [regularTy, Bool.and_eq_true] at hr
          cases ps with
          | nil => simp [valFields, unhashableFields]
          | cons pre o rest =>
            simp only [fitsFields, Bool.and_eq_true] at hf
            have h1 := regular_hashable o t1 hr.2 hf.1.1.1.2
            cases rest with
            | nil =>
              have hn1 : n1 ≠ 0 := by simpa using hr.1
              simp [valFields, unhashableFields, hn1, h1]
            | cons _ _ _ => simp [fitsFields] at hf
        | cons n2 o2 t2 r2 =>
          rw [regularTy_struct2] at hr
          exact regular_hashable_fields ps _ 0 size hr hf.1
    | basic b => cases b <;> simp [fits, hu] at hf
    | ptr k tag => simp [fits, hu] at hf
    | slice tag => simp [fits, hu] at hf
    | iface n tag => simp [fits, hu] at hf
    | named i u => exact absurd hu (under_not_named ty i u)
theorem regular_hashable_elems : ∀ (ps : Parts Ty) (e : Ty) (n : Nat), regularTy e = true → fitsElems e n ps = true →
    unhashableElems e (valElems e ps) = false
  | .nil, e, n, _, _ => by simp [valElems, unhashableElems]
  | .cons pre o rest, e, n, hr, hf => by
    cases n with
    | zero => simp [fitsElems] at hf
    | succ n =>
      simp only [fitsElems, Bool.and_eq_true] at hf
      simp [valElems, unhashableElems, regular_hashable o e hr hf.1.1.2, regular_hashable_elems rest e n hr hf.2]
theorem regular_hashable_fields : ∀ (ps : Parts Ty) (fs : Fs) (c size : Nat), regularFields size fs = true → fitsFields fs ps c = true →
    unhashableFields fs (valFields fs ps) = false
  | .nil, fs, c, size, _, _ => by simp [valFields, unhashableFields]
  | .cons pre o rest, fs, c, size, hr, hf => by
    cases fs with
    | nil => simp [fitsFields] at hf
    | cons name off t fr =>
      simp only [fitsFields, Bool.and_eq_true] at hf
      simp only [regularFields, Bool.and_eq_true, bne_iff_ne, ne_eq] at hr
      have h1 := regular_hashable o t hr.1.1.2 hf.1.1.2
      have h2 := regular_hashable_fields rest fr _ size hr.2 hf.2
      simp [valFields, unhashableFields, hr.1.1.1, h1, h2]
end

/-- `typehash` either succeeds or panics with "hash of unhashable type", and the specification says which -/
def HashTotal (d : Desc) (o : Obj Ty) (bad : Bool) : Prop :=
  ∀ (h : UInt64) (k : Nat),
    (bad = false → ∃ x k', typehash descOf H rnd d o h k = .ok (x, k')) ∧
    (bad = true → typehash descOf H rnd d o h k = .error .unhashable)

mutual
/-- **hashing panics exactly for the values that hold, in a non-blank position at any depth, an interface with an
    uncomparable dynamic type** (and never for another reason), for every comparable key type -/
theorem hash_total : ∀ (o : Obj Ty) (ty : Ty), comparable ty = true → fits ty o = true →
    HashTotal H rnd (descOf ty) o (unhashable ty (valOf ty o))
  | .bytes a, ty, hc, hf => by
    intro h k
    by_cases hr : regularTy ty = true
    · rw [typehash_regular H rnd ty _ h k hr hf, regular_hashable _ ty hr hf]
      exact ⟨fun _ => ⟨_, _, rfl⟩, fun e => by cases e⟩
    · have hr' : regularTy ty = false := by simpa using hr
      rw [← regularTy_under] at hr'; rw [← comparable_under] at hc
      rw [← descOf_under]
      cases hu : under ty with
      | basic b =>
        rw [hu] at hr'
        have hcr : (commonOf (.basic b)).regular = false := by simp only [commonOf]; exact hr'
        simp only [fits, hu] at hf
        simp only [descOf, valOf, hu]
        rw [typehash_plain_bytes H rnd _ _ _ _ _ hcr]
        cases b <;> simp [regularTy, Basic.regular] at hr' <;> simp [Basic.size] at hf <;>
          simp [Basic.pkind, unhashable, readBytes_bytes hf, Except.map] <;> exact ⟨_, _, rfl⟩
      | ptr k' tag => rw [hu] at hr' hc; cases k' <;> simp [regularTy] at hr' <;> simp [comparable] at hc
      | slice tag => rw [hu] at hc; simp [comparable] at hc
      | iface n tag => simp [fits, hu] at hf
      | array n e => simp [fits, hu] at hf
      | struct size fs => simp [fits, hu] at hf
      | named i u => exact absurd hu (under_not_named ty i u)
  | .str ptr s, ty, _, hf => by
    intro h k
    rw [← descOf_under]
    cases hu : under ty with
    | basic b =>
      cases b <;> simp [fits, hu] at hf
      simp only [valOf, hu, unhashable]
      refine ⟨fun _ => ⟨H.mh s h, k, ?_⟩, fun e => by cases e⟩
      unfold typehash
      simp [descOf, Desc.c, commonOf, regularTy, Basic.regular, Basic.pkind]
    | ptr k' tag => simp [fits, hu] at hf
    | slice tag => simp [fits, hu] at hf
    | iface n tag => simp [fits, hu] at hf
    | array n e => simp [fits, hu] at hf
    | struct size fs => simp [fits, hu] at hf
    | named i u => exact absurd hu (under_not_named ty i u)
  | .enil dw, ty, _, hf => by
    intro h k
    rw [← descOf_under]
    cases hu : under ty with
    | iface n tag =>
      simp only [valOf, hu, unhashable, descOf]
      rw [typehash_iface H rnd _ _ _ _ _ (by simp [commonOf, regularTy])]
      exact ⟨fun _ => ⟨h, k, by simp [nilinterhash]⟩, fun e => by cases e⟩
    | basic b => cases b <;> simp [fits, hu] at hf
    | ptr k' tag => simp [fits, hu] at hf
    | slice tag => simp [fits, hu] at hf
    | array n e => simp [fits, hu] at hf
    | struct size fs => simp [fits, hu] at hf
    | named i u => exact absurd hu (under_not_named ty i u)
  | .eface tw t dw box, ty, _, hf => by
    intro h k
    rw [← descOf_under]
    cases hu : under ty with
    | iface n tag =>
      simp only [fits, hu, Bool.and_eq_true] at hf
      simp only [valOf, hu, unhashable, descOf]
      rw [typehash_iface H rnd _ _ _ _ _ (by simp [commonOf, regularTy])]
      by_cases hct : comparable t = true
      · have ih := hash_total box t hct hf.1.1 (h ^^^ c0) k
        have hs := equalName_isSome t
        rw [hct] at hs
        cases hg : equalName t with
        | none => simp [hg] at hs
        | some g =>
          simp only [hct, Bool.not_true, Bool.false_or]
          constructor
          · intro hb
            obtain ⟨x, k', e⟩ := ih.1 hb
            exact ⟨c1 * x, k', by simp [nilinterhash, descOf_c, commonOf, hg, e]⟩
          · intro hb
            simp [nilinterhash, descOf_c, commonOf, hg, ih.2 hb]
      · have hct' : comparable t = false := by simpa using hct
        have hn := (equalName_none_iff t).2 hct'
        simp only [hct', Bool.not_false, Bool.true_or]
        refine ⟨fun e => ?_, fun _ => ?_⟩
        · simp at e
        · simp [nilinterhash, descOf_c, commonOf, hn]
    | basic b => cases b <;> simp [fits, hu] at hf
    | ptr k' tag => simp [fits, hu] at hf
    | slice tag => simp [fits, hu] at hf
    | array n e => simp [fits, hu] at hf
    | struct size fs => simp [fits, hu] at hf
    | named i u => exact absurd hu (under_not_named ty i u)
  | .seq ps tail, ty, hc, hf => by
    intro h k
    by_cases hr : regularTy ty = true
    · rw [typehash_regular H rnd ty _ h k hr hf, regular_hashable _ ty hr hf]
      exact ⟨fun _ => ⟨_, _, rfl⟩, fun e => by cases e⟩
    · have hr' : regularTy ty = false := by simpa using hr
      rw [← regularTy_under] at hr'; rw [← comparable_under] at hc
      cases hu : under ty with
      | array n e =>
        rw [hu] at hr' hc
        simp only [comparable] at hc
        simp only [regularTy, Bool.or_eq_false_iff, beq_eq_false_iff_ne] at hr'
        have hcr : (commonOf (.array n e)).regular = false := by simp [commonOf, regularTy, hr'.1, hr'.2]
        simp only [fits, hu, Bool.and_eq_true] at hf
        rw [descOf_array ty n e hu, typehash_array H rnd _ _ _ _ _ _ _ hcr]
        simp only [valOf, hu, unhashable]
        have := hash_total_elems ps e n 0 hc hf.2 h k
        simpa using this
      | struct size fs =>
        rw [hu] at hr' hc
        simp only [comparable] at hc
        have hcr : (commonOf (.struct size fs)).regular = false := by simp only [commonOf]; exact hr'
        simp only [fits, hu, Bool.and_eq_true] at hf
        rw [descOf_struct ty size fs hu, typehash_struct H rnd _ _ _ _ _ _ hcr]
        simp only [valOf, hu, unhashable]
        exact hash_total_fields ps fs 0 hc hf.1 h k
      | basic b => cases b <;> simp [fits, hu] at hf
      | ptr k' tag => simp [fits, hu] at hf
      | slice tag => simp [fits, hu] at hf
      | iface n tag => simp [fits, hu] at hf
      | named i u => exact absurd hu (under_not_named ty i u)
theorem hash_total_elems : ∀ (ps : Parts Ty) (e : Ty) (n i : Nat), comparable e = true → fitsElems e n ps = true →
    ∀ (h : UInt64) (k : Nat),
    (unhashableElems e (valElems e ps) = false → ∃ x k', hashElems descOf H rnd (descOf e) n i ps (i * tsize e) h k = .ok (x, k')) ∧
    (unhashableElems e (valElems e ps) = true → hashElems descOf H rnd (descOf e) n i ps (i * tsize e) h k = .error .unhashable)
  | .nil, e, n, i, _, hf, h, k => by
    simp only [fitsElems, beq_iff_eq] at hf
    subst hf
    simp only [valElems, unhashableElems]
    exact ⟨fun _ => ⟨h, k, by rw [hashElems_zero]⟩, fun e => by cases e⟩
  | .cons pre o rest, e, n, i, hc, hf, h, k => by
    cases n with
    | zero => simp [fitsElems] at hf
    | succ n =>
      simp only [fitsElems, Bool.and_eq_true, List.isEmpty_iff, beq_iff_eq] at hf
      obtain ⟨⟨⟨hpre, hfo⟩, hlo⟩, hrr⟩ := hf
      subst hpre
      have ih1 := hash_total o e hc hfo h k
      simp only [valElems, unhashableElems, Bool.or_eq_false_iff, Bool.or_eq_true]
      rw [hashElems_succ]
      simp only [descOf_c, commonOf, List.length_nil, Nat.add_zero, ne_eq, not_true_eq_false, if_false, hlo]
      rw [show i * tsize e + tsize e = (i + 1) * tsize e by rw [Nat.succ_mul]]
      cases hb : unhashable e (valOf e o) with
      | true =>
        rw [hb] at ih1
        simp [ih1.2 rfl]
      | false =>
        rw [hb] at ih1
        obtain ⟨x, k', e1⟩ := ih1.1 rfl
        have ih2 := hash_total_elems rest e n (i+1) hc hrr x k'
        simp only [e1, Bool.false_eq_true, false_or, true_and]
        exact ih2
theorem hash_total_fields : ∀ (ps : Parts Ty) (fs : Fs) (c : Nat), comparable.comparableFs fs = true → fitsFields fs ps c = true →
    ∀ (h : UInt64) (k : Nat),
    (unhashableFields fs (valFields fs ps) = false → ∃ x k', hashFields descOf H rnd (descFields fs) ps c h k = .ok (x, k')) ∧
    (unhashableFields fs (valFields fs ps) = true → hashFields descOf H rnd (descFields fs) ps c h k = .error .unhashable)
  | .nil, fs, c, _, hf, h, k => by
    cases fs with
    | cons _ _ _ _ => simp [fitsFields] at hf
    | nil =>
      simp only [valFields, unhashableFields, descFields, hashFields_nil]
      exact ⟨fun _ => ⟨h, k, rfl⟩, fun e => by cases e⟩
  | .cons pre o rest, fs, c, hc, hf, h, k => by
    cases fs with
    | nil => simp [fitsFields] at hf
    | cons name off t fr =>
      simp only [fitsFields, Bool.and_eq_true, beq_iff_eq] at hf
      obtain ⟨⟨⟨hpre, hfo⟩, hlo⟩, hrr⟩ := hf
      simp only [comparable.comparableFs, Bool.and_eq_true] at hc
      simp only [valFields, unhashableFields, descFields, hashFields_cons, hpre, ne_eq, not_true_eq_false, if_false, hlo]
      by_cases hn : name = 0
      · subst hn
        simp only [beq_self_eq_true, if_true, bne_self_eq_false, Bool.false_and, Bool.false_or]
        exact hash_total_fields rest fr _ hc.2 hrr h k
      · have hnb : (name == 0) = false := by simpa using hn
        have hnn : (name != 0) = true := by simpa using hn
        have ih1 := hash_total o t hc.1 hfo h k
        simp only [hnb, Bool.false_eq_true, if_false, hn, hnn, Bool.true_and, Bool.or_eq_false_iff, Bool.or_eq_true]
        cases hb : unhashable t (valOf t o) with
        | true =>
          rw [hb] at ih1
          simp [ih1.2 rfl]
        | false =>
          rw [hb] at ih1
          obtain ⟨x, k', e1⟩ := ih1.1 rfl
          have ih2 := hash_total_fields rest fr (off + tsize t) hc.2 hrr x k'
          simp only [e1, Bool.false_eq_true, false_or, true_and]
          exact ih2
end

end hash

end LlgoVerif.DynEq
