/-! placeholder driver (property C19 not built yet) -/
def main : IO Unit := IO.println "bad-op"
